#!/usr/bin/env python3
"""Applies every /verif/seeded/*/patch.diff to /repo in turn, runs the property's quick check,
reverts, and records which rule reports it. Writes seeded/RESULTS.json and seeded/RESULTS.md."""
import json, os, subprocess, glob, re, sys
V='/verif'
initial = json.load(open(f'{V}/seeded/initial_status.json')) if os.path.exists(f'{V}/seeded/initial_status.json') else {}
res=[]
only = sys.argv[1:] 
for d in sorted(glob.glob(f'{V}/seeded/C*-*')):
    name=os.path.basename(d)
    if only and name not in only: continue
    meta=json.load(open(f'{d}/meta.json'))
    pid=meta['property']
    if meta.get('obsolete'):
        res.append({'seed':name,'property':pid,'summary':meta.get('summary',''),'initially': initial.get(name,'?'),'status':'obsolete: '+meta['obsolete']}); continue
    assert subprocess.run(['git','-C','/repo','status','--porcelain'],capture_output=True,text=True).stdout=='' , '/repo not clean'
    a=subprocess.run(['git','-C','/repo','apply',f'{d}/patch.diff'],capture_output=True,text=True)
    if a.returncode!=0:
        res.append({'seed':name,'property':pid,'summary':meta.get('summary',''),'initially': initial.get(name,'?'),'status':'patch no longer applies to the repaired tree ('+a.stderr.strip()[:80]+')'}); continue
    r=subprocess.run([f'{V}/run.sh',pid,'quick'],capture_output=True,text=True,cwd=V)
    subprocess.run(['git','-C','/repo','checkout','--','.']); subprocess.run(['git','-C','/repo','clean','-fdq'])
    reports=[l.strip() for l in r.stdout.splitlines() if l.strip().startswith('report[')]
    res.append({'seed':name,'property':pid,'summary':meta.get('summary',''),'needs_to_manifest':meta.get('needs_to_manifest',''),
                'caught_now': r.returncode==1, 'initially': initial.get(name,'?'),
                'reported_by':[re.sub(r' at .*','',x) for x in reports][:4]})
    subprocess.run([f'{V}/run.sh',pid,'quick'],capture_output=True,text=True,cwd=V)
old={}
if only and os.path.exists(f'{V}/seeded/RESULTS.json'):
    old={x['seed']:x for x in json.load(open(f'{V}/seeded/RESULTS.json'))}
for x in res: old[x['seed']]=x
allr=[old[k] for k in sorted(old)] if only else res
json.dump(allr,open(f'{V}/seeded/RESULTS.json','w'),indent=1)
with open(f'{V}/seeded/RESULTS.md','w') as f:
    f.write('| seed | property | initially | now | reported by | what it is |\n|---|---|---|---|---|---|\n')
    for x in allr:
        f.write(f"| {x['seed']} | {x['property']} | {x.get('initially','?')} | {'caught' if x.get('caught_now') else x.get('status','MISSED')} | {'; '.join(x.get('reported_by',[]))[:200]} | {x.get('summary','')[:160]} |\n")
print(open(f'{V}/seeded/RESULTS.md').read())
