#!/bin/bash
# usage: confirm_harmless.sh <worktree> <outdir> <k> <property>
# Confirms a sub-agent's behaviour-preserving refactoring in its scratch worktree: it applies,
# builds and the unedited full suite passes with it. On success copies it to /verif/harmless/<prop>-<k>/.
set -u
WT=$1; OUT=$2; K=$3; ID=$4
export GOFLAGS=-mod=mod GOPROXY=off
D=$OUT/$K
LOG=/tmp/confirmH-$ID-$K.log
: > $LOG
cd $WT || exit 2
git checkout -q -- . ; git clean -fdq
git apply $D/patch.diff >>$LOG 2>&1 || { echo "$ID/$K: patch does not apply"; exit 1; }
if git diff --name-only | grep -q "_test.go\|testdata\|\.txt$"; then echo "$ID/$K: touches tests"; git checkout -q -- .; exit 1; fi
go build ./... >>$LOG 2>&1 || { echo "$ID/$K: build fails"; git checkout -q -- .; exit 1; }
unshare -rn sh -c "ip link set lo up && go test -vet=off -count=1 ./..." >>$LOG 2>&1; SUITE=$?
if [ $SUITE -ne 0 ]; then
  unshare -rn sh -c "ip link set lo up && go test -vet=off -count=1 ./..." >>$LOG 2>&1; SUITE=$?
fi
git checkout -q -- . ; git clean -fdq
if [ $SUITE -ne 0 ]; then echo "$ID/$K: existing suite FAILS with the change (rejected)"; exit 1; fi
mkdir -p /verif/harmless/$ID-$K && cp $D/patch.diff $D/meta.json /verif/harmless/$ID-$K/
echo "$ID/$K: CONFIRMED (builds, suite passes)"
