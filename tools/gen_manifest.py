#!/usr/bin/env python3
"""Regenerates /verif/MANIFEST.json from the table below (kept valid at all times)."""
import json, os, sys
V = os.path.dirname(os.path.dirname(os.path.abspath(__file__)))

BASELINE_OFF = "for m in $(cat /w/out/gomods.txt); do MF=$(cd /repo/$m && . /w/out/goenv.sh && gomodflag); (cd /repo/$m && go test $MF -json -vet=off -count=1 -timeout 25m ./...); done"

# id -> (design_ref, text, level_note, technique)
CLAIMED = {}
NA = {}

def claim(pid, ref, text, note, technique):
    CLAIMED[pid] = (ref, text, note, technique)

def na(pid, reason):
    NA[pid] = reason

exec(open(os.path.join(V, "tools", "claims.py")).read())

checks = []
for pid in sorted(CLAIMED):
    ref, text, note, tech = CLAIMED[pid]
    checks.append({
        "property_id": pid,
        "quick_cmd": f"./run.sh {pid} quick",
        "thorough_cmd": f"./run.sh {pid} thorough",
        "evidence_file": f"/verif/evidence/{pid}.json",
        "replay_cmd_template": f"./run.sh {pid} quick  # re-evaluates the rules on /repo; the report named in {{path}} lists rule, construct key and position",
        "engine": "pintsa",
        "level_claimed": {"category": "other", "text": text, "design_ref": ref},
        "level_note": note,
        "technique": tech,
    })
props = [json.loads(l)["id"] for l in open(os.path.join(V, "properties.jsonl"))]
not_app = []
for pid in props:
    if pid in CLAIMED:
        continue
    not_app.append({"property_id": pid, "reason": NA.get(pid, "no static rule built yet for this property (work in progress); see DESIGN.md")})
m = {
    "version": 1,
    "setup_cmd": "./build.sh",
    "hooks": {
        "guard": "verif",
        "enable": "no hooks: the checks read /repo's sources with go/packages and never build or run pint; the guard name is reserved but unused",
        "baseline_off_cmd": BASELINE_OFF,
        "source_commits": [],
        "add_only": True,
    },
    "engines": [{
        "name": "pintsa",
        "path": "/verif/sa",
        "serves_properties": sorted(CLAIMED),
        "kind_free_text": "repository-specific static analyser (go/packages + go/types + go/cfg over /repo's working tree): table agreement, who-may-call, must-pass-through/dominance, field coverage, dropped-error/nil discipline, enumerated panic sources, guarded fields",
    }],
    "checks": checks,
    "not_applicable": not_app,
    "notes": "Static analysis only. Every claim is level 'other': a structural necessary condition of the behavioural property, decided for all inputs/schedules/configurations at once; DESIGN.md states per property what is and is not decided. known_findings.json lists genuine defects (fixed ones suppress nothing).",
}
json.dump(m, open(os.path.join(V, "MANIFEST.json"), "w"), indent=1)
print("MANIFEST.json:", len(checks), "checks,", len(not_app), "not applicable")
