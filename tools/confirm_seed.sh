#!/bin/bash
# usage: confirm_seed.sh <worktree> <outdir> <k> <property> [store-as-k]
# Confirms a sub-agent's seeded change in its scratch worktree: builds, full suite passes with the
# change, demo fails with it and passes without. On success copies it to /verif/seeded/<prop>-<k>/.
set -u
WT=$1; OUT=$2; K=$3; ID=$4; SK=${5:-$K}
export GOFLAGS=-mod=mod GOPROXY=off
D=$OUT/$K
LOG=/tmp/confirm-$ID-$K.log
: > $LOG
cd $WT || exit 2
git checkout -q -- . ; git clean -fdq
META=$D/meta.json
DEMO=$(python3 -c "import json;print(json.load(open('$META'))['demo']['file'])")
DEST=$(python3 -c "import json;print(json.load(open('$META'))['demo']['copy_to'])")
RUN=$(python3 -c "import json;print(json.load(open('$META'))['demo']['run'])")
git apply $D/patch.diff >>$LOG 2>&1 || { echo "$ID/$K: patch does not apply"; exit 1; }
go build ./... >>$LOG 2>&1 || { echo "$ID/$K: build fails"; git checkout -q -- .; exit 1; }
unshare -rn sh -c "ip link set lo up && go test -vet=off -count=1 ./..." >>$LOG 2>&1; SUITE=$?
if [ $SUITE -ne 0 ]; then
  # one retry: a few cmd/pint and checks tests are timing sensitive under load
  unshare -rn sh -c "ip link set lo up && go test -vet=off -count=1 ./..." >>$LOG 2>&1; SUITE=$?
fi
if [ $SUITE -ne 0 ]; then echo "$ID/$K: existing suite FAILS with the change (rejected)"; git checkout -q -- .; exit 1; fi
cp $D/$DEMO $DEST/
unshare -rn sh -c "ip link set lo up && $RUN" >>$LOG 2>&1; WITH=$?
git checkout -q -- .
unshare -rn sh -c "ip link set lo up && $RUN" >>$LOG 2>&1; WITHOUT=$?
rm -f $DEST/$DEMO
git clean -fdq
if [ $WITH -ne 0 ] && [ $WITHOUT -eq 0 ]; then
  mkdir -p /verif/seeded/$ID-$SK && cp $D/patch.diff $D/$DEMO $D/meta.json /verif/seeded/$ID-$SK/
  echo "$ID/$SK: CONFIRMED (suite passes with change; demo fails with, passes without)"
else
  echo "$ID/$K: demo not discriminating (with=$WITH without=$WITHOUT)"; exit 1
fi
