#!/bin/bash
# usage: try_harmless.sh <ABSOLUTE patch> [property ...]
# Applies a behaviour-preserving refactoring to /repo, runs the quick check of every property
# (or of those named) in parallel, prints every check that is not silent, and reverts. Exit 1 if any alarm.
set -u
P=$1; shift
cd /verif
export GOFLAGS=-mod=mod GOPROXY=off
[ -z "$(git -C /repo status --porcelain)" ] || { echo "/repo not clean"; exit 2; }
trap 'git -C /repo checkout -- . ; git -C /repo clean -fdq' EXIT INT TERM PIPE
git -C /repo apply "$P" || { echo "patch does not apply"; exit 2; }
IDS=${*:-$(./bin/pintsa -list)}
T=$(mktemp -d /tmp/tryh.XXXX)
echo $IDS | tr ' ' '\n' | xargs -P 10 -I{} sh -c "./bin/pintsa -prop {} -tier quick -repo /repo -out /dev/null -known known_findings.json -replay-dir $T > $T/{}.out 2>&1; echo \$? > $T/{}.rc"
rc=0
for id in $IDS; do
  e=$(cat $T/$id.rc)
  if [ "$e" != "0" ]; then rc=1; echo "ALARM $id exit=$e"; grep -E "report\[" $T/$id.out | cut -c1-260; fi
done
rm -rf $T
git -C /repo checkout -- . ; git -C /repo clean -fdq
[ $rc -eq 0 ] && echo "silent"
exit $rc
