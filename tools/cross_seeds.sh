#!/bin/bash
# usage: cross_seeds.sh <shard> <nshards>   (writes /tmp/cross-<shard>.txt)
# For every stored seed (breaking change for ONE property) run the quick checks of all 20
# properties on a scratch worktree with the seed applied; list every property that alarms.
set -u
S=$1; N=$2
cd /verif
export GOFLAGS=-mod=mod GOPROXY=off
WT=/tmp/wt-cross-$S
git -C /repo worktree add --detach $WT HEAD >/dev/null 2>&1 || exit 2
: > /tmp/cross-$S.txt
i=0
for d in seeded/C*-*; do
  i=$((i+1)); [ $((i % N)) -eq $S ] || continue
  name=$(basename $d)
  [ -f $d/patch.diff ] || continue
  git -C $WT checkout -q -- . ; git -C $WT clean -fdq
  git -C $WT apply $PWD/$d/patch.diff 2>/dev/null || { echo "$name NOAPPLY" >> /tmp/cross-$S.txt; continue; }
  al=""
  for id in $(./bin/pintsa -list); do
    out=$(./bin/pintsa -prop $id -tier quick -repo $WT -out /dev/null -known known_findings.json -replay-dir /tmp 2>&1); e=$?
    if [ $e -ne 0 ]; then
      r=$(echo "$out" | grep -E "report\[" | head -2 | sed -E 's/ at .*//' | cut -c1-150 | tr '\n' ';')
      al="$al | $id: $r"
    fi
  done
  echo "$name $al" >> /tmp/cross-$S.txt
done
git -C /repo worktree remove --force $WT
