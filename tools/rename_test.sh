#!/bin/bash
# False-alarm test for the checkers: builds a scratch worktree of /repo in which EVERY local
# variable, parameter and named result is renamed (bin/renamelocals), checks that it still
# builds, and runs every property's quick check against it. All must stay silent and match the
# same known findings. Not a registered command (it needs a scratch copy under /tmp).
set -u
cd "$(dirname "$0")/.."
export GOFLAGS=-mod=mod GOPROXY=off
./build.sh >/dev/null
(cd sa && go build -o ../bin/renamelocals ./cmd/renamelocals) || exit 2
WT=$(mktemp -d /tmp/wt-ren.XXXX); rmdir $WT
git -C /repo worktree add --detach $WT HEAD >/dev/null 2>&1 || exit 2
./bin/renamelocals $WT && (cd $WT && go build ./...) || { echo "renamed tree does not build"; git -C /repo worktree remove --force $WT; exit 2; }
rc=0
for id in $(./bin/pintsa -list); do
  out=$(./bin/pintsa -prop $id -tier quick -repo $WT -out /dev/null -known known_findings.json -replay-dir /tmp 2>&1); e=$?
  echo "$id exit=$e $(echo "$out" | grep -E "^$id quick")"
  [ $e -ne 0 ] && { rc=1; echo "$out" | grep -E "report\[" | cut -c1-200; }
done
git -C /repo worktree remove --force $WT
exit $rc
