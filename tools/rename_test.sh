#!/bin/bash
# False-alarm test for the checkers. For each behaviour-preserving transformation
#   rename   : every local variable, parameter and named result renamed
#   swapeq   : operands of every == and != exchanged
#   invertif : every `if c {A} else {B}` turned into `if !(c) {B} else {A}`
#   nestif   : every `if a && b {X}` without else turned into `if a { if b {X} }`
#   switchif : every tagless switch (no init, fallthrough or break) turned into an if / else-if chain
#   splitor  : every `if a || b {...; return}` (no else) turned into two ifs with the same body
#   hoistcond: every `if f(x) {..}` in a statement list turned into `cond_N := f(x); if cond_N {..}`
#   dropelse : `if c {…; return} else {B}` turned into `if c {…; return}; B`
#   addelse  : `if c {…; return}; rest` turned into `if c {…; return} else {rest}`
# it builds a scratch worktree of /repo, applies the transformation to every non-test file of
# the module (bin/renamelocals), checks that the tree still builds, and runs every property's
# quick check against it. All must stay silent and match the same known findings.
# Not a registered command (it needs scratch copies under /tmp, removed afterwards).
set -u
cd "$(dirname "$0")/.."
export GOFLAGS=-mod=mod GOPROXY=off
./build.sh >/dev/null
(cd sa && go build -o ../bin/renamelocals ./cmd/renamelocals) || exit 2
rc=0
for mode in ${MODES:-rename swapeq invertif nestif switchif splitor hoistcond dropelse addelse}; do
  WT=$(mktemp -d /tmp/wt-$mode.XXXX); rmdir $WT
  git -C /repo worktree add --detach $WT HEAD >/dev/null 2>&1 || exit 2
  ./bin/renamelocals -$mode $WT >/dev/null && (cd $WT && go build ./...) || { echo "$mode: transformed tree does not build"; git -C /repo worktree remove --force $WT; exit 2; }
  for id in $(./bin/pintsa -list); do
    out=$(./bin/pintsa -prop $id -tier quick -repo $WT -out /dev/null -known known_findings.json -replay-dir /tmp 2>&1); e=$?
    echo "$mode $id exit=$e $(echo "$out" | grep -E "^$id quick")"
    [ $e -ne 0 ] && { rc=1; echo "$out" | grep -E "report\[" | cut -c1-200; }
  done
  git -C /repo worktree remove --force $WT
done
exit $rc
