#!/usr/bin/env python3
"""Rewrites section 7b of DESIGN.md (between the BEGIN/END markers) from seeded/RESULTS.json."""
import json, os, re
V=os.path.dirname(os.path.dirname(os.path.abspath(__file__)))
r=json.load(open(f'{V}/seeded/RESULTS.json'))
init=json.load(open(f'{V}/seeded/initial_status.json'))
total=len(r); caught=sum(1 for x in r if x.get('caught_now'))
first=sum(1 for x in r if init.get(x['seed'],'').startswith('caught'))
obsolete=[x['seed'] for x in r if 'no longer applies' in x.get('status','') or x.get('status','').startswith('obsolete')]
missed=[x['seed'] for x in r if not x.get('caught_now') and x['seed'] not in obsolete]
r4=[x['seed'] for x in r if re.search(r'-1[0-2]$', x['seed'])]
r4first=sum(1 for k in r4 if init.get(k,'').startswith('caught'))
r4missed=len(r4)-r4first
r5=[x['seed'] for x in r if re.search(r'-1[3-5]$', x['seed'])]
r5first=sum(1 for k in r5 if init.get(k,'').startswith('caught'))
r5missed=len(r5)-r5first
r6=[x['seed'] for x in r if re.search(r'-1[67]$', x['seed'])]
r6first=sum(1 for k in r6 if init.get(k,'').startswith('caught'))
r6missed=len(r6)-r6first
rows=[]
for x in r:
    rb='; '.join(sorted(set(y.split(' ')[1] for y in x.get('reported_by',[]) if y.startswith('report['))))
    now='caught: '+rb if x.get('caught_now') else (('obsolete ('+x.get('status','').replace('obsolete: ','')[:300]+')') if x['seed'] in obsolete else '**MISSED**')
    rows.append(f"| {x['seed']} | {x.get('summary','')[:150].replace('|','/')}… | {x.get('initially','?').replace('|','/')} | {now} |")
sec=f'''## 7b. Seeded changes from independent agents: what the checks report

For every property a fresh sub-agent received only the property text and its
own scratch git worktree of `/repo` (nothing from `/verif`) and was asked for
three changes that break the property while compiling and passing the existing
suite, each needing something specific to manifest, with a demonstration test.
A second round (seeds numbered 4–6) repeated this against the strengthened
checks, asking for changes away from the most central function. A third round
(seeds 7–9) asked in addition for one change made of two cooperating edits,
one in a file that holds none of the property's central functions, and for
the non-obvious kinds (changed default, boundary, state surviving iterations,
aliasing, the wrong one of two similar fields, an error logged instead of
returned); of its 60 changes 21 were reported on first contact for the right
reason, 2 for a wrong one (C17-7 and C19-7: the rule had lost its anchor
because code had moved, which a harmless refactoring would have caused too —
both rules were generalised) and 37 were missed; all 39 led to a new or
widened rule (the agents of that round may have seen a one-line
project memory note naming /verif; their prompts told them to ignore it and
nothing from /verif was readable in their worktrees' task).
A fourth round (seeds 10–12, same brief as the third, against the checks as
strengthened by it) gave 60 more: {r4first} were reported on first contact and
{r4missed} were missed; every miss led to a new or widened rule, one of them to
a repair of the checker itself (C13-12: a new method nobody calls statically had
been removed from view by the helper inliner). Reading the code for that
round, the agents also pointed at three defects of pint itself, all
reproduced and repaired (F41, F42, F43 in section 6).
A fifth round (seeds 13–15) asked for changes that look like feature
additions or performance work (caches, memos, buffer reuse, early exits),
for interactions between two subsystems, and for behaviour that depends on the
shape of the data (empty and one-element lists, duplicates, non-ASCII text,
very long lines, zero values): {r5first} of 60 were reported on first contact,
{r5missed} were missed and closed the same way; one more defect of pint itself
came out of the agents' reading (F44).
A sixth, smaller round (seeds 16–17, two per property, same brief as the
fifth, against the checks as they stood after it and after the third corpus of
harmless refactorings) gave {len(r6)} more: {r6first} were reported on first contact,
{r6missed} were missed (one of them, C02-17, is the same change as C06-17 and was
reported by the rule added for that one a few minutes earlier; it is counted as
a miss). Each miss was closed by a general rule on the same day: nothing
else is produced for a file excluded by `ignore/file`; no HTTP client deadline
besides the request context; the parsing packages keep no package-level state;
values stored under `CommandKey` are typed; line-range literals take both ends
from the same object; shared objects remember nothing in atomic fields; both
texts of every change are read; every cache clean-up walks every entry; the
`isEnabled` table is shared with C16; `List` skips by kind and author only and
`IsEqual` stores nothing; the invalid-duration problem stands under the parse
error alone; one pattern per compiled expression; no severity is compared with
the literal 0; label sets of returned series come from a sorting constructor;
the request context derives from the caller's.
I kept a change only after confirming in a scratch worktree
(`tools/confirm_seed.sh`, network-less namespace): it builds, the unedited
suite passes with it, the demo fails with it and passes without. Each is stored
as `seeded/<id>-<k>/{{patch.diff, demo, meta.json}}`; `tools/try_seed.sh` applies
one to `/repo`, runs the property's quick check and reverts;
`tools/seed_report.py` regenerates `seeded/RESULTS.{{json,md}}` (full text there).

Result: **{total} confirmed changes, {caught} reported today, {len(missed)} declared misses, {len(obsolete)} obsolete.**
On first contact {first} were reported; the "on first contact" column says what
was missing and which general rule was added (never a match on the seeded text —
each added rule has an overlay mutant of its own that differs from the seed).
For C06 and C19 the first-round seeds arrived before the checks existed; their
rules were written knowing the seed reports, which is said in the table rather
than counted as a catch on first contact. Several seeds of the second round
were caught on first contact by rules added after the first round (C04-4,
C04-5, C06-6, C19-4, C19-6), which is the evidence that those rules generalise.

No declared miss is left open today. The five changes that were declared
misses when they were first evaluated were closed later, each by a clause that
is narrower than the behaviour it protects (the table says what stays
undecided): C02-2 (the clamp removed in `NewPositionRange`) was produced
independently a second time as C02-6 and a column-bound rule was added to
C02-R4; C02-3 (console reporter memoises split lines across files) by "nothing
derived from a file's content outlives it"; C06-1 (whitespace-only lines) by
"source lines are never trimmed"; C12-1 (`maybeIncludeLabel` all-or-nothing) by
"the loop over the by() names is never left early"; C17-3 (GitLab note loop) by
"the note loop never starts a second iteration", decided on the CFG.

| seed | change | on first contact | today |
|---|---|---|---|
'''+'\n'.join(rows)+'''

---------------------------------------------------------------------------
'''
p=f'{V}/DESIGN.md'
s=open(p).read()
a=s.index('<!-- BEGIN 7b'); b=s.index('<!-- END 7b -->')
s=s[:a]+'<!-- BEGIN 7b (generated by tools/gen_design_7b.py) -->\n'+sec+s[b:]
open(p,'w').write(s)
print('7b:',total,caught,missed,obsolete,first)
