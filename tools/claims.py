# Claims table, executed by gen_manifest.py.  claim(id, design_ref, text, level_note, technique)
SA_NOTE = "Trusted base: go/packages+go/types (program resolved as the go build resolves it), golang.org/x/tools v0.29.0 go/cfg, the reference tables embedded in /verif/sa (taken from docs/ and the vendored Prometheus module). Decides only the structural clause named; the behavioural statement as a whole is not decided."

claim("C08", "DESIGN.md §3 C08",
      "For all configurations at once: every check instance is registered under the constant its Reporter() returns, every Problem a check builds carries that reporter, CheckNames/OnlineChecks agree with the Reporter()/Meta() of all RuleChecker implementers, the CLI expansions range over those tables, and enable/disable lists are compared with the registered name by equality. This is close to the whole property; unit tests pin only sampled configurations.",
      SA_NOTE,
      "static analysis: table extraction and agreement over the type-checked AST (registration calls x Reporter() constants x name lists), who-may-write on Problem.Reporter, dominance on go/cfg")
