# Claims table, executed by gen_manifest.py.  claim(id, design_ref, text, level_note, technique)
SA_NOTE = "Trusted base: go/packages+go/types (program resolved as the go build resolves it), golang.org/x/tools v0.29.0 go/cfg, the reference tables embedded in /verif/sa (taken from docs/ and the vendored Prometheus module). Decides only the structural clause named; the behavioural statement as a whole is not decided."

claim("C08", "DESIGN.md §3 C08",
      "For all configurations at once: every check instance is registered under the constant its Reporter() returns, every Problem a check builds carries that reporter, CheckNames/OnlineChecks agree with the Reporter()/Meta() of all RuleChecker implementers, the CLI expansions range over those tables, and enable/disable lists are compared with the registered name by equality. This is close to the whole property; unit tests pin only sampled configurations.",
      SA_NOTE,
      "static analysis: table extraction and agreement over the type-checked AST (registration calls x Reporter() constants x name lists), who-may-write on Problem.Reporter, dominance on go/cfg")

claim("C05", "DESIGN.md §3 C05",
      "For all inputs and flag settings: severity constants ordered, ParseSeverity/String inverse tables, --fail-on default; in actionLint/actionCI every nil return reachable after counting is dominated by the false edge of the verdict test, the verdict variable is written only under `sev >= failOn` over the keys of CountBySeverity(), nothing from --min-severity/--show-duplicates flows into it; CountBySeverity counts every element of the unfiltered list; report identity (used to drop duplicates before counting) includes the severity.",
      SA_NOTE,
      "static analysis: constant/table extraction, def-use on the verdict variable, dominance and reachability on go/cfg, who-may-write on Problem.Severity and Summary.reports")

claim("C07", "DESIGN.md §3 C07",
      "Structural clauses every suppression relies on, decided for all files: writer/reader agreement on the dynamic type of Comment.Value per comment type; partition of comment types into rule-level/file-level/ignore classes and the keyword table; every read of Snooze.Match dominated by the not-expired edge; rule-comment test dominated by !locked and the AlwaysEnabled short-circuit, locked flowing from Rule.Locked; equality matching on the documented spellings; file-level disables flowing through Entry.DisabledChecks into isEnabled.",
      SA_NOTE,
      "static analysis: tag/value-type table agreement (go/types instantiations and assertions), dominance on go/cfg with short-circuit facts, field-flow checks on composite literals")

claim("C03", "DESIGN.md §3 C03",
      "For all histories: IsIdentical methods let every content field of both operands influence the result; the state switch of GitBranchFinder.Find, read as a first-match decision table and evaluated on all 32 valuations of its five atoms, equals the reference table of the statement; matchedEntry literals always set hasBefore or hasAfter; the state vocabulary tables agree with the documentation; the merge copies State/ModifiedLines and Entry.State has no other writers. Git plumbing is not decided.",
      SA_NOTE,
      "static analysis: field-influence (flow-insensitive taint to the return value), exhaustive evaluation of guard formulas extracted from the AST (not of the program), table agreement, who-may-write")

claim("C09", "DESIGN.md §3 C09",
      "For all configurations: duration comparison operators spell their constants; state vocabulary and per-command default; match-time regexps built only through strictRegex whose wrapper must group the pattern (known finding: it does not); label conditions iterate Entry.Labels() which merges group labels in every case; all nine Match fields influence Match.IsMatch; in isMatch a matching ignore block only leads to return false and return true is reachable only with no match blocks or after a match.",
      SA_NOTE,
      "static analysis: operator/constant table agreement, constant-wrapper inspection of the regexp constructor, field-influence coverage, path queries on go/cfg")

claim("C20", "DESIGN.md §3 C20",
      "For all rule sets: only ErrorCheck and RuleDependencyCheck run on removed rules (the latter on nothing else); the dependency check sees the entry list only through nonRemovedEntries (drops removed/path-error/rule-error entries); the replacement test precedes the dependant scan on every path; dependants are de-duplicated and sorted before rendering and a problem needs a non-empty list; checkRules dispatches every check of GetChecksForEntry with the full entry list and skips only removed entries with errors; scanWorker forwards every problem; selector-name comparisons honour {__name__=...}.",
      SA_NOTE,
      "static analysis: Meta() table extraction over all RuleChecker implementers, use-only-through-filter check, must-pass-through and dominance on go/cfg (also inside the dispatch goroutine literal), lexical guard analysis for continue statements")

claim("C14", "DESIGN.md §3 C14",
      "For every schedule at once: per-key lock dominates every send on the query channel in the five API methods (including sends made by goroutines they start), deferred unlock of the same key on every exit, key covers every distinguishing parameter, partitionLocker waits in a loop and broadcasts after delete; Run only from processJob, processJob only from queryWorker, queryWorker only via `go` in a loop of exactly `concurrency` iterations, HTTP only from doRequest, workers started once per instance; cache looked up before Run, hit short-circuits, set only with nil error, CacheKey covers URI, endpoint and all distinguishing (sub)fields; all guarded fields touched only under their mutex.",
      SA_NOTE,
      "static analysis: must-pass-through/dominance on go/cfg, who-may-call over resolved callees, lock-held analysis for a guarded-field table with helper inference, field coverage of hash arguments")

claim("C15", "DESIGN.md §3 C15",
      "For every fault assignment: the five failover loops range over fg.servers in configured order, move to the next upstream only across the 'unavailable' edge, return errors as is (wrapped) with the group's strictness; classification tables (decodeErrorType identity, IsUnavailableError, 4xx/5xx fallbacks, stream failures) agree with their documented meaning; problemFromError maps unavailability to Warning (Bug only when required) and never to the caller's severity; at all API call sites in internal/checks the result is dereferenced only where err is nil or the result non-nil, and the failure region builds problems only through problemFromError(err); the query cache stores successes only and its keys name the upstream URI (an answer or failure of one upstream is never served for another).",
      SA_NOTE,
      "static analysis: loop-continuation reachability with cut edges on go/cfg, constant table extraction, nil/err dominance at every resolved API call site (helpers that return the API error included)")

claim("C10", "DESIGN.md §3 C10",
      "For all files: comments are parsed and excluded bytes blanked before a line is published to r.lines or served by Read; the line buffer has exactly three writers (fill, consume, blank); nothing is collected into r.comments/r.diagnostics after ignore/file or from a line excluded by an earlier comment (exclusion flag read before it is updated), and such lines are blanked completely; blanking stores only spaces, never over a newline, and never changes the buffer length.",
      SA_NOTE,
      "static analysis: must-pass-through and dominance on go/cfg over the reader's three functions, who-may-write on the buffer field, lexical guard analysis")

claim("C17", "DESIGN.md §3 C17",
      "For all comment populations and budgets (single round): Create is unreachable within the iteration in which IsEqual held and is dominated by CanCreate(created); every successful Create is counted before the next pending comment and the counter has one writer; Delete is unreachable after a true IsEqual and dominated by CanDelete; both phases scan the same makeComments list; each platform's IsEqual lets path, line and text of both sides influence the result and CanCreate is n < maxComments; the summary is posted on every success path and Delete errors are collected; the reports reach the commenters in a total order (comparator key set), so the comment text does not depend on worker arrival order. Convergence over rounds is not decided.",
      SA_NOTE,
      "static analysis: within-iteration reachability on go/cfg (loop head blocked), dominance, field-influence on the sibling IsEqual implementations")

claim("C11", "DESIGN.md §3 C11",
      "For every schedule and worker count: every Submit / publication of the summary is preceded on all paths by SortReports() and then Dedup() with no report added afterwards; the report comparator keys on path, first/last line, severity, reporter, summary and diagnostics of both operands; no goroutine in checkRules touches the summary and reports are added only by the loop draining the results channel, which is closed after all workers finished; no function reachable from the workers (call-graph closure from scanWorker and all RuleChecker.Check methods, module interfaces resolved by CHA) stores to a package-level variable; guarded state is accessed under its mutex; console/JSON rendering never iterates a map.",
      SA_NOTE,
      "static analysis: must-pass-through ordering on go/cfg, capture analysis of go statements, call-graph closure with CHA on module interfaces for the package-level store check, guarded-field table")

claim("C13", "DESIGN.md §3 C13",
      "Thin claim: only the arrival-order and completeness clauses. Every successful RangeQuery return is preceded by a sort of the merged ranges placed after the loop that drains the per-slice results, and by MergeRanges whenever more than one range was collected; every error-free slice result is appended unconditionally, a failed slice (other than cancellation) fails the whole query; rangeQuery.Run expands range ends before publishing; MergeRanges sorts what it collects from its map; the order keys on series identity and start. The interval arithmetic (sliceRange, AppendSampleToRanges, Overlaps) is a function of runtime values and is NOT decided.",
      SA_NOTE,
      "static analysis: must-pass-through from the fan-in loop's exit block on go/cfg, lexical guard analysis inside the loop")

claim("C16", "DESIGN.md §3 C16",
      "Thin claim: first clause only. In SeriesCheck.Check the instant probe counts the unstripped selector of the iteration; every Problem literal reachable after it in that iteration requires the `count > 0` false edge and is unreachable from the probe's err != nil branch; instantSeriesCount sums an instant query for its argument; all Prometheus API call sites in promql_series.go follow the C15-R4 error discipline. The second clause (Bug when never present and no producing rule) depends on range data and is NOT decided.",
      SA_NOTE,
      "static analysis: within-iteration reachability with cut edges on go/cfg, nil/err dominance at API call sites")

claim("C18", "DESIGN.md §3 C18",
      "For all configurations: every config-struct field whose string reaches a panicking or error-dropping constructor (regexp.MustCompile, Must(Raw)TemplatedRegexp, url.Parse with discarded error) — directly, through module functions forwarding a parameter, or through a struct field later fed to such a sink — is checked with the corresponding error-returning constructor in that struct's validate(); no result of an error-discarding call or of a nil-returning module wrapper is dereferenced (or handed to external code) without a nil test; every hcl-tagged struct validates its nested structs and Load/Check.Decode call the validators. Four genuine defects found by these rules were fixed in /repo.",
      SA_NOTE,
      "static analysis: parameter-to-sink summaries to a fixed point over the type-checked AST (field-mediated flows included), validator table extracted from validate() methods, dropped-error/nil dominance on go/cfg, field coverage of validate()")

claim("C02", "DESIGN.md §3 C02",
      "For all inputs: enumerable panic sources and the rule typestate. Every not-empty return of parseRule (and the helpers it returns through) carries a rule body or an error and every caller tests the isEmpty flag; regular checks are built only for error-free entries, the error check cannot be disabled, and typestate-reliant functions are called outside the checks only under an error-free/body guard; no single-value assertion on PromQL/template/YAML AST interfaces outside the idioms that establish the type; no slicing/indexing with an unchecked strings.Index result; slices.Max/Min only under a non-empty guard; optional pointers (rule bodies, for/keep_firing_for/labels/annotations, group labels, Entry.Group/File, PromQLExpr.Query) dereferenced only under a guard in the function or all callers; regexp.MustCompile only on constants, quoted text or validated config. Seven genuine crashes found by these rules were fixed. Termination and index arithmetic are NOT decided. Added: a source line is sliced only from a column bounded by that line's length on every path (NewPositionRange); indexes into split results with foreign indexes are bounded by len; rule line ranges are folded monotonically (min/max) so they cannot be reversed; the content reader fills its buffer with a whole-line read.",
      SA_NOTE,
      "static analysis: typestate on return sites, enumerated panic-source detectors over the type-checked AST, nil-guard dominance on go/cfg with caller inference, provenance of MustCompile arguments")

claim("C01", "DESIGN.md §3 C01",
      "Sibling-acceptor coverage, not language inclusion: the keys pint's strict walker accepts are a subset of the yaml tags of the vendored rulefmt types and every key switch rejects by default; every rejection reason of the vendored Prometheus loader (41 enumerated, site counts re-checked against the vendored source on every run) has a counterpart on the pint side — a guarded error exit identified by its predicate over role-normalised locals, or an unconditionally registered, default-enabled, offline check that validates every field/label/annotation it is responsible for and reports >= Bug; parse errors at file, group and rule level are routed to the always-enabled Fatal error check; the strict gate rejects multi-document files. Six genuine acceptance gaps found by these rules were fixed. Equivalence on exact byte strings is NOT decided.",
      SA_NOTE,
      "static analysis: table agreement against vendored struct tags, enumeration of guarded error exits (lexical guards incl. first-match switch semantics and if-init lookups), registration/Meta table checks")

claim("C04", "DESIGN.md §3 C04/C12",
      "THIN claim (soundness of the label-flow abstraction itself is not decidable here). Decided tables the soundness argument rests on: walkNode names every parser.Expr implementer of the vendored PromQL parser; every non-experimental vendored function has a case in parsePromQLFunc with the vendored ReturnType and every non-experimental aggregator a case in walkAggregation; every site that can make CanHaveLabel false sits in a context (node kind, operator, function, guard) of the reference set of label-dropping PromQL constructs; the `non-existent label` report is dominated by !IsDead and !CanHaveLabel and keeps the group-label exemption. Added (C04-R5): label lists of a Source only grow out of their own storage and the list helpers never edit in place; the labels stamped by count_values/label_replace/label_join are re-admitted unconditionally; only `l=\"\"` excludes a label at a selector; stores to fields of a range copy of a Source are followed by a use of the copy. C04-R3 additionally requires the metric-name exclusion to consult by() (ten known findings).",
      SA_NOTE,
      "static analysis: exhaustiveness against the vendored module's types and tables, enumeration of narrowing sites with their semantic context (case labels + guards) against a reference table, dominance on go/cfg")

claim("C12", "DESIGN.md §3 C04/C12",
      "THIN claim (that a dead verdict is right for all data is not decidable here). Decided: node/function/aggregator exhaustiveness (as C04); IsDead is set only in the four reference situations (failed canJoin, `unless on()` against an always-returning unconditional side, `or` after a side that cannot be empty, static comparison); calculateStaticReturn has a case for each of the vendored parser's six comparison operators and declares dead exactly under the negated comparison on (ls, rs), arithmetic cases never do; promql/impossible reports only IsDead sources. Added: label-list ownership and lost-update rules (R6); canJoin is asked about each side as its sub-expression produced it and leaves ignoring() labels out (R7); AlwaysReturns must be re-evaluated for and/unless (R8, known finding); the narrowing-context table and whole-list arguments (R9); the arithmetic folding table against the vendored lexer's operators, and known value / always-returns surviving only pass-through nodes (R10).",
      SA_NOTE,
      "static analysis: operator-table agreement (Go comparison vs PromQL operator constant), context enumeration of IsDead stores, dominance on go/cfg")

claim("C06", "DESIGN.md §3 C06",
      "THIN claim (that NewPositionRange re-discovers the right bytes for every YAML scalar style is a function of the input bytes and is not decided). Decided, all necessary for carets to land on the reported text: every Diagnostic whose columns are sized by len(E.Value) carries E.Pos, and PromQL offsets are only ever paired with the Pos of a PromQL expression value; PromQL offsets are converted Start+1/End, End+1 only (and always) for ranges from an inclusive-end producer whose every return is inclusive; spans that start at column 1 end at len(value) (five sites end one short: known findings); line/column displacement and the source-line table are forwarded or additively re-based through every parser function down to AddOffset/NewPositionRange, with the roles anchored in the fields AddOffset adds them to; position writer and renderer both count bytes; parseRule folds every part's line and every field's last line into Rule.Lines. Also: the re-basing site derives the column displacement from the source-line table; the line table holds the blanked text the decoder saw (R7, shared with C10-R1); line-range folds are monotone.",
      SA_NOTE,
      "static analysis: composite-literal field agreement over the type-checked AST, producer classification by definitions, parameter-role propagation from sinks (fixpoint) with call-site checks, range-unit typing")

claim("C19", "DESIGN.md §3 C19",
      "THIN claim (the relational statement over all documents and the displacement arithmetic at the nested-YAML site are not decided). Decided: one rule constructor (parseRule) reached from exactly the relaxed descent and the strict wrapper; the strict wrapper passes its node and line table with zero displacement and returns parseRule's result unchanged or an error; Parse starts both modes with zero displacement and the content reader's line table read at each call; the strict group parser offers every element of `rules` to the wrapper; the relaxed descent visits every mapping value, every child and every recognised group's rules unconditionally and keeps every non-empty parseRule result; tryParseGroup's key loop reads no loop-carried state (key-order independence); both group parsers store each group key in the same Group field. Also (R3): the anonymous group is created per rule list (the group parameter is only reassigned in the sequence case).",
      SA_NOTE,
      "static analysis: who-may-construct / who-may-call over the type-checked program, call-argument agreement, lexical-guard (unconditional-visit) checks, loop-carried read analysis, sibling switch-table agreement")
