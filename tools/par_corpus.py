#!/usr/bin/env python3
"""Parallel regression run of the two corpora against the checker that is already built (bin/pintsa),
on scratch worktrees of /repo under /tmp (never /repo's own working tree):

  par_corpus.py seeds    [workers]   every seeded/<id>-<k>/patch.diff must make its property's quick check fail
  par_corpus.py harmless [workers]   every harmless/<id>-<k>/patch.diff must leave all 20 quick checks silent

Prints one line per patch that does not behave as expected, then a summary line. The worktrees are
removed at the end. (seed_report.py / harmless_report.sh do the same one patch at a time on /repo and
write the result files; this is the fast form used while developing rules.)"""
import sys, os, glob, json, subprocess, concurrent.futures as cf, queue
V = '/verif'
mode = sys.argv[1]
workers = int(sys.argv[2]) if len(sys.argv) > 2 else 8
BIN = os.environ.get('BIN', f'{V}/bin/pintsa')
env = dict(os.environ, GOFLAGS='-mod=mod', GOPROXY='off')
env.pop('GOWORK', None)
props = ['C%02d' % i for i in range(1, 21)]
wts = queue.Queue()
for i in range(workers):
    wt = f'/tmp/wtpar-{i}'
    subprocess.run(['git', '-C', '/repo', 'worktree', 'remove', '--force', wt], capture_output=True)
    subprocess.run(['git', '-C', '/repo', 'worktree', 'add', '-q', '--detach', wt, 'HEAD'], check=True, capture_output=True)
    wts.put(wt)

def check(wt, pid):
    r = subprocess.run([BIN, '-prop', pid, '-tier', 'quick', '-repo', wt, '-out', '/dev/null', '-known', f'{V}/known_findings.json',
                        '-replay-dir', f'/tmp/parreplay-{os.path.basename(wt)}'], capture_output=True, text=True, env=env, cwd=V)
    reports = [l.strip() for l in r.stdout.splitlines() if l.strip().startswith('report[')]
    return r.returncode, reports

def job(d):
    name = os.path.basename(d)
    meta = json.load(open(f'{d}/meta.json'))
    if meta.get('obsolete'):
        return name, 'obsolete', []
    wt = wts.get()
    try:
        subprocess.run(['git', '-C', wt, 'checkout', '-q', '--', '.']); subprocess.run(['git', '-C', wt, 'clean', '-fdq'])
        a = subprocess.run(['git', '-C', wt, 'apply', f'{d}/patch.diff'], capture_output=True, text=True)
        if a.returncode != 0:
            return name, 'patch does not apply', []
        if mode == 'seeds':
            rc, reports = check(wt, meta['property'])
            return name, ('caught' if rc == 1 else f'MISSED (exit {rc})'), reports[:4]
        alarms, reps = [], []
        for pid in props:
            rc, reports = check(wt, pid)
            if rc != 0:
                alarms.append(pid); reps += reports[:2]
        return name, ('silent' if not alarms else 'ALARM ' + ' '.join(alarms)), reps
    finally:
        subprocess.run(['git', '-C', wt, 'checkout', '-q', '--', '.']); subprocess.run(['git', '-C', wt, 'clean', '-fdq'])
        wts.put(wt)

dirs = sorted(glob.glob(f'{V}/{"seeded" if mode == "seeds" else "harmless"}/C*-*'))
only = sys.argv[3:]
if only:
    dirs = [d for d in dirs if os.path.basename(d) in only or os.path.basename(d).split('-')[0] in only]
good = bad = 0
rows = []
with cf.ThreadPoolExecutor(workers) as ex:
    for name, status, reps in ex.map(job, dirs):
        ok = status in ('caught', 'silent', 'obsolete')
        good += ok; bad += (not ok)
        rows.append((name, status, reps))
        if not ok or os.environ.get('VERBOSE'):
            print(name, status, flush=True)
            for r in reps[:4]:
                print('    ', r[:200], flush=True)
print(f'{mode}: {good} as expected, {bad} not', flush=True)
if os.environ.get('WRITE') and not only:
    import re
    if mode == 'harmless':
        # same lines as tools/harmless_report.sh
        with open(f'{V}/harmless/RESULTS.txt', 'w') as f:
            for name, status, reps in rows:
                f.write(f'{name} silent\n' if status == 'silent' else f"{name} {status.replace('ALARM ', '')}  :: {len(reps)} reports\n")
    else:
        # same files as tools/seed_report.py
        initial = json.load(open(f'{V}/seeded/initial_status.json')) if os.path.exists(f'{V}/seeded/initial_status.json') else {}
        res = []
        for name, status, reps in rows:
            meta = json.load(open(f'{V}/seeded/{name}/meta.json'))
            x = {'seed': name, 'property': meta['property'], 'summary': meta.get('summary', ''), 'initially': initial.get(name, '?')}
            if status == 'obsolete':
                x['status'] = 'obsolete: ' + meta['obsolete']
            elif status == 'patch does not apply':
                x['status'] = 'patch no longer applies to the repaired tree'
            else:
                x.update({'needs_to_manifest': meta.get('needs_to_manifest', ''), 'caught_now': status == 'caught',
                          'reported_by': [re.sub(r' at .*', '', r) for r in reps][:4]})
            res.append(x)
        json.dump(res, open(f'{V}/seeded/RESULTS.json', 'w'), indent=1)
        with open(f'{V}/seeded/RESULTS.md', 'w') as f:
            f.write('| seed | property | initially | now | reported by | what it is |\n|---|---|---|---|---|---|\n')
            for x in res:
                f.write(f"| {x['seed']} | {x['property']} | {x.get('initially','?')} | {'caught' if x.get('caught_now') else x.get('status','MISSED')} | {'; '.join(x.get('reported_by',[]))[:200]} | {x.get('summary','')[:160]} |\n")
while not wts.empty():
    wt = wts.get()
    subprocess.run(['git', '-C', '/repo', 'worktree', 'remove', '--force', wt], capture_output=True)
    subprocess.run(['rm', '-rf', f'/tmp/parreplay-{os.path.basename(wt)}'])
