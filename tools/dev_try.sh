#!/bin/bash
# usage: dev_try.sh <ABS patch> <prop...>  -- applies a patch to the scratch worktree /tmp/wtdev (not /repo) and runs quick checks there
P=$1; shift
export GOFLAGS=-mod=mod GOPROXY=off; unset GOWORK
cd /verif
git -C /tmp/wtdev checkout -q -- . ; git -C /tmp/wtdev clean -fdq
git -C /tmp/wtdev apply "$P" || { echo "patch does not apply"; exit 2; }
for id in "$@"; do ./bin/pintsa -prop $id -tier quick -repo /tmp/wtdev -out /dev/null -known known_findings.json -replay-dir /tmp/devreplay 2>&1 | grep -E "report\[|panic|VIOLATION" | cut -c1-${W:-300}; done
git -C /tmp/wtdev checkout -q -- . ; git -C /tmp/wtdev clean -fdq
