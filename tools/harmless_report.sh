#!/bin/bash
# Runs every stored behaviour-preserving refactoring (harmless/<id>-<k>/patch.diff) through all 20
# quick checks; prints one line per refactoring: silent, or the properties that raised an alarm.
cd /verif
for d in ${*:-harmless/C*-*}; do
  n=$(basename $d)
  out=$(tools/try_harmless.sh $PWD/harmless/$n/patch.diff 2>&1)
  if echo "$out" | grep -q "^silent"; then echo "$n silent"; else echo "$n $(echo "$out" | grep '^ALARM' | awk '{print $2}' | tr '\n' ' ') :: $(echo "$out" | grep -c 'report\[') reports"; fi
done
