#!/bin/bash
# usage: try_seed.sh <patch.diff> <property> [tier]
# applies the patch to /repo, runs the property's check, reverts. Prints CAUGHT/MISSED.
set -u
P=$1; ID=$2; TIER=${3:-quick}
cd /repo || exit 2
if [ -n "$(git status --porcelain)" ]; then echo "/repo not clean"; exit 2; fi
git apply "$P" || { echo "patch does not apply"; exit 2; }
cd /verif
OUT=$(./run.sh "$ID" "$TIER" 2>&1); RC=$?
git -C /repo checkout -- . ; git -C /repo clean -fdq
echo "$OUT" | grep -E "report\[|VIOLATION|KNOWN" | head -20
if [ $RC -eq 1 ]; then echo "RESULT: CAUGHT ($ID)"; else echo "RESULT: MISSED ($ID) rc=$RC"; fi
# restore evidence for the clean tree
./run.sh "$ID" quick >/dev/null 2>&1
