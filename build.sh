#!/bin/bash
# Builds /verif/bin/pintsa from /verif/sa (offline, module cache only).
set -eu
cd "$(dirname "$0")"
export GOFLAGS=-mod=mod GOPROXY=off
unset GOWORK
mkdir -p bin
if [ ! -x bin/pintsa ] || [ -n "$(find sa -name '*.go' -newer bin/pintsa -print -quit)" ] || [ sa/go.mod -nt bin/pintsa ]; then
  (cd sa && go build -o ../bin/pintsa .)
fi
echo "pintsa ready"
