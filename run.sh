#!/bin/bash
# usage: run.sh <property> [quick|thorough]
# Rebuilds the driver if needed and runs the rules of one property against
# the working tree of /repo. Exit 0 = held, 1 = VIOLATION line printed.
set -u
cd "$(dirname "$0")"
V=$(pwd)
PROP=${1:?property id}
TIER=${2:-${VERIF_TIER:-quick}}
REPO=${PINT_REPO:-/repo}
export GOFLAGS=-mod=mod GOPROXY=off
unset GOWORK
./build.sh >/dev/null || { echo "pintsa build failed"; ./build.sh; exit 2; }
mkdir -p evidence replay
exec ./bin/pintsa -prop "$PROP" -tier "$TIER" -repo "$REPO" \
  -out "$V/evidence/$PROP.json" -known "$V/known_findings.json" -replay-dir "$V/replay"
