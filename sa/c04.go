package main

import (
	"go/ast"
	"go/token"
	"go/types"
	"sort"
	"strings"
)

func init() {
	register("C04", runC04,
		"THIN claim. Soundness of the label-flow abstraction against the PromQL evaluator is not decidable by static analysis; decided are the table clauses the soundness argument rests on: (R1) walkNode's type switch names every type of promql/parser that implements parser.Expr; (R2) every non-experimental entry of the vendored promParser.Functions has a case in parsePromQLFunc whose s.Returns equals the entry's ReturnType, and every non-experimental aggregator has a case in walkAggregation; (R3) every site that can make CanHaveLabel false (excludeLabel, restrictIncludedLabels/GuaranteedLabels, FixedLabels = true, IncludedLabels/GuaranteedLabels = nil) sits in a context (AST node kind, operator, function name, guard) that belongs to the reference set of label-dropping PromQL constructs — a narrowing in any other context is reported; (R4) the `non-existent label` problem is dominated by !IsDead and !CanHaveLabel(name), keeps the group-label exemption and has severity Bug.",
		"canJoin, CanHaveLabel, the helper bodies and the branch bookkeeping — i.e. soundness itself; removing a narrowing is sound for this property and is not reported.")
	register("C12", runC12,
		"THIN claim, same analyser as C04. Decided: (R1)/(R2) node, function and aggregator exhaustiveness (shared with C04); (R3) IsDead is set to true only in the reference contexts: on the negative result of canJoin, for `unless on()` against an always-returning unconditional right side, for the right side of `or` when the left side cannot be empty, and from calculateStaticReturn; (R4) calculateStaticReturn has a case for every PromQL comparison operator and the Go comparison that declares the code dead is the exact negation of that operator, arithmetic cases never declare dead code; (R5) promql/impossible reports only sources whose IsDead is set.",
		"canJoin itself, AlwaysReturns/IsConditional bookkeeping, i.e. that a dead verdict is semantically right for all data.")
}

const promParserPath = "github.com/prometheus/prometheus/promql/parser"

// vendoredFunctions reads promParser.Functions from the vendored source.
func vendoredFunctions(p *Prog) (ret map[string]string, experimental map[string]bool) {
	pkg := p.Pkg(promParserPath)
	if pkg == nil {
		return nil, nil
	}
	ret, experimental = map[string]string{}, map[string]bool{}
	for _, f := range pkg.Syntax {
		ast.Inspect(f, func(n ast.Node) bool {
			vs, ok := n.(*ast.ValueSpec)
			if !ok || len(vs.Names) != 1 || vs.Names[0].Name != "Functions" || len(vs.Values) != 1 {
				return true
			}
			cl, ok := vs.Values[0].(*ast.CompositeLit)
			if !ok {
				return true
			}
			for _, el := range cl.Elts {
				kv, ok := el.(*ast.KeyValueExpr)
				if !ok {
					continue
				}
				name, ok := constString(pkg.TypesInfo, kv.Key)
				if !ok {
					continue
				}
				if v, ok := kv.Value.(*ast.CompositeLit); ok {
					if rt := litField(v, "ReturnType"); rt != nil {
						ret[name] = exprStr(rt)
					}
					if ex := litField(v, "Experimental"); ex != nil && exprStr(ex) == "true" {
						experimental[name] = true
					}
				}
			}
			return true
		})
	}
	return ret, experimental
}

// vendoredAggregators lists the aggregator item constants and the experimental ones.
func vendoredAggregators(p *Prog) (aggs []string, experimental map[string]bool) {
	pkg := p.Pkg(promParserPath)
	if pkg == nil {
		return nil, nil
	}
	experimental = map[string]bool{}
	sc := pkg.Types.Scope()
	start, _ := sc.Lookup("aggregatorsStart").(*types.Const)
	end, _ := sc.Lookup("aggregatorsEnd").(*types.Const)
	if start == nil || end == nil {
		return nil, nil
	}
	lo, _ := constantInt(start)
	hi, _ := constantInt(end)
	for _, n := range sc.Names() {
		k, ok := sc.Lookup(n).(*types.Const)
		if !ok {
			continue
		}
		v, isInt := constantInt(k)
		if !isInt {
			continue
		}
		if v > lo && v < hi {
			aggs = append(aggs, n)
		}
	}
	sort.Strings(aggs)
	for _, f := range pkg.Syntax {
		for _, d := range f.Decls {
			fd, ok := d.(*ast.FuncDecl)
			if !ok || fd.Name.Name != "IsExperimentalAggregator" || fd.Body == nil {
				continue
			}
			ast.Inspect(fd.Body, func(n ast.Node) bool {
				if be, ok := n.(*ast.BinaryExpr); ok && be.Op == token.EQL {
					if id, ok := be.Y.(*ast.Ident); ok {
						experimental[id.Name] = true
					}
				}
				return true
			})
		}
	}
	return aggs, experimental
}

func c04Exhaustive(c *Ctx, prefix string) {
	p := c.P
	r1, r2 := prefix+"-R1", prefix+"-R2"
	wn := c.MustFunc(r1, "internal/parser/utils.walkNode")
	if wn == nil {
		return
	}
	info := wn.Pkg.TypesInfo
	// R1: node types
	pkg := p.Pkg(promParserPath)
	if pkg == nil {
		c.Undecided(r1, "anchor:promql/parser", token.NoPos, "vendored parser not loaded")
		return
	}
	exprT, _ := pkg.Types.Scope().Lookup("Expr").(*types.TypeName)
	if exprT == nil {
		c.Undecided(r1, "anchor:parser.Expr", token.NoPos, "interface not found")
		return
	}
	iface := exprT.Type().Underlying().(*types.Interface)
	handled := map[string]bool{}
	ast.Inspect(wn.Decl.Body, func(n ast.Node) bool {
		ts, ok := n.(*ast.TypeSwitchStmt)
		if !ok {
			return true
		}
		for _, st := range ts.Body.List {
			for _, e := range st.(*ast.CaseClause).List {
				if t := info.TypeOf(e); t != nil {
					if nm := namedOf(t); nm != nil {
						handled[nm.Obj().Name()] = true
					}
				}
			}
		}
		return true
	})
	sc := pkg.Types.Scope()
	nTypes := 0
	for _, n := range sc.Names() {
		tn, ok := sc.Lookup(n).(*types.TypeName)
		if !ok || tn.IsAlias() {
			continue
		}
		if _, isIface := tn.Type().Underlying().(*types.Interface); isIface {
			continue
		}
		if !types.Implements(types.NewPointer(tn.Type()), iface) && !types.Implements(tn.Type(), iface) {
			continue
		}
		nTypes++
		c.Check(handled[n], r1, "walkNode handles parser."+n, wn.Decl.Pos(), "case present", "PromQL AST node type "+n+" has no case in walkNode: expressions containing it produce no sources (labels of a whole sub-expression are lost)")
	}
	c.Check(nTypes >= 10, r1, "parser.Expr implementers enumerated", token.NoPos, itoa(nTypes), "fewer Expr implementers than expected")

	// R2: functions
	ppf := c.MustFunc(r2, "internal/parser/utils.parsePromQLFunc")
	if ppf == nil {
		return
	}
	rets, experimental := vendoredFunctions(p)
	if len(rets) < 50 {
		c.Undecided(r2, "anchor:promParser.Functions", token.NoPos, "could not read the vendored function table ("+itoa(len(rets))+" entries)")
		return
	}
	caseRet := map[string]string{}
	for _, sw := range findSwitches(ppf.Decl.Body, func(s *ast.SwitchStmt) bool { return s.Tag != nil }) {
		cases, _ := switchCases(sw)
		for _, cs := range cases {
			name, ok := constString(info, cs.Expr)
			if !ok {
				continue
			}
			rt := ""
			for _, st := range cs.Clause.Body {
				if as, ok := st.(*ast.AssignStmt); ok && len(as.Lhs) == 1 {
					if sel, ok := as.Lhs[0].(*ast.SelectorExpr); ok && sel.Sel.Name == "Returns" {
						if rs, ok := as.Rhs[0].(*ast.SelectorExpr); ok {
							rt = rs.Sel.Name
						}
					}
				}
			}
			if _, dup := caseRet[name]; !dup {
				caseRet[name] = rt
			}
		}
		break
	}
	for _, name := range sortedKeys(rets) {
		if experimental[name] {
			continue
		}
		got, ok := caseRet[name]
		c.Check(ok && got == rets[name], r2, "function "+name+" handled with return type "+rets[name], ppf.Decl.Pos(), "case present, type agrees",
			"PromQL function "+name+"() (returns "+rets[name]+") is "+map[bool]string{true: "handled with return type " + got, false: "not handled"}[ok]+" in parsePromQLFunc: its result type is lost or wrong, so a comparison with a scalar takes its labels from the wrong side")
	}
	var extra []string
	for name := range caseRet {
		if _, ok := rets[name]; !ok {
			extra = append(extra, name)
		}
	}
	sort.Strings(extra)
	c.Note("%s: cases for functions the vendored parser does not define (harmless): %s", r2, strings.Join(extra, ", "))
	// aggregators
	wa := c.MustFunc(r2, "internal/parser/utils.walkAggregation")
	if wa == nil {
		return
	}
	aggs, expAgg := vendoredAggregators(p)
	handledAgg := map[string]bool{}
	for _, sw := range findSwitches(wa.Decl.Body, func(s *ast.SwitchStmt) bool { return s.Tag != nil }) {
		cases, _ := switchCases(sw)
		for _, cs := range cases {
			if k := constObj(info, cs.Expr); k != nil {
				handledAgg[k.Name()] = true
			}
		}
	}
	for _, a := range aggs {
		if expAgg[a] {
			continue
		}
		c.Check(handledAgg[a], r2, "aggregator "+a+" handled", wa.Decl.Pos(), "case present", "aggregation operator "+a+" has no case in walkAggregation: such expressions produce no sources")
	}
	c.Check(len(aggs) >= 10, r2, "aggregators enumerated", token.NoPos, itoa(len(aggs)), "could not enumerate the vendored aggregators")
}

// narrowing site kinds
func narrowingKind(info *types.Info, n ast.Node) string {
	switch x := n.(type) {
	case *ast.CallExpr:
		switch calleeName(info, x) {
		case "internal/parser/utils.excludeLabel":
			return "excludeLabel"
		case "internal/parser/utils.restrictIncludedLabels":
			return "restrictIncluded"
		case "internal/parser/utils.restrictGuaranteedLabels":
			return "restrictGuaranteed"
		}
	case *ast.AssignStmt:
		if len(x.Lhs) == 1 && len(x.Rhs) == 1 {
			if sel, ok := x.Lhs[0].(*ast.SelectorExpr); ok && fieldOwner(info, sel) == "internal/parser/utils.Source" {
				switch {
				case sel.Sel.Name == "FixedLabels" && exprStr(x.Rhs[0]) == "true":
					return "FixedLabels=true"
				case sel.Sel.Name == "IncludedLabels" && exprStr(x.Rhs[0]) == "nil":
					return "IncludedLabels=nil"
				case sel.Sel.Name == "GuaranteedLabels" && exprStr(x.Rhs[0]) == "nil":
					return "GuaranteedLabels=nil"
				}
			}
		}
	}
	return ""
}

// contextOf renders the semantic context of a site: enclosing case labels
// (type switch types, operator constants, function names) and if guards.
func contextOf(info *types.Info, pm map[ast.Node]ast.Node, n ast.Node, stop ast.Node) (labels []string, guards []string) {
	child := n
	for cur := pm[n]; cur != nil && cur != stop; child, cur = cur, pm[cur] {
		switch x := cur.(type) {
		case *ast.CaseClause:
			// a case of a tagless switch is a condition like any other: this case's
			// expressions hold (one of them), every earlier case's do not
			if blk, ok := pm[x].(*ast.BlockStmt); ok {
				if sw, ok := pm[blk].(*ast.SwitchStmt); ok && sw.Tag == nil {
					if len(x.List) == 1 {
						guards = append(guards, polarStr(info, x.List[0], true))
					} else if len(x.List) > 1 {
						var alts []string
						for _, e := range x.List {
							alts = append(alts, polarStr(info, e, true))
						}
						guards = append(guards, "("+strings.Join(alts, " || ")+")")
					}
					for _, st := range sw.Body.List {
						prev := st.(*ast.CaseClause)
						if prev == x {
							break
						}
						for _, e := range prev.List {
							guards = append(guards, polarStr(info, e, false))
						}
					}
				}
			}
			var ls []string
			for _, e := range x.List {
				if s, ok := constString(info, e); ok {
					ls = append(ls, s)
				} else if k := constObj(info, e); k != nil {
					ls = append(ls, k.Name())
				} else if t := info.TypeOf(e); t != nil && namedOf(t) != nil && !strings.Contains(exprStr(e), "==") {
					ls = append(ls, namedOf(t).Obj().Name())
				} else {
					ls = append(ls, roleStr(info, e))
				}
			}
			labels = append(labels, strings.Join(ls, "|"))
		case *ast.IfStmt:
			if child == ast.Node(x.Body) {
				guards = append(guards, polarStr(info, x.Cond, true))
			} else if child == x.Else {
				guards = append(guards, polarStr(info, x.Cond, false))
			}
		}
	}
	return labels, guards
}

// polarStr renders a condition known to be true (false) with double negations
// removed: `!(!(x))` under "true" is `x`, `!(x)` under "false" is `x`.
func polarStr(info *types.Info, cond ast.Expr, truth bool) string {
	for {
		cond = ast.Unparen(cond)
		u, ok := cond.(*ast.UnaryExpr)
		if !ok || u.Op != token.NOT {
			break
		}
		cond, truth = u.X, !truth
	}
	if truth {
		return roleStr(info, cond)
	}
	return "!(" + roleStr(info, cond) + ")"
}

// c04Narrowing enumerates every operation that can make CanHaveLabel false and
// requires its context to be one in which PromQL drops the label(s). Shared by
// C04-R3 and C12-R9 (a wrongly excluded label makes canJoin declare a side dead).
func c04Narrowing(c *Ctx, rule string, skipMetricName bool) {
	p := c.P
	// ---- R3 ----
	labelDroppingFuncs := map[string]bool{"absent": true, "absent_over_time": true, "pi": true, "scalar": true, "time": true, "vector": true}
	dateFuncs := map[string]bool{"days_in_month": true, "day_of_month": true, "day_of_week": true, "day_of_year": true, "hour": true, "minute": true, "month": true, "year": true}
	nameDroppingAggs := map[string]bool{"SUM": true, "MIN": true, "MAX": true, "AVG": true, "GROUP": true, "STDDEV": true, "STDVAR": true, "COUNT": true, "COUNT_VALUES": true, "QUANTILE": true}
	nSites := 0
	for _, fname := range []string{"walkNode", "walkAggregation", "parseAggregation", "parsePromQLFunc", "parseCall", "parseBinOps"} {
		fi := c.MustFunc(rule, "internal/parser/utils."+fname)
		if fi == nil {
			continue
		}
		info := fi.Pkg.TypesInfo
		pm := parentMap(fi.Decl.Body)
		ast.Inspect(fi.Decl.Body, func(n ast.Node) bool {
			kind := narrowingKind(info, n)
			if kind == "" {
				return true
			}
			labels, guards := contextOf(info, pm, n, fi.Decl.Body)
			ctx := strings.Join(labels, " / ")
			g := strings.Join(guards, " && ")
			// one obligation per expanded case label
			var expanded []string
			if len(labels) > 0 {
				expanded = strings.Split(labels[0], "|")
			} else {
				expanded = []string{""}
			}
			for _, lab := range expanded {
				nSites++
				ok, why, badWhy := false, "", ""
				switch fname {
				case "walkNode":
					switch lab {
					case "NumberLiteral", "StringLiteral":
						ok, why = kind != "excludeLabel" && !strings.HasPrefix(kind, "restrict"), "a literal has no labels"
					case "VectorSelector":
						ok, why = kind == "excludeLabel", "a `{l=\"\"}` matcher excludes series that have label l"
					}
				case "walkAggregation":
					if kind == "excludeLabel" && nameDroppingAggs[lab] {
						// the excluded label must be the metric name
						call := n.(*ast.CallExpr)
						last := call.Args[len(call.Args)-1]
						if s, isC := constString(info, last); isC && s == "__name__" {
							// Prometheus (engine.generateGroupingLabels) deletes the metric
							// name for without(...) and for no grouping, but keeps it
							// when it is listed in by(...): the exclusion has to consult
							// the grouping.
							if skipMetricName {
								ok, why = true, "metric name exclusion is decided under C04-R3"
							} else if strings.Contains(g, ".Grouping") {
								ok, why = true, "aggregation drops the metric name unless by(__name__) keeps it"
							} else {
								badWhy = "the metric name is excluded for every " + strings.ToLower(lab) + "(...) without consulting the grouping, but Prometheus keeps __name__ when it is listed in by(...): `" + strings.ToLower(lab) + " by(__name__)(m)` with a template using $labels.__name__ gets a false `non-existent label` report"
							}
						}
					}
				case "parseAggregation":
					switch {
					case kind == "excludeLabel" && strings.Contains(g, ".Without") && !strings.Contains(g, "!("):
						ok, why = true, "without(l…) drops l…"
					case strings.Contains(g, ".Without)"):
						ok, why = true, "by(l…) / no grouping keeps only l…"
					}
				case "parsePromQLFunc":
					switch {
					case labelDroppingFuncs[lab]:
						ok, why = kind != "excludeLabel", lab+"() returns no labels / only the labels passed to it"
					case dateFuncs[lab] && strings.Contains(g, ".Args) == 0"):
						ok, why = true, lab+"() without arguments returns a label-less sample"
					}
				case "parseBinOps":
					oneToOne := strings.Contains(ctx, "CardOneToOne")
					switch {
					case oneToOne && strings.Contains(g, ".VectorMatching.On") && !strings.Contains(g, ".VectorMatching.On)") && kind != "excludeLabel":
						ok, why = true, "one-to-one on(l…) keeps only l…"
					case oneToOne && strings.Contains(g, ".VectorMatching.On)") && kind == "excludeLabel":
						ok, why = true, "one-to-one ignoring(l…) drops l…"
					}
				}
				key := fname + ":" + kind + " in [" + lab + "]"
				if g != "" {
					key += " if " + g
				}
				if badWhy != "" {
					c.Bad(rule, key, n.Pos(), badWhy)
					continue
				}
				c.Check(ok, rule, key, n.Pos(), why,
					"the label set is narrowed ("+kind+") in a context where PromQL keeps the labels ("+fname+", case "+strq(lab)+", guard "+strq(g)+"): CanHaveLabel can become false for a label the results do carry, i.e. a false `non-existent label` report")
			}
			return true
		})
	}
	c.Check(nSites >= 30, rule, "narrowing sites enumerated", token.NoPos, itoa(nSites), "implausibly few narrowing sites ("+itoa(nSites)+")")
	// helpers that narrow have no other callers
	for _, h := range []string{"excludeLabel", "restrictIncludedLabels", "restrictGuaranteedLabels"} {
		if fi := p.Func("internal/parser/utils." + h); fi != nil {
			for _, cs := range p.CallersOf(fi.Obj) {
				switch cs.Caller.Obj.Name() {
				case "walkNode", "walkAggregation", "parseAggregation", "parsePromQLFunc", "parseCall", "parseBinOps":
				default:
					// a helper that drops the metric name only when by(...) does not keep it
					if h == "excludeLabel" && len(cs.Call.Args) >= 4 {
						cinfo := cs.Caller.Pkg.TypesInfo
						if s, isC := constString(cinfo, cs.Call.Args[len(cs.Call.Args)-1]); isC && s == "__name__" {
							consults := false
							for _, a := range lexicalGuards(parentMap(cs.Caller.Decl.Body), cs.Call, cs.Caller.Decl.Body) {
								if strings.Contains(exprStr(a.E), ".Grouping") {
									consults = true
								}
							}
							// or an earlier early return guarded by the grouping
							ast.Inspect(cs.Caller.Decl.Body, func(m ast.Node) bool {
								if ifs, ok := m.(*ast.IfStmt); ok && ifs.End() < cs.Call.Pos() && strings.Contains(exprStr(ifs.Cond), ".Grouping") && containsBranch(ifs.Body) {
									consults = true
								}
								return true
							})
							if consults {
								c.Ok(rule, h+" called from "+cs.Caller.Name, cs.Call.Pos(), "metric name dropped unless by(__name__) keeps it")
								continue
							}
						}
					}
					c.Bad(rule, h+" called from "+cs.Caller.Name, cs.Call.Pos(), "label narrowing outside the analysed transfer functions")
				}
			}
		}
	}
	// stores of the narrowing fields elsewhere in the package
	if up := p.Pkg("internal/parser/utils"); up != nil {
		for _, fi := range p.AllFuncs() {
			if fi.Pkg != up || fi.Decl.Body == nil || p.IsTestFile(fi.Decl.Pos()) {
				continue
			}
			switch fi.Obj.Name() {
			case "walkNode", "walkAggregation", "parseAggregation", "parsePromQLFunc", "parseCall", "parseBinOps", "excludeLabel", "includeLabel", "maybeIncludeLabel", "guaranteeLabel", "restrictIncludedLabels", "restrictGuaranteedLabels":
				continue
			}
			ast.Inspect(fi.Decl.Body, func(n ast.Node) bool {
				if k := narrowingKind(up.TypesInfo, n); k != "" && k != "excludeLabel" {
					c.Bad(rule, "narrowing store in "+fi.Name, n.Pos(), "Source."+k+" outside the transfer functions")
				}
				if as, ok := n.(*ast.AssignStmt); ok {
					for _, l := range as.Lhs {
						if sel, ok := l.(*ast.SelectorExpr); ok && sel.Sel.Name == "ExcludedLabels" && fieldOwner(up.TypesInfo, sel) == "internal/parser/utils.Source" {
							c.Bad(rule, "ExcludedLabels store in "+fi.Name, n.Pos(), "Source.ExcludedLabels is written outside excludeLabel/includeLabel/guaranteeLabel")
						}
					}
				}
				return true
			})
		}
	}

}

func runC04(c *Ctx) {
	p := c.P
	c.Rule("C04-R1", "walkNode covers every parser.Expr implementer", 11)
	c.Rule("C04-R2", "function and aggregator tables agree with the vendored parser", 84)
	c.Rule("C04-R3", "label narrowing only in label-dropping contexts", 30)
	c.Rule("C04-R4", "consumer guards of the non-existent label report", 4)
	c.Rule("C04-R5", "label lists are owned; stamped labels re-admitted; only l=\"\" excludes", 25)
	c04Exhaustive(c, "C04")
	c04Ownership(c, "C04-R5")
	c04Stamped(c, "C04-R5")
	c04EmptyMatcher(c, "C04-R5")
	c04LostUpdates(c, "C04-R5")
	c04NoExperimentalFlag(c, "C04-R2")
	c04CanHaveLabelInputs(c, "C04-R5")
	c04EveryBranchEmitted(c, "C04-R5")
	c12PureAnalysis(c, "C04-R5")
	c04SetAppend(c, "C04-R5")
	c04ListHelpersOwnResult(c, "C04-R5")
	c10ReadConsumes(c, "C04-R5")

	c04Narrowing(c, "C04-R3", false)

	// ---- R4 ----
	if cq := c.MustFunc("C04-R4", "internal/checks.TemplateCheck.checkQueryLabels"); cq != nil {
		info := cq.Pkg.TypesInfo
		fl := p.NewFlow(cq)
		lits := fl.Find(func(n ast.Node) bool {
			cl, ok := n.(*ast.CompositeLit)
			return ok && typeQName(info.TypeOf(cl)) == "internal/checks.Problem" && len(cl.Elts) > 0
		})
		c.Check(len(lits) == 1, "C04-R4", "checkQueryLabels:one problem site", cq.Decl.Pos(), "one", itoa(len(lits))+" problem literals")
		for _, l := range lits {
			notDead := fl.Dominated(l.Site, nil, func(a Atom) bool {
				sel, ok := ast.Unparen(a.E).(*ast.SelectorExpr)
				return ok && !a.Truth && sel.Sel.Name == "IsDead" && fieldOwner(info, sel) == "internal/parser/utils.Source"
			})
			c.Check(notDead, "C04-R4", "checkQueryLabels:dead branches are not consulted", l.Inner.Pos(), "dominated by !s.IsDead", "a branch already known to be dead can produce a `non-existent label` report")
			cannot := fl.Dominated(l.Site, nil, func(a Atom) bool {
				call, ok := ast.Unparen(a.E).(*ast.CallExpr)
				return ok && !a.Truth && isCallTo(info, call, "internal/parser/utils.Source.CanHaveLabel")
			})
			c.Check(cannot, "C04-R4", "checkQueryLabels:report requires !CanHaveLabel(name)", l.Inner.Pos(), "dominated", "the report is reachable although CanHaveLabel(name) may be true")
			k := constObj(info, litField(l.Inner.(*ast.CompositeLit), "Severity"))
			c.Check(k != nil && k.Name() == "Bug", "C04-R4", "checkQueryLabels:severity Bug", l.Inner.Pos(), "Bug", "severity changed")
		}
		// group label exemption: a goto/continue guarded by group.Labels.GetValue(name) != nil precedes the source scan
		exempt := false
		pm := parentMap(cq.Decl.Body)
		ast.Inspect(cq.Decl.Body, func(n ast.Node) bool {
			if b, ok := n.(*ast.BranchStmt); ok {
				for _, a := range lexicalGuards(pm, b, cq.Decl.Body) {
					if strings.Contains(exprStr(a.E), ".Labels.GetValue(") && a.Truth {
						exempt = true
					}
				}
			}
			return true
		})
		c.Check(exempt, "C04-R4", "checkQueryLabels:labels set on the group are exempt", cq.Decl.Pos(), "group label exemption", "labels provided by the rule group are no longer exempt (they are added after the query is evaluated)")
	}
}

func runC12(c *Ctx) {
	p := c.P
	c.Rule("C12-R1", "walkNode covers every parser.Expr implementer", 11)
	c.Rule("C12-R2", "function and aggregator tables agree with the vendored parser", 84)
	c.Rule("C12-R3", "IsDead is set only in the reference contexts", 7)
	c.Rule("C12-R4", "static comparison table: dead iff the negated comparison holds", 13)
	c.Rule("C12-R5", "promql/impossible reports only dead sources", 2)
	c.Rule("C12-R6", "label lists are owned (analysis does not rewrite the parsed query)", 20)
	c.Rule("C12-R7", "canJoin compares each side as its sub-expression produced it; ignoring() labels not demanded", 9)
	c04Exhaustive(c, "C12")
	c04Ownership(c, "C12-R6")
	c04LostUpdates(c, "C12-R6")
	c12PerNameInclusion(c, "C12-R6")
	c12SelectorLabelsConditional(c, "C12-R6")
	c04CanHaveLabelInputs(c, "C12-R6")
	c12PureAnalysis(c, "C12-R6")
	c04SetAppend(c, "C12-R6")
	c04ListHelpersOwnResult(c, "C12-R6")
	c04NoExperimentalFlag(c, "C12-R2")
	c04EveryBranchEmitted(c, "C12-R6")
	c12JoinOperands(c, "C12-R7")
	c12OnLabelsOnlyIfPossible(c, "C12-R7")
	c.Rule("C12-R8", "AlwaysReturns does not survive filtering set operators", 1)
	c12AlwaysReturns(c, "C12-R8")
	c.Rule("C12-R9", "labels are excluded only where PromQL drops them; helpers get the query's whole label lists", 70)
	c04Narrowing(c, "C12-R9", true)
	c04EmptyMatcher(c, "C12-R9")
	c12WholeLists(c, "C12-R9")
	c.Rule("C12-R10", "arithmetic folding table; known value and always-returns survive only pass-through nodes", 20)
	c12Arithmetic(c, "C12-R10")
	c12KnownValue(c, "C12-R10")
	c12BoolModifier(c, "C12-R10")

	// ---- R3 ----
	up := p.Pkg("internal/parser/utils")
	if up == nil {
		c.Undecided("C12-R3", "anchor:internal/parser/utils", token.NoPos, "package not found")
		return
	}
	info := up.TypesInfo
	nDead := 0
	for _, fi := range p.AllFuncs() {
		if fi.Pkg != up || fi.Decl.Body == nil || p.IsTestFile(fi.Decl.Pos()) {
			continue
		}
		pm := parentMap(fi.Decl.Body)
		ast.Inspect(fi.Decl.Body, func(n ast.Node) bool {
			as, ok := n.(*ast.AssignStmt)
			if !ok {
				return true
			}
			for i, l := range as.Lhs {
				sel, ok := l.(*ast.SelectorExpr)
				if !ok || sel.Sel.Name != "IsDead" || fieldOwner(info, sel) != "internal/parser/utils.Source" {
					continue
				}
				var rhs ast.Expr
				if len(as.Rhs) == len(as.Lhs) {
					rhs = as.Rhs[i]
				} else if len(as.Rhs) == 1 {
					rhs = as.Rhs[0]
				}
				if call, isCall := rhs.(*ast.CallExpr); isCall && isCallTo(info, call, "internal/parser/utils.calculateStaticReturn") {
					nDead++
					c.Ok("C12-R3", fi.Obj.Name()+":IsDead from calculateStaticReturn", as.Pos(), "static comparison (R4)")
					continue
				}
				if exprStr(rhs) != "true" {
					continue
				}
				nDead++
				guards := earlyExitGuards(info, pm, as, fi.Decl.Body)
				g := ""
				hasOp := func(name string) bool {
					for _, a := range guards {
						if be, ok := ast.Unparen(a.E).(*ast.BinaryExpr); ok && a.Truth && be.Op == token.EQL {
							if k := constObj(info, be.Y); k != nil && k.Name() == name {
								return true
							}
						}
					}
					return false
				}
				hasField := func(suffix string, truth bool) bool {
					for _, a := range guards {
						if sel, ok := ast.Unparen(a.E).(*ast.SelectorExpr); ok && a.Truth == truth && sel.Sel.Name == suffix {
							return true
						}
					}
					return false
				}
				negatedBoolLocal := false
				emptyMatching := false
				for _, a := range guards {
					t := exprStr(a.E)
					if !a.Truth {
						t = "!(" + t + ")"
					}
					g += t + " && "
					if id, ok := ast.Unparen(a.E).(*ast.Ident); ok && !a.Truth {
						if v, isVar := info.Uses[id].(*types.Var); isVar && !v.IsField() {
							negatedBoolLocal = true
						}
					}
					if be, ok := ast.Unparen(a.E).(*ast.BinaryExpr); ok && a.Truth && be.Op == token.EQL {
						if call, ok := be.X.(*ast.CallExpr); ok && exprStr(call.Fun) == "len" && strings.HasSuffix(exprStr(call.Args[0]), ".MatchingLabels") {
							emptyMatching = true
						}
					}
				}
				// `if ok, …, … := canJoin(…); !ok { … }`
				failedJoin := false
				for cur := pm[ast.Node(as)]; cur != nil && cur != ast.Node(fi.Decl.Body); cur = pm[cur] {
					ifs, ok := cur.(*ast.IfStmt)
					if !ok || ifs.Init == nil {
						continue
					}
					ia, ok := ifs.Init.(*ast.AssignStmt)
					if !ok || len(ia.Rhs) != 1 {
						continue
					}
					call, ok := ia.Rhs[0].(*ast.CallExpr)
					if !ok || !isCallTo(info, call, "internal/parser/utils.canJoin") {
						continue
					}
					if u, ok := ast.Unparen(ifs.Cond).(*ast.UnaryExpr); ok && u.Op == token.NOT && objOf(info, u.X) == objOf(info, ia.Lhs[0]) {
						failedJoin = true
					}
				}
				// `ok, …, … := canJoin(…)` as a statement of its own, then `if !ok { … }`
				if !failedJoin {
					for _, a := range guards {
						if id, ok := ast.Unparen(a.E).(*ast.Ident); ok && !a.Truth && a.Tag == nil {
							defs := allDefs(info, fi.Decl.Body, id)
							all := len(defs) > 0
							for _, d := range defs {
								if call, ok := d.(*ast.CallExpr); !ok || !isCallTo(info, call, "internal/parser/utils.canJoin") {
									all = false
								}
							}
							if all {
								failedJoin = true
							}
						}
					}
				}
				ctx, why := "", ""
				switch {
				case failedJoin:
					ctx, why = "canJoin is false", "the two sides can never be matched"
				case hasOp("LUNLESS") && hasField("On", true) && emptyMatching && hasField("AlwaysReturns", true) && hasField("IsConditional", false):
					ctx, why = "unless on() vs always-returning unconditional RHS", "everything on the left is suppressed"
				case hasOp("LOR") && negatedBoolLocal:
					ctx, why = "or: left side cannot be empty", "the right side is never used"
				}
				if ctx == "or: left side cannot be empty" {
					// `a or b` is a union: b's series are dropped only where their label signature equals one
					// of a's. "a is never empty" alone does not make b dead (`vector(1) or foo{job="x"}` returns
					// every foo series): the dead-marking has to stand under some test of b's labels against a's
					sigTest := false
					for _, a := range guards {
						ast.Inspect(a.E, func(m ast.Node) bool {
							switch y := m.(type) {
							case *ast.CallExpr:
								if isCallTo(info, y, "internal/parser/utils.canJoin") {
									sigTest = true
								}
								if fn := Callee(info, y); fn != nil && (fn.Name() == "CanHaveLabel" || fn.Name() == "canMatch") {
									sigTest = true
								}
							case *ast.SelectorExpr:
								if y.Sel.Name == "GuaranteedLabels" || y.Sel.Name == "MatchingLabels" {
									sigTest = true
								}
							}
							return true
						})
						if id, ok := ast.Unparen(a.E).(*ast.Ident); ok {
							// a flag: what decides it stands around the places that set it (the loop it is set
							// in, the conditions it is set under)
							if fo := info.Uses[id]; fo != nil {
								ast.Inspect(fi.Decl.Body, func(m ast.Node) bool {
									as2, isAs := m.(*ast.AssignStmt)
									if !isAs {
										return true
									}
									sets := false
									for _, l := range as2.Lhs {
										if objOf(info, l) == fo {
											sets = true
										}
									}
									if !sets {
										return true
									}
									reads := func(e ast.Node) {
										ast.Inspect(e, func(k ast.Node) bool {
											if y, ok := k.(*ast.SelectorExpr); ok && (y.Sel.Name == "GuaranteedLabels" || y.Sel.Name == "MatchingLabels" || y.Sel.Name == "CanHaveLabel") {
												sigTest = true
											}
											return true
										})
									}
									for _, g := range lexicalGuards(pm, as2, fi.Decl.Body) {
										reads(g.E)
									}
									for cur := pm[ast.Node(as2)]; cur != nil; cur = pm[cur] {
										if rs, isRange := cur.(*ast.RangeStmt); isRange {
											reads(rs.X)
										}
									}
									return true
								})
							}
							for _, d := range allDefs(info, fi.Decl.Body, id) {
								ast.Inspect(d, func(m ast.Node) bool {
									if y, ok := m.(*ast.SelectorExpr); ok && (y.Sel.Name == "GuaranteedLabels" || y.Sel.Name == "MatchingLabels" || y.Sel.Name == "CanHaveLabel") {
										sigTest = true
									}
									return true
								})
							}
						}
					}
					c.Check(sigTest, "C12-R3", fi.Obj.Name()+":or: the right side is dead only where its series can match the left side", as.Pos(), "label signatures compared",
						"the right side of `or` is declared dead as soon as the left side always returns something, without looking at labels: `vector(1) or foo{job=\"x\"}` is reported as dead code although Prometheus returns every foo series (their label sets differ from the left side's)")
				}
				key := fi.Obj.Name() + ":IsDead = true when " + ctx
				c.Check(ctx != "", "C12-R3", key, as.Pos(), why, "a source is declared dead code under `"+strings.TrimSuffix(g, " && ")+"`, which is not one of the reference situations (failed join, `unless on()` against an always-returning side, `or` after a side that cannot be empty, static comparison)")
			}
			return true
		})
	}
	c.Check(nDead >= 7, "C12-R3", "dead-marking sites enumerated", token.NoPos, itoa(nDead), "fewer dead-marking sites than confirmed ("+itoa(nDead)+")")

	// ---- R4 ----
	if csr := c.MustFunc("C12-R4", "internal/parser/utils.calculateStaticReturn"); csr != nil {
		neg := map[string]token.Token{"EQLC": token.NEQ, "NEQ": token.EQL, "LTE": token.GTR, "LSS": token.GEQ, "GTE": token.LSS, "GTR": token.LEQ}
		seen := map[string]bool{}
		sig := csr.Obj.Type().(*types.Signature)
		lsP, rsP := sig.Params().At(paramIndex(sig, "ls")), sig.Params().At(paramIndex(sig, "rs"))
		for _, sw := range findSwitches(csr.Decl.Body, func(s *ast.SwitchStmt) bool { return s.Tag != nil }) {
			cases, _ := switchCases(sw)
			for _, cs := range cases {
				k := constObj(info, cs.Expr)
				if k == nil {
					continue
				}
				want, isCmp := neg[k.Name()]
				// returns of this clause
				for _, r := range returnsIn(cs.Clause.Body) {
					if len(r.Results) != 4 {
						continue
					}
					declaresDead := exprStr(r.Results[1]) == "true"
					if !isCmp {
						c.Check(!declaresDead, "C12-R4", "calculateStaticReturn:"+k.Name()+" never declares dead code", r.Pos(), "arithmetic", "arithmetic operator "+k.Name()+" declares dead code")
						continue
					}
					if !declaresDead {
						continue
					}
				}
				if !isCmp {
					continue
				}
				seen[k.Name()] = true
				// the guarding if
				var cond *ast.BinaryExpr
				for _, st := range cs.Clause.Body {
					if ifs, ok := st.(*ast.IfStmt); ok {
						cond, _ = ast.Unparen(ifs.Cond).(*ast.BinaryExpr)
						rets := returnsIn(ifs.Body.List)
						if len(rets) != 1 || len(rets[0].Results) != 4 || exprStr(rets[0].Results[1]) != "true" {
							cond = nil
						}
					}
				}
				if cond == nil {
					// the same decision through a flag: the case stores the condition in a boolean that
					// is false otherwise, and the one `return …, true, …` after the switch stands under it
					var flags []types.Object
					for _, st := range csr.Decl.Body.List {
						if st.Pos() < sw.End() {
							continue
						}
						if ifs, isIf := st.(*ast.IfStmt); isIf && ifs.Else == nil {
							rets := returnsIn(ifs.Body.List)
							if o := objOf(info, ifs.Cond); o != nil && len(rets) == 1 && len(rets[0].Results) == 4 && exprStr(rets[0].Results[1]) == "true" {
								flags = append(flags, o)
							}
						}
					}
					for _, flag := range flags {
						// written only inside the comparison cases of this switch
						writers, outside := 0, false
						ast.Inspect(csr.Decl.Body, func(nd ast.Node) bool {
							as, isAs := nd.(*ast.AssignStmt)
							if !isAs {
								return true
							}
							for _, l := range as.Lhs {
								if objOf(info, l) == flag {
									writers++
									if as.Pos() < sw.Pos() || as.End() > sw.End() {
										outside = true
									}
								}
							}
							return true
						})
						if outside || writers == 0 {
							continue
						}
						for _, st := range cs.Clause.Body {
							as, isAs := st.(*ast.AssignStmt)
							if !isAs || len(as.Lhs) != len(as.Rhs) {
								continue
							}
							for i, l := range as.Lhs {
								if objOf(info, l) == flag {
									cond, _ = ast.Unparen(as.Rhs[i]).(*ast.BinaryExpr)
								}
							}
						}
					}
				}
				ok := false
				got := "?"
				if cond != nil {
					got = exprStr(cond)
					rx, _, _ := accessPath(info, cond.X)
					ry, _, _ := accessPath(info, cond.Y)
					if (cond.Op == token.EQL || cond.Op == token.NEQ) && rx == rsP && ry == lsP {
						rx, ry = ry, rx // symmetric operators: either operand order
					}
					ok = cond.Op == want && rx == lsP && ry == rsP && strings.HasSuffix(exprStr(cond.X), ".ReturnedNumber") && strings.HasSuffix(exprStr(cond.Y), ".ReturnedNumber")
				}
				c.Check(ok, "C12-R4", "calculateStaticReturn:"+k.Name()+" is dead iff ls "+want.String()+" rs", cs.Clause.Pos(), got, "for PromQL operator "+k.Name()+" the code is declared dead when `"+got+"`, expected the exact negation `ls.ReturnedNumber "+want.String()+" rs.ReturnedNumber`: a comparison that can be true is reported as dead code (or a boundary value is)")
			}
		}
		for k := range neg {
			c.Check(seen[k], "C12-R4", "calculateStaticReturn:handles comparison "+k, csr.Decl.Pos(), "case present", "comparison operator "+k+" has no case")
		}
		// the vendored IsComparisonOperator set is exactly these six
		if pkg := p.Pkg(promParserPath); pkg != nil {
			n := 0
			for _, f := range pkg.Syntax {
				for _, d := range f.Decls {
					if fd, ok := d.(*ast.FuncDecl); ok && fd.Name.Name == "IsComparisonOperator" && fd.Body != nil {
						ast.Inspect(fd.Body, func(m ast.Node) bool {
							if cc, ok := m.(*ast.CaseClause); ok {
								for _, e := range cc.List {
									if id, ok := e.(*ast.Ident); ok {
										n++
										c.Check(neg[id.Name] != 0 || id.Name == "NEQ", "C12-R4", "vendored comparison operator "+id.Name+" is in the table", cc.Pos(), "known", "the vendored parser has a comparison operator "+id.Name+" that calculateStaticReturn does not know")
									}
								}
							}
							return true
						})
					}
				}
			}
			c.Check(n == 6, "C12-R4", "vendored comparison operators enumerated", token.NoPos, itoa(n), "expected six comparison operators in the vendored parser, found "+itoa(n))
		}
	}

	// ---- R5 ----
	if cs := c.MustFunc("C12-R5", "internal/checks.ImpossibleCheck.checkSource"); cs != nil {
		cinfo := cs.Pkg.TypesInfo
		fl := p.NewFlow(cs)
		lits := fl.Find(func(n ast.Node) bool {
			cl, ok := n.(*ast.CompositeLit)
			return ok && typeQName(cinfo.TypeOf(cl)) == "internal/checks.Problem"
		})
		c.Check(len(lits) >= 1, "C12-R5", "checkSource:problem site", cs.Decl.Pos(), itoa(len(lits)), "no problem literal")
		for _, l := range lits {
			dom := fl.Dominated(l.Site, nil, func(a Atom) bool {
				sel, ok := ast.Unparen(a.E).(*ast.SelectorExpr)
				return ok && a.Truth && sel.Sel.Name == "IsDead" && fieldOwner(cinfo, sel) == "internal/parser/utils.Source"
			})
			c.Check(dom, "C12-R5", "checkSource:`dead code` only for IsDead sources", l.Inner.Pos(), "dominated by s.IsDead", "a `dead code in query` problem can be reported for a source that is not marked dead")
		}
	}
}
