package main

import (
	"go/ast"
	"go/token"
	"go/types"
	"strings"
)

func init() {
	register("C19", runC19,
		"Decides only the structural clauses behind strict/relaxed agreement: (R1) there is one rule constructor — AlertingRule/RecordingRule values and Rule values carrying them are built only in parser.parseRule, which is called from exactly the relaxed descent (parseNode) and the strict wrapper (parseRuleStrict); (R2) the strict wrapper hands its node and line table to parseRule with zero displacement and returns that result unchanged on every non-error path, Parser.Parse starts both modes with zero displacement and with the content reader's line table read at the call (not a snapshot taken earlier), and the strict group parser passes every element of `rules` to the wrapper; (R3) the relaxed descent is complete: every value of every mapping, every child of every other node and every group's rules are visited unconditionally, and every element of a candidate sequence is offered to parseRule; (R4) group recognition in relaxed mode does not depend on key order: no iteration of tryParseGroup's key loop reads state written by another iteration; (R5) the strict and relaxed group parsers store each group key in the same Group field.",
		"the relational statement itself (same rules, displaced exactly by the wrapper): it quantifies over all documents; the displacement arithmetic at the nested-YAML site (countLeadingSpace of the embedding line) and yaml.v3's own node positions are not decided. Sequences that wrap rule lists are not descended by parseNode on today's tree; the statement's wrappers are parent keys, sibling keys and documents, which is what R3 covers.")
}

func runC19(c *Ctx) {
	defer checkParamsUsed(c, "C19-R1", "internal/parser.NewParser")
	defer c19AliasSharedByBothModes(c)
	defer c19RecognitionIsStructural(c)
	p := c.P
	c.Rule("C19-R1", "single rule constructor shared by both modes", 5)
	c.Rule("C19-R2", "strict path delegates with zero displacement and the live line table", 9)
	c.Rule("C19-R3", "relaxed descent visits every node", 6)
	c.Rule("C19-R4", "relaxed group recognition is independent of key order", 2)
	c.Rule("C19-R5", "strict and relaxed group parsers agree on key -> field", 5)

	parseRule := c.MustFunc("C19-R1", "internal/parser.parseRule")
	strict := c.MustFunc("C19-R2", "internal/parser.parseRuleStrict")
	parseNode := c.MustFunc("C19-R3", "internal/parser.Parser.parseNode")
	tryGroup := c.MustFunc("C19-R4", "internal/parser.tryParseGroup")
	parseGroup := c.MustFunc("C19-R5", "internal/parser.parseGroup")
	parse := c.MustFunc("C19-R2", "internal/parser.Parser.Parse")
	if parseRule == nil || strict == nil || parseNode == nil || tryGroup == nil || parseGroup == nil || parse == nil {
		return
	}

	// ---------------- R1
	for _, q := range []string{"internal/parser.AlertingRule", "internal/parser.RecordingRule"} {
		n, bad := 0, 0
		for _, fi := range p.AllFuncs() {
			if p.IsTestFile(fi.Decl.Pos()) || fi.Decl.Body == nil {
				continue
			}
			for _, cl := range compositeLits(fi.Pkg.TypesInfo, fi.Decl.Body, q) {
				n++
				if fi != parseRule {
					bad++
					c.Bad("C19-R1", q+" built outside parseRule: "+fi.Name, cl.Pos(), "a second constructor for rule bodies: strict and relaxed mode (and anything else) no longer share one definition of names, expressions and positions")
				}
			}
		}
		c.Check(n-bad >= 1, "C19-R1", q+" is built in parseRule", parseRule.Decl.Pos(), itoa(n)+" literal(s)", "parseRule no longer builds "+q)
	}
	{
		bad := 0
		for _, fi := range p.AllFuncs() {
			if p.IsTestFile(fi.Decl.Pos()) || fi.Decl.Body == nil || fi == parseRule {
				continue
			}
			for _, cl := range compositeLits(fi.Pkg.TypesInfo, fi.Decl.Body, "internal/parser.Rule") {
				if litField(cl, "AlertingRule") != nil || litField(cl, "RecordingRule") != nil {
					bad++
					c.Bad("C19-R1", "Rule with a body built outside parseRule: "+fi.Name, cl.Pos(), "a Rule value with AlertingRule/RecordingRule set is assembled outside the shared constructor")
				}
			}
		}
		if bad == 0 {
			c.Ok("C19-R1", "Rule values with a body are built only in parseRule", parseRule.Decl.Pos(), "")
		}
	}
	var callers []string
	for _, cs := range p.CallersOf(parseRule.Obj) {
		if p.IsTestFile(cs.Call.Pos()) {
			continue
		}
		callers = append(callers, cs.Caller.Name)
	}
	want := map[string]bool{parseNode.Name: false, strict.Name: false}
	for _, cn := range callers {
		if _, ok := want[cn]; ok {
			want[cn] = true
		} else {
			c.Bad("C19-R1", "parseRule called from "+cn, parseRule.Decl.Pos(), "an additional entry into the rule constructor that is neither the relaxed descent nor the strict wrapper")
		}
	}
	for _, k := range sortedKeys(want) {
		c.Check(want[k], "C19-R1", "parseRule is called from "+k, parseRule.Decl.Pos(), "", "this mode no longer builds its rules through parseRule")
	}

	// ---------------- R2 strict wrapper
	c19Strict(c, strict, parseRule)
	c19Parse(c, parse)
	c19StrictRulesLoop(c, parseGroup, strict)

	// ---------------- R3
	c19Descent(c, parseNode, parseRule, tryGroup)

	// ---------------- R4
	c19OrderIndependent(c, tryGroup)

	// ---------------- R5
	c19GroupKeys(c, tryGroup, parseGroup)
}

func paramObj(fi *FuncInfo, i int) types.Object {
	sig := fi.Obj.Type().(*types.Signature)
	if i >= 0 && i < sig.Params().Len() {
		return sig.Params().At(i)
	}
	return nil
}

func isObj(info *types.Info, e ast.Expr, o types.Object) bool {
	id, ok := ast.Unparen(e).(*ast.Ident)
	return ok && o != nil && info.Uses[id] == o
}

func c19Strict(c *Ctx, strict, parseRule *FuncInfo) {
	info := strict.Pkg.TypesInfo
	// params by type: the *yaml.Node and the []string
	var nodeP, linesP types.Object
	sig := strict.Obj.Type().(*types.Signature)
	for i := 0; i < sig.Params().Len(); i++ {
		v := sig.Params().At(i)
		switch {
		case typeQName(v.Type()) == "gopkg.in/yaml.v3.Node":
			nodeP = v
		case v.Type().String() == "[]string":
			linesP = v
		}
	}
	var call *ast.CallExpr
	var resObj types.Object
	ast.Inspect(strict.Decl.Body, func(n ast.Node) bool {
		as, ok := n.(*ast.AssignStmt)
		if !ok || len(as.Rhs) != 1 {
			return true
		}
		cl, ok := ast.Unparen(as.Rhs[0]).(*ast.CallExpr)
		if !ok || Callee(info, cl) != parseRule.Obj {
			return true
		}
		call = cl
		if id, ok := as.Lhs[0].(*ast.Ident); ok {
			resObj = info.Defs[id]
			if resObj == nil {
				resObj = info.Uses[id]
			}
		}
		return true
	})
	if call == nil || len(call.Args) != 4 {
		c.Bad("C19-R2", "parseRuleStrict:delegates to parseRule", strict.Decl.Pos(), "no `x, empty := parseRule(node, 0, 0, lines)` in the strict wrapper")
		return
	}
	c.Check(isObj(info, call.Args[0], nodeP), "C19-R2", "parseRuleStrict:passes its own node", call.Pos(), "", "parseRule receives `"+exprStr(call.Args[0])+"`, not the rule node the wrapper was given")
	for i, nm := range []string{"line", "column"} {
		k, ok := constInt(info, call.Args[1+i])
		c.Check(ok && k == 0, "C19-R2", "parseRuleStrict:zero "+nm+" displacement", call.Pos(), "", "strict mode parses whole documents, yet passes `"+exprStr(call.Args[1+i])+"` as "+nm+" displacement: every position differs from relaxed mode on the same file")
	}
	c.Check(isObj(info, call.Args[3], linesP), "C19-R2", "parseRuleStrict:passes its own line table", call.Pos(), "", "parseRule receives `"+exprStr(call.Args[3])+"`, not the line table of the file")
	// returns: pr unchanged, or an error-only Rule
	nRet, okRet := 0, true
	sawPr := false
	ast.Inspect(strict.Decl.Body, func(n ast.Node) bool {
		if _, ok := n.(*ast.FuncLit); ok {
			return false
		}
		ret, ok := n.(*ast.ReturnStmt)
		if !ok || len(ret.Results) != 1 {
			return true
		}
		nRet++
		r := ast.Unparen(ret.Results[0])
		if isObj(info, r, resObj) {
			sawPr = true
			return true
		}
		if cl, ok := r.(*ast.CompositeLit); ok && litField(cl, "Error") != nil && litField(cl, "AlertingRule") == nil && litField(cl, "RecordingRule") == nil {
			return true
		}
		okRet = false
		c.Bad("C19-R2", "parseRuleStrict:return #"+itoa(nRet)+" is parseRule's result or an error", ret.Pos(), "returns `"+exprStr(r)+"`: a strict-mode rule that is neither what parseRule built nor a parse error")
		return true
	})
	// the result must not be modified between the call and the return
	modified := false
	ast.Inspect(strict.Decl.Body, func(n ast.Node) bool {
		as, ok := n.(*ast.AssignStmt)
		if !ok {
			return true
		}
		for _, l := range as.Lhs {
			root, path, ok := accessPath(info, l)
			if ok && root == resObj && strings.Contains(path, ".") {
				modified = true
				c.Bad("C19-R2", "parseRuleStrict:result modified: "+path, as.Pos(), "the strict wrapper rewrites a field of the rule parseRule built; relaxed mode would not")
			}
		}
		return true
	})
	if okRet && !modified {
		c.Check(sawPr, "C19-R2", "parseRuleStrict:returns parseRule's result unchanged", strict.Decl.Pos(), itoa(nRet)+" returns", "no return of parseRule's result")
	}
}

func c19Parse(c *Ctx, parse *FuncInfo) {
	info := parse.Pkg.TypesInfo
	// the content reader: the argument of yaml.NewDecoder
	var reader types.Object
	var decodeCall *ast.CallExpr
	ast.Inspect(parse.Decl.Body, func(n ast.Node) bool {
		call, ok := n.(*ast.CallExpr)
		if !ok {
			return true
		}
		if fn := Callee(info, call); fn != nil && fn.Pkg() != nil && fn.Pkg().Path() == "gopkg.in/yaml.v3" {
			switch fn.Name() {
			case "NewDecoder":
				if id, ok := ast.Unparen(call.Args[0]).(*ast.Ident); ok {
					reader = info.Uses[id]
				}
			case "Decode":
				decodeCall = call
			}
		}
		return true
	})
	if reader == nil || decodeCall == nil {
		c.Undecided("C19-R2", "Parse:content reader", parse.Decl.Pos(), "cannot find yaml.NewDecoder(reader) / Decode in Parser.Parse")
		return
	}
	pm := parentMap(parse.Decl.Body)
	// enclosing for statement of Decode
	var loop *ast.ForStmt
	for cur := pm[decodeCall]; cur != nil; cur = pm[cur] {
		if f, ok := cur.(*ast.ForStmt); ok {
			loop = f
			break
		}
	}
	n := 0
	ast.Inspect(parse.Decl.Body, func(nd ast.Node) bool {
		call, ok := nd.(*ast.CallExpr)
		if !ok {
			return true
		}
		fn := Callee(info, call)
		if fn == nil {
			return true
		}
		q := funcQName(fn)
		if q != "internal/parser.parseGroups" && q != "internal/parser.Parser.parseNode" {
			return true
		}
		n++
		sig := fn.Type().(*types.Signature)
		for i := 0; i < sig.Params().Len() && i < len(call.Args); i++ {
			pv := sig.Params().At(i)
			a := call.Args[i]
			switch {
			case pv.Type().String() == "int":
				k, ok := constInt(info, a)
				c.Check(ok && k == 0, "C19-R2", "Parse->"+q+":zero displacement (arg "+itoa(i)+")", call.Pos(), "", "a top-level document is parsed with displacement `"+exprStr(a)+"`")
			case pv.Type().String() == "[]string":
				ok, why := c19LiveLines(info, pm, loop, decodeCall, reader, a)
				c.Check(ok, "C19-R2", "Parse->"+q+":line table read from the reader at the call", call.Pos(), exprStr(a), why)
			}
		}
		return true
	})
	c.Check(n == 2, "C19-R2", "Parse:both modes start from Parse", parse.Decl.Pos(), "parseGroups and parseNode", "expected one call to parseGroups and one to parseNode, found "+itoa(n))
	c02WholeLinesR(c, "C19-R2")
	c10ReadConsumes(c, "C19-R2")
	c19EveryDocument(c, parse, loop, decodeCall)
}

// c19EveryDocument: in relaxed mode every document of the stream reaches
// parseNode. Inside the decode loop of Parser.Parse a `break`, `continue` or
// `return` is allowed only under a test of the decoder's error or under strict
// mode; anything else (an "empty document" shortcut, say) ends or skips the
// stream early and the rules of the remaining documents are never found.
func c19EveryDocument(c *Ctx, parse *FuncInfo, loop *ast.ForStmt, decode *ast.CallExpr) {
	if loop == nil {
		c.Undecided("C19-R3", "Parse:decode loop", parse.Decl.Pos(), "no for statement around Decode")
		return
	}
	info := parse.Pkg.TypesInfo
	pm := parentMap(parse.Decl.Body)
	var errObj types.Object
	if as, ok := pm[decode].(*ast.AssignStmt); ok && len(as.Lhs) == 1 {
		errObj = objOf(info, as.Lhs[0])
	}
	if errObj == nil {
		c.Undecided("C19-R3", "Parse:decode error variable", decode.Pos(), "Decode result is not assigned to a variable")
		return
	}
	mentionsErr := func(e ast.Expr) bool {
		found := false
		ast.Inspect(e, func(n ast.Node) bool {
			if id, ok := n.(*ast.Ident); ok && info.Uses[id] == errObj {
				found = true
			}
			return true
		})
		return found
	}
	// strict-mode atom with polarity
	strictTrue := func(a Atom) bool {
		e, truth := ast.Unparen(a.E), a.Truth
		for {
			if u, ok := e.(*ast.UnaryExpr); ok && u.Op == token.NOT {
				e, truth = ast.Unparen(u.X), !truth
				continue
			}
			break
		}
		return a.Tag == nil && truth && fieldSel(info, e, "internal/parser.Parser", "isStrict")
	}
	var parseNodeCall *ast.CallExpr
	ast.Inspect(loop.Body, func(n ast.Node) bool {
		if call, ok := n.(*ast.CallExpr); ok {
			if fn := Callee(info, call); fn != nil && funcQName(fn) == "internal/parser.Parser.parseNode" {
				parseNodeCall = call
			}
		}
		return true
	})
	n := 0
	var docFlow *Flow
	var walk func(nd ast.Node, depth int)
	walk = func(nd ast.Node, depth int) {
		ast.Inspect(nd, func(m ast.Node) bool {
			if m == nd {
				return true
			}
			var exit ast.Node
			switch x := m.(type) {
			case *ast.FuncLit:
				return false
			case *ast.ForStmt, *ast.RangeStmt, *ast.SwitchStmt, *ast.TypeSwitchStmt, *ast.SelectStmt:
				_, isLoop := x.(*ast.ForStmt)
				_, isRange := x.(*ast.RangeStmt)
				d := depth
				if isLoop || isRange {
					d += 100 // break and continue inside belong to the inner loop
				} else {
					d++ // a plain break inside belongs to the switch, continue to our loop
				}
				walk(m, d)
				return false
			case *ast.ReturnStmt:
				exit = x
			case *ast.BranchStmt:
				switch {
				case x.Label != nil || x.Tok == token.GOTO:
					exit = x
				case x.Tok == token.BREAK && depth == 0:
					exit = x
				case x.Tok == token.CONTINUE && depth < 100:
					if parseNodeCall == nil || x.Pos() < parseNodeCall.Pos() {
						exit = x
					}
				}
			}
			if exit == nil {
				return true
			}
			n++
			ok := false
			for _, g := range lexicalGuards(pm, exit, loop.Body) {
				if (g.Tag == nil && mentionsErr(g.E)) || strictTrue(g) {
					ok = true
				}
			}
			if !ok {
				// strict mode may follow from the flow instead of an enclosing if: the relaxed case was
				// dealt with (and the iteration ended) further up
				if _, isRet := exit.(*ast.ReturnStmt); isRet {
					if docFlow == nil {
						docFlow = c.P.NewFlow(parse)
					}
					for _, sm := range docFlow.Find(func(x ast.Node) bool { return x == exit }) {
						if docFlow.Dominated(sm.Site, sm.Inner, strictTrue) {
							ok = true
						}
					}
				}
			}
			c.Check(ok, "C19-R3", "Parse:the document loop is left only on a decoder error or in strict mode", exit.Pos(), "guarded by the decode error / strict mode",
				"the loop over the documents of a file is left (or a document skipped) here in relaxed mode without the decoder having reported the end of the stream: the documents after this point are never parsed, so rules that strict mode finds in the same text are lost when it sits behind such a document")
			return true
		})
	}
	walk(loop.Body, 0)
	c.Check(n >= 3, "C19-R3", "Parse:exits of the document loop enumerated", loop.Pos(), itoa(n), "fewer exits than confirmed ("+itoa(n)+")")
}

// c19LiveLines: a is `reader.<field>` itself, or a local every assignment of
// which is an unconditional statement of the decode loop's body, after the
// Decode call, whose right-hand side is `reader.<field>`.
func c19LiveLines(info *types.Info, pm map[ast.Node]ast.Node, loop *ast.ForStmt, decode *ast.CallExpr, reader types.Object, a ast.Expr) (bool, string) {
	isReaderField := func(e ast.Expr) bool {
		sel, ok := ast.Unparen(e).(*ast.SelectorExpr)
		if !ok {
			return false
		}
		id, ok := sel.X.(*ast.Ident)
		return ok && info.Uses[id] == reader
	}
	if isReaderField(a) {
		return true, ""
	}
	id, ok := ast.Unparen(a).(*ast.Ident)
	if !ok {
		return false, "the line table passed is `" + exprStr(a) + "`, not the content reader's"
	}
	obj := info.Uses[id]
	if loop == nil {
		return false, "no decode loop"
	}
	found, good := 0, 0
	var root ast.Node = loop
	for cur := pm[loop]; cur != nil; cur = pm[cur] {
		root = cur
	}
	ast.Inspect(root, func(n ast.Node) bool {
		as, ok := n.(*ast.AssignStmt)
		if !ok {
			return true
		}
		for i, l := range as.Lhs {
			lid, ok := l.(*ast.Ident)
			if !ok {
				continue
			}
			o := info.Defs[lid]
			if o == nil {
				o = info.Uses[lid]
			}
			if o != obj {
				continue
			}
			found++
			if pm[as] == ast.Node(loop.Body) && as.Pos() > decode.End() && i < len(as.Rhs) && isReaderField(as.Rhs[i]) {
				good++
			}
		}
		return true
	})
	if found > 0 && found == good {
		return true, ""
	}
	return false, "the line table passed is the local `" + id.Name + "`, which is not re-read from the content reader unconditionally after each Decode: the reader keeps appending lines while later documents are decoded, so rules of later documents are located against a stale, shorter table"
}

func c19StrictRulesLoop(c *Ctx, parseGroup, strict *FuncInfo) {
	info := parseGroup.Pkg.TypesInfo
	pm := parentMap(parseGroup.Decl.Body)
	n := 0
	ast.Inspect(parseGroup.Decl.Body, func(nd ast.Node) bool {
		call, ok := nd.(*ast.CallExpr)
		if !ok || Callee(info, call) != strict.Obj {
			return true
		}
		n++
		// enclosing range over unpackNodes(...)
		var loop *ast.RangeStmt
		for cur := pm[call]; cur != nil; cur = pm[cur] {
			if rs, ok := cur.(*ast.RangeStmt); ok {
				loop = rs
				break
			}
		}
		if loop == nil {
			c.Bad("C19-R2", "parseGroup:every rules element goes to parseRuleStrict", call.Pos(), "the call is not inside a loop over the rules sequence")
			return true
		}
		guards := lexicalGuards(pm, call, loop.Body)
		branch := false
		for _, st := range loop.Body.List {
			if st.End() <= call.Pos() && containsBranch(st) {
				branch = true
			}
		}
		isUnpack := false
		if cl, ok := ast.Unparen(loop.X).(*ast.CallExpr); ok && isCallTo(info, cl, "internal/parser.unpackNodes") {
			isUnpack = true
		}
		elem, _ := loop.Value.(*ast.Ident)
		passesElem := elem != nil && len(call.Args) >= 1 && isObj(info, call.Args[0], info.Defs[elem])
		c.Check(len(guards) == 0 && !branch && isUnpack && passesElem, "C19-R2", "parseGroup:every rules element goes to parseRuleStrict", call.Pos(), "unconditional, over unpackNodes",
			"some elements of a strict group's rules list are skipped or not taken from unpackNodes (aliases and merges are resolved there, as in relaxed mode)")
		return true
	})
	if n == 0 {
		c.Bad("C19-R2", "parseGroup:every rules element goes to parseRuleStrict", parseGroup.Decl.Pos(), "parseGroup does not call parseRuleStrict")
	}
}

func c19Descent(c *Ctx, parseNode, parseRule, tryGroup *FuncInfo) {
	info := parseNode.Pkg.TypesInfo
	pm := parentMap(parseNode.Decl.Body)
	nodeP := paramObj(parseNode, 0)
	type loopInfo struct {
		rs     *ast.RangeStmt
		source string // mappingNodes | unpackNodes
	}
	var loops []loopInfo
	ast.Inspect(parseNode.Decl.Body, func(n ast.Node) bool {
		rs, ok := n.(*ast.RangeStmt)
		if !ok {
			return true
		}
		// the ranged list: a call, or a local defined once from a call
		src := ast.Unparen(rs.X)
		if id, isID := src.(*ast.Ident); isID {
			if o := info.Uses[id]; o != nil {
				var defs []ast.Expr
				ast.Inspect(parseNode.Decl.Body, func(m ast.Node) bool {
					if as, ok := m.(*ast.AssignStmt); ok && len(as.Lhs) == len(as.Rhs) {
						for i, l := range as.Lhs {
							if objOf(info, l) == o {
								defs = append(defs, as.Rhs[i])
							}
						}
					}
					return true
				})
				if len(defs) == 1 {
					src = ast.Unparen(defs[0])
				}
			}
		}
		if sel, isSel := src.(*ast.SelectorExpr); isSel {
			// a list kept in a field: shared with the recursive calls when the function assigns it
			if v, ok := info.Uses[sel.Sel].(*types.Var); ok && v.IsField() {
				assigned, recurses := false, false
				ast.Inspect(parseNode.Decl.Body, func(m ast.Node) bool {
					if as, ok := m.(*ast.AssignStmt); ok {
						for _, l := range as.Lhs {
							if ls, ok := ast.Unparen(l).(*ast.SelectorExpr); ok && info.Uses[ls.Sel] == v {
								assigned = true
							}
						}
					}
					return true
				})
				ast.Inspect(rs.Body, func(m ast.Node) bool {
					if cl, ok := m.(*ast.CallExpr); ok && Callee(info, cl) == parseNode.Obj {
						recurses = true
					}
					return true
				})
				if assigned && recurses {
					c.Bad("C19-R3", "parseNode:the list being walked is private to the invocation", rs.Pos(), "the loop ranges over field "+v.Name()+", which parseNode itself assigns, and calls parseNode from its body: the recursive call overwrites the list the outer loop is still walking, so keys after a nested mapping are skipped and the rules below them are lost")
				}
			}
		}
		if cl, ok := src.(*ast.CallExpr); ok && len(cl.Args) == 1 && isObj(info, cl.Args[0], nodeP) {
			switch {
			case isCallTo(info, cl, "internal/parser.mappingNodes"):
				loops = append(loops, loopInfo{rs, "mappingNodes"})
			case isCallTo(info, cl, "internal/parser.unpackNodes"):
				loops = append(loops, loopInfo{rs, "unpackNodes"})
			}
		}
		return true
	})
	// classify each loop by what it does with the element
	var mapLoop, childLoop, groupLoop, ruleLoop *ast.RangeStmt
	for _, l := range loops {
		callsSelf, callsRule, callsGroup := false, false, false
		ast.Inspect(l.rs.Body, func(n ast.Node) bool {
			if cl, ok := n.(*ast.CallExpr); ok {
				switch Callee(info, cl) {
				case parseNode.Obj:
					callsSelf = true
				case parseRule.Obj:
					callsRule = true
				case tryGroup.Obj:
					callsGroup = true
				}
			}
			return true
		})
		switch {
		case l.source == "mappingNodes" && callsSelf:
			mapLoop = l.rs
		case l.source == "unpackNodes" && callsGroup:
			groupLoop = l.rs
		case l.source == "unpackNodes" && callsRule:
			ruleLoop = l.rs
		case l.source == "unpackNodes" && callsSelf:
			childLoop = l.rs
		}
	}
	unconditional := func(rs *ast.RangeStmt, callee *types.Func) (bool, *ast.CallExpr, string) {
		var call *ast.CallExpr
		ast.Inspect(rs.Body, func(n ast.Node) bool {
			if cl, ok := n.(*ast.CallExpr); ok && call == nil && Callee(info, cl) == callee {
				call = cl
			}
			return true
		})
		if call == nil {
			return false, nil, "no call"
		}
		if g := lexicalGuards(pm, call, rs.Body); len(g) > 0 {
			return false, call, "guarded by `" + exprStr(g[0].E) + "`"
		}
		for _, st := range rs.Body.List {
			if st.End() <= call.Pos() && containsBranch(st) {
				return false, call, "an earlier statement of the loop body can skip the element"
			}
		}
		return true, call, ""
	}
	check := func(rs *ast.RangeStmt, key string, callee *types.Func, what string) {
		if rs == nil {
			c.Bad("C19-R3", key, parseNode.Decl.Pos(), "loop not found: "+what)
			return
		}
		ok, call, why := unconditional(rs, callee)
		pos := rs.Pos()
		if call != nil {
			pos = call.Pos()
		}
		c.Check(ok, "C19-R3", key, pos, "unconditional", what+" — "+why)
	}
	check(mapLoop, "parseNode:every mapping value is descended", parseNode.Obj, "rule lists below some keys are never found, so wrapping a strict-valid list under such a key loses its rules")
	check(childLoop, "parseNode:every child of other nodes is descended", parseNode.Obj, "children of document/alias nodes are skipped")
	check(ruleLoop, "parseNode:every sequence element is offered to parseRule", parseRule.Obj, "some elements of a rule list are not parsed")
	check(groupLoop, "parseNode:every groups element is offered to tryParseGroup", tryGroup.Obj, "some elements under `groups` are not examined")
	// the anonymous group is created per rule list: the `group` parameter is
	// (re)assigned only inside the sequence case, so sibling lists under one
	// mapping never share (and re-emit) one group
	{
		var groupP types.Object
		sig := parseNode.Obj.Type().(*types.Signature)
		for i := 0; i < sig.Params().Len(); i++ {
			if typeQName(sig.Params().At(i).Type()) == "internal/parser.Group" {
				groupP = sig.Params().At(i)
			}
		}
		bad := ""
		nAssign := 0
		// a local that starts out as the parameter (`group := group`, as left by the expansion of a
		// helper that received it) stands for the parameter
		alias := map[types.Object]bool{}
		ast.Inspect(parseNode.Decl.Body, func(n ast.Node) bool {
			if as, ok := n.(*ast.AssignStmt); ok && as.Tok == token.DEFINE && len(as.Lhs) == 1 && len(as.Rhs) == 1 && isObj(info, as.Rhs[0], groupP) {
				if o := objOf(info, as.Lhs[0]); o != nil {
					alias[o] = true
				}
			}
			return true
		})
		ast.Inspect(parseNode.Decl.Body, func(n ast.Node) bool {
			as, ok := n.(*ast.AssignStmt)
			if !ok {
				return true
			}
			for _, l := range as.Lhs {
				if !isObj(info, l, groupP) && !(alias[objOf(info, l)] && as.Tok != token.DEFINE) {
					continue
				}
				nAssign++
				cc, _ := enclosingCase(pm, as)
				inSeq := false
				if cc != nil {
					for _, e := range cc.List {
						if k := constObj(info, e); k != nil && k.Name() == "SequenceNode" {
							inSeq = true
						}
					}
				}
				if !inSeq {
					bad = p19pos(c, as.Pos())
				}
			}
			return true
		})
		c.Check(groupP != nil && bad == "" && nAssign >= 1, "C19-R3", "parseNode:anonymous group created per rule list", parseNode.Decl.Pos(), itoa(nAssign)+" assignment(s), all in the sequence case",
			"the group handed down the descent is (re)assigned at "+bad+", outside the case that handles one rule list: two rule lists under the same wrapper mapping then share one group and the earlier list's rules are returned again with every later list")
	}
	// a recognised group's rules are descended, guarded only by tryParseGroup's own verdict
	if groupLoop != nil {
		var self *ast.CallExpr
		ast.Inspect(groupLoop.Body, func(n ast.Node) bool {
			if cl, ok := n.(*ast.CallExpr); ok && Callee(info, cl) == parseNode.Obj {
				self = cl
			}
			return true
		})
		ok := false
		why := "no recursive call for the group's rules"
		if self != nil {
			gs := lexicalGuards(pm, self, groupLoop.Body)
			// the single guard is the boolean returned by tryParseGroup
			if o, truth, single := soleGuard(info, gs); single {
				ok = truth && definedByCall(info, groupLoop.Body, o, tryGroup.Obj)
			}
			// the same guard written as a skip: `g, rules, ok := tryParseGroup(…); if !ok { continue }`
			if !ok && len(gs) == 0 {
				nSkips, good := 0, 0
				for _, st := range groupLoop.Body.List {
					inside := false
					ast.Inspect(st, func(m ast.Node) bool {
						if m == ast.Node(self) {
							inside = true
						}
						return !inside
					})
					if inside {
						break
					}
					ifs, isIf := st.(*ast.IfStmt)
					if !isIf {
						if containsBranch(st) {
							nSkips += 10
						}
						continue
					}
					if !containsBranch(ifs) {
						continue
					}
					nSkips++
					if u, isU := ast.Unparen(ifs.Cond).(*ast.UnaryExpr); isU && u.Op == token.NOT && ifs.Init == nil && ifs.Else == nil && len(ifs.Body.List) == 1 {
						if br, isBr := ifs.Body.List[0].(*ast.BranchStmt); isBr && br.Tok == token.CONTINUE && br.Label == nil {
							if o := objOf(info, u.X); o != nil && definedByCall(info, groupLoop.Body, o, tryGroup.Obj) {
								good++
							}
						}
					}
				}
				ok = nSkips == 1 && good == 1
			}
			if !ok {
				why = "the descent into a recognised group's rules depends on more than tryParseGroup's verdict"
			}
		}
		pos := groupLoop.Pos()
		c.Check(ok, "C19-R3", "parseNode:rules of every recognised group are descended", pos, "guarded only by tryParseGroup's result", why)
	}
	// the rule list result is kept whenever a rule was found
	if ruleLoop != nil {
		var appended bool
		var guard string
		ast.Inspect(ruleLoop.Body, func(n ast.Node) bool {
			cl, ok := n.(*ast.CallExpr)
			if !ok {
				return true
			}
			if id, ok := cl.Fun.(*ast.Ident); ok && id.Name == "append" && len(cl.Args) == 2 && typeQName(info.TypeOf(cl.Args[1])) == "internal/parser.Rule" {
				gs := lexicalGuards(pm, cl, ruleLoop.Body)
				if o, truth, single := soleGuard(info, gs); single && !truth && definedByCall(info, ruleLoop.Body, o, parseRule.Obj) {
					appended = true
				}
				if !appended && len(gs) > 0 {
					guard = exprStr(gs[0].E)
				}
			}
			return true
		})
		c.Check(appended, "C19-R3", "parseNode:every non-empty parseRule result is kept", ruleLoop.Pos(), "guarded only by !isEmpty", "a parsed rule is dropped under a further condition `"+guard+"`")
	}
}

// soleGuard: every fact in gs is about one and the same boolean variable;
// returns that variable and the truth value it is known to have.
func soleGuard(info *types.Info, gs []Atom) (types.Object, bool, bool) {
	var obj types.Object
	truth, have := false, false
	for _, g := range gs {
		if g.Tag != nil {
			return nil, false, false
		}
		bad := false
		ast.Inspect(g.E, func(n ast.Node) bool {
			switch x := n.(type) {
			case *ast.Ident:
				o := info.Uses[x]
				if o == nil {
					return true
				}
				if _, isVar := o.(*types.Var); !isVar {
					return true
				}
				if obj == nil {
					obj = o
				} else if obj != o {
					bad = true
				}
			case *ast.CallExpr, *ast.SelectorExpr:
				bad = true
			}
			return true
		})
		if bad {
			return nil, false, false
		}
		if id, ok := ast.Unparen(g.E).(*ast.Ident); ok && info.Uses[id] == obj {
			truth, have = g.Truth, true
		}
	}
	return obj, truth, have && obj != nil
}

// definedByCall: obj is defined, within body, by an assignment/if-init whose
// right-hand side is a call to callee.
func definedByCall(info *types.Info, body ast.Node, obj types.Object, callee *types.Func) bool {
	found := false
	ast.Inspect(body, func(n ast.Node) bool {
		as, ok := n.(*ast.AssignStmt)
		if !ok || len(as.Rhs) != 1 {
			return true
		}
		cl, ok := ast.Unparen(as.Rhs[0]).(*ast.CallExpr)
		if !ok || Callee(info, cl) != callee {
			return true
		}
		for _, l := range as.Lhs {
			if id, ok := l.(*ast.Ident); ok && (info.Defs[id] == obj || info.Uses[id] == obj) && obj != nil {
				found = true
			}
		}
		return true
	})
	return found
}

func c19OrderIndependent(c *Ctx, tryGroup *FuncInfo) {
	info := tryGroup.Pkg.TypesInfo
	nodeP := paramObj(tryGroup, 0)
	var loop *ast.RangeStmt
	ast.Inspect(tryGroup.Decl.Body, func(n ast.Node) bool {
		if rs, ok := n.(*ast.RangeStmt); ok && loop == nil {
			if cl, ok := ast.Unparen(rs.X).(*ast.CallExpr); ok && len(cl.Args) == 1 && isObj(info, cl.Args[0], nodeP) {
				loop = rs
			}
		}
		return true
	})
	if loop == nil {
		c.Undecided("C19-R4", "tryParseGroup:key loop", tryGroup.Decl.Pos(), "no loop over the group's keys")
		return
	}
	pm := parentMap(loop.Body)
	// objects declared outside the loop and written inside it
	written := map[types.Object]bool{}
	ast.Inspect(loop.Body, func(n ast.Node) bool {
		as, ok := n.(*ast.AssignStmt)
		if !ok {
			return true
		}
		for _, l := range as.Lhs {
			root, _, ok := accessPath(info, l)
			if ok && root != nil && (root.Pos() < loop.Pos() || root.Pos() > loop.End()) {
				written[root] = true
			}
		}
		return true
	})
	reads := 0
	ast.Inspect(loop.Body, func(n ast.Node) bool {
		id, ok := n.(*ast.Ident)
		if !ok {
			return true
		}
		o := info.Uses[id]
		if o == nil || !written[o] {
			return true
		}
		// is this ident (part of) an assignment target?
		var top ast.Node = id
		for {
			par := pm[top]
			if sel, ok := par.(*ast.SelectorExpr); ok && sel.X == top {
				top = par
				continue
			}
			break
		}
		// handing the accumulators back in a return statement is not a
		// dependence between iterations (the guard of that return is inspected
		// like any other expression)
		inReturn := false
		for cur := pm[top]; cur != nil; cur = pm[cur] {
			if _, ok := cur.(*ast.ReturnStmt); ok {
				inReturn = true
			}
		}
		if inReturn {
			return true
		}
		if isLHS(pm, top) {
			if as, ok := pm[top].(*ast.AssignStmt); !ok || as.Tok == token.ASSIGN || as.Tok == token.DEFINE {
				return true
			}
		}
		reads++
		c.Bad("C19-R4", "tryParseGroup:reads `"+exprStr(top.(ast.Expr))+"` inside the key loop", id.Pos(), "an iteration of the key loop reads state that another iteration writes: whether a mapping is recognised as a group now depends on the order of its keys, which strict mode does not care about")
		return true
	})
	if reads == 0 {
		c.Ok("C19-R4", "tryParseGroup:no iteration reads loop-carried state", loop.Pos(), itoa(len(written))+" accumulators, written only")
	}
	// no return inside the loop at all is not required; a return that does not
	// read loop-carried state is order independent. The verdict itself is
	// computed after the loop:
	after := false
	for _, st := range tryGroup.Decl.Body.List {
		if st.Pos() > loop.End() {
			if _, ok := st.(*ast.ReturnStmt); ok {
				after = true
			}
		}
	}
	c.Check(after, "C19-R4", "tryParseGroup:verdict computed after all keys were seen", loop.Pos(), "", "no return after the key loop")
}

// c19GroupKeys cross-checks the key -> Group field tables of the two group parsers.
func c19GroupKeys(c *Ctx, tryGroup, parseGroup *FuncInfo) {
	table := func(fi *FuncInfo) map[string][]string {
		info := fi.Pkg.TypesInfo
		out := map[string][]string{}
		ast.Inspect(fi.Decl.Body, func(n ast.Node) bool {
			cc, ok := n.(*ast.CaseClause)
			if !ok {
				return true
			}
			var keys []string
			for _, e := range cc.List {
				if s, ok := constString(info, e); ok {
					keys = append(keys, s)
				}
			}
			if len(keys) == 0 {
				return true
			}
			fields := map[string]bool{}
			for _, st := range cc.Body {
				ast.Inspect(st, func(m ast.Node) bool {
					if inner, ok := m.(*ast.CaseClause); ok && inner != cc {
						return false
					}
					as, ok := m.(*ast.AssignStmt)
					if !ok {
						return true
					}
					for _, l := range as.Lhs {
						if sel, ok := l.(*ast.SelectorExpr); ok && fieldOwner(info, sel) == "internal/parser.Group" && sel.Sel.Name != "Error" && sel.Sel.Name != "Rules" {
							fields[sel.Sel.Name] = true
						}
					}
					return true
				})
			}
			for _, k := range keys {
				out[k] = append(out[k], sortedKeys(fields)...)
			}
			return true
		})
		return out
	}
	rel, str := table(tryGroup), table(parseGroup)
	n := 0
	for _, k := range sortedKeys(str) {
		if len(str[k]) == 0 {
			continue
		}
		n++
		c.Check(strings.Join(rel[k], ",") == strings.Join(str[k], ","), "C19-R5", "group key "+k+" stored in the same field by both parsers", tryGroup.Decl.Pos(), strings.Join(str[k], ","),
			"strict mode stores group key `"+k+"` in "+strings.Join(str[k], ",")+" but relaxed mode in ["+strings.Join(rel[k], ",")+"]: the same file yields different groups")
	}
	c.Check(n >= 5, "C19-R5", "group keys compared", parseGroup.Decl.Pos(), itoa(n), "fewer than 5 group keys with a field found in the strict parser")
}

func p19pos(c *Ctx, pos token.Pos) string { return c.P.Pos(pos) }

// reachFuncs: module functions reachable from the roots through static calls
// (and function values mentioned by name).
func reachFuncs(p *Prog, roots ...*FuncInfo) map[*FuncInfo]bool {
	seen := map[*FuncInfo]bool{}
	work := append([]*FuncInfo{}, roots...)
	for len(work) > 0 {
		fi := work[len(work)-1]
		work = work[:len(work)-1]
		if fi == nil || seen[fi] || fi.Decl.Body == nil {
			continue
		}
		seen[fi] = true
		info := fi.Pkg.TypesInfo
		ast.Inspect(fi.Decl.Body, func(n ast.Node) bool {
			if id, ok := n.(*ast.Ident); ok {
				if fn, isFn := info.Uses[id].(*types.Func); isFn {
					if callee := p.FuncOf(fn); callee != nil && !seen[callee] {
						work = append(work, callee)
					}
				}
			}
			return true
		})
	}
	return seen
}

// c19AliasSharedByBothModes: yaml aliases (`rules: *anchor`, `<<: *base`) are
// resolved only by code that both parser modes run. A function that follows
// Node.Alias and is reachable from only one of the two entry points —
// parseGroups for strict mode, Parser.parseNode for relaxed mode — makes that
// mode see rules (or fields) the other one does not.
func c19AliasSharedByBothModes(c *Ctx) {
	R := "C19-R5"
	p := c.P
	strict := c.MustFunc(R, "internal/parser.parseGroups")
	relaxed := c.MustFunc(R, "internal/parser.Parser.parseNode")
	if strict == nil || relaxed == nil {
		return
	}
	rs, rr := reachFuncs(p, strict), reachFuncs(p, relaxed)
	n := 0
	for _, fi := range p.AllFuncs() {
		if fi.Decl.Body == nil || p.IsTestFile(fi.Decl.Pos()) || relPkg(fi.Pkg.PkgPath) != "internal/parser" {
			continue
		}
		info := fi.Pkg.TypesInfo
		reads := token.NoPos
		ast.Inspect(fi.Decl.Body, func(nd ast.Node) bool {
			if sel, ok := nd.(*ast.SelectorExpr); ok && sel.Sel.Name == "Alias" && strings.HasSuffix(fieldOwner(info, sel), ".Node") && strings.Contains(fieldOwner(info, sel), "yaml") && reads == token.NoPos {
				reads = sel.Pos()
			}
			return true
		})
		if reads == token.NoPos || (!rs[fi] && !rr[fi]) {
			continue
		}
		n++
		c.Check(rs[fi] == rr[fi], R, strings.TrimPrefix(fi.Name, "internal/parser.")+":alias resolution is shared by both modes", reads, "reachable from parseGroups and from parseNode",
			"this function follows a yaml alias and is reachable from "+map[bool]string{true: "strict", false: "relaxed"}[rs[fi]]+" mode only: a group or field written as an alias is parsed in one mode and not in the other, so the two modes no longer find the same rules")
	}
	c.Check(n >= 1, R, "alias-resolving functions of internal/parser enumerated", token.NoPos, itoa(n), "no function reads yaml.Node.Alias")
}

// c19RecognitionIsStructural: relaxed mode decides that a mapping is a rule
// group from its STRUCTURE — it has a name and a rules list — exactly as strict
// mode reads the same mapping. tryParseGroup never answers "not a group"
// because of the value of an optional attribute (interval, limit, query_offset,
// labels, …): inside the case of such a key there is no return, and the final
// verdict does not read what those cases stored. A limit written as `1_000` or
// `0x10` is a YAML integer strict mode accepts; relaxed mode must not drop the
// group's rules over it.
func c19RecognitionIsStructural(c *Ctx) {
	R := "C19-R4"
	fi := c.MustFunc(R, "internal/parser.tryParseGroup")
	if fi == nil {
		return
	}
	info := fi.Pkg.TypesInfo
	structural := map[string]bool{"name": true, "rules": true}
	n, bad := 0, ""
	badPos := fi.Decl.Pos()
	ast.Inspect(fi.Decl.Body, func(nd ast.Node) bool {
		cc, ok := nd.(*ast.CaseClause)
		if !ok || len(cc.List) == 0 {
			return true
		}
		optional := false
		for _, e := range cc.List {
			if v, isC := constString(info, e); isC && !structural[v] {
				optional = true
			}
		}
		if !optional {
			return true
		}
		n++
		for _, st := range cc.Body {
			inspectNoLit(st, func(m ast.Node) bool {
				switch x := m.(type) {
				case *ast.ReturnStmt:
					bad, badPos = "a return in the case of "+exprStr(cc.List[0]), x.Pos()
				case *ast.BranchStmt:
					if x.Tok == token.GOTO || (x.Tok == token.BREAK && x.Label != nil) {
						bad, badPos = "a jump out of the key loop in the case of "+exprStr(cc.List[0]), x.Pos()
					}
				}
				return true
			})
		}
		return true
	})
	c.Check(n >= 3 && bad == "", R, "tryParseGroup:optional attributes never decide whether a mapping is a group", badPos, itoa(n)+" optional keys, none leaves the function",
		bad+" lets the value of an optional group attribute decide that the mapping is not a rule group: relaxed mode then drops every rule of a group that strict mode parses (a `limit` written in a YAML integer notation strconv.Atoi does not read, say)")
}
