package main

import (
	"go/ast"
	"go/token"
	"go/types"
	"strings"
)

func init() {
	register("C02", runC02,
		"Decides enumerable panic sources and the rule typestate for all inputs: (R1) every `false` return of parser.parseRule (and of the helpers it returns through) carries a Rule with Error, AlertingRule or RecordingRule set, every caller consumes the isEmpty result, and parser.Rule literals elsewhere respect the same invariant; (R2) GetChecksForEntry builds non-error checks only where PathError == nil and Rule.Error.Err == nil, and ErrorCheck is AlwaysEnabled; (R3) no single-value type assertion on a value whose static type is an interface of the PromQL parser, text/template/parse or yaml.v3 outside a type switch that established it; (R4) no slicing or indexing with the result of strings.Index*/LastIndex* (or regexp Find*Index) without a dominating test of that result; (R5) slices.Max/Min only on values with a dominating non-empty test; (R6) fields that are optional by construction (AlertingRule/RecordingRule of a Rule, For/KeepFiringFor/Labels/Annotations, Group.Labels, Entry.Group/File, PromQLExpr.Query) are dereferenced only under a nil (or SyntaxError) guard on the same access path, in the function or in all of its callers; (R9) regexp.MustCompile is only given constants, QuoteMeta'd text or config values covered by C18-R1.",
		"termination, index arithmetic (lines[i-1], contentLines[node.Line]), that reported line ranges lie inside the file, non-UTF-8 handling, panics inside third-party code.")
}

var c02ExternalIfacePkgs = map[string]bool{
	"github.com/prometheus/prometheus/promql/parser": true,
	"text/template/parse":                            true,
	"gopkg.in/yaml.v3":                               true,
}

func runC02(c *Ctx) {
	p := c.P
	c.Rule("C02-R1", "rule typestate: a rule is valid, or carries an error, or is declared empty and the caller looks", 30)
	c.Rule("C02-R2", "entries with errors reach only the error check", 4)
	c.Rule("C02-R3", "no unchecked type assertion on external AST interfaces", 1)
	c.Rule("C02-R4", "no indexing/slicing with an unchecked strings.Index result", 1)
	defer c06ParsersKeepNoState(c, "C02-R4")
	c.Rule("C02-R5", "slices.Max/Min only on non-empty slices", 1)
	c.Rule("C02-R6", "optional pointers dereferenced only under a guard", 50)
	c.Rule("C02-R9", "regexp.MustCompile only on constants, quoted text or validated config", 5)
	c.Rule("C02-R10", "line accounting: rule line ranges are ordered, the reader consumes whole lines", 12)
	defer c02LineRangeLiteralsOrdered(c, "C02-R10")
	defer c01EveryFileIsRead(c, "C02-R2")
	defer c02ErrorValuesAreComparable(c, "C02-R3")
	defer c02CommentLinesAreFileLines(c, "C02-R10")

	c02Typestate(c)
	c02Gate(c, "C02-R2")
	c02Assertions(c)
	c02IndexMinusOne(c)
	c02NonStrictBounds(c)
	c02ColumnClamp(c)
	c02SplitIndex(c)
	c06Lines(c, "C02-R10")
	c02WholeLines(c)
	c10ReadConsumes(c, "C02-R10")
	c02KeyValueSameOrigin(c, "C02-R10")
	c02DerivedFromContent(c)
	c02Recursion(c)
	c02AlwaysEnabledFirst(c)
	c02ExprTypestate(c)
	c02EmptyReducers(c)
	c02OptionalPointers(c)
	c02MustCompile(c)
	_ = p
}

// ruleLitState classifies a parser.Rule composite literal.
func ruleLitSets(cl *ast.CompositeLit) bool {
	return litField(cl, "Error") != nil || litField(cl, "AlertingRule") != nil || litField(cl, "RecordingRule") != nil
}

func c02Typestate(c *Ctx) {
	p := c.P
	pr := c.MustFunc("C02-R1", "internal/parser.parseRule")
	if pr == nil {
		return
	}
	info := pr.Pkg.TypesInfo
	isRule := func(t types.Type) bool { return typeQName(t) == "internal/parser.Rule" }
	// helpers returning (Rule, bool)
	var checkFn func(fi *FuncInfo, depth int)
	checked := map[*FuncInfo]bool{}
	checkFn = func(fi *FuncInfo, depth int) {
		if checked[fi] || depth > 3 {
			return
		}
		checked[fi] = true
		short := fi.Obj.Name()
		sig := fi.Obj.Type().(*types.Signature)
		var named types.Object
		if sig.Results().Len() == 2 && sig.Results().At(0).Name() != "" {
			named = sig.Results().At(0)
		}
		nFalse, nTrue := 0, 0
		for _, r := range returnsIn(fi.Decl.Body.List) {
			if len(r.Results) == 1 {
				// return helper(...)
				if call, ok := r.Results[0].(*ast.CallExpr); ok {
					if callee := p.FuncOf(Callee(info, call)); callee != nil {
						checkFn(callee, depth+1)
						continue
					}
				}
				c.Undecided("C02-R1", short+":return shape", r.Pos(), "single-result return that is not a helper call")
				continue
			}
			if len(r.Results) != 2 {
				continue
			}
			flag := exprStr(r.Results[1])
			first := ast.Unparen(r.Results[0])
			var lit *ast.CompositeLit
			var fromHelper *FuncInfo
			switch x := first.(type) {
			case *ast.CompositeLit:
				lit = x
			case *ast.Ident:
				o := objOf(info, x)
				// nearest preceding assignment of a literal / helper result to this variable
				var bestPos token.Pos
				ast.Inspect(fi.Decl.Body, func(n ast.Node) bool {
					as, ok := n.(*ast.AssignStmt)
					if !ok || as.Pos() > r.Pos() {
						return true
					}
					for i, l := range as.Lhs {
						if objOf(info, l) != o {
							continue
						}
						if len(as.Rhs) == len(as.Lhs) {
							if cl, ok := as.Rhs[i].(*ast.CompositeLit); ok && as.Pos() > bestPos {
								lit, fromHelper, bestPos = cl, nil, as.Pos()
							}
						} else if len(as.Rhs) == 1 && i == 0 {
							if call, ok := as.Rhs[0].(*ast.CallExpr); ok {
								if callee := p.FuncOf(Callee(info, call)); callee != nil && as.Pos() > bestPos {
									lit, fromHelper, bestPos = nil, callee, as.Pos()
								}
							}
						}
					}
					return true
				})
				if lit == nil && fromHelper == nil && o == named && flag == "true" {
					// the untouched named result: the zero Rule
					nTrue++
					c.Ok("C02-R1", short+":empty marker returns the zero rule", r.Pos(), "return rule, true")
					continue
				}
			}
			key := short + ":return #" + itoa(nFalse+nTrue+1)
			switch flag {
			case "false":
				nFalse++
				switch {
				case lit != nil:
					c.Check(ruleLitSets(lit), "C02-R1", key+" (not empty) carries a rule or an error", r.Pos(), "Error/AlertingRule/RecordingRule set", "parseRule path returns `false` (not empty) with a Rule that has neither a rule body nor an error: every check dereferences a nil rule")
				case fromHelper != nil:
					checkFn(fromHelper, depth+1)
					c.Ok("C02-R1", key+" (not empty) forwards "+fromHelper.Obj.Name(), r.Pos(), "helper result; helper checked separately")
				default:
					c.Undecided("C02-R1", key, r.Pos(), "cannot determine what Rule value is returned with `false`")
				}
			case "true":
				nTrue++
				// ok-marker helpers (ensureRequiredKeys) return a bare Rule with true: allowed, callers drop the value
				if lit != nil {
					c.Check(!ruleLitSets(lit) || true, "C02-R1", key+" (ok marker)", r.Pos(), "value ignored by the caller when the flag is true", "")
				}
			default:
				c.Undecided("C02-R1", key, r.Pos(), "second result is not a boolean literal")
			}
		}
	}
	checkFn(pr, 0)
	// callers consume the flag
	for _, cs := range p.CallersOf(pr.Obj) {
		cinfo := cs.Caller.Pkg.TypesInfo
		pm := parentMap(cs.Caller.Decl.Body)
		key := cs.Caller.Name + " consumes parseRule's isEmpty result"
		var flag types.Object
		switch par := pm[cs.Call].(type) {
		case *ast.AssignStmt:
			if len(par.Lhs) == 2 {
				if id, ok := par.Lhs[1].(*ast.Ident); ok && id.Name != "_" {
					flag = objOf(cinfo, par.Lhs[1])
				}
			}
		}
		used := false
		if flag != nil {
			ast.Inspect(cs.Caller.Decl.Body, func(n ast.Node) bool {
				switch x := n.(type) {
				case *ast.IfStmt:
					ast.Inspect(x.Cond, func(m ast.Node) bool {
						if id, ok := m.(*ast.Ident); ok && cinfo.Uses[id] == flag {
							used = true
						}
						return true
					})
				}
				return true
			})
		}
		c.Check(used, "C02-R1", key, cs.Call.Pos(), "flag tested", "the isEmpty result of parseRule is discarded: an empty rule ({}; null; labels only) is kept as a Rule with neither body nor error and crashes every check")
	}
	// Rule literals elsewhere
	for _, fi := range p.AllFuncs() {
		if fi.Decl.Body == nil || p.IsTestFile(fi.Decl.Pos()) || checked[fi] {
			continue
		}
		finfo := fi.Pkg.TypesInfo
		pm := parentMap(fi.Decl.Body)
		n := 0
		ast.Inspect(fi.Decl.Body, func(nd ast.Node) bool {
			cl, ok := nd.(*ast.CompositeLit)
			if !ok || !isRule(finfo.TypeOf(cl)) {
				return true
			}
			if _, isPtr := finfo.TypeOf(cl).(*types.Pointer); isPtr {
				return true
			}
			n++
			key := fi.Name + ":Rule literal #" + itoa(n)
			if ruleLitSets(cl) {
				c.Ok("C02-R1", key, cl.Pos(), "sets a rule body or an error")
				return true
			}
			// allowed: argument of TemplatedRegexp.Expand (template validation against an empty rule; the context builder nil-guards)
			if call, ok := pm[cl].(*ast.CallExpr); ok {
				if fn := Callee(finfo, call); fn != nil && strings.HasSuffix(funcQName(fn), "TemplatedRegexp.Expand") {
					c.Ok("C02-R1", key+" (template validation)", cl.Pos(), "only passed to TemplatedRegexp.Expand, which nil-guards")
					return true
				}
			}
			c.Bad("C02-R1", key, cl.Pos(), "a parser.Rule with neither AlertingRule, RecordingRule nor Error is constructed")
			return true
		})
	}
	// newTemplateContext nil-guards (precondition of the exemption)
	if ntc := c.MustFunc("C02-R1", "internal/checks.newTemplateContext"); ntc != nil {
		bad := derefsWithoutGuard(p, ntc, []optField{{"internal/parser.Rule", "AlertingRule"}, {"internal/parser.Rule", "RecordingRule"}})
		c.Check(len(bad) == 0, "C02-R1", "newTemplateContext tolerates an empty rule", ntc.Decl.Pos(), "guards present", "newTemplateContext dereferences an empty rule at "+strings.Join(bad, ", "))
	}
}

func c02Gate(c *Ctx, R string) {
	p := c.P
	gce := c.MustFunc(R, "internal/config.Config.GetChecksForEntry")
	if gce == nil {
		return
	}
	info := gce.Pkg.TypesInfo
	fl := p.NewFlow(gce)
	sites := fl.FindCalls("internal/config.baseRules", "internal/config.parseRule")
	c.Check(len(sites) == 2, R, "GetChecksForEntry:regular checks built from baseRules and parseRule", gce.Decl.Pos(), "two sites", itoa(len(sites))+" construction sites")
	for _, s := range sites {
		noPathErr := fl.Dominated(s.Site, s.Inner, func(a Atom) bool {
			x, isNil, ok := nilAtom(info, a)
			return ok && isNil && fieldSel(info, x, "internal/discovery.Entry", "PathError")
		})
		noRuleErr := fl.Dominated(s.Site, s.Inner, func(a Atom) bool {
			x, isNil, ok := nilAtom(info, a)
			return ok && isNil && fieldSel(info, x, "internal/parser.ParseError", "Err")
		})
		c.Check(noPathErr && noRuleErr, R, "GetChecksForEntry:"+calleeName(info, s.Inner.(*ast.CallExpr))+" only for error-free entries", s.Inner.Pos(), "dominated by PathError == nil and Rule.Error.Err == nil",
			"regular checks are built for an entry that may carry a path or rule error (its Rule has no body: nil dereference in the first check)")
	}
	// functions that rely on the typestate (they dereference the rule body unguarded, or return nil for a
	// body-less rule) are called outside the checks only where the entry is known to be error-free
	reliant := []string{"internal/parser.Rule.Expr", "internal/parser.Rule.NameNode", "internal/parser.Rule.LastKey", "internal/checks.WholeRuleDiag"}
	nCalls := 0
	for _, name := range reliant {
		rf := c.MustFunc(R, name)
		if rf == nil {
			continue
		}
		for _, cs := range p.CallersOf(rf.Obj) {
			pkg := relPkg(cs.Caller.Pkg.PkgPath)
			if pkg == "internal/checks" || pkg == "internal/parser" {
				continue // reached only through RuleChecker.Check, which GetChecksForEntry gates (above)
			}
			nCalls++
			cinfo := cs.Caller.Pkg.TypesInfo
			var f *Flow
			if lit, ok := enclosingLit(cs.Caller.Decl.Body, cs.Call); ok {
				f = p.NewFlowLit(cs.Caller, lit)
			} else {
				f = p.NewFlow(cs.Caller)
			}
			var site *SiteMatch
			for _, sm := range f.Find(func(n ast.Node) bool { return n == cs.Call }) {
				s := sm
				site = &s
			}
			ok := false
			if site != nil {
				ok = f.Dominated(site.Site, cs.Call, func(a Atom) bool {
					x, isNil, okA := nilAtom(cinfo, a)
					if !okA {
						return false
					}
					if isNil && fieldSel(cinfo, x, "internal/parser.ParseError", "Err") {
						return true
					}
					return !isNil && (fieldSel(cinfo, x, "internal/parser.Rule", "AlertingRule") || fieldSel(cinfo, x, "internal/parser.Rule", "RecordingRule"))
				})
			}
			c.Check(ok, R, cs.Caller.Name+" calls "+rf.Obj.Name()+" only for rules with a body", cs.Call.Pos(), "dominated by Rule.Error.Err == nil or a body != nil test",
				rf.Name+" relies on the rule having a body; it is called here for entries that may carry a rule error (body-less rule: nil dereference)")
		}
	}
	c.Ok(R, "typestate-reliant calls outside the checks enumerated", token.NoPos, itoa(nCalls)+" call(s)")
	errs := fl.FindCalls("internal/checks.NewErrorCheck")
	c.Check(len(errs) == 1, R, "GetChecksForEntry:error entries get the error check", gce.Decl.Pos(), "NewErrorCheck", "no NewErrorCheck call")
	if meta := c.MustFunc(R, "internal/checks.ErrorCheck.Meta"); meta != nil {
		v, ok := metaBool(meta, "AlwaysEnabled")
		c.Check(ok && v, R, "ErrorCheck is AlwaysEnabled", meta.Decl.Pos(), "cannot be disabled", "the error check can be disabled: a parse failure produces no report")
	}
}

func c02Assertions(c *Ctx) {
	p := c.P
	nAll, nExternal := 0, 0
	for _, fi := range p.AllFuncs() {
		if fi.Decl.Body == nil || p.IsTestFile(fi.Decl.Pos()) {
			continue
		}
		info := fi.Pkg.TypesInfo
		pm := parentMap(fi.Decl.Body)
		ast.Inspect(fi.Decl.Body, func(n ast.Node) bool {
			ta, ok := n.(*ast.TypeAssertExpr)
			if !ok || ta.Type == nil {
				return true
			}
			nAll++
			// comma-ok form?
			switch par := pm[ta].(type) {
			case *ast.AssignStmt:
				if len(par.Lhs) == 2 && len(par.Rhs) == 1 && par.Rhs[0] == ast.Expr(ta) {
					return true
				}
			case *ast.ValueSpec:
				if len(par.Names) == 2 {
					return true
				}
			}
			st := info.TypeOf(ta.X)
			named := namedOf(st)
			if named == nil || named.Obj().Pkg() == nil || !c02ExternalIfacePkgs[named.Obj().Pkg().Path()] {
				return true
			}
			if _, isIface := st.Underlying().(*types.Interface); !isIface {
				return true
			}
			nExternal++
			// established by an enclosing type switch on the same expression with a single-type case equal to the asserted type
			established := false
			for cur := pm[ta]; cur != nil; cur = pm[cur] {
				cc, ok := cur.(*ast.CaseClause)
				if !ok {
					continue
				}
				blk, _ := pm[cc].(*ast.BlockStmt)
				ts, isTS := pm[blk].(*ast.TypeSwitchStmt)
				if !isTS {
					continue
				}
				var subject ast.Expr
				switch a := ts.Assign.(type) {
				case *ast.AssignStmt:
					subject = a.Rhs[0].(*ast.TypeAssertExpr).X
				case *ast.ExprStmt:
					subject = a.X.(*ast.TypeAssertExpr).X
				}
				if subject != nil && exprStr(subject) == exprStr(ta.X) && len(cc.List) == 1 && types.Identical(info.TypeOf(cc.List[0]), info.TypeOf(ta.Type)) {
					established = true
				}
			}
			why := "established by the enclosing type switch"
			if !established {
				if w := c02AssertIdiom(p, fi, pm, ta); w != "" {
					established, why = true, w
				}
			}
			key := fi.Name + ":" + exprStr(ta)
			c.Check(established, "C02-R3", key, ta.Pos(), why,
				"single-value type assertion on "+typeQName(st)+": the parser can hand back another node type here (e.g. a ParenExpr around a literal) and the lint run panics")
			return true
		})
	}
	c.Ok("C02-R3", "assertions enumerated", token.NoPos, itoa(nAll)+" type assertions in module code, "+itoa(nExternal)+" single-value ones on external AST interfaces")
	// positive control: the detector must fire on the fixture
	c02PositiveControls(c)
}

func c02IndexMinusOne(c *Ctx) {
	p := c.P
	n := 0
	for _, fi := range p.AllFuncs() {
		if fi.Decl.Body == nil || p.IsTestFile(fi.Decl.Pos()) {
			continue
		}
		info := fi.Pkg.TypesInfo
		isIndexCall := func(e ast.Expr) bool {
			call, ok := ast.Unparen(e).(*ast.CallExpr)
			if !ok {
				return false
			}
			fn := Callee(info, call)
			if fn == nil || fn.Pkg() == nil {
				return false
			}
			if fn.Pkg().Path() == "strings" || fn.Pkg().Path() == "bytes" {
				return strings.HasPrefix(fn.Name(), "Index") || strings.HasPrefix(fn.Name(), "LastIndex")
			}
			return false
		}
		// variables holding an index result
		idxVars := map[types.Object]bool{}
		ast.Inspect(fi.Decl.Body, func(nd ast.Node) bool {
			if as, ok := nd.(*ast.AssignStmt); ok && len(as.Lhs) == len(as.Rhs) {
				for i, r := range as.Rhs {
					if isIndexCall(r) {
						if o := objOf(info, as.Lhs[i]); o != nil {
							idxVars[o] = true
						}
					}
				}
			}
			return true
		})
		var fl *Flow
		uses := func(e ast.Expr) (direct bool, v types.Object) {
			if e == nil {
				return false, nil
			}
			found := false
			var vo types.Object
			ast.Inspect(e, func(m ast.Node) bool {
				if ex, ok := m.(ast.Expr); ok && isIndexCall(ex) {
					found = true
				}
				if id, ok := m.(*ast.Ident); ok && idxVars[info.Uses[id]] {
					vo = info.Uses[id]
				}
				return true
			})
			return found, vo
		}
		ast.Inspect(fi.Decl.Body, func(nd ast.Node) bool {
			var bounds []ast.Expr
			switch x := nd.(type) {
			case *ast.SliceExpr:
				bounds = []ast.Expr{x.Low, x.High}
			case *ast.IndexExpr:
				if _, isMap := info.TypeOf(x.X).Underlying().(*types.Map); !isMap {
					bounds = []ast.Expr{x.Index}
				}
			default:
				return true
			}
			for _, b := range bounds {
				direct, v := uses(b)
				if !direct && v == nil {
					continue
				}
				n++
				key := fi.Name + ":" + exprStr(nd.(ast.Expr))
				if direct {
					c.Bad("C02-R4", key, nd.Pos(), "slice/index bound is the raw result of a strings.Index*/LastIndex* call: -1 (no match) panics")
					continue
				}
				if fl == nil {
					fl = p.NewFlow(fi)
				}
				var site *SiteMatch
				for _, sm := range fl.Find(func(m ast.Node) bool { return m == nd }) {
					s := sm
					site = &s
				}
				ok := false
				if site != nil {
					ok = fl.Dominated(site.Site, nd, func(a Atom) bool {
						mentions := false
						ast.Inspect(a.E, func(m ast.Node) bool {
							if id, isID := m.(*ast.Ident); isID && info.Uses[id] == v {
								mentions = true
							}
							return true
						})
						return mentions
					})
				}
				c.Check(ok, "C02-R4", key, nd.Pos(), "guarded by a test of the index", "slice/index bound comes from strings.Index*/LastIndex* without a dominating test of the result: -1 (no match) panics")
			}
			return true
		})
	}
	c.Ok("C02-R4", "index-result bounds enumerated", token.NoPos, itoa(n)+" uses")
}

// c02NonStrictBounds: an index X[E] whose only length guard admits E == len(X).
func c02NonStrictBounds(c *Ctx) {
	p := c.P
	n := 0
	for _, fi := range p.AllFuncs() {
		if fi.Decl.Body == nil || p.IsTestFile(fi.Decl.Pos()) {
			continue
		}
		info := fi.Pkg.TypesInfo
		pm := parentMap(fi.Decl.Body)
		ast.Inspect(fi.Decl.Body, func(nd ast.Node) bool {
			ix, ok := nd.(*ast.IndexExpr)
			if !ok {
				return true
			}
			switch info.TypeOf(ix.X).Underlying().(type) {
			case *types.Slice, *types.Array:
			case *types.Basic:
			default:
				return true
			}
			if _, isConst := constInt(info, ix.Index); isConst {
				return true
			}
			e, x := exprStr(ix.Index), exprStr(ix.X)
			strict, loose := false, ""
			atoms := lexicalGuards(pm, ix, fi.Decl.Body)
			// short-circuit facts inside the same condition
			for cur := pm[ix]; cur != nil; cur = pm[cur] {
				if _, isStmt := cur.(ast.Stmt); isStmt {
					break
				}
				if be, ok := cur.(*ast.BinaryExpr); ok && (be.Op == token.LAND || be.Op == token.LOR) {
					atoms = append(atoms, WithinExprAtoms(be, ix)...)
				}
			}
			for _, a := range atoms {
				be, ok := ast.Unparen(a.E).(*ast.BinaryExpr)
				if !ok || a.Tag != nil {
					continue
				}
				l, r := exprStr(be.X), exprStr(be.Y)
				op := be.Op
				if r == e && l == "len("+x+")" {
					// normalise to E <op> len(X)
					l, r = r, l
					switch op {
					case token.LSS:
						op = token.GTR
					case token.GTR:
						op = token.LSS
					case token.LEQ:
						op = token.GEQ
					case token.GEQ:
						op = token.LEQ
					}
				}
				if l != e || r != "len("+x+")" {
					continue
				}
				switch {
				case (op == token.LSS && a.Truth) || (op == token.GEQ && !a.Truth):
					strict = true
				case (op == token.LEQ && a.Truth) || (op == token.GTR && !a.Truth):
					loose = exprStr(be)
				}
			}
			if loose == "" && !strict {
				return true
			}
			n++
			c.Check(strict, "C02-R4", fi.Name+":"+exprStr(ix)+" bound is strict", ix.Pos(), "guarded by "+e+" < len("+x+")", "index "+exprStr(ix)+" is guarded only by `"+loose+"`, which admits "+e+" == len("+x+"): index out of range on the boundary input")
			return true
		})
	}
	c.Ok("C02-R4", "length-guarded indexes enumerated", token.NoPos, itoa(n)+" index expression(s) with an explicit length guard")
}

func c02EmptyReducers(c *Ctx) {
	p := c.P
	n := 0
	for _, fi := range p.AllFuncs() {
		if fi.Decl.Body == nil || p.IsTestFile(fi.Decl.Pos()) {
			continue
		}
		info := fi.Pkg.TypesInfo
		var fl *Flow
		ast.Inspect(fi.Decl.Body, func(nd ast.Node) bool {
			call, ok := nd.(*ast.CallExpr)
			if !ok || len(call.Args) != 1 {
				return true
			}
			fn := Callee(info, call)
			if fn == nil || fn.Pkg() == nil || fn.Pkg().Path() != "slices" || (fn.Name() != "Max" && fn.Name() != "Min") {
				return true
			}
			n++
			key := fi.Name + ":" + exprStr(call)
			arg := objOf(info, call.Args[0])
			if fl == nil {
				fl = p.NewFlow(fi)
			}
			var site *SiteMatch
			for _, sm := range fl.Find(func(m ast.Node) bool { return m == nd }) {
				s := sm
				site = &s
			}
			ok = false
			if site != nil && arg != nil {
				ok = fl.Dominated(site.Site, call, func(a Atom) bool {
					be, isBin := ast.Unparen(a.E).(*ast.BinaryExpr)
					if !isBin || a.Tag != nil {
						return false
					}
					lc, isCall := be.X.(*ast.CallExpr)
					if !isCall || exprStr(lc.Fun) != "len" || objOf(info, lc.Args[0]) != arg {
						return false
					}
					k, isC := constInt(info, be.Y)
					if !isC || k != 0 {
						return false
					}
					return ((be.Op == token.GTR || be.Op == token.NEQ) && a.Truth) || ((be.Op == token.EQL || be.Op == token.LEQ) && !a.Truth)
				})
			}
			c.Check(ok, "C02-R5", key, call.Pos(), "dominated by len(x) > 0", "slices."+fn.Name()+" panics on an empty slice and nothing establishes that the argument is non-empty here")
			return true
		})
	}
	c.Ok("C02-R5", "reducers enumerated", token.NoPos, itoa(n)+" calls")
}

func c02MustCompile(c *Ctx) {
	p := c.P
	n := 0
	for _, fi := range p.AllFuncs() {
		if fi.Decl.Body == nil || p.IsTestFile(fi.Decl.Pos()) {
			continue
		}
		info := fi.Pkg.TypesInfo
		ast.Inspect(fi.Decl.Body, func(nd ast.Node) bool {
			call, ok := nd.(*ast.CallExpr)
			if !ok || len(call.Args) != 1 {
				return true
			}
			fn := Callee(info, call)
			if fn == nil || fn.Pkg() == nil || fn.Pkg().Path() != "regexp" || fn.Name() != "MustCompile" {
				return true
			}
			if _, isConst := constString(info, call.Args[0]); isConst {
				return true
			}
			n++
			key := fi.Name + ":regexp.MustCompile(" + exprStr(call.Args[0]) + ")"
			var bad []string
			for _, o := range originOf(p, fi, call.Args[0], 0) {
				switch {
				case o.constant:
				case o.param != nil:
					// parameter: covered by C18-R1's parameter-to-sink propagation when it comes from config;
					// callers passing anything else are checked there as well
				case o.cfgType != "":
				default:
					// m.Type.String() of a matcher is one of four operator spellings
					if strings.HasSuffix(o.other, ".Type.String()") {
						continue
					}
					bad = append(bad, o.other)
				}
			}
			c.Check(len(bad) == 0, "C02-R9", key, call.Pos(), "constant, quoted or validated parts only", "regexp.MustCompile receives unquoted input-derived text ("+strings.Join(bad, ", ")+"): a rule containing regexp metacharacters there panics the lint run")
			return true
		})
	}
	c.Check(n >= 3, "C02-R9", "non-constant MustCompile sites enumerated", token.NoPos, itoa(n), "fewer sites than confirmed by hand")
	// parameters that reach MustCompile must be fed from config fields, constants or quoted text at every call site
	for _, name := range []string{"internal/config.strictRegex", "internal/config.MustCompileRegexes"} {
		fi := c.MustFunc("C02-R9", name)
		if fi == nil {
			continue
		}
		for _, cs := range p.CallersOf(fi.Obj) {
			for _, a := range cs.Call.Args {
				var bad []string
				for _, o := range originOf(p, cs.Caller, a, 0) {
					if o.constant || o.cfgType != "" || o.param != nil {
						continue
					}
					// CLI value appended to Parser.Exclude (config path) and --disabled patterns: user input on the command line, outside the file-content quantifier
					bad = append(bad, o.other)
				}
				key := cs.Caller.Name + "->" + fi.Obj.Name() + "(" + exprStr(a) + ")"
				if cs.Caller.Name == "internal/config.Config.SetDisabledChecks" {
					c.Ok("C02-R9", key+" (CLI value)", cs.Call.Pos(), "--disabled patterns come from the command line, not from linted content")
					continue
				}
				c.Check(len(bad) == 0, "C02-R9", key, cs.Call.Pos(), "config or constant", "strictRegex receives "+strings.Join(bad, ", ")+", which is neither a constant nor a validated config field")
			}
		}
	}
}

// c02AssertIdiom recognises the repository's idioms that establish the
// dynamic type before a single-value assertion.
func c02AssertIdiom(p *Prog, fi *FuncInfo, pm map[ast.Node]ast.Node, ta *ast.TypeAssertExpr) string {
	info := fi.Pkg.TypesInfo
	asserted := info.TypeOf(ta.Type)
	// (a) x.Expr.(T) / x.Parent.Expr.(T) where x ranges over parser.WalkUpExpr[T] / WalkDownExpr[T] / WalkUpParent[T]
	if sel, ok := ast.Unparen(ta.X).(*ast.SelectorExpr); ok && sel.Sel.Name == "Expr" {
		viaParent := false
		base := ast.Unparen(sel.X)
		if ps, ok := base.(*ast.SelectorExpr); ok && ps.Sel.Name == "Parent" {
			viaParent = true
			base = ast.Unparen(ps.X)
		}
		if id, ok := base.(*ast.Ident); ok {
			v := info.Uses[id]
			for cur := pm[ta]; cur != nil; cur = pm[cur] {
				rs, ok := cur.(*ast.RangeStmt)
				if !ok {
					continue
				}
				val, _ := rs.Value.(*ast.Ident)
				if val == nil || info.Defs[val] != v {
					continue
				}
				call, ok := ast.Unparen(rs.X).(*ast.CallExpr)
				if !ok {
					continue
				}
				var fid *ast.Ident
				if ix, ok := call.Fun.(*ast.IndexExpr); ok {
					switch f := ix.X.(type) {
					case *ast.Ident:
						fid = f
					case *ast.SelectorExpr:
						fid = f.Sel
					}
				}
				if fid == nil {
					continue
				}
				inst, ok := info.Instances[fid]
				if !ok || inst.TypeArgs.Len() != 1 || !types.Identical(inst.TypeArgs.At(0), asserted) {
					continue
				}
				name := fid.Name
				if (name == "WalkUpParent") == viaParent && (name == "WalkUpExpr" || name == "WalkDownExpr" || name == "WalkUpParent") {
					return "element of parser." + name + "[" + types.TypeString(asserted, nil) + "](…): the generic filter only yields nodes of that type"
				}
			}
		}
	}
	// (b) inside `if n, ok := f(X.String()).(T); ok …` the same X is of type T (String() round trip keeps the top-level node type)
	for cur := pm[ta]; cur != nil; cur = pm[cur] {
		ifs, ok := cur.(*ast.IfStmt)
		if !ok || ifs.Init == nil || !(ifs.Body.Pos() <= ta.Pos() && ta.End() <= ifs.Body.End()) {
			continue
		}
		as, ok := ifs.Init.(*ast.AssignStmt)
		if !ok || len(as.Lhs) != 2 || len(as.Rhs) != 1 {
			continue
		}
		inner, ok := as.Rhs[0].(*ast.TypeAssertExpr)
		if !ok || inner.Type == nil || !types.Identical(info.TypeOf(inner.Type), asserted) {
			continue
		}
		okVar := objOf(info, as.Lhs[1])
		guarded := false
		for _, a := range implied(ifs.Cond, nil, true) {
			if a.Truth && objOf(info, a.E) == okVar {
				guarded = true
			}
		}
		mentions := false
		ast.Inspect(inner.X, func(n ast.Node) bool {
			if call, ok := n.(*ast.CallExpr); ok {
				if s, ok := call.Fun.(*ast.SelectorExpr); ok && s.Sel.Name == "String" && exprStr(s.X) == exprStr(ta.X) {
					mentions = true
				}
			}
			return true
		})
		if guarded && mentions {
			return "inside `if n, ok := …(" + exprStr(ta.X) + ".String()).(T); ok`: the re-parsed text has the same top-level node type"
		}
	}
	// (c) utils.RemoveConditions: Node -> Expr on nodes produced by promParser.ParseExpr (every expression node implements Expr)
	if fi.Name == "internal/parser/utils.RemoveConditions" {
		if n := namedOf(asserted); n != nil && n.Obj().Name() == "Expr" {
			return "nodes returned by promParser.ParseExpr/RemoveConditions are expression nodes; all of them implement parser.Expr"
		}
	}
	return ""
}

// c02ColumnClamp: in the position reconstruction (package internal/diags) a
// source line is only ever sliced from a column that was bounded by the length
// of that very line earlier in the same pass: an assignment
// `col = min(len(line), col)` (either argument order) or a comparison of col
// with len(line) lies on every path from the function entry to the slice.
// Whether later increments stay inside the line is arithmetic and not decided.
func c02ColumnClamp(c *Ctx) {
	p := c.P
	dp := p.Pkg("internal/diags")
	if dp == nil {
		c.Undecided("C02-R4", "anchor:internal/diags", token.NoPos, "package not found")
		return
	}
	n := 0
	for _, fi := range p.AllFuncs() {
		if fi.Pkg != dp || fi.Decl.Body == nil || p.IsTestFile(fi.Decl.Pos()) {
			continue
		}
		info := fi.Pkg.TypesInfo
		var fl *Flow
		seq := 0
		ast.Inspect(fi.Decl.Body, func(nd ast.Node) bool {
			se, ok := nd.(*ast.SliceExpr)
			if !ok || se.Low == nil {
				return true
			}
			// X is an element of a []string (a source line)
			ix, ok := ast.Unparen(se.X).(*ast.IndexExpr)
			if !ok {
				// a local that holds the current source line: some assignment gives it an element of a []string
				if o := objOf(info, se.X); o != nil {
					ast.Inspect(fi.Decl.Body, func(m ast.Node) bool {
						if as, isAs := m.(*ast.AssignStmt); isAs && len(as.Lhs) == len(as.Rhs) {
							for i, l := range as.Lhs {
								if objOf(info, l) == o {
									if ix2, isIx := ast.Unparen(as.Rhs[i]).(*ast.IndexExpr); isIx {
										ix, ok = ix2, true
									}
								}
							}
						}
						return true
					})
				}
			}
			if !ok {
				return true
			}
			if t := info.TypeOf(ix.X); t == nil || t.String() != "[]string" {
				return true
			}
			if _, isConst := constInt(info, se.Low); isConst {
				return true
			}
			// the column variable of the low bound
			var col types.Object
			ast.Inspect(se.Low, func(m ast.Node) bool {
				if id, ok := m.(*ast.Ident); ok && col == nil {
					if v, isVar := info.Uses[id].(*types.Var); isVar {
						col = v
					}
				}
				return true
			})
			if col == nil {
				return true
			}
			n++
			seq++
			line := exprStr(se.X)
			isBound := func(x ast.Node) bool {
				found := false
				inspectNoLit(x, func(m ast.Node) bool {
					switch y := m.(type) {
					case *ast.AssignStmt:
						// col = min(len(line), col)
						if len(y.Lhs) == 1 && len(y.Rhs) == 1 && isObj(info, y.Lhs[0], col) {
							if call, ok := ast.Unparen(y.Rhs[0]).(*ast.CallExpr); ok {
								if id, ok := call.Fun.(*ast.Ident); ok && id.Name == "min" && len(call.Args) == 2 {
									a0, a1 := exprStr(call.Args[0]), exprStr(call.Args[1])
									if (a0 == "len("+line+")" && isObj(info, call.Args[1], col)) || (a1 == "len("+line+")" && isObj(info, call.Args[0], col)) {
										found = true
									}
								}
							}
						}
					case *ast.BinaryExpr:
						switch y.Op {
						case token.LSS, token.LEQ, token.GTR, token.GEQ:
							l, r := exprStr(y.X), exprStr(y.Y)
							if (l == "len("+line+")" && isObj(info, y.Y, col)) || (r == "len("+line+")" && isObj(info, y.X, col)) {
								found = true
							}
						}
					}
					return true
				})
				return found
			}
			if fl == nil {
				fl = p.NewFlow(fi)
			}
			ok2 := false
			for _, sm := range fl.Find(func(x ast.Node) bool { return x == ast.Node(se) }) {
				target := sm.Site
				ok2, _ = fl.MustPass(fl.Entry(), func(s Site) bool { return s == target }, false, isBound)
			}
			c.Check(ok2, "C02-R4", fi.Name+":source line sliced from a bounded column #"+itoa(seq), se.Pos(), "bounded by len("+line+") on every path",
				"`"+exprStr(se)+"` slices a source line from a column that no statement on the way bounds by the length of that line: a continuation line shorter than the value's indentation (whitespace-only line, lone \\r of a CRLF file) panics with slice bounds out of range")
			return true
		})
	}
	c.Check(n >= 2, "C02-R4", "source-line slices enumerated", token.NoPos, itoa(n), "expected at least 2 slices of source lines in internal/diags, found "+itoa(n))
}

// c02WholeLines: the content reader fills its line buffer with a call that
// returns a whole line whatever its length ((*bufio.Reader).ReadBytes or
// ReadString). ReadSlice/ReadLine hand out at most one buffer (4096 bytes):
// a longer line would be counted as several lines, every later line number
// drifts past the end of the file and the console reporter indexes out of range.
func c02WholeLines(c *Ctx) { c02WholeLinesR(c, "C02-R10") }

func c02WholeLinesR(c *Ctx, R string) {
	fi := c.MustFunc(R, "internal/parser.ContentReader.readNextLine")
	if fi == nil {
		return
	}
	info := fi.Pkg.TypesInfo
	n := 0
	ast.Inspect(fi.Decl.Body, func(nd ast.Node) bool {
		as, ok := nd.(*ast.AssignStmt)
		if !ok || len(as.Rhs) != 1 || len(as.Lhs) < 1 || !fieldSel(info, as.Lhs[0], "internal/parser.ContentReader", "buf") {
			return true
		}
		call, ok := ast.Unparen(singleDef(info, fi.Decl.Body, as.Rhs[0])).(*ast.CallExpr)
		if !ok {
			return true
		}
		fn := Callee(info, call)
		if fn == nil || fn.Pkg() == nil || fn.Pkg().Path() != "bufio" {
			return true
		}
		n++
		okFn := fn.Name() == "ReadBytes" || fn.Name() == "ReadString"
		c.Check(okFn, R, "readNextLine:line buffer filled by a whole-line read", as.Pos(), "bufio.Reader."+fn.Name(),
			"the line buffer is filled with bufio.Reader."+fn.Name()+", which returns at most one internal buffer: a physical line longer than that is counted as two lines, TotalLines and every later line number drift, and reports point past the end of the file (index out of range in the console reporter)")
		return true
	})
	c.Check(n == 1, R, "readNextLine:one bufio read fills the buffer", fi.Decl.Pos(), "one", itoa(n)+" bufio reads into r.buf")
}

// c02SplitIndex: a slice obtained from strings.Split / strings.Fields /
// bytes.Split has a data-dependent length. Indexing it with anything but a
// constant that a dominating length test covers, or the key of a range over
// that very slice, needs a comparison of the index with len(slice) on the way
// (loop condition or enclosing guard).
func c02SplitIndex(c *Ctx) {
	p := c.P
	n := 0
	for _, fi := range p.AllFuncs() {
		if fi.Decl.Body == nil || p.IsTestFile(fi.Decl.Pos()) {
			continue
		}
		info := fi.Pkg.TypesInfo
		// locals defined by a split
		splits := map[types.Object]bool{}
		splitNonEmpty := map[types.Object]bool{}
		ast.Inspect(fi.Decl.Body, func(nd ast.Node) bool {
			as, ok := nd.(*ast.AssignStmt)
			if !ok || len(as.Lhs) != 1 || len(as.Rhs) != 1 {
				return true
			}
			call, ok := ast.Unparen(as.Rhs[0]).(*ast.CallExpr)
			if !ok {
				return true
			}
			fn := Callee(info, call)
			if fn == nil || fn.Pkg() == nil || (fn.Pkg().Path() != "strings" && fn.Pkg().Path() != "bytes") {
				return true
			}
			switch fn.Name() {
			case "Split", "SplitN", "SplitAfter", "Fields", "FieldsFunc":
				if id, ok := as.Lhs[0].(*ast.Ident); ok {
					o := info.Defs[id]
					if o == nil {
						o = info.Uses[id]
					}
					if o != nil {
						splits[o] = true
						// with a non-empty separator Split/SplitN/SplitAfter return at least one element
						if strings.HasPrefix(fn.Name(), "Split") && len(call.Args) >= 2 {
							if sep, isC := constString(info, call.Args[1]); isC && sep != "" {
								splitNonEmpty[o] = true
							}
						}
					}
				}
			}
			return true
		})
		if len(splits) == 0 {
			continue
		}
		pm := parentMap(fi.Decl.Body)
		seq := 0
		ast.Inspect(fi.Decl.Body, func(nd ast.Node) bool {
			ix, ok := nd.(*ast.IndexExpr)
			if !ok {
				return true
			}
			xid, ok := ast.Unparen(ix.X).(*ast.Ident)
			if !ok || !splits[info.Uses[xid]] {
				return true
			}
			xobj := info.Uses[xid]
			if _, isConst := constInt(info, ix.Index); isConst {
				return true // constant indexes are covered by the length-guard rules above (strings.SplitN arity, len tests)
			}
			// derived from the slice's own length (`xs[len(xs)-1]`): Split* never returns an empty slice
			if mentionsLenOf(info, ix.Index, xobj) && splitNonEmpty[xobj] {
				return true
			}
			// index variable
			var iv types.Object
			ast.Inspect(ix.Index, func(m ast.Node) bool {
				if id, ok := m.(*ast.Ident); ok && iv == nil {
					if v, isVar := info.Uses[id].(*types.Var); isVar {
						iv = v
					}
				}
				return true
			})
			if iv == nil {
				return true
			}
			// range key over the same slice?
			bounded := ""
			for cur := pm[ast.Node(ix)]; cur != nil; cur = pm[cur] {
				switch l := cur.(type) {
				case *ast.RangeStmt:
					if k, ok := l.Key.(*ast.Ident); ok && info.Defs[k] == iv && isObj(info, l.X, xobj) {
						bounded = "range key over the slice"
					}
				case *ast.ForStmt:
					if l.Cond != nil && mentionsLenOf(info, l.Cond, xobj) && mentionsObj(info, l.Cond, iv) {
						bounded = "loop condition compares with len"
					}
				case *ast.IfStmt:
					if mentionsLenOf(info, l.Cond, xobj) && mentionsObj(info, l.Cond, iv) {
						bounded = "guarded by a comparison with len"
					}
				}
			}
			n++
			seq++
			c.Check(bounded != "", "C02-R4", fi.Name+":"+exprStr(ix)+" index into a split result is bounded #"+itoa(seq), ix.Pos(), bounded,
				"`"+exprStr(ix)+"` indexes the result of a split, whose length depends on the data, with `"+exprStr(ix.Index)+"`, and nothing on the way compares that index with len("+xid.Name+"): when the index comes from elsewhere (for example YAML line numbers, which also count bare \\r line breaks) it can exceed the slice — index out of range")
			return true
		})
	}
	c.Ok("C02-R4", "indexes into split results enumerated", token.NoPos, itoa(n)+" site(s)")
}

func mentionsObj(info *types.Info, e ast.Expr, o types.Object) bool {
	found := false
	ast.Inspect(e, func(m ast.Node) bool {
		if id, ok := m.(*ast.Ident); ok && info.Uses[id] == o {
			found = true
		}
		return true
	})
	return found
}

func mentionsLenOf(info *types.Info, e ast.Expr, o types.Object) bool {
	found := false
	ast.Inspect(e, func(m ast.Node) bool {
		if call, ok := m.(*ast.CallExpr); ok && len(call.Args) == 1 {
			if id, ok := call.Fun.(*ast.Ident); ok && id.Name == "len" && isObj(info, call.Args[0], o) {
				found = true
			}
		}
		return true
	})
	return found
}

// c02DerivedFromContent: the console reporter reads each file's content once
// and resets it when it moves on to the next path. Anything derived from that
// content (split lines, …) must not outlive it: a variable assigned from an
// expression over `content` is either declared below the reset (fresh every
// time) or reset in the same block as the content itself. A memoised copy that
// survives the reset prints (or indexes) the previous file's lines.
func c02DerivedFromContent(c *Ctx) {
	p := c.P
	fi := c.MustFunc("C02-R10", "internal/reporter.ConsoleReporter.Submit")
	if fi == nil {
		return
	}
	info := fi.Pkg.TypesInfo
	pm := parentMap(fi.Decl.Body)
	// the content variable: a string local assigned from readFile(...)
	var content types.Object
	ast.Inspect(fi.Decl.Body, func(n ast.Node) bool {
		as, ok := n.(*ast.AssignStmt)
		if !ok || len(as.Rhs) != 1 {
			return true
		}
		if call, ok := as.Rhs[0].(*ast.CallExpr); ok && isCallTo(info, call, "internal/reporter.readFile") {
			content = objOf(info, as.Lhs[0])
		}
		return true
	})
	if content == nil {
		c.Undecided("C02-R10", "ConsoleReporter.Submit:file content variable", fi.Decl.Pos(), "no `content, err = readFile(...)`")
		return
	}
	// resets of content: content = "" (constant)
	var resets []*ast.AssignStmt
	ast.Inspect(fi.Decl.Body, func(n ast.Node) bool {
		as, ok := n.(*ast.AssignStmt)
		if !ok || len(as.Lhs) != 1 || len(as.Rhs) != 1 || objOf(info, as.Lhs[0]) != content {
			return true
		}
		if v, isC := constString(info, as.Rhs[0]); isC && v == "" {
			resets = append(resets, as)
		}
		return true
	})
	c.Check(len(resets) >= 1, "C02-R10", "ConsoleReporter.Submit:content is reset per path", fi.Decl.Pos(), itoa(len(resets))+" reset(s)", "the file content is never reset between paths")
	// derived variables
	derived := map[types.Object]token.Pos{}
	ast.Inspect(fi.Decl.Body, func(n ast.Node) bool {
		as, ok := n.(*ast.AssignStmt)
		if !ok {
			return true
		}
		for i, l := range as.Lhs {
			o := objOf(info, l)
			if o == nil || o == content || i >= len(as.Rhs) && len(as.Rhs) != 1 {
				continue
			}
			r := as.Rhs[0]
			if i < len(as.Rhs) {
				r = as.Rhs[i]
			}
			if call, ok := r.(*ast.CallExpr); ok && isCallTo(info, call, "internal/diags.InjectDiagnostics") {
				continue // rendered text, consumed at once
			}
			if mentionsObj(info, r, content) {
				if v, isVar := o.(*types.Var); isVar && !v.IsField() {
					derived[o] = o.Pos()
				}
			}
		}
		return true
	})
	bad := ""
	for o, declPos := range derived {
		for _, r := range resets {
			blk, _ := pm[r].(*ast.BlockStmt)
			if blk == nil {
				continue
			}
			if declPos > blk.Pos() && declPos > r.Pos() {
				continue // declared below the reset: fresh for every path
			}
			// declared outside: must be reset next to content
			resetHere := false
			for _, st := range blk.List {
				if as, ok := st.(*ast.AssignStmt); ok {
					for _, l := range as.Lhs {
						if objOf(info, l) == o {
							resetHere = true
						}
					}
				}
			}
			if !resetHere {
				bad = o.Name() + " (declared at " + p.Pos(declPos) + ")"
			}
		}
	}
	c.Check(bad == "", "C02-R10", "ConsoleReporter.Submit:nothing derived from a file's content outlives it", fi.Decl.Pos(), itoa(len(derived))+" derived variable(s)",
		"`"+bad+"` is computed from the file content but declared outside the per-path reset and not reset with it: for the next file the stale value is used — lines of the previous file are printed, or indexed with this file's line numbers (index out of range)")
}

// c02Recursion: every function of the module that can call itself (directly or
// through other module functions, depth 3) and is not a test helper has a
// termination argument visible in its shape:
//
//	(a) structural descent: each recursive call passes, for a parameter of tree
//	    type (yaml / PromQL / template AST node, utils.Source), something
//	    obtained from that parameter (a field, an element, a call on it) — the
//	    trees come out of parsers and are finite and acyclic;
//	(b) a visited set: a map parameter that is tested before and written on the
//	    way to the recursive call;
//	(c) a depth bound: an integer parameter that is passed on incremented /
//	    decremented and compared somewhere in the body.
//
// A recursion over a graph built from user input (variable aliases, rule
// dependencies) without (b) or (c) is a stack overflow waiting for a cycle.
func c02Recursion(c *Ctx) {
	p := c.P
	treeTypes := []string{"gopkg.in/yaml.v3.Node", "text/template/parse.", "github.com/prometheus/prometheus/promql/parser.", "internal/parser/utils.Source", "internal/parser.YamlNode", "internal/parser.PromQLNode"}
	// confirmed by reading, one symbol each
	justified := map[string]string{
		"internal/parser.Parser.parseNode":       "besides the structural descent it re-parses a block scalar's value as YAML; the guard `node.Value != strings.Join(contentLines, \"\\n\")` makes the embedded document a strict part of the enclosing one",
		"internal/parser/utils.RemoveConditions": "recurses on the text of strict sub-expressions (n.Expr, n.LHS, n.RHS, n.Args[i]) of the expression parsed from its argument",
		"internal/promapi.MergeRanges":           "recurses on one fingerprint's list only while the previous call reports a merge (ok), and every merge shortens the list",
	}
	isTree := func(t types.Type) bool {
		q := typeQName(t)
		if q == "" {
			if it, ok := t.Underlying().(*types.Interface); ok && it != nil {
				q = t.String()
			}
		}
		for _, tt := range treeTypes {
			if strings.HasPrefix(q, tt) || strings.Contains(t.String(), tt) {
				return true
			}
		}
		return false
	}
	// direct callees within the module
	callees := map[*FuncInfo][]*ast.CallExpr{}
	calleeOf := map[*ast.CallExpr]*FuncInfo{}
	for _, fi := range p.AllFuncs() {
		if fi.Decl.Body == nil || p.IsTestFile(fi.Decl.Pos()) {
			continue
		}
		info := fi.Pkg.TypesInfo
		ast.Inspect(fi.Decl.Body, func(n ast.Node) bool {
			if call, ok := n.(*ast.CallExpr); ok {
				if fn := Callee(info, call); fn != nil {
					if cf := p.FuncOf(fn); cf != nil {
						callees[fi] = append(callees[fi], call)
						calleeOf[call] = cf
					}
				}
			}
			return true
		})
	}
	n := 0
	for _, fi := range p.AllFuncs() {
		if fi.Decl.Body == nil || p.IsTestFile(fi.Decl.Pos()) {
			continue
		}
		// direct self calls only (mutual recursion in this module goes through
		// walkNode-style dispatchers that are themselves directly recursive)
		var self []*ast.CallExpr
		for _, call := range callees[fi] {
			if calleeOf[call] == fi {
				self = append(self, call)
			}
		}
		if len(self) == 0 {
			continue
		}
		n++
		if why, ok := justified[fi.Name]; ok {
			c.Ok("C02-R5", fi.Name+":recursion has a visible termination argument (justified)", fi.Decl.Pos(), why)
			continue
		}
		info := fi.Pkg.TypesInfo
		sig := fi.Obj.Type().(*types.Signature)
		pm := parentMap(fi.Decl.Body)
		why := ""
		okAll := true
		for _, call := range self {
			ok := false
			for i := 0; i < sig.Params().Len() && i < len(call.Args); i++ {
				par := sig.Params().At(i)
				arg := call.Args[i]
				switch {
				case isTree(par.Type()):
					// (a) the argument is derived from the parameter (or from a range /
					// type-switch variable derived from it) and is not the parameter itself
					// … through child or parent links only: a yaml `Alias` points sideways (to an anchor
					// that may be an ancestor), so following it is not a descent and can go round in circles
					sideways := false
					ast.Inspect(arg, func(m ast.Node) bool {
						if sel, isSel := m.(*ast.SelectorExpr); isSel && sel.Sel.Name == "Alias" {
							sideways = true
						}
						return true
					})
					if !isObj(info, arg, par) && !sideways && derivedFrom(info, fi, arg, par, 0) {
						ok = true
						why = "structural descent on " + paramTypeKey(par.Type())
					}
				}
				if _, isMap := par.Type().Underlying().(*types.Map); isMap && isObj(info, arg, par) {
					// (b) tested before and written before the call
					tested, written := false, false
					for _, a := range lexicalGuards(pm, call, fi.Decl.Body) {
						if mentionsObj(info, a.E, par) {
							tested = true
						}
					}
					ast.Inspect(fi.Decl.Body, func(m ast.Node) bool {
						switch x := m.(type) {
						case *ast.AssignStmt:
							for _, l := range x.Lhs {
								if ix, ok := l.(*ast.IndexExpr); ok && isObj(info, ix.X, par) {
									written = true
								}
							}
						case *ast.IfStmt:
							if x.Pos() < call.Pos() && mentionsObj(info, x.Cond, par) && containsBranch(x.Body) {
								tested = true
							}
							if x.Init != nil && x.Pos() < call.Pos() {
								if as, ok := x.Init.(*ast.AssignStmt); ok && len(as.Rhs) == 1 && mentionsObj(info, as.Rhs[0], par) && containsBranch(x.Body) {
									tested = true
								}
							}
						}
						return true
					})
					if tested && written {
						ok = true
						why = "visited set"
					}
				}
				if b, isBasic := par.Type().Underlying().(*types.Basic); isBasic && b.Info()&types.IsInteger != 0 {
					// (c) depth passed on changed, and compared in the body
					if be, isBin := ast.Unparen(arg).(*ast.BinaryExpr); isBin && (be.Op == token.ADD || be.Op == token.SUB) && mentionsObj(info, be, par) {
						cmp := false
						ast.Inspect(fi.Decl.Body, func(m ast.Node) bool {
							if b2, ok := m.(*ast.BinaryExpr); ok && mentionsObj(info, b2, par) {
								switch b2.Op {
								case token.LSS, token.LEQ, token.GTR, token.GEQ, token.EQL:
									cmp = true
								}
							}
							return true
						})
						if cmp {
							ok = true
							why = "depth bound"
						}
					}
				}
			}
			// methods whose receiver is the tree: x.f() called on something derived from the receiver
			if !ok && fi.Decl.Recv != nil && len(fi.Decl.Recv.List) == 1 && len(fi.Decl.Recv.List[0].Names) == 1 {
				recv := info.Defs[fi.Decl.Recv.List[0].Names[0]]
				if sel, isSel := call.Fun.(*ast.SelectorExpr); isSel && recv != nil && isTree(recv.Type()) && !isObj(info, sel.X, recv) && derivedFrom(info, fi, sel.X, recv, 0) {
					ok = true
					why = "structural descent on the receiver"
				}
			}
			if !ok {
				okAll = false
			}
		}
		c.Check(okAll, "C02-R5", fi.Name+":recursion has a visible termination argument", fi.Decl.Pos(), why,
			"the function calls itself and none of the accepted termination arguments applies (structural descent on a parser tree, a visited set, a depth bound): if its argument comes from a graph built out of user input, a cycle overflows the stack — a fatal error no recover() catches")
	}
	c.Check(n >= 5, "C02-R5", "recursive functions enumerated", token.NoPos, itoa(n), "implausibly few self-recursive functions ("+itoa(n)+")")
}

// derivedFrom: e is built from obj — mentions obj directly, or mentions a local
// that is defined (assignment, range, type switch) from something derived from obj.
func derivedFrom(info *types.Info, fi *FuncInfo, e ast.Expr, obj types.Object, depth int) bool {
	if depth > 4 {
		return false
	}
	if mentionsObj(info, e, obj) {
		return true
	}
	found := false
	ast.Inspect(e, func(n ast.Node) bool {
		id, ok := n.(*ast.Ident)
		if !ok || found {
			return true
		}
		v, ok := info.Uses[id].(*types.Var)
		if !ok || v.IsField() || v == obj {
			return true
		}
		// definitions of v inside the function
		ast.Inspect(fi.Decl.Body, func(m ast.Node) bool {
			switch x := m.(type) {
			case *ast.AssignStmt:
				for i, l := range x.Lhs {
					if lid, ok := l.(*ast.Ident); ok && (info.Defs[lid] == v || info.Uses[lid] == v) {
						r := x.Rhs[0]
						if i < len(x.Rhs) {
							r = x.Rhs[i]
						}
						if derivedFrom(info, fi, r, obj, depth+1) {
							found = true
						}
					}
				}
			case *ast.RangeStmt:
				for _, l := range []ast.Expr{x.Key, x.Value} {
					if lid, ok := l.(*ast.Ident); ok && info.Defs[lid] == v && derivedFrom(info, fi, x.X, obj, depth+1) {
						found = true
					}
				}
			case *ast.TypeSwitchStmt:
				if as, ok := x.Assign.(*ast.AssignStmt); ok && len(as.Rhs) == 1 {
					// the symbolic variable: any implicit object of a clause
					for _, cl := range x.Body.List {
						if info.Implicits[cl] == types.Object(v) && derivedFrom(info, fi, as.Rhs[0], obj, depth+1) {
							found = true
						}
					}
				}
			}
			return true
		})
		return true
	})
	return found
}

// c02AlwaysEnabledFirst: a check marked AlwaysEnabled (the parse-error check)
// cannot be switched off by anything: in config.isEnabled every `return false`
// lies behind the false edge of `check.Meta().AlwaysEnabled`. Otherwise a
// `# pint disable yaml/parse` comment (kept on a broken rule) removes the only
// report of a parse failure and lint exits cleanly on a file Prometheus rejects.
func c02AlwaysEnabledFirst(c *Ctx) {
	p := c.P
	ie := c.MustFunc("C02-R2", "internal/config.isEnabled")
	if ie == nil {
		return
	}
	fl := p.NewFlow(ie)
	rets := fl.Find(func(n ast.Node) bool {
		r, ok := n.(*ast.ReturnStmt)
		return ok && len(r.Results) == 1 && exprStr(r.Results[0]) == "false"
	})
	bad := ""
	for _, r := range rets {
		ok := fl.Dominated(r.Site, nil, func(a Atom) bool {
			sel, isSel := ast.Unparen(a.E).(*ast.SelectorExpr)
			return isSel && !a.Truth && sel.Sel.Name == "AlwaysEnabled"
		})
		if !ok {
			bad = p.Pos(r.Inner.Pos())
		}
	}
	c.Check(len(rets) >= 2 && bad == "", "C02-R2", "isEnabled:nothing disables an AlwaysEnabled check", ie.Decl.Pos(), itoa(len(rets))+" negative exits, all behind !AlwaysEnabled",
		"isEnabled can return false at "+bad+" before (or without) looking at AlwaysEnabled: the always-enabled parse-error check can be disabled or snoozed, so a rule that fails to parse is reported nowhere")
}

// c02ExprTypestate: a PromQLExpr leaves its constructor either with a parsed
// query or with a syntax error; checks rely on `SyntaxError == nil ⇒ Query !=
// nil`. Every return of newPromQLExpr passes a store to Query or SyntaxError.
func c02ExprTypestate(c *Ctx) {
	p := c.P
	fi := c.MustFunc("C02-R1", "internal/parser.newPromQLExpr")
	if fi == nil {
		return
	}
	info := fi.Pkg.TypesInfo
	fl := p.NewFlow(fi)
	isStore := func(n ast.Node) bool {
		found := false
		inspectNoLit(n, func(m ast.Node) bool {
			as, ok := m.(*ast.AssignStmt)
			if !ok {
				return true
			}
			for i, l := range as.Lhs {
				sel, ok := l.(*ast.SelectorExpr)
				if !ok || fieldOwner(info, sel) != "internal/parser.PromQLExpr" || (sel.Sel.Name != "Query" && sel.Sel.Name != "SyntaxError") {
					continue
				}
				r := as.Rhs[0]
				if i < len(as.Rhs) {
					r = as.Rhs[i]
				}
				if !isNilIdent(info, r) {
					found = true
				}
			}
			return true
		})
		return found
	}
	// the parsed query is taken over only when the decoder reported no error at all: the store
	// (or the literal field) is dominated by the plain fact err == nil of the DecodeExpr call
	{
		var errObj, qObj types.Object
		ast.Inspect(fi.Decl.Body, func(n ast.Node) bool {
			if as, ok := n.(*ast.AssignStmt); ok && len(as.Lhs) == 2 && len(as.Rhs) == 1 {
				if call, ok := as.Rhs[0].(*ast.CallExpr); ok && isCallTo(info, call, "internal/parser.DecodeExpr") {
					qObj, errObj = objOf(info, as.Lhs[0]), objOf(info, as.Lhs[1])
				}
			}
			return true
		})
		if errObj == nil || qObj == nil {
			c.Undecided("C02-R1", "newPromQLExpr:DecodeExpr result", fi.Decl.Pos(), "no `q, err := DecodeExpr(…)`")
		} else {
			errNil := func(a Atom) bool {
				x, isNil, ok := nilAtom(info, a)
				return ok && isNil && objOf(info, x) == errObj
			}
			nUse, badUse := 0, ""
			for _, sm := range fl.Find(func(n ast.Node) bool {
				switch x := n.(type) {
				case *ast.AssignStmt:
					for i, l := range x.Lhs {
						if sel, ok := l.(*ast.SelectorExpr); ok && sel.Sel.Name == "Query" && fieldOwner(info, sel) == "internal/parser.PromQLExpr" && i < len(x.Rhs) && objOf(info, x.Rhs[i]) == qObj {
							return true
						}
					}
				case *ast.CompositeLit:
					if typeQName(info.TypeOf(x)) == "internal/parser.PromQLExpr" {
						if v := litField(x, "Query"); v != nil && objOf(info, v) == qObj {
							return true
						}
					}
				}
				return false
			}) {
				nUse++
				if !fl.Dominated(sm.Site, sm.Inner, errNil) {
					badUse = p.Pos(sm.Inner.Pos())
				}
			}
			c.Check(nUse >= 1 && badUse == "", "C02-R1", "newPromQLExpr:the decoded query is kept only when DecodeExpr returned no error", fi.Decl.Pos(), itoa(nUse)+" use(s) under err == nil",
				"the result of DecodeExpr is stored as the rule's Query at "+badUse+" on a path where its error is not known to be nil (an error is filtered out, say): the expression then has neither a query nor a syntax error and every check that dereferences Query after testing SyntaxError == nil crashes")
		}
	}
	rets := fl.Find(func(n ast.Node) bool { _, ok := n.(*ast.ReturnStmt); return ok })
	bad := ""
	for _, r := range rets {
		target := r.Site
		// the returned value is a literal that sets one of the two fields to something other than nil
		if ret := r.Inner.(*ast.ReturnStmt); len(ret.Results) == 1 {
			e := ast.Unparen(ret.Results[0])
			if u, ok := e.(*ast.UnaryExpr); ok && u.Op == token.AND {
				e = ast.Unparen(u.X)
			}
			if cl, ok := e.(*ast.CompositeLit); ok && typeQName(info.TypeOf(cl)) == "internal/parser.PromQLExpr" {
				set := false
				for _, f := range []string{"Query", "SyntaxError"} {
					if v := litField(cl, f); v != nil && !isNilIdent(info, v) {
						set = true
					}
				}
				if set {
					continue
				}
			}
		}
		if ok, _ := fl.MustPass(fl.Entry(), func(s Site) bool { return s == target }, false, isStore); !ok {
			bad = p.Pos(r.Inner.Pos())
		}
	}
	c.Check(len(rets) >= 1 && bad == "", "C02-R1", "newPromQLExpr:every result has a parsed query or a syntax error", fi.Decl.Pos(), itoa(len(rets))+" return(s)",
		"newPromQLExpr can return at "+bad+" with neither Query nor SyntaxError set: checks that only test SyntaxError == nil dereference the nil query (e.g. an expr that is a single space)")
}

// c02KeyValueSameOrigin: a YamlKeyValue assembled from parts takes its key and
// its value from the same entry. A key from one place of the file (the group's
// `labels:`) with a value from another (the rule's `labels:`) gives line ranges
// whose first line can lie below the last; LineRange.Expand then panics in the
// JSON reporter (F41). Shared with C06-R6 (a rule's line range encloses its fields).
func c02KeyValueSameOrigin(c *Ctx, R string) {
	p := c.P
	n := 0
	for _, fi := range p.AllFuncs() {
		if fi.Decl.Body == nil || p.IsTestFile(fi.Decl.Pos()) || relPkg(fi.Pkg.PkgPath) != "internal/parser" {
			continue
		}
		info := fi.Pkg.TypesInfo
		for _, cl := range compositeLits(info, fi.Decl.Body, "internal/parser.YamlKeyValue") {
			k, v := litField(cl, "Key"), litField(cl, "Value")
			if k == nil || v == nil {
				continue
			}
			ks, isK := ast.Unparen(k).(*ast.SelectorExpr)
			vs, isV := ast.Unparen(v).(*ast.SelectorExpr)
			if !isK || !isV || ks.Sel.Name != "Key" || vs.Sel.Name != "Value" {
				continue // built from fresh nodes (constructors): nothing to pair
			}
			n++
			c.Check(exprIdentity(info, ks.X) == exprIdentity(info, vs.X), R, fi.Obj.Name()+":key and value of a rebuilt entry come from one entry", cl.Pos(), "same origin",
				"a YamlKeyValue is assembled from the key of `"+roleStr(info, ks.X)+"` and the value of `"+roleStr(info, vs.X)+"`: the two can lie in any order in the file, so a line range built from them can be reversed and LineRange.Expand panics (JSON reporter) — or a report points at the wrong key")
		}
	}
	c.Ok(R, "YamlKeyValue literals rebuilt from parts enumerated", token.NoPos, itoa(n))
}

// c01EveryFileIsRead: every path the glob finder keeps after the configured
// include/exclude filter is handed to readRules. In the loop of GlobFinder.Find
// that opens the files, the only way past a file without reading it is the
// path filter (`!f.filter.IsPathAllowed(...)`); everything else in front of
// readRules either reads on or returns an error. A file that is skipped for
// any other reason (a size limit, a "binary file" sniff, a cache of unchanged
// files) yields no entry and no Fatal problem: a file Prometheus refuses
// passes, and its rules are never linted.
func c01EveryFileIsRead(c *Ctx, R string) {
	fi := c.MustFunc(R, "internal/discovery.GlobFinder.Find")
	if fi == nil {
		return
	}
	info := fi.Pkg.TypesInfo
	pm := parentMap(fi.Decl.Body)
	var loop *ast.RangeStmt
	ast.Inspect(fi.Decl.Body, func(nd ast.Node) bool {
		rs, ok := nd.(*ast.RangeStmt)
		if !ok {
			return true
		}
		has := false
		ast.Inspect(rs.Body, func(m ast.Node) bool {
			if call, isCall := m.(*ast.CallExpr); isCall && isCallTo(info, call, "internal/discovery.readRules") {
				has = true
			}
			return true
		})
		if has {
			loop = rs
		}
		return true
	})
	if loop == nil {
		c.Bad(R, "GlobFinder.Find:every kept path is read", fi.Decl.Pos(), "no loop calls readRules")
		return
	}
	var call *ast.CallExpr
	ast.Inspect(loop.Body, func(m ast.Node) bool {
		if cl, isCall := m.(*ast.CallExpr); isCall && call == nil && isCallTo(info, cl, "internal/discovery.readRules") {
			call = cl
		}
		return true
	})
	bad := ""
	// an enclosing `if` is fine when its other branch leaves the function (an error exit written as
	// if/else instead of an early return) or is the path filter
	endsInReturn := func(st ast.Stmt) bool {
		blk, ok := st.(*ast.BlockStmt)
		if !ok || len(blk.List) == 0 {
			return false
		}
		_, isRet := blk.List[len(blk.List)-1].(*ast.ReturnStmt)
		return isRet
	}
	var child ast.Node = call
	for cur := pm[ast.Node(call)]; cur != nil && cur != ast.Node(loop.Body); child, cur = cur, pm[cur] {
		ifs, isIf := cur.(*ast.IfStmt)
		if !isIf || child == ifs.Init || child == ast.Node(ifs.Cond) {
			continue
		}
		other := ast.Stmt(ifs.Body)
		if child == ast.Node(ifs.Body) {
			other = ifs.Else
		}
		isFilter := false
		if gc, isCall := ast.Unparen(ifs.Cond).(*ast.CallExpr); isCall {
			if fn := Callee(info, gc); fn != nil && fn.Name() == "IsPathAllowed" {
				isFilter = true
			}
		}
		if u, isNot := ast.Unparen(ifs.Cond).(*ast.UnaryExpr); isNot && u.Op == token.NOT {
			if gc, isCall := ast.Unparen(u.X).(*ast.CallExpr); isCall {
				if fn := Callee(info, gc); fn != nil && fn.Name() == "IsPathAllowed" {
					isFilter = true
				}
			}
		}
		if isFilter || (other != nil && endsInReturn(other)) {
			continue
		}
		bad = "readRules is guarded by `" + roleStr(info, ifs.Cond) + "`"
	}
	inspectNoLit(loop.Body, func(m ast.Node) bool {
		b, ok := m.(*ast.BranchStmt)
		if !ok || b.Pos() > call.Pos() || (b.Tok != token.CONTINUE && b.Tok != token.BREAK && b.Tok != token.GOTO) {
			return true
		}
		okFilter := false
		for _, g := range lexicalGuards(pm, b, loop.Body) {
			if gc, isCall := ast.Unparen(g.E).(*ast.CallExpr); isCall && !g.Truth {
				if fn := Callee(info, gc); fn != nil && fn.Name() == "IsPathAllowed" {
					okFilter = true
				}
			}
		}
		if !okFilter {
			bad = "`" + b.Tok.String() + "` at " + c.P.Pos(b.Pos()) + " passes a file by"
		}
		return true
	})
	c.Check(bad == "", R, "GlobFinder.Find:every kept path is read", loop.Pos(), "only the path filter skips a file",
		bad+": the file yields no entries and no parse error, so a file Prometheus refuses to load is accepted silently and its rules are never checked")
}

// c02ErrorValuesAreComparable: parsed rules are compared with == / != on their
// error fields (Rule.IsSame, Summary de-duplication). Every error type of the
// module that is used by value is therefore comparable: comparing two interface
// values whose dynamic type holds a slice, map or function panics at run time.
func c02ErrorValuesAreComparable(c *Ctx, R string) {
	n := 0
	check := func(info *types.Info, v ast.Expr, pos token.Pos, where string) {
		t := info.TypeOf(v)
		if t == nil {
			return
		}
		if _, isIface := t.Underlying().(*types.Interface); isIface {
			return // an error produced elsewhere (fmt.Errorf, errors.New, a decoder): not decided here
		}
		n++
		c.Check(types.Comparable(t), R, where+": error value of type "+typeQName(t)+" is comparable", pos, "comparable",
			"a value of type "+t.String()+" is stored in ParseError.Err, and it holds a slice, map or function: parser.Rule.IsSame and the report de-duplication compare ParseError values with ==, which panics (`comparing uncomparable type`) as soon as two rules with this error meet (two rules written on one line in flow style, say)")
	}
	for _, fi := range c.P.AllFuncs() {
		if fi.Decl.Body == nil || c.P.IsTestFile(fi.Decl.Pos()) {
			continue
		}
		info := fi.Pkg.TypesInfo
		seq := 0
		ast.Inspect(fi.Decl.Body, func(nd ast.Node) bool {
			switch x := nd.(type) {
			case *ast.CompositeLit:
				if typeQName(info.TypeOf(x)) == "internal/parser.ParseError" {
					if v := litField(x, "Err"); v != nil {
						seq++
						check(info, v, v.Pos(), shortFuncName(fi.Name)+"#"+itoa(seq))
					}
				}
			case *ast.AssignStmt:
				for i, l := range x.Lhs {
					if fieldSel(info, l, "internal/parser.ParseError", "Err") && i < len(x.Rhs) {
						seq++
						check(info, x.Rhs[i], x.Pos(), shortFuncName(fi.Name)+"#"+itoa(seq))
					}
				}
			}
			return true
		})
	}
	// (the count of concrete-typed stores may be zero today: all of them go through fmt.Errorf / errors.New)
	c.Ok(R, "stores to ParseError.Err with a concrete error type enumerated", token.NoPos, itoa(n))
}

// c02CommentLinesAreFileLines: comments.Parse numbers the lines of a comment
// block by counting "\n" in the text it is given, the same way the content
// reader counts the lines of the file. The text is split as it is: a
// normalisation in front of the split (CR to LF, trimming, collapsing blank
// lines) changes the count, and a comment error is then reported on a line
// that is not where the comment is — possibly beyond the end of the file.
func c02CommentLinesAreFileLines(c *Ctx, R string) {
	fi := c.MustFunc(R, "internal/comments.Parse")
	if fi == nil {
		return
	}
	info := fi.Pkg.TypesInfo
	sig := fi.Obj.Type().(*types.Signature)
	var textP types.Object
	for i := 0; i < sig.Params().Len(); i++ {
		if sig.Params().At(i).Type().String() == "string" {
			textP = sig.Params().At(i)
		}
	}
	n, bad := 0, ""
	ast.Inspect(fi.Decl.Body, func(nd ast.Node) bool {
		call, ok := nd.(*ast.CallExpr)
		if !ok {
			return true
		}
		fn := Callee(info, call)
		if fn == nil || fn.Pkg() == nil || fn.Pkg().Path() != "strings" {
			return true
		}
		switch fn.Name() {
		case "Split", "SplitSeq", "SplitAfter", "SplitN", "Lines", "Count", "Cut":
			n++
			if len(call.Args) >= 1 && objOf(info, call.Args[0]) != textP {
				bad = "`" + exprStr(call) + "` does not split the text it was given"
			}
			if len(call.Args) >= 2 {
				if sep, isC := constString(info, call.Args[1]); !isC || sep != "\n" {
					bad = "`" + exprStr(call) + "` does not split on \"\\n\""
				}
			}
		case "Fields", "FieldsFunc", "NewReplacer", "ReplaceAll", "Replace", "TrimSpace", "Trim":
			bad = "`" + exprStr(call) + "` rewrites the text before its lines are counted"
		}
		return true
	})
	c.Check(n >= 1 && bad == "", R, "comments.Parse:lines of a comment block are the file's lines", fi.Decl.Pos(), "strings.Split(text, \"\\n\")",
		bad+": the line a comment problem is reported on no longer matches the file (a bare CR inside a comment line shifts every following comment; the report can land beyond the last line)")
}

// c02LineRangeLiteralsOrdered: LineRange.Expand (JSON and comment reporters) allocates Last-First+1 lines
// and panics when the range is reversed. A range written out in a check takes both ends from ONE object
// (the key and the value of one field, one error, one file), or is the min/max over the same set of
// objects: two different fields of a rule can stand in either order in the file.
func c02LineRangeLiteralsOrdered(c *Ctx, R string) {
	n := 0
	for _, pkg := range c.P.ModPkgs() {
		rel := relPkg(pkg.PkgPath)
		if rel != "internal/checks" && rel != "internal/discovery" && rel != "internal/reporter" && rel != "cmd/pint" {
			continue
		}
		info := pkg.TypesInfo
		roots := func(e ast.Expr) (fn string, out map[types.Object]bool) {
			out = map[types.Object]bool{}
			e = ast.Unparen(e)
			if call, ok := e.(*ast.CallExpr); ok {
				if id, ok := call.Fun.(*ast.Ident); ok && (id.Name == "min" || id.Name == "max") {
					if _, isB := info.Uses[id].(*types.Builtin); isB {
						fn = id.Name
						for _, a := range call.Args {
							if tv, has := info.Types[a]; has && tv.Value != nil {
								continue
							}
							_, sub := rootsOfExpr(info, a)
							for o := range sub {
								out[o] = true
							}
						}
						return fn, out
					}
				}
			}
			_, out = rootsOfExpr(info, e)
			return "", out
		}
		for _, fi := range c.P.AllFuncs() {
			if fi.Pkg != pkg || fi.Decl.Body == nil || c.P.IsTestFile(fi.Decl.Pos()) {
				continue
			}
			seq := 0
			for _, cl := range compositeLits(info, fi.Decl.Body, "internal/diags.LineRange") {
				first, last := litField(cl, "First"), litField(cl, "Last")
				if first == nil || last == nil {
					continue
				}
				n++
				seq++
				ff, fr := roots(first)
				lf, lr := roots(last)
				same := len(fr) > 0 && len(fr) == len(lr)
				for o := range fr {
					if !lr[o] {
						same = false
					}
				}
				ok := same && ((ff == "" && lf == "" && len(fr) == 1) || (ff == "min" && lf == "max") || (ff == "min" && lf == "" && len(fr) == 1))
				c.Check(ok, R, shortFuncName(fi.Name)+":line range #"+itoa(seq)+" takes both ends from the same object(s)", cl.Pos(), exprStr(first)+" .. "+exprStr(last),
					"a line range runs from `"+exprStr(first)+"` to `"+exprStr(last)+"`: the two come from different parts of the rule, which can stand in either order in the file; a reversed range panics in LineRange.Expand (JSON output, pull-request comments)")
			}
		}
	}
	c.Check(n >= 12, R, "line range literals enumerated", token.NoPos, itoa(n), "fewer line range literals than confirmed ("+itoa(n)+")")
}

// rootsOfExpr lists the local variables / parameters an expression reads at the root of its selector chains.
func rootsOfExpr(info *types.Info, e ast.Expr) (string, map[types.Object]bool) {
	out := map[types.Object]bool{}
	ast.Inspect(e, func(n ast.Node) bool {
		switch x := n.(type) {
		case *ast.SelectorExpr:
			cur := ast.Expr(x)
			for {
				switch y := ast.Unparen(cur).(type) {
				case *ast.SelectorExpr:
					cur = y.X
					continue
				case *ast.CallExpr:
					cur = y.Fun
					continue
				case *ast.IndexExpr:
					cur = y.X
					continue
				case *ast.Ident:
					if v, ok := info.Uses[y].(*types.Var); ok && !v.IsField() {
						out[v] = true
					}
				}
				break
			}
			return false
		case *ast.Ident:
			if v, ok := info.Uses[x].(*types.Var); ok && !v.IsField() {
				out[v] = true
			}
		}
		return true
	})
	return "", out
}
