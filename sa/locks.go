package main

import (
	"go/ast"
	"go/token"
	"go/types"
	"sort"
)

// GuardSpec: fields of Type must only be touched while Type.Mutex is held.
type GuardSpec struct {
	Type   string // qualified struct type
	Fields []string
	Mutex  string
}

type lockAccess struct {
	fn    *FuncInfo
	body  *ast.BlockStmt // function body or literal body containing the access
	node  ast.Node       // the selector (or call, for helper call sites)
	base  string         // rendered base expression whose mutex must be held
	field string
}

// heldAt reports whether base.mutex is held at node inside body.
func heldAt(p *Prog, fn *FuncInfo, body *ast.BlockStmt, node ast.Node, base, mutex string) bool {
	fl := p.newFlow(fn, body)
	info := fn.Pkg.TypesInfo
	_ = info
	isLockCall := func(n ast.Node, names ...string) bool {
		found := false
		inspectNoLit(n, func(m ast.Node) bool {
			call, ok := m.(*ast.CallExpr)
			if !ok {
				return true
			}
			sel, ok := call.Fun.(*ast.SelectorExpr)
			if !ok {
				return true
			}
			for _, nm := range names {
				if sel.Sel.Name == nm && exprStr(sel.X) == base+"."+mutex {
					found = true
				}
			}
			return true
		})
		return found
	}
	isLock := func(n ast.Node) bool {
		if _, isDefer := n.(*ast.DeferStmt); isDefer {
			return false
		}
		return isLockCall(n, "Lock", "RLock")
	}
	isUnlock := func(n ast.Node) bool {
		if _, isDefer := n.(*ast.DeferStmt); isDefer {
			return false
		}
		return isLockCall(n, "Unlock", "RUnlock")
	}
	var target *Site
	for _, sm := range fl.Find(func(x ast.Node) bool { return x == node }) {
		s := sm.Site
		target = &s
	}
	if target == nil {
		return false
	}
	isTarget := func(s Site) bool { return s == *target }
	// every path from entry to the access passes a Lock
	if reach, _ := fl.Reach(fl.Entry(), isTarget, false, PathQ{Avoid: isLock}); reach {
		return false
	}
	// no explicit Unlock reaches the access without a new Lock
	for _, u := range fl.Find(func(x ast.Node) bool {
		_, isStmt := x.(ast.Stmt)
		return isStmt && isUnlock(x)
	}) {
		if u.Site == *target {
			continue
		}
		if reach, _ := fl.Reach(u.Site.After(), isTarget, false, PathQ{Avoid: isLock}); reach {
			return false
		}
	}
	return true
}

// checkGuards verifies the guarded-field table over all module code.
func checkGuards(c *Ctx, rule string, specs []GuardSpec, escapeExempt map[string]string) {
	p := c.P
	for _, spec := range specs {
		fields := map[string]bool{}
		for _, f := range spec.Fields {
			fields[f] = true
		}
		var accesses []lockAccess
		for _, fi := range p.AllFuncs() {
			if p.IsTestFile(fi.Decl.Pos()) || fi.Decl.Body == nil {
				continue
			}
			info := fi.Pkg.TypesInfo
			var walk func(body *ast.BlockStmt)
			walk = func(body *ast.BlockStmt) {
				ast.Inspect(body, func(n ast.Node) bool {
					if lit, ok := n.(*ast.FuncLit); ok {
						walk(lit.Body)
						return false
					}
					sel, ok := n.(*ast.SelectorExpr)
					if !ok || !fields[sel.Sel.Name] || fieldOwner(info, sel) != spec.Type {
						return true
					}
					accesses = append(accesses, lockAccess{fn: fi, body: body, node: sel, base: exprStr(sel.X), field: sel.Sel.Name})
					return true
				})
			}
			walk(fi.Decl.Body)
		}
		sort.Slice(accesses, func(i, j int) bool { return accesses[i].node.Pos() < accesses[j].node.Pos() })
		if len(accesses) == 0 {
			c.Undecided(rule, "guard:"+spec.Type+":no accesses found", token.NoPos, "the guarded fields are never accessed; table out of date")
			continue
		}
		// group by function
		type fnState struct {
			fi      *FuncInfo
			unheld  []lockAccess
			nAccess int
		}
		byFn := map[*FuncInfo]*fnState{}
		var order []*FuncInfo
		for _, a := range accesses {
			st := byFn[a.fn]
			if st == nil {
				st = &fnState{fi: a.fn}
				byFn[a.fn] = st
				order = append(order, a.fn)
			}
			st.nAccess++
			if !heldAt(p, a.fn, a.body, a.node, a.base, spec.Mutex) {
				st.unheld = append(st.unheld, a)
			}
		}
		for _, fi := range order {
			st := byFn[fi]
			key := "guard:" + spec.Type + "." + spec.Mutex + " in " + fi.Name
			if len(st.unheld) == 0 {
				c.Ok(rule, key, fi.Decl.Pos(), itoa(st.nAccess)+" access(es) under the lock")
				continue
			}
			// helper inference: every caller holds the lock on the receiver/argument
			ok, why := callersHold(p, fi, st.unheld, spec, 0)
			c.Check(ok, rule, key, st.unheld[0].node.Pos(), "helper: every caller holds "+spec.Mutex, "field "+spec.Type+"."+st.unheld[0].field+" is accessed without holding "+spec.Mutex+": "+why)
		}
		// escape: a guarded map/slice field returned by reference
		for _, a := range accesses {
			info := a.fn.Pkg.TypesInfo
			t := info.TypeOf(a.node.(ast.Expr))
			if t == nil {
				continue
			}
			switch t.Underlying().(type) {
			case *types.Map, *types.Slice:
			default:
				continue
			}
			pm := parentMap(a.fn.Decl.Body)
			if ret, ok := pm[a.node].(*ast.ReturnStmt); ok {
				key := "escape:" + spec.Type + "." + a.field + " returned by " + a.fn.Name
				if why, ex := escapeExempt[a.fn.Name]; ex {
					c.Ok(rule, key+" (exempt)", ret.Pos(), why)
				} else {
					c.Bad(rule, key, ret.Pos(), "guarded "+a.field+" is returned by reference and can be used without the lock")
				}
			}
		}
	}
}

// callersHold: fi touches guarded state without locking; accept it as a
// helper when the unguarded base is its receiver/parameter and every call
// site holds the mutex of the corresponding argument.
func callersHold(p *Prog, fi *FuncInfo, unheld []lockAccess, spec GuardSpec, depth int) (bool, string) {
	if depth > 2 {
		return false, "helper chain deeper than 2"
	}
	info := fi.Pkg.TypesInfo
	// all unheld accesses must be based on the same receiver/parameter identifier
	var baseObj types.Object
	for _, a := range unheld {
		sel, ok := a.node.(*ast.SelectorExpr)
		if !ok {
			return false, "unguarded access with a complex base in " + fi.Name
		}
		id, ok := ast.Unparen(sel.X).(*ast.Ident)
		if !ok {
			return false, "unguarded access through " + exprStr(sel.X) + " in " + fi.Name
		}
		o := info.Uses[id]
		if baseObj != nil && o != baseObj {
			return false, "unguarded accesses through different bases in " + fi.Name
		}
		baseObj = o
	}
	recv, _ := recvAndParam(fi)
	argIndex := -1
	if baseObj != recv || recv == nil {
		sig := fi.Obj.Type().(*types.Signature)
		for i := 0; i < sig.Params().Len(); i++ {
			if sig.Params().At(i) == baseObj {
				argIndex = i
			}
		}
		if argIndex < 0 {
			return false, fi.Name + " accesses guarded state of a value that is neither its receiver nor a parameter"
		}
	}
	callers := p.CallersOf(fi.Obj)
	if len(callers) == 0 {
		return false, fi.Name + " does not lock and has no callers to inherit the lock from"
	}
	if len(p.FuncValueUses(fi.Obj)) > 0 {
		return false, fi.Name + " is used as a function value"
	}
	for _, cs := range callers {
		var baseExpr ast.Expr
		if argIndex >= 0 {
			baseExpr = cs.Call.Args[argIndex]
		} else if sel, ok := cs.Call.Fun.(*ast.SelectorExpr); ok {
			baseExpr = sel.X
		}
		if baseExpr == nil {
			return false, "call of " + fi.Name + " with unknown receiver at " + p.Pos(cs.Call.Pos())
		}
		body := cs.Caller.Decl.Body
		// find innermost literal containing the call
		ast.Inspect(cs.Caller.Decl.Body, func(n ast.Node) bool {
			if lit, ok := n.(*ast.FuncLit); ok && lit.Body.Pos() <= cs.Call.Pos() && cs.Call.End() <= lit.Body.End() {
				body = lit.Body
			}
			return true
		})
		if !heldAt(p, cs.Caller, body, cs.Call, exprStr(baseExpr), spec.Mutex) {
			// the caller may itself be a helper
			ok, why := callersHold(p, cs.Caller, []lockAccess{{fn: cs.Caller, body: body, node: &ast.SelectorExpr{X: baseExpr, Sel: ast.NewIdent(spec.Fields[0])}, base: exprStr(baseExpr)}}, spec, depth+1)
			if !ok {
				return false, "caller " + cs.Caller.Name + " at " + p.Pos(cs.Call.Pos()) + " does not hold " + spec.Mutex + " (" + why + ")"
			}
		}
	}
	return true, ""
}
