package main

import (
	"go/ast"
	"go/constant"
	"go/token"
	"go/types"

	"golang.org/x/tools/go/ast/astutil"
	"golang.org/x/tools/go/packages"
)

// normaliseMapLookups rewrites, in memory, the lookup of a value in a
// package-level table
//
//	var table = map[K]V{k1: v1, k2: v2}          (constant keys, never written)
//	…
//	if v, ok := table[x]; ok { BODY } else { ELSE }
//
// into the switch it stands for
//
//	switch x { case k1: BODY[v:=v1, ok:=true]; case k2: BODY[v:=v2, ok:=true]; default: ELSE }
//
// so that a function that was a switch over constants when its rules were
// written is still one for them after it was turned into a table lookup. Also
// handled: `v, ok := table[x]` as a statement of its own that is followed by
// `if ok { BODY }` or by `if !ok { NOTFOUND }` (NOTFOUND ending in a return):
// the rest of the block moves into the cases. Nothing else about the table may
// exist in the module than index reads, range loops and len().
func normaliseMapLookups(pkgs []*packages.Package) int {
	n := 0
	for _, pkg := range pkgs {
		info := pkg.TypesInfo
		type table struct {
			keys, vals []ast.Expr
		}
		tables := map[types.Object]*table{}
		for _, f := range pkg.Syntax {
			for _, d := range f.Decls {
				gd, ok := d.(*ast.GenDecl)
				if !ok || gd.Tok != token.VAR {
					continue
				}
				for _, sp := range gd.Specs {
					vs := sp.(*ast.ValueSpec)
					if len(vs.Names) != 1 || len(vs.Values) != 1 {
						continue
					}
					cl, ok := vs.Values[0].(*ast.CompositeLit)
					if !ok {
						continue
					}
					if _, isMap := info.TypeOf(cl).Underlying().(*types.Map); !isMap {
						continue
					}
					t := &table{}
					good := len(cl.Elts) > 0
					for _, el := range cl.Elts {
						kv, ok := el.(*ast.KeyValueExpr)
						if !ok {
							good = false
							break
						}
						if tv, has := info.Types[kv.Key]; !has || tv.Value == nil {
							good = false
							break
						}
						t.keys = append(t.keys, kv.Key)
						t.vals = append(t.vals, kv.Value)
					}
					if good {
						tables[info.Defs[vs.Names[0]]] = t
					}
				}
			}
		}
		if len(tables) == 0 {
			continue
		}
		// any use other than an index read / range / len disqualifies the table
		for _, p2 := range pkgs {
			for _, f := range p2.Syntax {
				var stack []ast.Node
				ast.Inspect(f, func(nd ast.Node) bool {
					if nd == nil {
						stack = stack[:len(stack)-1]
						return true
					}
					stack = append(stack, nd)
					id, ok := nd.(*ast.Ident)
					if !ok {
						return true
					}
					o := p2.TypesInfo.Uses[id]
					if o == nil || tables[o] == nil {
						return true
					}
					var parent, grand ast.Node
					if len(stack) >= 2 {
						parent = stack[len(stack)-2]
					}
					if len(stack) >= 3 {
						grand = stack[len(stack)-3]
					}
					if sel, isSel := parent.(*ast.SelectorExpr); isSel && sel.Sel == id {
						// pkg.table
						parent = grand
						grand = nil
						if len(stack) >= 4 {
							grand = stack[len(stack)-4]
						}
					}
					okUse := false
					switch x := parent.(type) {
					case *ast.IndexExpr:
						okUse = true
						if as, isAs := grand.(*ast.AssignStmt); isAs {
							for _, l := range as.Lhs {
								if l == ast.Expr(x) {
									okUse = false // table[k] = v
								}
							}
						}
						if _, isInc := grand.(*ast.IncDecStmt); isInc {
							okUse = false
						}
						if u, isU := grand.(*ast.UnaryExpr); isU && u.Op == token.AND {
							okUse = false
						}
					case *ast.RangeStmt:
						okUse = x.Key != ast.Expr(id) && x.Value != ast.Expr(id)
					case *ast.CallExpr:
						if fid, isID := x.Fun.(*ast.Ident); isID && fid.Name == "len" {
							okUse = true
						}
					}
					if !okUse {
						delete(tables, o)
					}
					return true
				})
			}
		}
		if len(tables) == 0 {
			continue
		}
		trueIdent := func(pos token.Pos) *ast.Ident {
			id := &ast.Ident{Name: "true", NamePos: pos}
			info.Uses[id] = types.Universe.Lookup("true")
			info.Types[id] = types.TypeAndValue{Type: types.Typ[types.Bool], Value: constant.MakeBool(true)}
			return id
		}
		in := &inliner{info: info}
		// lookup: `v, ok := table[x]`
		lookupOf := func(st ast.Stmt) (v, ok types.Object, x ast.Expr, t *table) {
			as, isAs := st.(*ast.AssignStmt)
			if !isAs || as.Tok != token.DEFINE || len(as.Lhs) != 2 || len(as.Rhs) != 1 {
				return
			}
			ix, isIx := ast.Unparen(as.Rhs[0]).(*ast.IndexExpr)
			if !isIx {
				return
			}
			var tid *ast.Ident
			switch y := ast.Unparen(ix.X).(type) {
			case *ast.Ident:
				tid = y
			case *ast.SelectorExpr:
				tid = y.Sel
			}
			if tid == nil {
				return
			}
			t = tables[info.Uses[tid]]
			if t == nil {
				return
			}
			// the key expression must be free of calls (it is evaluated once here, once per case after)
			pure := true
			ast.Inspect(ix.Index, func(m ast.Node) bool {
				if c, isC := m.(*ast.CallExpr); isC {
					if tv, has := info.Types[c.Fun]; !has || !tv.IsType() {
						pure = false
					}
				}
				return true
			})
			if !pure {
				return nil, nil, nil, nil
			}
			vid, _ := as.Lhs[0].(*ast.Ident)
			oid, _ := as.Lhs[1].(*ast.Ident)
			if vid == nil || oid == nil {
				return nil, nil, nil, nil
			}
			return info.Defs[vid], info.Defs[oid], ix.Index, t
		}
		// instantiate a body for one entry
		inst := func(stmts []ast.Stmt, v, okv types.Object, val ast.Expr, pos token.Pos) []ast.Stmt {
			blk := &ast.BlockStmt{List: stmts}
			cp, _ := in.copyNode(blk)
			out := astutil.Apply(cp, func(c *astutil.Cursor) bool {
				id, isID := c.Node().(*ast.Ident)
				if !isID {
					return true
				}
				switch o := info.Uses[id]; {
				case o != nil && o == v:
					vc, _ := in.copyNode(val)
					rebasePos(vc, id.Pos())
					c.Replace(vc)
				case o != nil && o == okv:
					c.Replace(trueIdent(id.Pos()))
				}
				return true
			}, nil)
			return out.(*ast.BlockStmt).List
		}
		endsInReturn := func(b *ast.BlockStmt) bool {
			if b == nil || len(b.List) == 0 {
				return false
			}
			_, isRet := b.List[len(b.List)-1].(*ast.ReturnStmt)
			return isRet
		}
		build := func(x ast.Expr, t *table, pos token.Pos, body func(i int) []ast.Stmt, deflt []ast.Stmt) *ast.SwitchStmt {
			xc, _ := in.copyNode(x)
			sw := &ast.SwitchStmt{Switch: pos, Tag: xc.(ast.Expr), Body: &ast.BlockStmt{Lbrace: pos, Rbrace: pos}}
			for i := range t.keys {
				kc, _ := in.copyNode(t.keys[i])
				rebasePos(kc, pos)
				sw.Body.List = append(sw.Body.List, &ast.CaseClause{Case: pos, Colon: pos, List: []ast.Expr{kc.(ast.Expr)}, Body: body(i)})
			}
			if deflt != nil {
				sw.Body.List = append(sw.Body.List, &ast.CaseClause{Case: pos, Colon: pos, Body: deflt})
			}
			return sw
		}
		var rewriteBlock func(b *ast.BlockStmt)
		rewriteBlock = func(b *ast.BlockStmt) {
			for i := 0; i < len(b.List); i++ {
				st := b.List[i]
				// form 1: if v, ok := table[x]; ok { BODY } else { ELSE }
				if ifs, isIf := st.(*ast.IfStmt); isIf && ifs.Init != nil {
					// (also `ok && REST` without an else: the found entry is used only where REST holds)
					if v, okv, x, t := lookupOf(ifs.Init); t != nil && okv != nil && ifs.Else == nil && objOf(info, ifs.Cond) != okv {
						if be, isBin := ast.Unparen(ifs.Cond).(*ast.BinaryExpr); isBin && be.Op == token.LAND && objOf(info, be.X) == okv {
							inner := &ast.IfStmt{If: ifs.Pos(), Cond: be.Y, Body: ifs.Body}
							b.List[i] = build(x, t, ifs.Pos(), func(k int) []ast.Stmt { return inst([]ast.Stmt{inner}, v, okv, t.vals[k], ifs.Pos()) }, nil)
							n++
							continue
						}
					}
					if v, okv, x, t := lookupOf(ifs.Init); t != nil && objOf(info, ifs.Cond) == okv && okv != nil {
						var deflt []ast.Stmt
						if eb, isBlk := ifs.Else.(*ast.BlockStmt); isBlk {
							deflt = eb.List
						} else if ifs.Else != nil {
							deflt = []ast.Stmt{ifs.Else}
						}
						b.List[i] = build(x, t, ifs.Pos(), func(k int) []ast.Stmt { return inst(ifs.Body.List, v, okv, t.vals[k], ifs.Pos()) }, deflt)
						n++
						continue
					}
				}
				// forms 2/3: v, ok := table[x]; if ok {BODY} | if !ok {NOTFOUND; return}
				if v, okv, x, t := lookupOf(st); t != nil && i+1 < len(b.List) {
					if ifs, isIf := b.List[i+1].(*ast.IfStmt); isIf && ifs.Init == nil && ifs.Else == nil {
						rest := b.List[i+2:]
						usedLater := func(stmts []ast.Stmt) bool {
							u := false
							for _, s := range stmts {
								ast.Inspect(s, func(m ast.Node) bool {
									if id, isID := m.(*ast.Ident); isID && (info.Uses[id] == v || info.Uses[id] == okv) {
										u = true
									}
									return true
								})
							}
							return u
						}
						switch {
						case objOf(info, ifs.Cond) == okv && !usedLater(rest):
							sw := build(x, t, st.Pos(), func(k int) []ast.Stmt { return inst(ifs.Body.List, v, okv, t.vals[k], st.Pos()) }, nil)
							b.List = append(append(append([]ast.Stmt{}, b.List[:i]...), sw), rest...)
							n++
							continue
						default:
							if u, isNot := ast.Unparen(ifs.Cond).(*ast.UnaryExpr); isNot && u.Op == token.NOT && objOf(info, u.X) == okv && endsInReturn(ifs.Body) && len(rest) > 0 {
								restCopy := append([]ast.Stmt{}, rest...)
								sw := build(x, t, st.Pos(), func(k int) []ast.Stmt { return inst(restCopy, v, okv, t.vals[k], st.Pos()) }, ifs.Body.List)
								b.List = append(append([]ast.Stmt{}, b.List[:i]...), sw)
								n++
								continue
							}
						}
					}
				}
			}
		}
		for _, f := range pkg.Syntax {
			ast.Inspect(f, func(nd ast.Node) bool {
				if b, ok := nd.(*ast.BlockStmt); ok {
					rewriteBlock(b)
				}
				return true
			})
		}
	}
	return n
}

// normaliseConstContains rewrites `slices.Contains(list, x)`, where list is a
// composite literal of constants written in place or a package-level slice
// variable initialised with one and never written, into the comparison chain
// it stands for: `x == c1 || x == c2 || …`. A switch over constants that was
// turned into a list look-up then gives the same facts to every rule that
// reads guards.
func normaliseConstContains(pkgs []*packages.Package) int {
	n := 0
	for _, pkg := range pkgs {
		info := pkg.TypesInfo
		lists := map[types.Object][]ast.Expr{}
		constElts := func(cl *ast.CompositeLit) []ast.Expr {
			if _, isSlice := info.TypeOf(cl).Underlying().(*types.Slice); !isSlice || len(cl.Elts) == 0 || len(cl.Elts) > 16 {
				return nil
			}
			for _, el := range cl.Elts {
				if tv, has := info.Types[el]; !has || tv.Value == nil {
					return nil
				}
			}
			return cl.Elts
		}
		for _, f := range pkg.Syntax {
			for _, d := range f.Decls {
				gd, ok := d.(*ast.GenDecl)
				if !ok || gd.Tok != token.VAR {
					continue
				}
				for _, sp := range gd.Specs {
					vs := sp.(*ast.ValueSpec)
					if len(vs.Names) != 1 || len(vs.Values) != 1 {
						continue
					}
					if cl, ok := vs.Values[0].(*ast.CompositeLit); ok {
						if el := constElts(cl); el != nil {
							lists[info.Defs[vs.Names[0]]] = el
						}
					}
				}
			}
		}
		// the list variable is only ever read whole as an argument, ranged over, indexed for reading or measured
		for _, p2 := range pkgs {
			for _, f := range p2.Syntax {
				var stack []ast.Node
				ast.Inspect(f, func(nd ast.Node) bool {
					if nd == nil {
						stack = stack[:len(stack)-1]
						return true
					}
					stack = append(stack, nd)
					id, ok := nd.(*ast.Ident)
					if !ok || lists[p2.TypesInfo.Uses[id]] == nil {
						return true
					}
					o := p2.TypesInfo.Uses[id]
					var parent ast.Node
					if len(stack) >= 2 {
						parent = stack[len(stack)-2]
					}
					if sel, isSel := parent.(*ast.SelectorExpr); isSel && sel.Sel == id && len(stack) >= 3 {
						parent = stack[len(stack)-3]
					}
					okUse := false
					switch x := parent.(type) {
					case *ast.CallExpr:
						if fn := Callee(p2.TypesInfo, x); fn != nil && fn.Pkg() != nil && fn.Pkg().Path() == "slices" && (fn.Name() == "Contains" || fn.Name() == "Index") {
							okUse = true
						}
						if fid, isID := x.Fun.(*ast.Ident); isID && fid.Name == "len" {
							okUse = true
						}
					case *ast.RangeStmt:
						okUse = x.Key != ast.Expr(id) && x.Value != ast.Expr(id)
					}
					if !okUse {
						delete(lists, o)
					}
					return true
				})
			}
		}
		in := &inliner{info: info}
		for _, f := range pkg.Syntax {
			astutil.Apply(f, nil, func(c *astutil.Cursor) bool {
				call, ok := c.Node().(*ast.CallExpr)
				if !ok || len(call.Args) != 2 {
					return true
				}
				fn := Callee(info, call)
				if fn == nil || fn.Pkg() == nil || fn.Pkg().Path() != "slices" || fn.Name() != "Contains" {
					return true
				}
				var elts []ast.Expr
				switch l := ast.Unparen(call.Args[0]).(type) {
				case *ast.CompositeLit:
					elts = constElts(l)
				case *ast.Ident:
					elts = lists[info.Uses[l]]
				case *ast.SelectorExpr:
					elts = lists[info.Uses[l.Sel]]
				}
				if elts == nil {
					return true
				}
				pure := true
				ast.Inspect(call.Args[1], func(m ast.Node) bool {
					if cc, isC := m.(*ast.CallExpr); isC {
						if tv, has := info.Types[cc.Fun]; !has || !tv.IsType() {
							pure = false
						}
					}
					return true
				})
				if !pure {
					return true
				}
				var chain ast.Expr
				for _, el := range elts {
					xc, _ := in.copyNode(call.Args[1])
					kc, _ := in.copyNode(el)
					rebasePos(kc, call.Pos())
					eq := &ast.BinaryExpr{X: xc.(ast.Expr), Op: token.EQL, OpPos: call.Pos(), Y: kc.(ast.Expr)}
					info.Types[eq] = types.TypeAndValue{Type: types.Typ[types.Bool]}
					if chain == nil {
						chain = eq
					} else {
						or := &ast.BinaryExpr{X: chain, Op: token.LOR, OpPos: call.Pos(), Y: eq}
						info.Types[or] = types.TypeAndValue{Type: types.Typ[types.Bool]}
						chain = or
					}
				}
				pe := &ast.ParenExpr{Lparen: call.Pos(), X: chain, Rparen: call.End()}
				info.Types[pe] = types.TypeAndValue{Type: types.Typ[types.Bool]}
				c.Replace(pe)
				n++
				return true
			})
		}
	}
	return n
}

// normaliseCompare rewrites `cmp.Compare(a, b) OP 0` (and strings.Compare) into
// `a OP b`: the three-way comparison against zero is the plain comparison.
// Run after the temporaries were substituted, so `c := cmp.Compare(a, b)`
// followed by `c < 0` is covered too.
func normaliseCompare(pkgs []*packages.Package) int {
	n := 0
	for _, pkg := range pkgs {
		info := pkg.TypesInfo
		for _, f := range pkg.Syntax {
			ast.Inspect(f, func(nd ast.Node) bool {
				be, ok := nd.(*ast.BinaryExpr)
				if !ok {
					return true
				}
				switch be.Op {
				case token.LSS, token.LEQ, token.GTR, token.GEQ, token.EQL, token.NEQ:
				default:
					return true
				}
				call, isCall := ast.Unparen(be.X).(*ast.CallExpr)
				if !isCall || len(call.Args) != 2 {
					return true
				}
				fn := Callee(info, call)
				if fn == nil || fn.Pkg() == nil || (fn.Pkg().Path() != "cmp" && fn.Pkg().Path() != "strings") || fn.Name() != "Compare" {
					return true
				}
				if tv, has := info.Types[be.Y]; !has || tv.Value == nil || tv.Value.String() != "0" {
					return true
				}
				be.X, be.Y = call.Args[0], call.Args[1]
				n++
				return true
			})
		}
	}
	return n
}
