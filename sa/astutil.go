package main

import (
	"go/ast"
	"go/constant"
	"go/token"
	"go/types"
	"sort"
	"strings"

	"golang.org/x/tools/go/packages"
	"golang.org/x/tools/go/types/typeutil"
)

// inspectNoLit walks n without descending into function literals.
func inspectNoLit(n ast.Node, f func(ast.Node) bool) {
	ast.Inspect(n, func(m ast.Node) bool {
		if m == nil {
			return false
		}
		if _, ok := m.(*ast.FuncLit); ok && m != n {
			return false
		}
		return f(m)
	})
}

// Callee resolves the static callee of a call (function, method, or interface
// method object); nil for calls of function values and conversions.
func Callee(info *types.Info, call *ast.CallExpr) *types.Func {
	fn, _ := typeutil.Callee(info, call).(*types.Func)
	if fn != nil {
		return fn.Origin()
	}
	return nil
}

// calleeName returns the module-relative qualified name of a call's callee.
func calleeName(info *types.Info, call *ast.CallExpr) string {
	fn := Callee(info, call)
	if fn == nil {
		return ""
	}
	return funcQName(fn)
}

// isCallTo reports whether call resolves to one of the qualified names.
func isCallTo(info *types.Info, call *ast.CallExpr, names ...string) bool {
	n := calleeName(info, call)
	if n == "" {
		return false
	}
	for _, x := range names {
		if n == x {
			return true
		}
	}
	return false
}

// constString returns the constant string value of e, if it has one.
func constString(info *types.Info, e ast.Expr) (string, bool) {
	tv, ok := info.Types[e]
	if !ok || tv.Value == nil || tv.Value.Kind() != constant.String {
		return "", false
	}
	return constant.StringVal(tv.Value), true
}

// constInt returns the constant integer value of e, if it has one.
func constInt(info *types.Info, e ast.Expr) (int64, bool) {
	tv, ok := info.Types[e]
	if !ok || tv.Value == nil || tv.Value.Kind() != constant.Int {
		return 0, false
	}
	v, exact := constant.Int64Val(tv.Value)
	return v, exact
}

// constObj returns the *types.Const an expression names (ident or selector).
func constObj(info *types.Info, e ast.Expr) *types.Const {
	e = ast.Unparen(e)
	var id *ast.Ident
	switch x := e.(type) {
	case *ast.Ident:
		id = x
	case *ast.SelectorExpr:
		id = x.Sel
	default:
		return nil
	}
	c, _ := info.Uses[id].(*types.Const)
	return c
}

// objOf returns the object an identifier or selector expression denotes.
func objOf(info *types.Info, e ast.Expr) types.Object {
	e = ast.Unparen(e)
	switch x := e.(type) {
	case *ast.Ident:
		if o := info.Uses[x]; o != nil {
			return o
		}
		return info.Defs[x]
	case *ast.SelectorExpr:
		if s := info.Selections[x]; s != nil {
			return s.Obj()
		}
		return info.Uses[x.Sel]
	}
	return nil
}

// exprStr renders an expression compactly (literals kept).
func exprStr(e ast.Node) string {
	if e == nil {
		return ""
	}
	var sb strings.Builder
	writeExpr(&sb, e)
	return sb.String()
}

func writeExpr(sb *strings.Builder, n ast.Node) {
	switch x := n.(type) {
	case *ast.Ident:
		sb.WriteString(x.Name)
	case *ast.BasicLit:
		sb.WriteString(x.Value)
	case *ast.SelectorExpr:
		writeExpr(sb, x.X)
		sb.WriteString(".")
		sb.WriteString(x.Sel.Name)
	case *ast.StarExpr:
		sb.WriteString("*")
		writeExpr(sb, x.X)
	case *ast.UnaryExpr:
		sb.WriteString(x.Op.String())
		writeExpr(sb, x.X)
	case *ast.BinaryExpr:
		writeExpr(sb, x.X)
		sb.WriteString(" " + x.Op.String() + " ")
		writeExpr(sb, x.Y)
	case *ast.ParenExpr:
		sb.WriteString("(")
		writeExpr(sb, x.X)
		sb.WriteString(")")
	case *ast.CallExpr:
		writeExpr(sb, x.Fun)
		sb.WriteString("(")
		for i, a := range x.Args {
			if i > 0 {
				sb.WriteString(", ")
			}
			writeExpr(sb, a)
		}
		sb.WriteString(")")
	case *ast.IndexExpr:
		writeExpr(sb, x.X)
		sb.WriteString("[")
		writeExpr(sb, x.Index)
		sb.WriteString("]")
	case *ast.IndexListExpr:
		writeExpr(sb, x.X)
		sb.WriteString("[")
		for i, a := range x.Indices {
			if i > 0 {
				sb.WriteString(", ")
			}
			writeExpr(sb, a)
		}
		sb.WriteString("]")
	case *ast.SliceExpr:
		writeExpr(sb, x.X)
		sb.WriteString("[")
		if x.Low != nil {
			writeExpr(sb, x.Low)
		}
		sb.WriteString(":")
		if x.High != nil {
			writeExpr(sb, x.High)
		}
		sb.WriteString("]")
	case *ast.TypeAssertExpr:
		writeExpr(sb, x.X)
		sb.WriteString(".(")
		if x.Type == nil {
			sb.WriteString("type")
		} else {
			writeExpr(sb, x.Type)
		}
		sb.WriteString(")")
	case *ast.CompositeLit:
		if x.Type != nil {
			writeExpr(sb, x.Type)
		}
		sb.WriteString("{…}")
	case *ast.FuncLit:
		sb.WriteString("func(){…}")
	case *ast.ArrayType:
		sb.WriteString("[]")
		writeExpr(sb, x.Elt)
	case *ast.MapType:
		sb.WriteString("map[")
		writeExpr(sb, x.Key)
		sb.WriteString("]")
		writeExpr(sb, x.Value)
	case *ast.KeyValueExpr:
		writeExpr(sb, x.Key)
		sb.WriteString(": ")
		writeExpr(sb, x.Value)
	default:
		sb.WriteString("?")
	}
}

// accessPath returns a canonical access path for ident/selector chains
// ("entry.Rule.AlertingRule"), rooted at a variable object; ok is false for
// anything else (calls, indexes).
func accessPath(info *types.Info, e ast.Expr) (root types.Object, path string, ok bool) {
	e = ast.Unparen(e)
	switch x := e.(type) {
	case *ast.Ident:
		o := info.Uses[x]
		if o == nil {
			o = info.Defs[x]
		}
		if o == nil {
			return nil, "", false
		}
		return o, x.Name, true
	case *ast.SelectorExpr:
		r, p, ok := accessPath(info, x.X)
		if !ok {
			return nil, "", false
		}
		return r, p + "." + x.Sel.Name, true
	case *ast.StarExpr:
		return accessPath(info, x.X)
	}
	return nil, "", false
}

// samePath reports whether two expressions are the same access path.
func samePath(info *types.Info, a, b ast.Expr) bool {
	ra, pa, oka := accessPath(info, a)
	rb, pb, okb := accessPath(info, b)
	return oka && okb && ra == rb && pa == pb
}

// SwitchCase is one expanded value of a case clause.
type SwitchCase struct {
	Expr   ast.Expr // nil for default
	Clause *ast.CaseClause
}

// findSwitches returns the (tagged or tagless) switch statements in body for
// which pick returns true (nil pick = all), in source order, not descending
// into function literals.
func findSwitches(body ast.Node, pick func(*ast.SwitchStmt) bool) []*ast.SwitchStmt {
	var out []*ast.SwitchStmt
	inspectNoLit(body, func(n ast.Node) bool {
		if s, ok := n.(*ast.SwitchStmt); ok && (pick == nil || pick(s)) {
			out = append(out, s)
		}
		return true
	})
	return out
}

// switchCases expands the clauses of a switch per case value.
func switchCases(s *ast.SwitchStmt) (cases []SwitchCase, deflt *ast.CaseClause) {
	for _, st := range s.Body.List {
		cc := st.(*ast.CaseClause)
		if cc.List == nil {
			deflt = cc
			continue
		}
		for _, e := range cc.List {
			cases = append(cases, SwitchCase{Expr: e, Clause: cc})
		}
	}
	return cases, deflt
}

// returnsIn lists the return statements lexically inside the statements.
func returnsIn(stmts []ast.Stmt) []*ast.ReturnStmt {
	var out []*ast.ReturnStmt
	for _, s := range stmts {
		inspectNoLit(s, func(n ast.Node) bool {
			if r, ok := n.(*ast.ReturnStmt); ok {
				out = append(out, r)
			}
			return true
		})
	}
	return out
}

// namedOf strips pointers and returns the named type, if any.
func namedOf(t types.Type) *types.Named {
	for {
		switch x := t.(type) {
		case *types.Pointer:
			t = x.Elem()
		case *types.Alias:
			t = types.Unalias(x)
		case *types.Named:
			return x
		default:
			return nil
		}
	}
}

// typeQName renders a named type as "internal/pkg.Name".
func typeQName(t types.Type) string {
	n := namedOf(t)
	if n == nil {
		if t == nil {
			return ""
		}
		return t.String()
	}
	if n.Obj().Pkg() == nil {
		return n.Obj().Name()
	}
	return relPkg(n.Obj().Pkg().Path()) + "." + n.Obj().Name()
}

// isNamed reports whether t (modulo pointers) is the named type pkg.name.
func isNamed(t types.Type, qname string) bool { return t != nil && typeQName(t) == qname }

// fieldSel reports whether e is a selector of field `field` on a value whose
// (pointer-stripped) type is qtype.
func fieldSel(info *types.Info, e ast.Expr, qtype, field string) bool {
	sel, ok := ast.Unparen(e).(*ast.SelectorExpr)
	if !ok || sel.Sel.Name != field {
		return false
	}
	s := info.Selections[sel]
	if s == nil || s.Kind() != types.FieldVal {
		return false
	}
	// the struct declaring the field
	v, ok := s.Obj().(*types.Var)
	if !ok || !v.IsField() {
		return false
	}
	return fieldOwner(info, sel) == qtype
}

// fieldOwner returns the qualified name of the named struct type that
// declares the field selected by sel (following embedded fields).
func fieldOwner(info *types.Info, sel *ast.SelectorExpr) string {
	s := info.Selections[sel]
	if s == nil {
		return ""
	}
	t := s.Recv()
	idx := s.Index()
	for i, ix := range idx {
		n := namedOf(t)
		var st *types.Struct
		if n != nil {
			st, _ = n.Underlying().(*types.Struct)
		} else {
			pt := t
			if p, ok := pt.(*types.Pointer); ok {
				pt = p.Elem()
			}
			st, _ = pt.Underlying().(*types.Struct)
		}
		if st == nil {
			return ""
		}
		if i == len(idx)-1 {
			if n == nil {
				return ""
			}
			return typeQName(n)
		}
		t = st.Field(ix).Type()
	}
	return ""
}

// structFields lists the field names of a named struct type.
func structFields(tn *types.TypeName) []string {
	st, ok := tn.Type().Underlying().(*types.Struct)
	if !ok {
		return nil
	}
	var out []string
	for i := 0; i < st.NumFields(); i++ {
		out = append(out, st.Field(i).Name())
	}
	return out
}

// sortedKeys returns the sorted keys of a string-keyed map.
func sortedKeys[V any](m map[string]V) []string {
	out := make([]string, 0, len(m))
	for k := range m {
		out = append(out, k)
	}
	sort.Strings(out)
	return out
}

// buildCallers indexes every static call in module code (tests excluded
// unless the program was loaded with tests).
func (p *Prog) buildCallers() {
	if p.callers != nil {
		return
	}
	p.callers = map[*types.Func][]CallSite{}
	for _, fi := range p.AllFuncs() {
		if fi.Decl.Body == nil {
			continue
		}
		info := fi.Pkg.TypesInfo
		var walk func(n ast.Node, inLit bool)
		walk = func(n ast.Node, inLit bool) {
			ast.Inspect(n, func(m ast.Node) bool {
				switch x := m.(type) {
				case *ast.FuncLit:
					if m != n {
						walk(x.Body, true)
						return false
					}
				case *ast.GoStmt:
					if fn := Callee(info, x.Call); fn != nil {
						p.callers[fn] = append(p.callers[fn], CallSite{Caller: fi, Call: x.Call, InGo: true, InLit: inLit})
					}
					for _, a := range x.Call.Args {
						walk(a, inLit)
					}
					if fl, ok := x.Call.Fun.(*ast.FuncLit); ok {
						walk(fl.Body, true)
					} else {
						walk(x.Call.Fun, inLit)
					}
					return false
				case *ast.CallExpr:
					if fn := Callee(info, x); fn != nil {
						p.callers[fn] = append(p.callers[fn], CallSite{Caller: fi, Call: x, InLit: inLit})
					}
				}
				return true
			})
		}
		walk(fi.Decl.Body, false)
	}
}

// CallersOf returns the static call sites of fn in non-test module code.
func (p *Prog) CallersOf(fn *types.Func) []CallSite {
	p.buildCallers()
	var out []CallSite
	for _, cs := range p.callers[fn.Origin()] {
		if p.IsTestFile(cs.Call.Pos()) {
			continue
		}
		out = append(out, cs)
	}
	return out
}

// FuncValueUses lists places where fn is referenced as a value rather than
// called (method values, function values), in non-test module code.
func (p *Prog) FuncValueUses(fn *types.Func) []token.Pos {
	var out []token.Pos
	for _, pkg := range p.ModPkgs() {
		info := pkg.TypesInfo
		for _, f := range pkg.Syntax {
			if p.IsTestFile(f.Pos()) {
				continue
			}
			called := map[*ast.Ident]bool{}
			ast.Inspect(f, func(n ast.Node) bool {
				if c, ok := n.(*ast.CallExpr); ok {
					switch x := ast.Unparen(c.Fun).(type) {
					case *ast.Ident:
						called[x] = true
					case *ast.SelectorExpr:
						called[x.Sel] = true
					case *ast.IndexExpr:
						switch y := x.X.(type) {
						case *ast.Ident:
							called[y] = true
						case *ast.SelectorExpr:
							called[y.Sel] = true
						}
					}
				}
				return true
			})
			ast.Inspect(f, func(n ast.Node) bool {
				if id, ok := n.(*ast.Ident); ok {
					if o, ok := info.Uses[id].(*types.Func); ok && o.Origin() == fn.Origin() && !called[id] {
						out = append(out, id.Pos())
					}
				}
				return true
			})
		}
	}
	return out
}

// enclosingFunc finds the FuncInfo whose declaration contains pos.
func (p *Prog) enclosingFunc(pos token.Pos) *FuncInfo {
	for _, fi := range p.byObj {
		if fi.Decl.Pos() <= pos && pos < fi.Decl.End() {
			return fi
		}
	}
	// a position inside a helper that was expanded in place belongs to the function it was expanded into
	for _, h := range p.inlineHosts {
		if h.From <= pos && pos < h.To {
			for _, fi := range p.byObj {
				if fi.Decl == h.Host {
					return fi
				}
			}
			return p.enclosingFunc(h.Host.Pos())
		}
	}
	return nil
}

// methodOn finds the method `name` declared on named type qtype (value or
// pointer receiver) in the module.
func (p *Prog) methodOn(qtype, name string) *FuncInfo {
	return p.funcs[qtype+"."+name]
}

// implementers lists module named types whose pointer or value method set
// implements the interface.
func (p *Prog) implementers(iface *types.Interface) []*types.TypeName {
	var out []*types.TypeName
	for _, pkg := range p.ModPkgs() {
		sc := pkg.Types.Scope()
		for _, n := range sc.Names() {
			tn, ok := sc.Lookup(n).(*types.TypeName)
			if !ok || tn.IsAlias() {
				continue
			}
			if _, isIface := tn.Type().Underlying().(*types.Interface); isIface {
				continue
			}
			if p.IsTestFile(tn.Pos()) {
				continue
			}
			if types.Implements(tn.Type(), iface) || types.Implements(types.NewPointer(tn.Type()), iface) {
				out = append(out, tn)
			}
		}
	}
	sort.Slice(out, func(i, j int) bool { return out[i].Name() < out[j].Name() })
	return out
}

// fileOf returns the syntax file of pkg containing pos.
func fileOf(pkg *packages.Package, pos token.Pos) *ast.File {
	for _, f := range pkg.Syntax {
		if f.Pos() <= pos && pos < f.End() {
			return f
		}
	}
	return nil
}

// singleReturnConst returns the constant string a niladic method returns on
// every return statement (all must agree).
func singleReturnConst(fi *FuncInfo) (string, bool) {
	if fi == nil || fi.Decl.Body == nil {
		return "", false
	}
	rets := returnsIn(fi.Decl.Body.List)
	if len(rets) == 0 {
		return "", false
	}
	val := ""
	for i, r := range rets {
		if len(r.Results) != 1 {
			return "", false
		}
		s, ok := constString(fi.Pkg.TypesInfo, r.Results[0])
		if !ok {
			return "", false
		}
		if i > 0 && s != val {
			return "", false
		}
		val = s
	}
	return val, true
}

// compositeLits finds composite literals of the named type qtype in n.
func compositeLits(info *types.Info, n ast.Node, qtype string) []*ast.CompositeLit {
	var out []*ast.CompositeLit
	ast.Inspect(n, func(m ast.Node) bool {
		if cl, ok := m.(*ast.CompositeLit); ok {
			if tv, ok := info.Types[cl]; ok && typeQName(tv.Type) == qtype {
				if _, isPtr := tv.Type.(*types.Pointer); !isPtr {
					// `Problem{}` is the zero value a helper hands back next to "nothing found", not a report
					if qtype == "internal/checks.Problem" && len(cl.Elts) == 0 {
						return true
					}
					out = append(out, cl)
				}
			}
		}
		return true
	})
	return out
}

// litField returns the value given to field name in a keyed composite
// literal, or nil.
func litField(cl *ast.CompositeLit, name string) ast.Expr {
	for _, el := range cl.Elts {
		if kv, ok := el.(*ast.KeyValueExpr); ok {
			if id, ok := kv.Key.(*ast.Ident); ok && id.Name == name {
				return kv.Value
			}
		}
	}
	return nil
}

// parentMap records the parent of every node under root.
func parentMap(root ast.Node) map[ast.Node]ast.Node {
	pm := map[ast.Node]ast.Node{}
	var stack []ast.Node
	ast.Inspect(root, func(n ast.Node) bool {
		if n == nil {
			stack = stack[:len(stack)-1]
			return false
		}
		if len(stack) > 0 {
			pm[n] = stack[len(stack)-1]
		}
		stack = append(stack, n)
		return true
	})
	return pm
}

// enclosingCase walks up from n to the nearest case clause of a tagged switch
// and returns the clause and the switch.
func enclosingCase(pm map[ast.Node]ast.Node, n ast.Node) (*ast.CaseClause, *ast.SwitchStmt) {
	for cur := pm[n]; cur != nil; cur = pm[cur] {
		if cc, ok := cur.(*ast.CaseClause); ok {
			if blk, ok := pm[cc].(*ast.BlockStmt); ok {
				if sw, ok := pm[blk].(*ast.SwitchStmt); ok {
					return cc, sw
				}
			}
		}
	}
	return nil, nil
}

// isLHS reports whether e is (part of) the left-hand side of an assignment.
func isLHS(pm map[ast.Node]ast.Node, e ast.Node) bool {
	for cur, child := pm[e], e; cur != nil; cur, child = pm[cur], cur {
		if as, ok := cur.(*ast.AssignStmt); ok {
			for _, l := range as.Lhs {
				if l == child {
					return true
				}
			}
			return false
		}
		if _, ok := cur.(ast.Stmt); ok {
			return false
		}
	}
	return false
}

// typeRole names a local variable (parameter, result, local) after its type, so
// that guard texts do not depend on what the variable happens to be called.
// Package-level objects, fields, constants and functions keep their names.
func typeRole(o types.Object) string {
	v, ok := o.(*types.Var)
	if !ok || v.IsField() || v.Pkg() == nil || v.Parent() == nil || v.Parent() == v.Pkg().Scope() {
		return ""
	}
	t := v.Type()
	switch t.String() {
	case "error":
		return "err"
	case "int":
		return "int"
	case "string":
		return "str"
	case "bool":
		return "flag"
	case "[]string":
		return "strs"
	}
	q := typeQName(t)
	if q == "" {
		return "local"
	}
	if q == "internal/parser.yamlMap" {
		return "entry" // a (key, value) pair of a YAML mapping, however it was obtained
	}
	if i := strings.LastIndexAny(q, "./"); i >= 0 {
		q = q[i+1:]
	}
	return "«" + q + "»"
}

// roleStr renders an expression with every local variable replaced by a name
// derived from its type (see typeRole); fields, package-level objects and
// constants keep their names. Used for obligation keys and guard texts so that
// they survive a renaming of locals and parameters.
func roleStr(info *types.Info, e ast.Node) string {
	return canonStr(info, e)
}

// exprIdentity renders an expression so that two renderings are equal exactly
// when the expressions have the same shape over the same objects (a local is
// rendered by the position of its declaration, not by its name).
func exprIdentity(info *types.Info, e ast.Expr) string {
	var sb strings.Builder
	var w func(n ast.Node)
	w = func(n ast.Node) {
		switch x := n.(type) {
		case *ast.Ident:
			o := info.Uses[x]
			if o == nil {
				o = info.Defs[x]
			}
			if o != nil && o.Pos().IsValid() {
				sb.WriteString(x.Name + "@" + itoa(int(o.Pos())))
			} else {
				sb.WriteString(x.Name)
			}
		case *ast.ParenExpr:
			w(x.X)
		case *ast.SelectorExpr:
			w(x.X)
			sb.WriteString("." + x.Sel.Name)
		case *ast.BinaryExpr:
			sb.WriteString("(")
			w(x.X)
			sb.WriteString(" " + x.Op.String() + " ")
			w(x.Y)
			sb.WriteString(")")
		case *ast.UnaryExpr:
			sb.WriteString(x.Op.String())
			w(x.X)
		case *ast.StarExpr:
			sb.WriteString("*")
			w(x.X)
		case *ast.IndexExpr:
			w(x.X)
			sb.WriteString("[")
			w(x.Index)
			sb.WriteString("]")
		case *ast.CallExpr:
			w(x.Fun)
			sb.WriteString("(")
			for i, a := range x.Args {
				if i > 0 {
					sb.WriteString(", ")
				}
				w(a)
			}
			sb.WriteString(")")
		case *ast.BasicLit:
			sb.WriteString(x.Value)
		default:
			sb.WriteString(exprStr(n))
		}
	}
	w(e)
	return sb.String()
}

// singleDef resolves an identifier that names a local assigned exactly once
// in body to the expression it was assigned; any other expression is returned
// as it is. `xs := f(); for _, x := range xs` and `for _, x := range f()` then
// look the same to a rule that asks what is being ranged over.
func singleDef(info *types.Info, body ast.Node, e ast.Expr) ast.Expr {
	id, ok := ast.Unparen(e).(*ast.Ident)
	if !ok {
		return e
	}
	o := info.Uses[id]
	if v, isVar := o.(*types.Var); !isVar || v.IsField() {
		return e
	}
	var defs []ast.Expr
	ast.Inspect(body, func(n ast.Node) bool {
		if as, ok := n.(*ast.AssignStmt); ok && len(as.Lhs) == len(as.Rhs) {
			for i, l := range as.Lhs {
				if objOf(info, l) == o {
					defs = append(defs, as.Rhs[i])
				}
			}
		} else if ok && len(as.Rhs) == 1 && len(as.Lhs) > 1 && objOf(info, as.Lhs[0]) == o {
			defs = append(defs, as.Rhs[0]) // v, err := f(): v is "the" result of f
		}
		return true
	})
	if len(defs) == 1 {
		return ast.Unparen(defs[0])
	}
	// a helper expanded at several call sites defines its local once per expansion: still "one"
	// definition when all of them call the same function
	if len(defs) > 1 {
		var fn0 *types.Func
		same := true
		for i, d := range defs {
			call, ok := ast.Unparen(d).(*ast.CallExpr)
			if !ok {
				same = false
				break
			}
			fn := Callee(info, call)
			if i == 0 {
				fn0 = fn
			}
			if fn == nil || fn != fn0 {
				same = false
			}
		}
		if same {
			return ast.Unparen(defs[0])
		}
	}
	return e
}

// allDefs lists the right-hand sides of every assignment to the local named by id in body
// (for `v, err := f()` the call counts as the definition of v).
func allDefs(info *types.Info, body ast.Node, id *ast.Ident) []ast.Expr {
	o := info.Uses[id]
	if o == nil {
		return nil
	}
	var defs []ast.Expr
	ast.Inspect(body, func(n ast.Node) bool {
		if as, ok := n.(*ast.AssignStmt); ok {
			if len(as.Lhs) == len(as.Rhs) {
				for i, l := range as.Lhs {
					if objOf(info, l) == o {
						defs = append(defs, ast.Unparen(as.Rhs[i]))
					}
				}
			} else if len(as.Rhs) == 1 && len(as.Lhs) > 1 && objOf(info, as.Lhs[0]) == o {
				defs = append(defs, ast.Unparen(as.Rhs[0]))
			}
		}
		return true
	})
	return defs
}

// loopReachesCall: in the body of a loop, the first call accepted by isTarget is
// reached for every element: it stands under no condition inside the body and no
// statement in front of it can leave the iteration (continue, break, return,
// goto). Returns "" when that holds, else the reason.
func loopReachesCall(info *types.Info, pm map[ast.Node]ast.Node, body *ast.BlockStmt, what string, isTarget func(*ast.CallExpr) bool) string {
	var call *ast.CallExpr
	ast.Inspect(body, func(n ast.Node) bool {
		if cl, ok := n.(*ast.CallExpr); ok && call == nil && isTarget(cl) {
			call = cl
		}
		return true
	})
	if call == nil {
		return "the loop does not call " + what
	}
	if g := lexicalGuards(pm, call, body); len(g) > 0 {
		return what + " is guarded by `" + roleStr(info, g[0].E) + "`"
	}
	for _, st := range body.List {
		inside := false
		ast.Inspect(st, func(m ast.Node) bool {
			if m == ast.Node(call) {
				inside = true
			}
			return !inside
		})
		if inside {
			break
		}
		if containsBranch(st) {
			return "a statement in front of " + what + " can skip the element"
		}
	}
	return ""
}
