package main

import (
	"fmt"
	"go/ast"
	"go/token"
	"go/types"
	"os"
	"strings"

	"golang.org/x/tools/go/cfg"
)

func init() {
	register("C17", runC17,
		"Decides the single-round guards every reporting round relies on, for all comment populations: (R1) in updateDestination the Create call cannot be reached within an iteration from the true edge of IsEqual(dst, existing, pending), is dominated by CanCreate(created), `created` is incremented on every path from a successful Create to the next pending comment and has no other writer; (R2) the Delete call cannot be reached within an iteration from a true IsEqual and is dominated by CanDelete(existing); both phases scan the same pending list; (R3) every Commenter implementation's IsEqual lets path, line and text of both arguments influence its result and CanCreate(n) is `n < maxComments`; (R4) the summary is posted on every non-error path and a Delete error is collected, not returned.",
		"multi-round convergence itself (a property of histories), grouping of problems into comments (makeComments/dedupReports), platform API behaviour.")
}

func runC17(c *Ctx) {
	defer checkSearchFlags(c, "C17-R2", "internal/reporter.bitBucketAPI.addComments", "internal/reporter.bitBucketAPI.pruneComments")
	p := c.P
	c.Rule("C17-R1", "create guard: no duplicate of a recognised comment; budget respected and counted", 6)
	c.Rule("C17-R2", "delete guard: only comments matching no pending one, only when allowed", 4)
	c.Rule("C17-R3", "platform siblings: IsEqual covers path, line, text of both sides; CanCreate is n < maxComments", 9)
	c.Rule("C17-R4", "summary always posted; delete errors collected", 3)
	c.Rule("C17-R5", "reports reach the commenters in a total order (comparator keys, shared with C11-R1)", 8)
	defer c11ComparatorKeys(c, "C17-R5")
	defer c11NestedDetailsSorted(c, "C17-R5")
	defer c17ListFilters(c)
	defer c17ComparisonHasNoMemory(c)
	defer c17CommentTextAndPlace(c)
	defer c17ErrorsEndTheRun(c, "C17-R4")
	defer c17FirstNoteOnly(c)

	ud := c.MustFunc("C17-R1", "internal/reporter.updateDestination")
	if ud == nil {
		return
	}
	info := ud.Pkg.TypesInfo
	fl := p.NewFlow(ud)
	iface := p.LookupType("internal/reporter", "Commenter")
	if iface == nil {
		c.Undecided("C17-R1", "anchor:reporter.Commenter", token.NoPos, "interface not found")
		return
	}
	isMethod := func(n ast.Node, name string) *ast.CallExpr {
		call, ok := n.(*ast.CallExpr)
		if !ok {
			return nil
		}
		fn := Callee(info, call)
		if fn == nil || fn.Name() != name {
			return nil
		}
		if recv := fn.Type().(*types.Signature).Recv(); recv == nil || typeQName(recv.Type()) != "internal/reporter.Commenter" {
			return nil
		}
		return call
	}
	find := func(name string) []SiteMatch {
		return fl.Find(func(n ast.Node) bool { return isMethod(n, name) != nil })
	}
	// the two phases may live in updateDestination itself or in helpers it calls
	// (same package, two levels): each is analysed in the function that holds it
	type phaseFn struct {
		fi *FuncInfo
		fl *Flow
		pm map[ast.Node]ast.Node
	}
	var cands []*phaseFn
	{
		seen := map[*FuncInfo]bool{}
		var add func(fi *FuncInfo, depth int)
		add = func(fi *FuncInfo, depth int) {
			if fi == nil || seen[fi] || fi.Decl.Body == nil || fi.Pkg != ud.Pkg {
				return
			}
			seen[fi] = true
			f := p.NewFlow(fi)
			if fi == ud {
				f = fl
			}
			cands = append(cands, &phaseFn{fi, f, parentMap(fi.Decl.Body)})
			if depth >= 2 {
				return
			}
			ast.Inspect(fi.Decl.Body, func(n ast.Node) bool {
				if call, ok := n.(*ast.CallExpr); ok {
					if fn := Callee(info, call); fn != nil {
						if recv := fn.Type().(*types.Signature).Recv(); recv == nil {
							add(p.FuncOf(fn), depth+1)
						}
					}
				}
				return true
			})
		}
		add(ud, 0)
	}
	findIn := func(pf *phaseFn, name string) []SiteMatch {
		return pf.fl.Find(func(n ast.Node) bool { return isMethod(n, name) != nil })
	}
	var creates, deletes []SiteMatch
	var createFn, deleteFn *phaseFn
	for _, pf := range cands {
		if m := findIn(pf, "Create"); len(m) > 0 {
			creates = append(creates, m...)
			createFn = pf
		}
		if m := findIn(pf, "Delete"); len(m) > 0 {
			deletes = append(deletes, m...)
			deleteFn = pf
		}
	}
	c.Check(len(creates) == 1 && len(deletes) == 1, "C17-R1", "updateDestination:one Create and one Delete site", ud.Decl.Pos(), "sites found", "expected one Create and one Delete call in updateDestination and its helpers, found "+itoa(len(creates))+"/"+itoa(len(deletes)))
	if len(creates) != 1 || len(deletes) != 1 {
		return
	}
	cur := createFn
	pm := cur.pm
	enclosingLoops := func(n ast.Node) []*ast.RangeStmt {
		var out []*ast.RangeStmt
		for cur := pm[n]; cur != nil; cur = pm[cur] {
			if rs, ok := cur.(*ast.RangeStmt); ok {
				out = append(out, rs)
			}
		}
		return out
	}
	phase := func(rule string, pf *phaseFn, site SiteMatch, what, canName string) (outer *ast.RangeStmt) {
		cur = pf
		pm = pf.pm
		fl := pf.fl
		loops := enclosingLoops(site.Inner)
		if len(loops) != 1 {
			c.Undecided(rule, "updateDestination:"+what+" inside one loop", site.Inner.Pos(), itoa(len(loops))+" enclosing loops")
			return nil
		}
		outer = loops[0]
		head := fl.loopHead(outer)
		// IsEqual conditions inside this loop
		n := 0
		for _, b := range fl.G.Blocks {
			cond, _, ok := fl.condOf(b)
			if !ok || cond.Pos() < outer.Body.Pos() || cond.End() > outer.Body.End() {
				continue
			}
			call := isMethod(ast.Unparen(cond), "IsEqual")
			// `recognised || !allowed`: when the scan is one alternative of the condition, the true
			// edge is taken whenever the scan succeeds
			conds := []ast.Expr{cond}
			for i := 0; i < len(conds); i++ {
				if be, isBin := ast.Unparen(conds[i]).(*ast.BinaryExpr); isBin && be.Op == token.LOR {
					conds = append(conds, be.X, be.Y)
				}
			}
			for _, alt := range conds {
				if call != nil {
					break
				}
				cond := alt
				call = isMethod(ast.Unparen(cond), "IsEqual")
				if call != nil {
					break
				}
				// the scan written as slices.ContainsFunc(list, func(x T) bool { return c.IsEqual(dst, …) })
				if cf, isCall := ast.Unparen(cond).(*ast.CallExpr); isCall && len(cf.Args) == 2 {
					if fn := Callee(info, cf); fn != nil && fn.Pkg() != nil && fn.Pkg().Path() == "slices" && fn.Name() == "ContainsFunc" {
						if lit, isLit := cf.Args[1].(*ast.FuncLit); isLit && len(lit.Body.List) == 1 {
							if ret, isRet := lit.Body.List[0].(*ast.ReturnStmt); isRet && len(ret.Results) == 1 {
								call = isMethod(ast.Unparen(ret.Results[0]), "IsEqual")
							}
						}
					}
				}
			}
			if call == nil {
				continue
			}
			n++
			target := site.Site
			// stay within the iteration: recompute with the outer head blocked
			reach := reachWithin(fl, Site{b.Succs[0], 0}, target, head)
			if reach {
				// flag idiom: the true branch sets a boolean that the phase's action is dominated by being false
				{
					var body ast.Node
					for up := pm[ast.Node(cond)]; up != nil; up = pm[up] {
						if ifs, ok := up.(*ast.IfStmt); ok {
							body = ifs.Body
							break
						}
					}
					if body != nil {
						ast.Inspect(body, func(n ast.Node) bool {
							as, isAs := n.(*ast.AssignStmt)
							if !isAs || len(as.Lhs) != 1 || len(as.Rhs) != 1 {
								return true
							}
							tv, isC := info.Types[as.Rhs[0]]
							v := objOf(info, as.Lhs[0])
							if !isC || tv.Value == nil || v == nil {
								return true
							}
							switch tv.Value.String() {
							case "true":
								if fl.Dominated(site.Site, site.Inner, func(a Atom) bool { return !a.Truth && a.Tag == nil && objOf(info, a.E) == v }) {
									reach = false
								}
							case "false":
								// the opposite polarity: `stale := true` at the top of the iteration, cleared when
								// the scan succeeds, and the action runs only where the flag still holds
								others, okOthers := 0, true
								ast.Inspect(outer.Body, func(m ast.Node) bool {
									as2, isAs2 := m.(*ast.AssignStmt)
									if !isAs2 || as2 == as {
										return true
									}
									for i, l := range as2.Lhs {
										if objOf(info, l) != v {
											continue
										}
										others++
										if as2.Tok != token.DEFINE || as2.Pos() > cond.Pos() || i >= len(as2.Rhs) || exprStr(as2.Rhs[i]) != "true" {
											okOthers = false
										}
									}
									return true
								})
								if others == 1 && okOthers && fl.Dominated(site.Site, site.Inner, func(a Atom) bool { return a.Truth && a.Tag == nil && objOf(info, a.E) == v }) {
									reach = false
								}
							}
							return true
						})
					}
				}
			}
			c.Check(!reach, rule, "updateDestination:"+what+" unreachable after IsEqual is true (same iteration)", cond.Pos(), "recognised comment short-circuits",
				what+" can be reached in the iteration in which IsEqual(dst, existing, pending) held: an equal comment is "+map[string]string{"Create": "created again", "Delete": "deleted"}[what])
			// IsEqual compares the loop variables of the two lists
		}
		c.Check(n == 1, rule, "updateDestination:"+what+" phase scans with IsEqual", outer.Pos(), "one IsEqual test", itoa(n)+" IsEqual tests in the "+what+" phase")
		dom := fl.Dominated(site.Site, site.Inner, func(a Atom) bool {
			return a.Truth && isMethod(ast.Unparen(a.E), canName) != nil
		})
		c.Check(dom, rule, "updateDestination:"+what+" dominated by "+canName, site.Inner.Pos(), "budget/permission respected", what+" is reachable without "+canName+"(...) being true")
		return outer
	}
	outerCreate := phase("C17-R1", createFn, creates[0], "Create", "CanCreate")
	outerDelete := phase("C17-R2", deleteFn, deletes[0], "Delete", "CanDelete")

	// created counter
	if outerCreate != nil {
		var created types.Object
		fl := createFn.fl
		for _, sm := range findIn(createFn, "CanCreate") {
			call := sm.Inner.(*ast.CallExpr)
			if len(call.Args) == 1 {
				created = objOf(info, call.Args[0])
			}
		}
		if created == nil {
			c.Undecided("C17-R1", "updateDestination:CanCreate argument", ud.Decl.Pos(), "CanCreate is not called with a variable")
		} else {
			isInc := func(n ast.Node) bool {
				inc, ok := n.(*ast.IncDecStmt)
				return ok && inc.Tok == token.INC && objOf(info, inc.X) == created
			}
			head := fl.loopHead(outerCreate)
			reach, _ := fl.Reach(creates[0].Site.After(), nil, false, PathQ{Avoid: isInc, ToBlock: head})
			c.Check(!reach, "C17-R1", "updateDestination:created++ between a successful Create and the next pending comment", creates[0].Inner.Pos(), "every creation is counted", "a successful Create can reach the next iteration without incrementing the budget counter (more than maxComments comments per run)")
			// writers
			nW := 0
			ast.Inspect(createFn.fi.Decl.Body, func(n ast.Node) bool {
				switch x := n.(type) {
				case *ast.IncDecStmt:
					if objOf(info, x.X) == created {
						nW++
					}
				case *ast.AssignStmt:
					for _, l := range x.Lhs {
						if objOf(info, l) == created {
							nW += 10
						}
					}
				}
				return true
			})
			c.Check(nW == 1, "C17-R1", "updateDestination:budget counter has one writer", created.Pos(), "only created++", "the budget counter is also modified elsewhere")
		}
	}
	// both phases use the same pending list, and the existing list
	if outerCreate != nil && outerDelete != nil {
		// a list that is a helper's parameter is the argument updateDestination passes for it
		inUD := func(pf *phaseFn, o types.Object) types.Object {
			if pf.fi == ud || o == nil {
				return o
			}
			sig := pf.fi.Obj.Type().(*types.Signature)
			for i := 0; i < sig.Params().Len(); i++ {
				if sig.Params().At(i) != o {
					continue
				}
				var arg types.Object
				ast.Inspect(ud.Decl.Body, func(n ast.Node) bool {
					if call, ok := n.(*ast.CallExpr); ok && Callee(info, call) == pf.fi.Obj && i < len(call.Args) {
						arg = objOf(info, call.Args[i])
					}
					return true
				})
				return arg
			}
			return nil
		}
		pend := inUD(createFn, objOf(info, outerCreate.X))
		var inner *ast.RangeStmt
		ast.Inspect(outerDelete.Body, func(n ast.Node) bool {
			if rs, ok := n.(*ast.RangeStmt); ok && inner == nil {
				inner = rs
			}
			return true
		})
		var scanned ast.Expr
		if inner != nil {
			scanned = inner.X
		} else {
			// scan written as slices.ContainsFunc(list, …)
			ast.Inspect(outerDelete.Body, func(n ast.Node) bool {
				if call, ok := n.(*ast.CallExpr); ok && scanned == nil && len(call.Args) == 2 {
					if fn := Callee(info, call); fn != nil && fn.Pkg() != nil && fn.Pkg().Path() == "slices" && fn.Name() == "ContainsFunc" {
						scanned = call.Args[0]
					}
				}
				return true
			})
		}
		same := scanned != nil && pend != nil && inUD(deleteFn, objOf(info, scanned)) == pend
		c.Check(same, "C17-R2", "updateDestination:delete phase scans the same pending list as the create phase", outerDelete.Pos(), "same list", "the delete phase compares existing comments with a different pending list than the create phase")
		// pending list from makeComments(s, showDuplicates)
		fromMake := false
		ast.Inspect(ud.Decl.Body, func(n ast.Node) bool {
			if as, ok := n.(*ast.AssignStmt); ok && len(as.Rhs) == 1 && objOf(info, as.Lhs[0]) == pend {
				if call, ok := as.Rhs[0].(*ast.CallExpr); ok && isCallTo(info, call, "internal/reporter.makeComments") {
					fromMake = true
				}
			}
			return true
		})
		c.Check(fromMake, "C17-R2", "updateDestination:pending list comes from makeComments", ud.Decl.Pos(), "makeComments", "pending comments are not built by makeComments")
	}

	// ---- R3 ----
	it := iface.Type().Underlying().(*types.Interface)
	impls := p.implementers(it)
	c.Check(len(impls) >= 2, "C17-R3", "Commenter implementations enumerated", iface.Pos(), itoa(len(impls)), "fewer than two Commenter implementations")
	for _, tn := range impls {
		tq := typeQName(tn.Type())
		if eq := p.methodOn(tq, "IsEqual"); eq != nil {
			sig := eq.Obj.Type().(*types.Signature)
			ex, pe := types.Object(sig.Params().At(1)), types.Object(sig.Params().At(2))
			// unnamed parameters cannot be read
			for _, f := range []string{"path", "line", "text"} {
				a := fieldInfluencesResult(eq, ex, "internal/reporter.ExistingComment", f)
				b := fieldInfluencesResult(eq, pe, "internal/reporter.PendingComment", f)
				c.Check(a && b, "C17-R3", tq+".IsEqual:"+f, eq.Decl.Pos(), "both sides influence the result", "IsEqual of "+tq+" ignores `"+f+"` (existing side="+boolStr(a)+", pending side="+boolStr(b)+"): comments are recognised or missed by the wrong criteria")
			}
		} else {
			c.Undecided("C17-R3", tq+".IsEqual", tn.Pos(), "method not found")
		}
		if cc := p.methodOn(tq, "CanCreate"); cc != nil {
			cinfo := cc.Pkg.TypesInfo
			rets := returnsIn(cc.Decl.Body.List)
			ok := false
			if len(rets) == 1 && len(rets[0].Results) == 1 {
				if be, isBin := ast.Unparen(rets[0].Results[0]).(*ast.BinaryExpr); isBin && be.Op == token.LSS {
					sig := cc.Obj.Type().(*types.Signature)
					if objOf(cinfo, be.X) == sig.Params().At(0) {
						if sel, isSel := be.Y.(*ast.SelectorExpr); isSel && sel.Sel.Name == "maxComments" {
							ok = true
						}
					}
				}
			}
			c.Check(ok, "C17-R3", tq+".CanCreate is n < maxComments", cc.Decl.Pos(), "strict budget", "CanCreate of "+tq+" is not `done < maxComments`")
		}
	}

	// sibling agreement: a line-relocating helper applied to the pending comment in Create is applied in IsEqual too
	for _, tn := range impls {
		tq := typeQName(tn.Type())
		cr, eq := p.methodOn(tq, "Create"), p.methodOn(tq, "IsEqual")
		if cr == nil || eq == nil {
			continue
		}
		relocators := func(fi *FuncInfo) map[string]bool {
			out := map[string]bool{}
			finfo := fi.Pkg.TypesInfo
			sig := fi.Obj.Type().(*types.Signature)
			var pend types.Object
			for i := 0; i < sig.Params().Len(); i++ {
				if typeQName(sig.Params().At(i).Type()) == "internal/reporter.PendingComment" {
					pend = sig.Params().At(i)
				}
			}
			ast.Inspect(fi.Decl.Body, func(n ast.Node) bool {
				call, ok := n.(*ast.CallExpr)
				if !ok {
					return true
				}
				fn := Callee(finfo, call)
				if fn == nil || p.FuncOf(fn) == nil {
					return true
				}
				takes := false
				for _, a := range call.Args {
					if pend != nil && objOf(finfo, a) == pend {
						takes = true
					}
				}
				res := fn.Type().(*types.Signature).Results()
				returnsInt := false
				for i := 0; i < res.Len(); i++ {
					if b, ok := res.At(i).Type().Underlying().(*types.Basic); ok && b.Kind() == types.Int {
						returnsInt = true
					}
				}
				if takes && returnsInt {
					out[funcQName(fn)] = true
				}
				return true
			})
			return out
		}
		inCreate, inEq := relocators(cr), relocators(eq)
		for _, fn := range sortedKeys(inCreate) {
			c.Check(inEq[fn], "C17-R3", tq+":IsEqual applies "+fn+" like Create", eq.Decl.Pos(), "same line relocation on both sides",
				"Create posts the comment at the line computed by "+fn+" but IsEqual compares the raw pending line: a relocated comment is never recognised and is created again on every run")
		}
		c.Ok("C17-R3", tq+":Create/IsEqual relocation helpers compared", cr.Decl.Pos(), itoa(len(inCreate))+" helper(s) in Create")
	}

	// ---- R4 ----
	sums := find("Summary")
	c.Check(len(sums) == 1, "C17-R4", "updateDestination:one Summary call", ud.Decl.Pos(), "one", itoa(len(sums))+" Summary calls")
	if len(sums) == 1 {
		// every `return nil` passes Summary
		for _, r := range fl.Find(func(n ast.Node) bool {
			rs, ok := n.(*ast.ReturnStmt)
			return ok && len(rs.Results) == 1 && isNilIdent(info, rs.Results[0])
		}) {
			target := r.Site
			ok, _ := fl.MustPass(fl.Entry(), func(s Site) bool { return s == target }, false, func(n ast.Node) bool {
				found := false
				inspectNoLit(n, func(m ast.Node) bool {
					if isMethod(m, "Summary") != nil {
						found = true
					}
					return true
				})
				return found
			})
			c.Check(ok, "C17-R4", "updateDestination:success exit passes Summary", r.Inner.Pos(), "summary posted", "a successful return skips the summary")
		}
		// the errs slice passed to Summary collects Delete errors
	}
	// Delete error is not returned
	delCall := deletes[0].Inner
	var delIf *ast.IfStmt
	pm = deleteFn.pm
	for cur := pm[delCall]; cur != nil; cur = pm[cur] {
		if x, ok := cur.(*ast.IfStmt); ok {
			delIf = x
			break
		}
	}
	okDel := delIf != nil && len(returnsIn(delIf.Body.List)) == 0
	if okDel {
		collected := false
		ast.Inspect(delIf.Body, func(n ast.Node) bool {
			if call, ok := n.(*ast.CallExpr); ok && exprStr(call.Fun) == "append" {
				collected = true
			}
			return true
		})
		okDel = collected
	}
	c.Check(okDel, "C17-R4", "updateDestination:Delete error collected, not returned", delCall.Pos(), "collected", "a failed Delete aborts the run (remaining stale comments and the summary are skipped)")
}

// reachWithin: is target reachable from `from` without entering block `head`?
func reachWithin(fl *Flow, from Site, target Site, head *cfg.Block) bool {
	reach, _ := fl.Reach(from, func(s Site) bool { return s == target }, false, PathQ{
		AvoidBlock: func(b *cfg.Block) bool { return b == head },
	})
	return reach
}

// c17ListFilters: a platform's List() must hand back every comment pint may
// have written in an earlier run; what it may skip is decided by what KIND of
// comment it is (general comment, someone else's note), never by which commit
// the comment was made on: after a new push every earlier comment has another
// commit id, and skipping those makes each run post duplicates.
func c17ListFilters(c *Ctx) {
	p := c.P
	ct := p.LookupType("internal/reporter", "Commenter")
	if ct == nil {
		c.Undecided("C17-R3", "anchor:Commenter", token.NoPos, "interface not found")
		return
	}
	iface, _ := ct.Type().Underlying().(*types.Interface)
	if iface == nil {
		return
	}
	n := 0
	for _, tn := range p.implementers(iface) {
		m := p.methodOn(typeQName(tn.Type()), "List")
		if m == nil || m.Decl.Body == nil {
			continue
		}
		n++
		info := m.Pkg.TypesInfo
		pm := parentMap(m.Decl.Body)
		bad := ""
		ast.Inspect(m.Decl.Body, func(nd ast.Node) bool {
			br, ok := nd.(*ast.BranchStmt)
			if !ok || (br.Tok != token.CONTINUE && br.Tok != token.GOTO) {
				return true
			}
			for _, a := range lexicalGuards(pm, br, m.Decl.Body) {
				ast.Inspect(a.E, func(x ast.Node) bool {
					switch y := x.(type) {
					case *ast.SelectorExpr:
						if strings.Contains(strings.ToLower(y.Sel.Name), "commit") || strings.Contains(strings.ToLower(y.Sel.Name), "sha") {
							bad = roleStr(info, a.E)
						}
					}
					return true
				})
			}
			return true
		})
		// what may decide a skip at all: the kind of note (system note, general comment without a position,
		// path outside the change) and its author — never its state (resolved, outdated, collapsed, minimised):
		// a comment a reviewer resolved is still the comment pint wrote, and forgetting it posts it again
		bad2 := ""
		allowed := map[string]bool{"System": true, "Author": true, "ID": true, "userID": true, "Position": true, "User": true, "Login": true, "Path": true, "GetPath": true, "GetUser": true, "GetLogin": true, "GetID": true, "Anchor": true, "Inline": true, "Severity": true, "Comment": true, "Type": true, "Action": true, "Name": true, "Slug": true, "Line": true, "GetLine": true, "Body": true, "GetBody": true, "Text": true}
		ast.Inspect(m.Decl.Body, func(nd ast.Node) bool {
			br, ok := nd.(*ast.BranchStmt)
			if !ok || (br.Tok != token.CONTINUE && br.Tok != token.GOTO) {
				return true
			}
			for _, a := range lexicalGuards(pm, br, m.Decl.Body) {
				ast.Inspect(a.E, func(x ast.Node) bool {
					if y, isSel := x.(*ast.SelectorExpr); isSel {
						if _, isPkg := info.Uses[identOf(y.X)].(*types.PkgName); !isPkg && !allowed[y.Sel.Name] {
							bad2 = y.Sel.Name + " in `" + exprStr(a.E) + "`"
						}
					}
					return true
				})
			}
			return true
		})
		c.Check(bad2 == "", "C17-R3", typeQName(tn.Type())+".List:existing comments are skipped by kind and author only", m.Decl.Pos(), "no skip by state",
			"List() decides a skip by "+bad2+": a comment pint wrote is left out of the existing ones because of its state, so the same comment is posted again on the next run")
		c.Check(bad == "", "C17-R3", typeQName(tn.Type())+".List:existing comments are not filtered by commit", m.Decl.Pos(), "skips decided by comment kind only",
			"List() skips existing comments under `"+bad+"`: comments pint made for an earlier commit of the same pull request are no longer recognised, so every run after a push posts them again")
	}
	c.Check(n >= 2, "C17-R3", "List implementations enumerated", ct.Pos(), itoa(n), "fewer than two Commenter.List implementations")

	// GitLab: a discussion position carries the state before (old_*) and after
	// (new_*) the merge request. pint comments on the state after it (pending
	// comments use the report's path and line), so List takes old_* only when
	// new_* is empty.
	gl := p.methodOn("internal/reporter.GitLabReporter", "List")
	if gl == nil {
		return
	}
	info := gl.Pkg.TypesInfo
	pm := parentMap(gl.Decl.Body)
	for _, pair := range [][2]string{{"NewPath", "OldPath"}, {"NewLine", "OldLine"}} {
		newSeen, oldOK, oldSeen := false, true, false
		ast.Inspect(gl.Decl.Body, func(nd ast.Node) bool {
			as, ok := nd.(*ast.AssignStmt)
			if !ok || len(as.Lhs) != 1 || len(as.Rhs) != 1 {
				return true
			}
			sel, ok := ast.Unparen(as.Rhs[0]).(*ast.SelectorExpr)
			if !ok {
				return true
			}
			switch sel.Sel.Name {
			case pair[0]:
				newSeen = true
			case pair[1]:
				oldSeen = true
				// guarded by "new_* is empty"
				g := false
				for _, a := range lexicalGuards(pm, as, gl.Decl.Body) {
					be, ok := ast.Unparen(a.E).(*ast.BinaryExpr)
					if !ok || a.Tag != nil {
						continue
					}
					if s2, ok := ast.Unparen(be.X).(*ast.SelectorExpr); ok && s2.Sel.Name == pair[0] {
						empty := false
						if v, isC := constString(info, be.Y); isC && v == "" {
							empty = true
						}
						if k, isC := constInt(info, be.Y); isC && k == 0 {
							empty = true
						}
						if empty && ((be.Op == token.NEQ || be.Op == token.GTR) && !a.Truth || (be.Op == token.EQL || be.Op == token.LEQ) && a.Truth) {
							g = true
						}
					}
				}
				if !g {
					oldOK = false
				}
			}
			return true
		})
		c.Check(newSeen && oldSeen && oldOK, "C17-R3", "GitLabReporter.List:"+pair[1]+" used only when "+pair[0]+" is empty", gl.Decl.Pos(), "new_* preferred",
			"the existing comment's position is taken from "+pair[1]+" although "+pair[0]+" may be set: for a file renamed (or lines moved) in the merge request the existing comment never equals the pending one, so every run deletes it as stale and creates it again")
	}
}

// c17FirstNoteOnly: a GitLab discussion that pint started is identified by its
// FIRST note (pint's own comment); replies and system notes that follow must
// neither hide it nor replace it. The loop over a discussion's notes therefore
// never starts a second iteration: from the loop body the loop head cannot be
// reached again.
func c17FirstNoteOnly(c *Ctx) {
	p := c.P
	gl := p.methodOn("internal/reporter.GitLabReporter", "List")
	if gl == nil {
		return
	}
	info := gl.Pkg.TypesInfo
	fl := p.NewFlow(gl)
	var loop *ast.RangeStmt
	ast.Inspect(gl.Decl.Body, func(n ast.Node) bool {
		if rs, ok := n.(*ast.RangeStmt); ok {
			if sel, ok := ast.Unparen(rs.X).(*ast.SelectorExpr); ok && sel.Sel.Name == "Notes" {
				loop = rs
			}
		}
		return true
	})
	_ = info
	if loop == nil || len(loop.Body.List) == 0 {
		c.Undecided("C17-R3", "GitLabReporter.List:loop over the notes of a discussion", gl.Decl.Pos(), "not found")
		return
	}
	head := fl.loopHead(loop)
	var first *Site
	for _, b := range fl.G.Blocks {
		if b.Stmt == ast.Stmt(loop) && b.Kind == cfg.KindRangeBody {
			s := Site{b, 0}
			first = &s
		}
	}
	if head == nil || first == nil {
		c.Undecided("C17-R3", "GitLabReporter.List:loop over the notes of a discussion", loop.Pos(), "loop head or first body statement not found in the CFG")
		return
	}
	if os.Getenv("PINTSA_DEBUG_CFG") != "" {
		fmt.Fprintln(os.Stderr, fl.G.Format(p.Fset))
	}
	again, _ := fl.Reach(*first, func(Site) bool { return false }, false, PathQ{
		ToBlock: head,
		// stay inside this discussion: do not go round an enclosing loop
		AvoidBlock: func(b *cfg.Block) bool {
			return b != head && (b.Kind == cfg.KindRangeLoop || b.Kind == cfg.KindForLoop)
		},
	})
	c.Check(!again, "C17-R3", "GitLabReporter.List:a discussion is identified by its first note", loop.Pos(), "the note loop never starts a second iteration",
		"the loop over a discussion's notes can go on to a second note: a reply from another user or a system note then makes pint's own discussion look foreign (it is skipped) or overwrites the recorded note, so the existing comment is no longer recognised and is posted again on every run")
}

// c17ErrorsEndTheRun: a failed request never ends as a shorter answer. In
// internal/reporter every branch taken because an error is present (`err !=
// nil`) hands that error on: its last statement returns it (as it is or
// wrapped). Leaving a loop with `break`/`continue` under `err != nil`, or
// falling out of the branch, lets the caller go on with what was collected so
// far — for the listing helpers that is a truncated list of existing comments,
// and every comment on the missing pages is created again and never removed.
func c17ErrorsEndTheRun(c *Ctx, R string) {
	rep := c.P.Pkg("internal/reporter")
	if rep == nil {
		return
	}
	info := rep.TypesInfo
	n := 0
	for _, fi := range c.P.AllFuncs() {
		if fi.Pkg != rep || fi.Decl.Body == nil || c.P.IsTestFile(fi.Decl.Pos()) {
			continue
		}
		// only functions that can return an error
		sig := fi.Obj.Type().(*types.Signature)
		hasErr := false
		for i := 0; i < sig.Results().Len(); i++ {
			if sig.Results().At(i).Type().String() == "error" {
				hasErr = true
			}
		}
		if !hasErr {
			continue
		}
		seq := 0
		inspectNoLit(fi.Decl.Body, func(nd ast.Node) bool {
			ifs, ok := nd.(*ast.IfStmt)
			if !ok {
				return true
			}
			var errObj types.Object
			for _, a := range implied(ifs.Cond, nil, true) {
				if x, isNil, ok := nilAtom(info, a); ok && !isNil {
					if o := objOf(info, x); o != nil && o.Type().String() == "error" {
						errObj = o
					}
				}
			}
			if errObj == nil {
				return true
			}
			n++
			seq++
			why := ""
			if len(ifs.Body.List) == 0 {
				why = "the branch is empty"
			} else {
				switch last := ifs.Body.List[len(ifs.Body.List)-1].(type) {
				case *ast.ReturnStmt:
					mentions := false
					for _, r := range last.Results {
						ast.Inspect(r, func(m ast.Node) bool {
							if id, isID := m.(*ast.Ident); isID && info.Uses[id] == errObj {
								mentions = true
							}
							return true
						})
					}
					if len(last.Results) == 0 {
						// named results: fine when the error variable is one of them
						for i := 0; i < sig.Results().Len(); i++ {
							if types.Object(sig.Results().At(i)) == errObj {
								mentions = true
							}
						}
					}
					if !mentions {
						// a constructed error (errors.New, fmt.Errorf without %w) still ends the run
						for _, r := range last.Results {
							if t := info.TypeOf(r); t != nil && t.String() == "error" && !isNilIdent(info, r) {
								mentions = true
							}
						}
					}
					if !mentions {
						why = "the branch returns without the error"
					}
				case *ast.BranchStmt:
					why = "the branch leaves with `" + last.Tok.String() + "`"
					// a `return err` of an expanded helper: the error is handed to the caller's variable
					// and the labelled block that stands for the helper's body is left
					if last.Tok == token.BREAK && last.Label != nil && len(ifs.Body.List) >= 2 {
						if as, isAs := ifs.Body.List[len(ifs.Body.List)-2].(*ast.AssignStmt); isAs {
							for _, r := range as.Rhs {
								if objOf(info, r) == errObj {
									why = ""
								}
							}
						}
					}
				default:
					// logging only and going on is the documented behaviour for a few best-effort calls:
					// those sit outside loops; inside a loop the collection goes on with a hole
					inLoop := false
					for cur := parentMap(fi.Decl.Body)[ifs]; cur != nil; cur = parentMap(fi.Decl.Body)[cur] {
						switch cur.(type) {
						case *ast.ForStmt, *ast.RangeStmt:
							inLoop = true
						}
					}
					collected := false
					ast.Inspect(ifs.Body, func(m ast.Node) bool {
						if call, isCall := m.(*ast.CallExpr); isCall && exprStr(call.Fun) == "append" {
							for _, a := range call.Args[1:] {
								if objOf(info, a) == errObj {
									collected = true // kept for the final verdict (the delete phase does this on purpose)
								}
							}
						}
						return true
					})
					if inLoop && !collected {
						why = "the branch falls through inside a loop"
					}
				}
			}
			c.Check(why == "", R, strings.TrimPrefix(fi.Name, "internal/reporter.")+":error branch#"+itoa(seq)+" returns the error", ifs.Pos(), "returned",
				why+": the failed request is forgotten and the caller continues with what was collected before it — a truncated list of existing comments makes the next phase create copies of comments that exist, and nothing removes them later")
			return true
		})
	}
	c.Check(n >= 20, R, "error branches in internal/reporter enumerated", token.NoPos, itoa(n), "fewer than 20 `err != nil` branches found")
}

// c17CommentTextAndPlace: two small facts every platform's recognition of its
// own comments rests on. (a) The text of a comment is posted and compared as a
// whole string: nothing in internal/reporter byte-slices a comment body
// (`text[:n]`), which can cut a multi-byte character in half — the platform
// stores the repaired text, the next run compares it with the broken one, never
// recognises its comment and posts it again. (b) A GitLab comment is attached to
// the diff whose NEW path is the comment's path, nothing else: attached to a
// diff found by its old path the discussion comes back under another path and
// is deleted and re-created on every run.
func c17CommentTextAndPlace(c *Ctx) {
	rep := c.P.Pkg("internal/reporter")
	if rep == nil {
		return
	}
	info := rep.TypesInfo
	// (a) text-carrying objects: the text fields, and parameters that are handed one
	carriers := map[types.Object]bool{}
	isTextField := func(e ast.Expr) bool {
		return fieldSel(info, e, "internal/reporter.PendingComment", "text") || fieldSel(info, e, "internal/reporter.ExistingComment", "text")
	}
	for round := 0; round < 2; round++ {
		for _, fi := range c.P.AllFuncs() {
			if fi.Pkg != rep || fi.Decl.Body == nil || c.P.IsTestFile(fi.Decl.Pos()) {
				continue
			}
			ast.Inspect(fi.Decl.Body, func(nd ast.Node) bool {
				call, ok := nd.(*ast.CallExpr)
				if !ok {
					return true
				}
				callee := c.P.FuncOf(Callee(info, call))
				if callee == nil || callee.Pkg != rep {
					return true
				}
				sig := callee.Obj.Type().(*types.Signature)
				for i, a := range call.Args {
					if i < sig.Params().Len() && (isTextField(a) || carriers[objOf(info, a)]) {
						carriers[sig.Params().At(i)] = true
					}
				}
				return true
			})
		}
	}
	n, bad := 0, ""
	badPos := token.NoPos
	for _, fi := range c.P.AllFuncs() {
		if fi.Pkg != rep || fi.Decl.Body == nil || c.P.IsTestFile(fi.Decl.Pos()) {
			continue
		}
		ast.Inspect(fi.Decl.Body, func(nd ast.Node) bool {
			se, ok := nd.(*ast.SliceExpr)
			if !ok {
				return true
			}
			if t := info.TypeOf(se.X); t == nil || t.Underlying().String() != "string" {
				return true
			}
			if isTextField(se.X) || carriers[objOf(info, se.X)] {
				n++
				bad, badPos = "`"+exprStr(se)+"` in "+shortFuncName(fi.Name), se.Pos()
			}
			return true
		})
	}
	c.Check(bad == "", "C17-R3", "comment bodies are never byte-sliced", badPos, "0 slices of a comment text",
		bad+" cuts a comment body at a byte offset: a multi-byte character can be split, the platform stores a repaired text, and the comment is never recognised as already posted")
	// (b)
	if gd := c.P.Func("internal/reporter.getDiffForPath"); gd != nil {
		pm := parentMap(gd.Decl.Body)
		okB, nRet := true, 0
		got := ""
		inspectNoLit(gd.Decl.Body, func(nd ast.Node) bool {
			r, isRet := nd.(*ast.ReturnStmt)
			if !isRet || len(r.Results) != 1 || isNilIdent(info, r.Results[0]) {
				return true
			}
			nRet++
			onlyNew := false
			for _, g := range lexicalGuards(pm, r, gd.Decl.Body) {
				if be, isBin := ast.Unparen(g.E).(*ast.BinaryExpr); isBin && be.Op == token.EQL && g.Truth {
					for _, side := range []ast.Expr{be.X, be.Y} {
						if sel, isSel := ast.Unparen(side).(*ast.SelectorExpr); isSel && sel.Sel.Name == "NewPath" {
							onlyNew = true
						}
					}
				}
			}
			if !onlyNew {
				okB = false
				if g := lexicalGuards(pm, r, gd.Decl.Body); len(g) > 0 {
					got = exprStr(g[0].E)
				}
			}
			return true
		})
		c.Check(okB && nRet >= 1, "C17-R3", "getDiffForPath:a comment goes to the diff with that NEW path", gd.Decl.Pos(), "NewPath == path",
			"the diff for a comment is chosen under `"+got+"`: a file that reuses the old name of a renamed file gets its comment attached to the renamed file, the discussion is listed back under the other path, never matches, and is deleted and re-created on every run")
	}
}

// c17ComparisonHasNoMemory: whether an existing comment IS a pending one is decided by IsEqual from the two
// comments alone. IsEqual and what it calls inside the reporter package store nothing: no element of a map
// or slice that hangs off a field, no field. (A memo of the line translation keyed by path and line gives a
// comment anchored before the change the place of one anchored after it: the comment is not recognised
// where it stands and is posted again.)
func c17ComparisonHasNoMemory(c *Ctx) {
	R := "C17-R3"
	p := c.P
	ct := p.LookupType("internal/reporter", "Commenter")
	if ct == nil {
		return
	}
	iface, _ := ct.Type().Underlying().(*types.Interface)
	if iface == nil {
		return
	}
	n := 0
	for _, tn := range p.implementers(iface) {
		m := p.methodOn(typeQName(tn.Type()), "IsEqual")
		if m == nil || m.Decl.Body == nil {
			continue
		}
		n++
		bad := ""
		for fi := range reachFuncs(p, m) {
			if relPkg(fi.Pkg.PkgPath) != "internal/reporter" || p.IsTestFile(fi.Decl.Pos()) {
				continue
			}
			info := fi.Pkg.TypesInfo
			inspectNoLit(fi.Decl.Body, func(nd ast.Node) bool {
				as, ok := nd.(*ast.AssignStmt)
				if !ok {
					return true
				}
				for _, l := range as.Lhs {
					l = ast.Unparen(l)
					if ix, isIx := l.(*ast.IndexExpr); isIx {
						if _, isField := ast.Unparen(ix.X).(*ast.SelectorExpr); isField {
							bad = "`" + exprStr(l) + "` in " + shortFuncName(fi.Name) + " at " + p.Pos(as.Pos())
						}
					}
					if sel, isSel := l.(*ast.SelectorExpr); isSel {
						if root, _, ok := accessPath(info, sel); ok && root != nil {
							// a field of something that came in from outside (receiver, parameter, dst)
							sig := fi.Obj.Type().(*types.Signature)
							isParam := sig.Recv() != nil && types.Object(sig.Recv()) == root
							for i := 0; i < sig.Params().Len(); i++ {
								if types.Object(sig.Params().At(i)) == root {
									isParam = true
								}
							}
							if _, isPtr := root.Type().Underlying().(*types.Pointer); isParam && isPtr {
								bad = "`" + exprStr(l) + "` in " + shortFuncName(fi.Name) + " at " + p.Pos(as.Pos())
							}
						}
					}
				}
				return true
			})
		}
		c.Check(bad == "", R, typeQName(tn.Type())+".IsEqual:the comparison stores nothing", m.Decl.Pos(), "pure",
			"IsEqual (or a function it calls) stores "+bad+": the answer for one pair of comments depends on the pairs compared before it, so a comment that is already there may not be recognised and is posted again")
	}
	c.Check(n >= 2, R, "IsEqual implementations enumerated", ct.Pos(), itoa(n), "fewer than two Commenter.IsEqual implementations")
}
