package main

import (
	"go/ast"
	"go/constant"
	"go/token"
	"go/types"
	"path/filepath"
	"sort"
	"strings"
)

func init() {
	register("C15", runC15,
		"Decides the failover and degradation clauses for every fault assignment: (R1) the five FailoverGroup API methods range over fg.servers itself (configured order), return on err == nil, and every path from the upstream call to the next iteration crosses the 'unavailable' edge (IsUnavailableError(err), or errors.Is(err, ErrUnsupported) for the optional APIs); the early and final returns wrap the same err and carry fg.strictErrors; (R2) decodeErrorType is the identity on the v1.Err* words, IsUnavailableError is `ErrorType == v1.ErrServer` for API errors and true otherwise, undecodable 4xx/5xx bodies map to ErrClient/ErrServer, JSON stream failures map to ErrBadResponse; (R3) problemFromError gives Warning to unavailability, Bug only under IsStrict(), never the caller's severity, and isStrict flows from PrometheusConfig.Required; (R4) at every call of a FailoverGroup API method in internal/checks the error is bound (not discarded), the result is dereferenced only where the error is known nil or the result known non-nil, and inside the err != nil region the only problems built come from problemFromError(err, …).",
		"how net/http wraps timeouts and connection errors; HTTP 5xx replies whose JSON errorType is not server_error; liveness.")
}

var c15APIs = []string{"Config", "Query", "RangeQuery", "Metadata", "Flags"}
var c15Optional = map[string]bool{"Config": true, "Metadata": true, "Flags": true}

// isUnavailPred classifies `IsUnavailableError(err)` / `errors.Is(err, ErrUnsupported)`.
func isUnavailPred(info *types.Info, e ast.Expr, errObj types.Object) (kind string) {
	call, ok := ast.Unparen(e).(*ast.CallExpr)
	if !ok || len(call.Args) == 0 || objOf(info, call.Args[0]) != errObj {
		return ""
	}
	if isCallTo(info, call, "internal/promapi.IsUnavailableError") {
		return "unavailable"
	}
	if fn := Callee(info, call); fn != nil && fn.Pkg() != nil && fn.Pkg().Path() == "errors" && fn.Name() == "Is" && len(call.Args) == 2 {
		if o := objOf(info, call.Args[1]); o != nil && o.Name() == "ErrUnsupported" {
			return "unsupported"
		}
	}
	return ""
}

func runC15(c *Ctx) {
	p := c.P
	c.Rule("C15-R1", "failover loops: configured order, continue only on unavailability, same error returned", 30)
	c.Rule("C15-R2", "error classification tables", 16)
	c.Rule("C15-R3", "severity of API failures in problemFromError; strictness flows from Required", 6)
	c.Rule("C15-R4", "error discipline at every API call site in internal/checks", 60)
	c.Rule("C15-R5", "cache protocol: only successes are stored, key names the upstream (shared with C14-R3)", 9)
	defer c14CacheR(c, "C15-R5")
	defer c14HashIsADigest(c, "C15-R5")
	defer c15NoStickyOutage(c)
	defer c15DeadlineAboveServerLimit(c)
	defer c15UpstreamIdentityAndOrder(c)
	defer checkSearchFlags(c, "C15-R1", "internal/promapi.FailoverGroup.MergeUpstreams", "internal/config.Discovery.merge")
	defer checkParamsUsed(c, "C15-R3", "internal/promapi.NewFailoverGroup", "internal/promapi.NewPrometheus", "internal/config.newFailoverGroup")

	prom := p.Pkg("internal/promapi")
	if prom == nil {
		c.Undecided("C15-R1", "anchor:internal/promapi", token.NoPos, "package not found")
		return
	}
	info := prom.TypesInfo

	// ---- R1 ----
	for _, m := range c15APIs {
		fi := c.MustFunc("C15-R1", "internal/promapi.FailoverGroup."+m)
		if fi == nil {
			continue
		}
		var loop *ast.RangeStmt
		nLoops := 0
		ast.Inspect(fi.Decl.Body, func(n ast.Node) bool {
			if rs, ok := n.(*ast.RangeStmt); ok {
				nLoops++
				if fieldSel(info, rs.X, "internal/promapi.FailoverGroup", "servers") {
					loop = rs
				}
			}
			return true
		})
		if !c.Check(loop != nil && nLoops == 1, "C15-R1", m+":ranges over fg.servers", fi.Decl.Pos(), "configured order", "the retry loop does not range directly over fg.servers (order of upstreams is no longer the configured one)") {
			continue
		}
		pv, _ := loop.Value.(*ast.Ident)
		if pv == nil {
			c.Undecided("C15-R1", m+":loop variable", loop.Pos(), "no value variable")
			continue
		}
		promObj := info.Defs[pv]
		fl := p.NewFlow(fi)
		// upstream call
		ups := fl.Find(func(n ast.Node) bool {
			call, ok := n.(*ast.CallExpr)
			if !ok || !isCallTo(info, call, "internal/promapi.Prometheus."+m) {
				return false
			}
			sel, ok := call.Fun.(*ast.SelectorExpr)
			return ok && objOf(info, sel.X) == promObj
		})
		if !c.Check(len(ups) == 1, "C15-R1", m+":one upstream call per iteration", loop.Pos(), "prom."+m, itoa(len(ups))+" upstream calls on the loop variable") {
			continue
		}
		as, ok := ups[0].Site.Node().(*ast.AssignStmt)
		if !ok || len(as.Lhs) != 2 {
			c.Undecided("C15-R1", m+":upstream call binds (result, err)", ups[0].Inner.Pos(), "unexpected statement shape")
			continue
		}
		errObj := objOf(info, as.Lhs[1])
		resObj := objOf(info, as.Lhs[0])
		// success return
		succ := fl.Find(func(n ast.Node) bool {
			r, ok := n.(*ast.ReturnStmt)
			return ok && len(r.Results) == 2 && isNilIdent(info, r.Results[1]) && objOf(info, r.Results[0]) == resObj
		})
		okSucc := len(succ) == 1
		if okSucc {
			okSucc = fl.Dominated(succ[0].Site, nil, func(a Atom) bool {
				x, isNil, ok := nilAtom(info, a)
				return ok && isNil && objOf(info, x) == errObj
			})
		}
		c.Check(okSucc, "C15-R1", m+":returns the first successful answer", loop.Pos(), "return on err == nil", "no `return result, nil` guarded by err == nil")
		// continuation: from after the call, the loop head is reachable only across an 'unavailable' edge
		var head *Site
		for _, b := range fl.G.Blocks {
			if b.Stmt == loop && b.Kind.String() == "RangeLoop" {
				s := Site{b, 0}
				head = &s
			}
		}
		if head == nil {
			c.Undecided("C15-R1", m+":loop head", loop.Pos(), "loop head block not found")
			continue
		}
		allowed := func(kind string) bool {
			return kind == "unavailable" || (kind == "unsupported" && c15Optional[m])
		}
		cut := func(atoms []Atom) bool {
			for _, a := range atoms {
				if a.Tag != nil {
					continue
				}
				if a.Truth && allowed(isUnavailPred(info, a.E, errObj)) {
					return true
				}
				// true edge of a disjunction of allowed predicates: A || B
				if a.Truth {
					var allOr func(e ast.Expr) bool
					allOr = func(e ast.Expr) bool {
						e = ast.Unparen(e)
						if be, ok := e.(*ast.BinaryExpr); ok && be.Op == token.LOR {
							return allOr(be.X) && allOr(be.Y)
						}
						return allowed(isUnavailPred(info, e, errObj))
					}
					if be, ok := ast.Unparen(a.E).(*ast.BinaryExpr); ok && be.Op == token.LOR && allOr(be) {
						return true
					}
				}
				// false edge of a conjunction of negated allowed predicates: !A && !B is false => A || B
				if !a.Truth {
					conj := flattenAnd(a.E)
					all := len(conj) > 0
					for _, cj := range conj {
						u, ok := ast.Unparen(cj).(*ast.UnaryExpr)
						if !ok || u.Op != token.NOT || !allowed(isUnavailPred(info, u.X, errObj)) {
							all = false
						}
					}
					if all {
						return true
					}
				}
			}
			return false
		}
		reach, _ := fl.Reach(ups[0].Site.After(), nil, false, PathQ{Cut: cut, ToBlock: head.B})
		c.Check(!reach, "C15-R1", m+":next upstream only after an unavailability error", ups[0].Inner.Pos(), "continue guarded by IsUnavailableError"+map[bool]string{true: " / ErrUnsupported", false: ""}[c15Optional[m]],
			"the loop can move on to the next upstream without the error being classified as unavailable (a query error triggers failover)")
		// every upstream gets the caller's own context (a context derived once for the whole loop
		// would let the first upstream's timeout consume the budget of the failover upstreams)
		sigM := fi.Obj.Type().(*types.Signature)
		ctxParam := sigM.Params().At(0)
		upCall := ups[0].Inner.(*ast.CallExpr)
		ctxOK := len(upCall.Args) > 0 && objOf(info, upCall.Args[0]) == ctxParam
		reassigned := false
		ast.Inspect(fi.Decl.Body, func(n ast.Node) bool {
			if as2, ok := n.(*ast.AssignStmt); ok {
				for _, l := range as2.Lhs {
					if o := objOf(info, l); o != nil && (o == ctxParam || (o.Name() == ctxParam.Name() && len(upCall.Args) > 0 && o == objOf(info, upCall.Args[0]) && o != ctxParam)) {
						reassigned = true
					}
				}
			}
			return true
		})
		c.Check(ctxOK && !reassigned, "C15-R1", m+":each upstream is called with the caller's context", upCall.Pos(), "ctx parameter passed through", "the upstream call does not receive the method's own ctx parameter unchanged: a deadline shared by the whole loop makes every later upstream fail as soon as an earlier one timed out")
		// early return wraps the same err with strictness
		lits := compositeLits(info, fi.Decl.Body, "internal/promapi.FailoverGroupError")
		good := 0
		for _, cl := range lits {
			e, s := litField(cl, "err"), litField(cl, "isStrict")
			if e != nil && objOf(info, e) == errObj && s != nil && fieldSel(info, s, "internal/promapi.FailoverGroup", "strictErrors") {
				good++
			}
		}
		c.Check(len(lits) == 2 && good == 2, "C15-R1", m+":errors returned as is (wrapped) with strictness", fi.Decl.Pos(), "2 wrappers carry err and fg.strictErrors", itoa(good)+"/"+itoa(len(lits))+" FailoverGroupError literals carry the upstream err and fg.strictErrors")
		// the last statement returns an error (all upstreams failed)
		last := fi.Decl.Body.List[len(fi.Decl.Body.List)-1]
		r, isRet := last.(*ast.ReturnStmt)
		c.Check(isRet && len(r.Results) == 2 && !isNilIdent(info, r.Results[1]), "C15-R1", m+":all upstreams failed -> error", last.Pos(), "error returned", "falling out of the loop does not return an error")
	}
	// servers order: built as uri first, then failover list in order
	if nfg := c.MustFunc("C15-R1", "internal/config.newFailoverGroup"); nfg != nil {
		cinfo := nfg.Pkg.TypesInfo
		firstURI, appendsFailover := false, false
		ast.Inspect(nfg.Decl.Body, func(n ast.Node) bool {
			switch x := n.(type) {
			case *ast.CompositeLit:
				if strings.HasSuffix(cinfo.TypeOf(x).String(), "promapi.Prometheus") && len(x.Elts) == 1 {
					if call, ok := x.Elts[0].(*ast.CallExpr); ok && isCallTo(cinfo, call, "internal/promapi.NewPrometheus") && len(call.Args) > 1 && fieldSel(cinfo, call.Args[1], "internal/config.PrometheusConfig", "URI") {
						firstURI = true
					}
				}
			case *ast.RangeStmt:
				if fieldSel(cinfo, x.X, "internal/config.PrometheusConfig", "Failover") {
					ast.Inspect(x.Body, func(m ast.Node) bool {
						if call, ok := m.(*ast.CallExpr); ok && exprStr(call.Fun) == "append" {
							appendsFailover = true
						}
						return true
					})
				}
			}
			return true
		})
		// the same order through one list of URIs: [uri] then failover…, ranged once, never re-ordered
		if !(firstURI && appendsFailover) {
			var list types.Object
			uriAt, failAt := token.NoPos, token.NoPos
			reordered := false
			ast.Inspect(nfg.Decl.Body, func(n ast.Node) bool {
				switch x := n.(type) {
				case *ast.AssignStmt:
					if len(x.Lhs) != 1 || len(x.Rhs) != 1 {
						return true
					}
					call, ok := ast.Unparen(x.Rhs[0]).(*ast.CallExpr)
					if !ok || exprStr(call.Fun) != "append" {
						return true
					}
					o := objOf(cinfo, x.Lhs[0])
					if t := cinfo.TypeOf(x.Lhs[0]); o == nil || t == nil || t.String() != "[]string" {
						return true
					}
					for _, a := range call.Args[1:] {
						if fieldSel(cinfo, a, "internal/config.PrometheusConfig", "URI") && uriAt == token.NoPos {
							list, uriAt = o, x.Pos()
						}
						if fieldSel(cinfo, a, "internal/config.PrometheusConfig", "Failover") && call.Ellipsis.IsValid() && o == list && failAt == token.NoPos {
							failAt = x.Pos()
						}
					}
				case *ast.CallExpr:
					if fn := Callee(cinfo, x); fn != nil && fn.Pkg() != nil && (fn.Pkg().Path() == "sort" || fn.Pkg().Path() == "slices") && len(x.Args) >= 1 && list != nil && objOf(cinfo, x.Args[0]) == list {
						switch fn.Name() {
						case "Contains", "Index", "IndexFunc", "ContainsFunc", "Clone":
						default:
							reordered = true
						}
					}
				}
				return true
			})
			ranged := false
			ast.Inspect(nfg.Decl.Body, func(n ast.Node) bool {
				if rs, ok := n.(*ast.RangeStmt); ok && list != nil && objOf(cinfo, rs.X) == list && rs.Value != nil {
					v := objOf(cinfo, rs.Value)
					ast.Inspect(rs.Body, func(m ast.Node) bool {
						if call, ok := m.(*ast.CallExpr); ok && isCallTo(cinfo, call, "internal/promapi.NewPrometheus") && len(call.Args) > 1 && objOf(cinfo, call.Args[1]) == v {
							ranged = true
						}
						return true
					})
				}
				return true
			})
			if list != nil && uriAt.IsValid() && failAt.IsValid() && uriAt < failAt && ranged && !reordered {
				firstURI, appendsFailover = true, true
			}
		}
		c.Check(firstURI && appendsFailover, "C15-R1", "newFailoverGroup:uri first, then failover in order", nfg.Decl.Pos(), "configured order", "upstream list is not built as [uri, failover...] by ranging over prom.Failover itself")
		reorder := ""
		ast.Inspect(nfg.Decl.Body, func(n ast.Node) bool {
			if call, ok := n.(*ast.CallExpr); ok {
				if fn := Callee(cinfo, call); fn != nil && fn.Pkg() != nil && (fn.Pkg().Path() == "sort" || fn.Pkg().Path() == "slices") {
					for _, a := range call.Args {
						if fieldSel(cinfo, a, "internal/config.PrometheusConfig", "Failover") {
							switch fn.Name() {
							case "Contains", "Index", "Clone":
							default:
								reorder = exprStr(call)
							}
						}
					}
				}
			}
			return true
		})
		// and every configured URI becomes an upstream: nothing in the loop leaves one out
		{
			pm := parentMap(nfg.Decl.Body)
			nl := 0
			ast.Inspect(nfg.Decl.Body, func(n ast.Node) bool {
				rs, ok := n.(*ast.RangeStmt)
				if !ok {
					return true
				}
				hasNew := false
				ast.Inspect(rs.Body, func(m ast.Node) bool {
					if call, ok := m.(*ast.CallExpr); ok && isCallTo(cinfo, call, "internal/promapi.NewPrometheus") {
						hasNew = true
					}
					return true
				})
				if !hasNew {
					return true
				}
				nl++
				why := loopReachesCall(cinfo, pm, rs.Body, "NewPrometheus", func(cl *ast.CallExpr) bool { return isCallTo(cinfo, cl, "internal/promapi.NewPrometheus") })
				c.Check(why == "", "C15-R1", "newFailoverGroup:every configured URI becomes an upstream", rs.Pos(), "unconditional",
					why+": a failover address that is left out is never contacted when the others are unavailable, so the group reports an outage although a configured server could have answered")
				return true
			})
			c.Check(nl >= 1, "C15-R1", "newFailoverGroup:upstream loop found", nfg.Decl.Pos(), itoa(nl), "no loop creates the failover upstreams")
		}
		c.Check(reorder == "", "C15-R1", "newFailoverGroup:failover list not reordered", nfg.Decl.Pos(), "order kept", "`"+reorder+"` rewrites the configured failover list")
	}
	// nobody reorders fg.servers
	for _, fi := range p.AllFuncs() {
		if p.IsTestFile(fi.Decl.Pos()) || fi.Decl.Body == nil || fi.Pkg != prom {
			continue
		}
		ast.Inspect(fi.Decl.Body, func(n ast.Node) bool {
			switch x := n.(type) {
			case *ast.AssignStmt:
				for _, l := range x.Lhs {
					if fieldSel(info, l, "internal/promapi.FailoverGroup", "servers") {
						c.Check(fi.Name == "internal/promapi.FailoverGroup.MergeUpstreams", "C15-R1", "store FailoverGroup.servers in "+fi.Name, x.Pos(), "append-only merge", "fg.servers is rewritten outside MergeUpstreams")
					}
				}
			case *ast.CallExpr:
				if fn := Callee(info, x); fn != nil && fn.Pkg() != nil && (fn.Pkg().Path() == "sort" || fn.Pkg().Path() == "slices") && len(x.Args) > 0 && fieldSel(info, x.Args[0], "internal/promapi.FailoverGroup", "servers") {
					if strings.HasPrefix(fn.Name(), "Sort") || fn.Name() == "Reverse" {
						c.Bad("C15-R1", "reorders fg.servers in "+fi.Name, x.Pos(), "fg.servers is reordered")
					}
				}
			}
			return true
		})
	}

	// a failed slice of a range query fails the query: only cancellation (caused by an earlier failure) is ignored
	if rq := c.MustFunc("C15-R1", "internal/promapi.Prometheus.RangeQuery"); rq != nil {
		pm := parentMap(rq.Decl.Body)
		n := 0
		ast.Inspect(rq.Decl.Body, func(nd ast.Node) bool {
			as, ok := nd.(*ast.AssignStmt)
			if !ok || len(as.Lhs) != 1 || len(as.Rhs) != 1 {
				return true
			}
			rhs, isSel := as.Rhs[0].(*ast.SelectorExpr)
			if !isSel || rhs.Sel.Name != "err" || fieldOwner(info, rhs) != "internal/promapi.queryResult" {
				return true
			}
			if t := info.TypeOf(as.Lhs[0]); t == nil || t.String() != "error" {
				return true
			}
			n++
			bad := rangeSliceErrGuard(info, pm, as, rq.Decl.Body)
			c.Check(bad == "", "C15-R1", "RangeQuery:only context.Canceled slice errors are ignored", as.Pos(), "every other slice error fails the query", "`"+bad+"` makes a slice failure disappear: the range query returns a partial or empty success instead of an unavailability error, so no failover happens and checks see `no data`")
			return true
		})
		c.Check(n == 1, "C15-R1", "RangeQuery:slice errors recorded", rq.Decl.Pos(), "one recorder", itoa(n)+" stores of result.err")
	}

	// ---- R2 ----
	c15Tables(c)

	// ---- R3 ----
	c15Severity(c)

	// ---- R4 ----
	apiErrorDiscipline(c, "C15-R4", nil)
}

func flattenAnd(e ast.Expr) []ast.Expr {
	e = ast.Unparen(e)
	if be, ok := e.(*ast.BinaryExpr); ok && be.Op == token.LAND {
		return append(flattenAnd(be.X), flattenAnd(be.Y)...)
	}
	return []ast.Expr{e}
}

func c15Tables(c *Ctx) {
	p := c.P
	prom := p.Pkg("internal/promapi")
	info := prom.TypesInfo
	if det := c.MustFunc("C15-R2", "internal/promapi.decodeErrorType"); det != nil {
		// decided by evaluation: the seven words of the v1 API decode to themselves, anything else to a
		// type that is not server_error (an unknown word must not look like an outage)
		sig := det.Obj.Type().(*types.Signature)
		run := func(w string) (string, string) {
			ev := &miniEval{info: info, prog: p, env: map[types.Object]mval{}}
			if sig.Params().Len() == 1 {
				ev.env[sig.Params().At(0)] = mStr(w)
			}
			ctl := ev.block(det.Decl.Body.List)
			if ev.undec != "" || ctl.kind != 'r' || ctl.ret.k != mvStr {
				u := ev.undec
				if u == "" {
					u = "no string result"
				}
				return "", u
			}
			return ctl.ret.s, ""
		}
		n := 0
		for _, w := range []string{"bad_data", "timeout", "canceled", "execution", "bad_response", "server_error", "client_error"} {
			got, u := run(w)
			if u != "" {
				c.Undecided("C15-R2", "decodeErrorType:"+w, det.Decl.Pos(), "could not be evaluated: "+u)
				continue
			}
			n++
			c.Check(got == w, "C15-R2", "decodeErrorType:"+w, det.Decl.Pos(), "identity", "errorType "+strq(w)+" decodes to "+strq(got))
		}
		okDef := true
		for _, w := range []string{"bogus", "", "server", "SERVER_ERROR", "server_error "} {
			if got, u := run(w); u != "" || got == "server_error" {
				okDef = false
			}
		}
		c.Check(okDef, "C15-R2", "decodeErrorType:unknown word is not server_error", det.Decl.Pos(), "unknown -> not unavailable", "unknown error types decode to server_error (treated as unavailable)")
		c.Check(n >= 7, "C15-R2", "decodeErrorType:seven known words", det.Decl.Pos(), itoa(n), "only "+itoa(n)+" error type words handled")
	}
	if iu := c.MustFunc("C15-R2", "internal/promapi.IsUnavailableError"); iu != nil {
		// decided by evaluation (minieval.go): errors.As(err, &e) is the oracle that says whether the error is
		// an API error and, if so, of which type; the verdict must be `not an API error, or type server_error`
		sig := iu.Obj.Type().(*types.Signature)
		bad, undec := "", ""
		words := []string{"server_error", "client_error", "bad_data", "timeout", "canceled", "execution", "unavailable", "bad_response", "unknown"}
		for _, isAPI := range []bool{false, true} {
			for _, w := range words {
				ev := &miniEval{info: info, prog: p, env: map[types.Object]mval{}}
				if sig.Params().Len() == 1 {
					ev.env[sig.Params().At(0)] = mval{k: mvRec, rec: map[string]mval{}}
				}
				ev.oracle = func(ev *miniEval, call *ast.CallExpr) (mval, bool) {
					fn := Callee(info, call)
					if fn == nil || fn.Pkg() == nil || fn.Pkg().Path() != "errors" || fn.Name() != "As" || len(call.Args) != 2 {
						return mval{}, false
					}
					if u, isU := ast.Unparen(call.Args[1]).(*ast.UnaryExpr); isU && u.Op == token.AND {
						if o := objOf(info, u.X); o != nil && strings.HasSuffix(typeQName(o.Type()), "promapi.APIError") {
							if isAPI {
								ev.env[o] = mval{k: mvRec, rec: map[string]mval{"ErrorType": mStr(w)}}
							}
							return mBool(isAPI), true
						}
					}
					ev.fail("errors.As with a target that is not an APIError variable")
					return mval{}, true
				}
				ctl := ev.block(iu.Decl.Body.List)
				if ev.undec != "" || ctl.kind != 'r' || ctl.ret.k != mvBool {
					undec = ev.undec
					if undec == "" {
						undec = "no boolean result"
					}
					continue
				}
				want := !isAPI || w == "server_error"
				if ctl.ret.b != want && bad == "" {
					bad = "for " + map[bool]string{true: "an API error of type " + w, false: "an error that is not an API error"}[isAPI] + " it answers " + boolStr(ctl.ret.b)
				}
			}
		}
		if undec != "" {
			c.Undecided("C15-R2", "IsUnavailableError: APIError => type==server_error, else true", iu.Decl.Pos(), "could not be evaluated: "+undec)
		} else {
			c.Check(bad == "", "C15-R2", "IsUnavailableError: APIError => type==server_error, else true", iu.Decl.Pos(), "documented classification", "IsUnavailableError no longer means `API error of type server_error, or any transport error`: "+bad)
		}
	}
	if td := c.MustFunc("C15-R2", "internal/promapi.tryDecodingAPIError"); td != nil {
		got := map[int64]string{}
		for _, sw := range findSwitches(td.Decl.Body, func(s *ast.SwitchStmt) bool {
			if s.Tag == nil {
				return false
			}
			be, ok := ast.Unparen(s.Tag).(*ast.BinaryExpr)
			return ok && be.Op == token.QUO
		}) {
			cases, _ := switchCases(sw)
			for _, cs := range cases {
				k, ok := constInt(info, cs.Expr)
				if !ok {
					continue
				}
				for _, cl := range compositeLits(info, cs.Clause, "internal/promapi.APIError") {
					if v := litField(cl, "ErrorType"); v != nil {
						got[k], _ = constString(info, v)
					}
				}
			}
		}
		// the status-code fallback is taken whenever the body did not decode,
		// and only then
		pmTD := parentMap(td.Decl.Body)
		for _, sw := range findSwitches(td.Decl.Body, func(s *ast.SwitchStmt) bool {
			if s.Tag == nil {
				return false
			}
			be, ok := ast.Unparen(s.Tag).(*ast.BinaryExpr)
			return ok && be.Op == token.QUO
		}) {
			gs := lexicalGuards(pmTD, sw, td.Decl.Body)
			var txt []string
			for _, g := range gs {
				txt = append(txt, atomStr(info, g))
			}
			sort.Strings(txt)
			got := strings.Join(txt, " && ")
			c.Check(got == "err != nil", "C15-R2", "tryDecodingAPIError:status-code fallback exactly when the body does not decode", sw.Pos(), got,
				"the HTTP-status fallback (5xx -> server_error, 4xx -> client_error) is taken under `"+got+"`, expected exactly `err != nil` of the body decoder: a 5xx answer whose body is cut short after the status field is then classified from a half-read body (not as unavailable, so no failover)")
		}
		if len(got) == 0 {
			// no switch over the status class: the same table through guards. Every place that fixes an
			// error type — an APIError literal with a constant type, or an assignment of a constant to the
			// variable a literal takes its type from — is read with the facts it stands under
			// (`class == 4`, where class is StatusCode / 100, possibly held in a local)
			classOf := func(n ast.Node) (int64, bool, []string) {
				var rest []string
				var cls int64
				found := false
				for _, g := range lexicalGuards(pmTD, n, td.Decl.Body) {
					isClass := false
					var subj, kexpr ast.Expr
					if g.Tag != nil {
						subj, kexpr = g.Tag, g.E
					} else if be, ok := ast.Unparen(g.E).(*ast.BinaryExpr); ok && be.Op == token.EQL {
						subj, kexpr = be.X, be.Y
					}
					if subj != nil {
						d := ast.Unparen(subj)
						if id, isID := d.(*ast.Ident); isID {
							d = ast.Unparen(singleDef(info, td.Decl.Body, id))
						}
						if q, isQ := d.(*ast.BinaryExpr); isQ && q.Op == token.QUO {
							if k, isC := constInt(info, kexpr); isC {
								isClass = true
								if g.Truth {
									cls, found = k, true
								}
							}
						}
					}
					if !isClass {
						rest = append(rest, atomStr(info, g))
					}
				}
				return cls, found, rest
			}
			var fallbackGuards []string
			haveFallback := false
			for _, cl := range compositeLits(info, td.Decl.Body, "internal/promapi.APIError") {
				v := litField(cl, "ErrorType")
				if v == nil {
					continue
				}
				if t, isC := constString(info, v); isC {
					if k, ok, rest := classOf(cl); ok {
						got[k] = t
						fallbackGuards, haveFallback = rest, true
					}
					continue
				}
				vo := objOf(info, v)
				if vo == nil {
					continue
				}
				ast.Inspect(td.Decl.Body, func(nd ast.Node) bool {
					as, isAs := nd.(*ast.AssignStmt)
					if !isAs || len(as.Lhs) != len(as.Rhs) {
						return true
					}
					for i, l := range as.Lhs {
						if objOf(info, l) != vo {
							continue
						}
						if t, isC := constString(info, as.Rhs[i]); isC {
							if k, ok, rest := classOf(as); ok {
								got[k] = t
								fallbackGuards, haveFallback = rest, true
							}
						}
					}
					return true
				})
			}
			if haveFallback {
				sort.Strings(fallbackGuards)
				gtxt := strings.Join(fallbackGuards, " && ")
				c.Check(gtxt == "err != nil", "C15-R2", "tryDecodingAPIError:status-code fallback exactly when the body does not decode", td.Decl.Pos(), gtxt,
					"the HTTP-status fallback (5xx -> server_error, 4xx -> client_error) is taken under `"+gtxt+"`, expected exactly `err != nil` of the body decoder: a 5xx answer whose body is cut short after the status field is then classified from a half-read body (not as unavailable, so no failover)")
			}
		}
		c.Check(got[4] == "client_error", "C15-R2", "tryDecodingAPIError:4xx without JSON -> client_error", td.Decl.Pos(), "client", "undecodable 4xx maps to "+strq(got[4]))
		c.Check(got[5] == "server_error", "C15-R2", "tryDecodingAPIError:5xx without JSON -> server_error", td.Decl.Pos(), "server", "undecodable 5xx maps to "+strq(got[5]))
		// decoded body: errorType passed through decodeErrorType
		viaDecode := false
		for _, cl := range compositeLits(info, td.Decl.Body, "internal/promapi.APIError") {
			if v := litField(cl, "ErrorType"); v != nil {
				if call, ok := v.(*ast.CallExpr); ok && isCallTo(info, call, "internal/promapi.decodeErrorType") {
					viaDecode = true
				}
			}
		}
		c.Check(viaDecode, "C15-R2", "tryDecodingAPIError:JSON errorType goes through decodeErrorType", td.Decl.Pos(), "decoded", "the JSON errorType is not classified by decodeErrorType")
	}
	// stream* functions
	nStream := 0
	for _, fi := range p.AllFuncs() {
		if fi.Pkg != prom || !strings.HasPrefix(fi.Obj.Name(), "stream") || p.IsTestFile(fi.Decl.Pos()) {
			continue
		}
		nStream++
		fl := p.NewFlow(fi)
		// returns dominated by `err = decoder.Stream(dec); err != nil`
		var streamIf *ast.IfStmt
		ast.Inspect(fi.Decl.Body, func(n ast.Node) bool {
			if ifs, ok := n.(*ast.IfStmt); ok && ifs.Init != nil {
				ast.Inspect(ifs.Init, func(m ast.Node) bool {
					if call, ok := m.(*ast.CallExpr); ok {
						if sel, ok := call.Fun.(*ast.SelectorExpr); ok && sel.Sel.Name == "Stream" {
							streamIf = ifs
						}
					}
					return true
				})
			}
			return true
		})
		ok := false
		if streamIf != nil {
			for _, cl := range compositeLits(info, streamIf.Body, "internal/promapi.APIError") {
				if v := litField(cl, "ErrorType"); v != nil {
					if s, isC := constString(info, v); isC && s == "bad_response" {
						ok = true
					}
				}
			}
		}
		_ = fl
		c.Check(ok, "C15-R2", fi.Obj.Name()+":JSON stream failure -> bad_response", fi.Decl.Pos(), "bad_response", "a JSON stream failure is not reported as bad_response (truncated bodies could be classified as unavailable or as success)")
		// status != success -> decodeErrorType
		viaDecode := false
		for _, cl := range compositeLits(info, fi.Decl.Body, "internal/promapi.APIError") {
			if v := litField(cl, "ErrorType"); v != nil {
				if call, ok := v.(*ast.CallExpr); ok && isCallTo(info, call, "internal/promapi.decodeErrorType") {
					viaDecode = true
				}
			}
		}
		c.Check(viaDecode, "C15-R2", fi.Obj.Name()+":non-success status classified by decodeErrorType", fi.Decl.Pos(), "decoded", "status != success is not classified through decodeErrorType")
	}
	c.Check(nStream >= 5, "C15-R2", "stream decoders enumerated", token.NoPos, itoa(nStream), "fewer than five stream* decoders")
}

func c15Severity(c *Ctx) {
	pfe := c.MustFunc("C15-R3", "internal/checks.problemFromError")
	if pfe == nil {
		return
	}
	info := pfe.Pkg.TypesInfo
	sig := pfe.Obj.Type().(*types.Signature)
	sParam := sig.Params().At(paramIndex(sig, "s"))
	errParam := sig.Params().At(paramIndex(sig, "err"))
	if c15SeverityByEvaluation(c, pfe, sParam, errParam) {
		c15StrictFlows(c)
		return
	}
	// every assignment of the problem's severity is classified by what its guards say about
	// IsUnavailableError(err): known true (the outage region), known false, or not mentioned.
	// The shape (switch, if chain, inverted test with the outage in the else branch) does not matter.
	pm := parentMap(pfe.Decl.Body)
	unavailTruth := func(n ast.Node) (known bool, truth bool) {
		for _, a := range lexicalGuards(pm, n, pfe.Decl.Body) {
			if a.Tag != nil {
				continue
			}
			e, t := ast.Unparen(a.E), a.Truth
			for {
				u, ok := e.(*ast.UnaryExpr)
				if !ok || u.Op != token.NOT {
					break
				}
				e, t = ast.Unparen(u.X), !t
			}
			if call, ok := e.(*ast.CallExpr); ok && isCallTo(info, call, "internal/promapi.IsUnavailableError") && len(call.Args) == 1 && objOf(info, call.Args[0]) == errParam {
				return true, t
			}
		}
		return false, false
	}
	okWarn, okBug, usesCaller, nRegion, callerOutside := false, true, false, 0, false
	var regionPos token.Pos
	ast.Inspect(pfe.Decl.Body, func(n ast.Node) bool {
		as, ok := n.(*ast.AssignStmt)
		if !ok || len(as.Lhs) != 1 || len(as.Rhs) != 1 || typeQName(info.TypeOf(as.Lhs[0])) != "internal/checks.Severity" {
			return true
		}
		known, truth := unavailTruth(as)
		if !known || !truth {
			if objOf(info, as.Rhs[0]) == sParam && known && !truth {
				callerOutside = true
			}
			if objOf(info, as.Rhs[0]) == sParam && !known {
				usesCaller = true // the caller's severity not excluded from the outage region
			}
			return true
		}
		nRegion++
		if regionPos == token.NoPos {
			regionPos = as.Pos()
		}
		if objOf(info, as.Rhs[0]) == sParam {
			usesCaller = true
			return true
		}
		k := constObj(info, as.Rhs[0])
		if k == nil {
			okBug = false
			return true
		}
		switch k.Name() {
		case "Warning":
			okWarn = true
		case "Bug":
			strict := false
			for _, a := range lexicalGuards(pm, as, pfe.Decl.Body) {
				ast.Inspect(a.E, func(m ast.Node) bool {
					if call, ok := m.(*ast.CallExpr); ok && a.Truth && isCallTo(info, call, "internal/promapi.FailoverGroupError.IsStrict") {
						strict = true
					}
					return true
				})
			}
			if !strict {
				okBug = false
			}
		default:
			okBug = false
		}
		return true
	})
	if nRegion == 0 {
		c.Bad("C15-R3", "problemFromError:IsUnavailableError case", pfe.Decl.Pos(), "no severity is assigned under promapi.IsUnavailableError(err)")
		return
	}
	c.Check(okWarn && !usesCaller, "C15-R3", "problemFromError:unavailable => Warning", regionPos, "Warning", "an unavailable server is not reported as Warning (or takes the caller's severity)")
	c.Check(okBug, "C15-R3", "problemFromError:Bug only when the server is required", regionPos, "guarded by IsStrict()", "severity above Warning is assigned for unavailability without perr.IsStrict()")
	// the caller's severity is used only where the error is known not to be an outage
	c.Check(callerOutside, "C15-R3", "problemFromError:default case after the unavailability case", pfe.Decl.Pos(), "caller severity only for errors that are not outages", "the caller's severity is no longer confined to errors that are not outages")
	// the Problem uses the computed severity variable
	okUse := false
	for _, cl := range compositeLits(info, pfe.Decl.Body, "internal/checks.Problem") {
		if v := litField(cl, "Severity"); v != nil {
			if o, ok := objOf(info, v).(*types.Var); ok && o != sParam && !o.IsField() {
				okUse = true
			}
		}
	}
	c.Check(okUse, "C15-R3", "problemFromError:problem carries the computed severity", pfe.Decl.Pos(), "local severity", "the problem does not use the severity computed from the error class")
	c15StrictFlows(c)
}

// c15SeverityByEvaluation decides the severity table of problemFromError by evaluating the function for
// every combination of error class (too expensive, unavailable), of "the error is a FailoverGroupError",
// of its strictness and of the caller's severity, whatever way the function is written. It reports false
// (and nothing else) when the function is outside what the evaluator reads.
func c15SeverityByEvaluation(c *Ctx, pfe *FuncInfo, sParam, errParam *types.Var) bool {
	info := pfe.Pkg.TypesInfo
	chk := pfe.Pkg.Types.Scope()
	sev := map[string]int64{}
	for _, n := range []string{"Information", "Warning", "Bug", "Fatal"} {
		k, ok := chk.Lookup(n).(*types.Const)
		if !ok {
			return false
		}
		v, exact := constant.Int64Val(constant.ToInt(k.Val()))
		if !exact {
			return false
		}
		sev[n] = v
	}
	type in struct {
		exp, unavail, as, strict bool
		s                        string
	}
	run := func(i in) (int64, bool) {
		ev := &miniEval{info: info, prog: c.P, env: map[types.Object]mval{sParam: {k: mvInt, i: sev[i.s]}}}
		ev.oracle = func(ev *miniEval, call *ast.CallExpr) (mval, bool) {
			switch {
			case isCallTo(info, call, "internal/promapi.IsQueryTooExpensive"):
				return mBool(i.exp), len(call.Args) == 1 && objOf(info, call.Args[0]) == errParam
			case isCallTo(info, call, "internal/promapi.IsUnavailableError"):
				return mBool(i.unavail), len(call.Args) == 1 && objOf(info, call.Args[0]) == errParam
			case isCallTo(info, call, "errors.As"):
				if len(call.Args) == 2 && objOf(info, call.Args[0]) == errParam {
					if u, ok := ast.Unparen(call.Args[1]).(*ast.UnaryExpr); ok && u.Op == token.AND && i.as {
						ev.assign(u.X, mval{k: mvRec, rec: map[string]mval{}})
					}
					return mBool(i.as), true
				}
			case isCallTo(info, call, "internal/promapi.FailoverGroupError.IsStrict"), isCallTo(info, call, "internal/promapi.FailoverGroupError.URI"):
				sel, _ := call.Fun.(*ast.SelectorExpr)
				if sel == nil {
					return mval{}, false
				}
				if r := ev.expr(sel.X); r.k != mvRec {
					ev.fail("a method of the failover error is called where the error is not known to be one")
					return mval{}, true
				}
				if sel.Sel.Name == "URI" {
					return mStr(""), true
				}
				return mBool(i.strict), true
			}
			return mval{}, false
		}
		ctl := ev.block(pfe.Decl.Body.List)
		if ev.undec != "" || ctl.kind != 'r' || ctl.ret.k != mvRec {
			return 0, false
		}
		v := ctl.ret.rec["Severity"]
		return v.i, v.k == mvInt
	}
	okWarn, okBug, callerOutside := true, true, true
	bools := []bool{false, true}
	for _, s := range []string{"Information", "Warning", "Bug", "Fatal"} {
		for _, exp := range bools {
			for _, un := range bools {
				for _, as := range bools {
					for _, strict := range bools {
						if strict && !as {
							continue
						}
						got, ok := run(in{exp, un, as, strict, s})
						if !ok {
							return false
						}
						switch {
						case un:
							// an outage: Warning, or Bug when the server is required
							if got != sev["Warning"] && !(got == sev["Bug"] && strict) {
								if got == sev["Bug"] {
									okBug = false
								} else {
									okWarn = false
								}
							}
						case exp:
						default:
							if got != sev[s] {
								callerOutside = false
							}
						}
					}
				}
			}
		}
	}
	pos := pfe.Decl.Pos()
	c.Check(okWarn, "C15-R3", "problemFromError:unavailable => Warning", pos, "Warning", "an unavailable server is not reported as Warning (or takes the caller's severity)")
	c.Check(okBug, "C15-R3", "problemFromError:Bug only when the server is required", pos, "guarded by IsStrict()", "severity above Warning is assigned for unavailability without perr.IsStrict()")
	c.Check(callerOutside, "C15-R3", "problemFromError:default case after the unavailability case", pos, "caller severity only for errors that are not outages", "an error that is not an outage is not reported with the caller's severity")
	c.Check(okWarn && okBug && callerOutside, "C15-R3", "problemFromError:problem carries the computed severity", pos, "local severity", "the problem does not use the severity computed from the error class")
	return true
}

func c15StrictFlows(c *Ctx) {
	p := c.P
	// strictness flows from PrometheusConfig.Required
	if nfg := c.MustFunc("C15-R3", "internal/config.newFailoverGroup"); nfg != nil {
		cinfo := nfg.Pkg.TypesInfo
		ok := false
		ctor := p.Func("internal/promapi.NewFailoverGroup")
		ast.Inspect(nfg.Decl.Body, func(n ast.Node) bool {
			if call, isCall := n.(*ast.CallExpr); isCall && ctor != nil && Callee(cinfo, call) == ctor.Obj {
				i := paramIndex(ctor.Obj.Type().(*types.Signature), "strictErrors")
				if i >= 0 && fieldSel(cinfo, call.Args[i], "internal/config.PrometheusConfig", "Required") {
					ok = true
				}
			}
			return true
		})
		c.Check(ok, "C15-R3", "newFailoverGroup:strictErrors = prom.Required", nfg.Decl.Pos(), "Required", "strictErrors is not taken from PrometheusConfig.Required")
	}
	if ctor := c.MustFunc("C15-R3", "internal/promapi.NewFailoverGroup"); ctor != nil {
		ok := false
		for _, cl := range compositeLits(ctor.Pkg.TypesInfo, ctor.Decl.Body, "internal/promapi.FailoverGroup") {
			if v := litField(cl, "strictErrors"); v != nil {
				sig := ctor.Obj.Type().(*types.Signature)
				if i := paramIndex(sig, "strictErrors"); i >= 0 && isObj(ctor.Pkg.TypesInfo, v, sig.Params().At(i)) {
					ok = true
				}
			}
		}
		c.Check(ok, "C15-R3", "NewFailoverGroup:stores strictErrors", ctor.Decl.Pos(), "stored", "constructor does not store strictErrors")
	}
}

// apiFuncs: FailoverGroup API methods plus helpers in package checks that
// return the API's error to their caller.
func apiFuncs(p *Prog) map[*types.Func]string {
	out := map[*types.Func]string{}
	for _, m := range c15APIs {
		if fi := p.Func("internal/promapi.FailoverGroup." + m); fi != nil {
			out[fi.Obj] = "FailoverGroup." + m
		}
	}
	return out
}

// apiErrorDiscipline checks every call of an API function in internal/checks.
func apiErrorDiscipline(c *Ctx, rule string, fileFilter func(string) bool) {
	p := c.P
	chk := p.Pkg("internal/checks")
	if chk == nil {
		c.Undecided(rule, "anchor:internal/checks", token.NoPos, "package not found")
		return
	}
	info := chk.TypesInfo
	apis := apiFuncs(p)
	// helpers returning an API error: (T, error) functions of package checks whose returned error is the API's err
	for changed := true; changed; {
		changed = false
		for _, fi := range p.AllFuncs() {
			if fi.Pkg != chk || fi.Decl.Body == nil || p.IsTestFile(fi.Decl.Pos()) {
				continue
			}
			if _, done := apis[fi.Obj]; done {
				continue
			}
			res := fi.Obj.Type().(*types.Signature).Results()
			if res.Len() == 0 || res.At(res.Len()-1).Type().String() != "error" {
				continue
			}
			// err variable assigned from an API call and returned
			var errObjs []types.Object
			ast.Inspect(fi.Decl.Body, func(n ast.Node) bool {
				if as, ok := n.(*ast.AssignStmt); ok && len(as.Rhs) == 1 {
					if call, ok := as.Rhs[0].(*ast.CallExpr); ok {
						if fn := Callee(info, call); fn != nil {
							if _, isAPI := apis[fn]; isAPI && len(as.Lhs) >= 2 {
								errObjs = append(errObjs, objOf(info, as.Lhs[len(as.Lhs)-1]))
							}
						}
					}
				}
				return true
			})
			returnsIt := false
			for _, r := range returnsIn(fi.Decl.Body.List) {
				if len(r.Results) == res.Len() {
					for _, eo := range errObjs {
						if eo != nil && objOf(info, r.Results[len(r.Results)-1]) == eo {
							returnsIt = true
						}
					}
				}
			}
			if returnsIt {
				apis[fi.Obj] = "helper " + fi.Obj.Name()
				changed = true
			}
		}
	}

	nSites := 0
	for _, fi := range p.AllFuncs() {
		if fi.Pkg != chk || fi.Decl.Body == nil || p.IsTestFile(fi.Decl.Pos()) {
			continue
		}
		file := filepath.Base(p.Fset.Position(fi.Decl.Pos()).Filename)
		if fileFilter != nil && !fileFilter(file) {
			continue
		}
		var fl *Flow
		pm := parentMap(fi.Decl.Body)
		seq := map[string]int{}
		ast.Inspect(fi.Decl.Body, func(n ast.Node) bool {
			call, ok := n.(*ast.CallExpr)
			if !ok {
				return true
			}
			fn := Callee(info, call)
			api, isAPI := apis[fn]
			if !isAPI {
				return true
			}
			nSites++
			seq[api]++
			key := fi.Name + "->" + api + "#" + itoa(seq[api])
			as, isAs := pm[call].(*ast.AssignStmt)
			if !isAs || len(as.Rhs) != 1 {
				// e.g. `return c.helper()` — passes the error on
				if _, isRet := pm[call].(*ast.ReturnStmt); isRet {
					c.Ok(rule, key+":error passed to the caller", call.Pos(), "returned as is")
					return true
				}
				c.Bad(rule, key+":error bound", call.Pos(), "the API result and error are not bound to variables")
				return true
			}
			errLHS := as.Lhs[len(as.Lhs)-1]
			var errObj types.Object
			if id, ok := errLHS.(*ast.Ident); ok && id.Name == "_" {
				// allowed only if every use of the result is nil-guarded (checked below with errObj == nil)
				c.Ok(rule, key+":error discarded, result must be nil-guarded", call.Pos(), "err is `_`")
			} else {
				errObj = objOf(info, errLHS)
				c.Ok(rule, key+":error bound", call.Pos(), "err bound to "+exprStr(errLHS))
			}
			if fl == nil {
				fl = c.P.NewFlow(fi)
			}
			// (a) result dereferences
			var resObj types.Object
			if len(as.Lhs) >= 2 {
				if id, ok := as.Lhs[0].(*ast.Ident); ok && id.Name != "_" {
					resObj = objOf(info, as.Lhs[0])
				}
			}
			if resObj != nil {
				if _, isPtr := resObj.Type().Underlying().(*types.Pointer); isPtr {
					nDeref, bad := 0, ""
					c15NilFlags[resObj] = nilFlagsOf(info, fi.Decl.Body, resObj, as)
					var callSite *Site
					for _, sm := range fl.Find(func(x ast.Node) bool { return x == call }) {
						s := sm.Site
						callSite = &s
					}
					for _, sm := range fl.Find(func(x ast.Node) bool {
						sel, ok := x.(*ast.SelectorExpr)
						if !ok {
							return false
						}
						id, ok := ast.Unparen(sel.X).(*ast.Ident)
						return ok && info.Uses[id] == resObj
					}) {
						if callSite == nil {
							break
						}
						// only uses reachable from this call
						target := sm.Site
						if r, _ := fl.Reach(callSite.After(), func(s Site) bool { return s == target }, false, PathQ{}); !r {
							continue
						}
						nDeref++
						safe := false
						for _, a := range WithinExprAtoms(sm.Site.Node(), sm.Inner) {
							if c15Safe(info, a, errObj, resObj) {
								safe = true
							}
						}
						// re-assignment of the result from a non-nil literal ends the obligation on that path
						avoidFresh := func(x ast.Node) bool {
							as2, ok := x.(*ast.AssignStmt)
							if !ok || as2 == as {
								return false
							}
							for i, l := range as2.Lhs {
								if objOf(info, l) == resObj && i < len(as2.Rhs) {
									if u, ok := as2.Rhs[i].(*ast.UnaryExpr); ok && u.Op == token.AND {
										return true
									}
								}
							}
							return false
						}
						if !safe {
							reach, _ := fl.Reach(callSite.After(), func(s Site) bool { return s == target }, false, PathQ{
								Cut: func(atoms []Atom) bool {
									for _, a := range atoms {
										if c15Safe(info, a, errObj, resObj) {
											return true
										}
									}
									return false
								},
								Avoid: avoidFresh,
							})
							safe = !reach
							// the same err variable may be re-assigned by a later call: from
							// there on `err == nil` says nothing about THIS call's result, only
							// `result != nil` does
							if safe && errObj != nil {
								// executing the call again binds both variables afresh
								avoidRebind := func(x ast.Node) bool { return x == ast.Node(as) || avoidFresh(x) }
								for _, rm := range fl.Find(func(x ast.Node) bool {
									as2, ok := x.(*ast.AssignStmt)
									if !ok || as2 == as {
										return false
									}
									for _, l := range as2.Lhs {
										if objOf(info, l) == errObj {
											return true
										}
									}
									return false
								}) {
									re := rm.Site
									toRe, _ := fl.Reach(callSite.After(), func(s Site) bool { return s == re }, false, PathQ{
										Cut: func(atoms []Atom) bool {
											for _, a := range atoms {
												if c15Safe(info, a, errObj, resObj) {
													return true
												}
											}
											return false
										},
										Avoid: avoidRebind,
									})
									if !toRe {
										continue
									}
									fromRe, _ := fl.Reach(re.After(), func(s Site) bool { return s == target }, false, PathQ{
										Cut: func(atoms []Atom) bool {
											for _, a := range atoms {
												if c15Safe(info, a, nil, resObj) {
													return true
												}
											}
											return false
										},
										Avoid: avoidRebind,
									})
									if fromRe {
										safe = false
									}
								}
							}
						}
						if !safe {
							bad = p.Pos(sm.Inner.Pos())
						}
					}
					c.Check(bad == "", rule, key+":result used only when err == nil or result != nil", call.Pos(), itoa(nDeref)+" dereference(s) guarded", "the result of the API call is dereferenced at "+bad+" on a path where the call may have failed (nil result: crash during an outage)")
				}
			}
			// (b) inside err != nil regions: only problemFromError(err, …)
			nRegions := 0
			badLit := ""
			ast.Inspect(fi.Decl.Body, func(m ast.Node) bool {
				ifs, ok := m.(*ast.IfStmt)
				if !ok || ifs.Pos() < call.End() {
					return true
				}
				isErrRegion := false
				for _, a := range implied(ifs.Cond, nil, true) {
					if x, isNil, ok := nilAtom(info, a); ok && !isNil && errObj != nil && objOf(info, x) == errObj {
						isErrRegion = true
					}
				}
				if !isErrRegion {
					return true
				}
				// the region belongs to this call only if no other assignment to err lies between
				nRegions++
				ast.Inspect(ifs.Body, func(k ast.Node) bool {
					switch x := k.(type) {
					case *ast.CompositeLit:
						if typeQName(info.TypeOf(x)) == "internal/checks.Problem" {
							badLit = p.Pos(x.Pos())
						}
					case *ast.CallExpr:
						if isCallTo(info, x, "internal/checks.problemFromError") && len(x.Args) > 0 && (errObj == nil || objOf(info, x.Args[0]) != errObj) {
							badLit = p.Pos(x.Pos())
						}
					}
					return true
				})
				return true
			})
			c.Check(badLit == "", rule, key+":failure region emits only problemFromError(err)", call.Pos(), itoa(nRegions)+" err != nil region(s)", "inside the `err != nil` region a problem is built at "+badLit+" that does not come from problemFromError(err, …): an outage becomes a finding about the rule")
			return true
		})
	}
	if fileFilter == nil && nSites == 0 {
		c.Bad(rule, "no API call sites found", token.NoPos, "expected API call sites in internal/checks")
	}
}

// c15NilFlags: per result variable, the local booleans that carry "the result is nil" (see nilFlagsOf)
var c15NilFlags = map[types.Object]map[types.Object]bool{}

// nilFlagsOf lists the local booleans f with one definition `f := res == nil` (possibly `res == nil || …`)
// whose every other assignment is the constant true, in a function where res itself is assigned only by
// the API call `bind` and from fresh `&T{…}` values or non-baseline constructors: where f is false, res is
// not nil.
func nilFlagsOf(info *types.Info, body *ast.BlockStmt, res types.Object, bind *ast.AssignStmt) map[types.Object]bool {
	out := map[types.Object]bool{}
	type st struct {
		defs, other int
		bad         bool
	}
	flags := map[types.Object]*st{}
	resOK := true
	mentionsNil := func(e ast.Expr) bool {
		for _, a := range implied(e, nil, false) { // what holds when e is false
			if x, isNil, ok := nilAtom(info, a); ok && !isNil && objOf(info, x) == res {
				return true
			}
		}
		return false
	}
	ast.Inspect(body, func(n ast.Node) bool {
		as, ok := n.(*ast.AssignStmt)
		if !ok {
			return true
		}
		for i, l := range as.Lhs {
			o := objOf(info, l)
			if o == nil {
				continue
			}
			if o == res && as != bind {
				fresh := false
				if i < len(as.Rhs) && len(as.Rhs) == len(as.Lhs) {
					if u, ok := ast.Unparen(as.Rhs[i]).(*ast.UnaryExpr); ok && u.Op == token.AND {
						_, fresh = ast.Unparen(u.X).(*ast.CompositeLit)
					}
				}
				if !fresh {
					resOK = false
				}
				continue
			}
			v, isVar := o.(*types.Var)
			if !isVar || v.IsField() || len(as.Rhs) != len(as.Lhs) {
				continue
			}
			if b, isBasic := v.Type().Underlying().(*types.Basic); !isBasic || b.Kind() != types.Bool {
				continue
			}
			f := flags[o]
			if f == nil {
				f = &st{}
				flags[o] = f
			}
			switch {
			case as.Tok == token.DEFINE && as.Pos() > bind.End() && mentionsNil(as.Rhs[i]):
				f.defs++
			case exprStr(as.Rhs[i]) == "true":
				f.other++
			default:
				f.bad = true
			}
		}
		return true
	})
	if !resOK {
		return out
	}
	for o, f := range flags {
		if f.defs == 1 && !f.bad {
			out[o] = true
		}
	}
	return out
}

func c15Safe(info *types.Info, a Atom, errObj, resObj types.Object) bool {
	// a flag that carries the nil test of the result: false means "not nil"
	if a.Tag == nil {
		e, t := ast.Unparen(a.E), a.Truth
		for {
			u, ok := e.(*ast.UnaryExpr)
			if !ok || u.Op != token.NOT {
				break
			}
			e, t = ast.Unparen(u.X), !t
		}
		if id, ok := e.(*ast.Ident); ok && !t && c15NilFlags[resObj][info.Uses[id]] {
			return true
		}
	}
	x, isNil, ok := nilAtom(info, a)
	if !ok {
		return false
	}
	o := objOf(info, x)
	if o == nil {
		return false
	}
	if errObj != nil && o == errObj && isNil {
		return true
	}
	if o == resObj && !isNil {
		return true
	}
	return false
}

// rangeSliceErrGuard inspects the conditions guarding `lastErr = result.err`
// in Prometheus.RangeQuery: besides the err != nil test the only accepted
// exclusion is errors.Is(result.err, context.Canceled). Returns the offending
// expression, or "".
func rangeSliceErrGuard(info *types.Info, pm map[ast.Node]ast.Node, as ast.Node, stop ast.Node) string {
	bad := ""
	for _, a := range lexicalGuards(pm, as, stop) {
		// the only conditions that may decide whether a slice error is recorded: "this slice
		// failed" (result.err != nil) and errors.Is(err, context.Canceled); a flag, a helper or
		// any other test can hide a failed slice
		if x, _, ok := nilAtom(info, a); ok {
			if sel, isSel := ast.Unparen(x).(*ast.SelectorExpr); isSel && sel.Sel.Name == "err" {
				continue
			}
		}
		e := ast.Unparen(a.E)
		for {
			u, ok := e.(*ast.UnaryExpr)
			if !ok || u.Op != token.NOT {
				break
			}
			e = ast.Unparen(u.X)
		}
		okAtom := false
		if call, ok := e.(*ast.CallExpr); ok && len(call.Args) == 2 {
			if fn := Callee(info, call); fn != nil && fn.Pkg() != nil && fn.Pkg().Path() == "errors" && fn.Name() == "Is" {
				if o := objOf(info, call.Args[1]); o != nil && o.Pkg() != nil && o.Pkg().Path() == "context" && o.Name() == "Canceled" {
					okAtom = true
				}
			}
		}
		if !okAtom {
			bad = roleStr(info, a.E)
		}
	}
	return bad
}

// c15NoStickyOutage: processJob asks the server again for every job: a return
// that is reachable without passing query.Run() hands out either the cached
// value of an earlier SUCCESSFUL answer or the ErrUnsupported literal (an API
// the server does not have). Anything else (a remembered connection error, a
// "circuit breaker") keeps answering for an upstream after it has recovered,
// so requests keep failing over although the first upstream is reachable again.
func c15NoStickyOutage(c *Ctx) {
	p := c.P
	fi := c.MustFunc("C15-R1", "internal/promapi.processJob")
	if fi == nil {
		return
	}
	info := fi.Pkg.TypesInfo
	fl := p.NewFlow(fi)
	isRun := func(n ast.Node) bool {
		found := false
		inspectNoLit(n, func(m ast.Node) bool {
			if call, ok := m.(*ast.CallExpr); ok {
				if sel, ok := call.Fun.(*ast.SelectorExpr); ok && sel.Sel.Name == "Run" {
					if t := info.TypeOf(sel.X); t != nil && typeQName(t) == "internal/promapi.querier" {
						found = true
					}
				}
			}
			return true
		})
		return found
	}
	// values obtained from cache.get
	cached := map[types.Object]bool{}
	ast.Inspect(fi.Decl.Body, func(n ast.Node) bool {
		as, ok := n.(*ast.AssignStmt)
		if !ok || len(as.Rhs) != 1 {
			return true
		}
		if call, ok := as.Rhs[0].(*ast.CallExpr); ok && isCallTo(info, call, "internal/promapi.queryCache.get") {
			if o := objOf(info, as.Lhs[0]); o != nil {
				cached[o] = true
			}
		}
		return true
	})
	nRunless, bad := 0, ""
	for _, r := range fl.Find(func(n ast.Node) bool { _, ok := n.(*ast.ReturnStmt); return ok }) {
		target := r.Site
		reach, _ := fl.Reach(fl.Entry(), func(s Site) bool { return s == target }, false, PathQ{Avoid: isRun})
		if !reach {
			continue
		}
		nRunless++
		ret := r.Inner.(*ast.ReturnStmt)
		ok := false
		if len(ret.Results) == 1 {
			e := ast.Unparen(ret.Results[0])
			if ta, isTA := e.(*ast.TypeAssertExpr); isTA {
				e = ast.Unparen(ta.X)
			}
			if id, isID := e.(*ast.Ident); isID && cached[info.Uses[id]] {
				ok = true
			}
			if cl, isLit := e.(*ast.CompositeLit); isLit {
				if v := litField(cl, "err"); v != nil {
					if o := objOf(info, v); o != nil && o.Name() == "ErrUnsupported" && o.Parent() == o.Pkg().Scope() {
						ok = true
					}
				}
			}
		}
		if !ok {
			bad = p.Pos(ret.Pos())
		}
	}
	c.Check(nRunless >= 2 && bad == "", "C15-R1", "processJob:answers without asking the server are cache hits or ErrUnsupported", fi.Decl.Pos(), itoa(nRunless)+" run-less returns",
		"processJob can return at "+bad+" without calling query.Run() and without it being a cached successful answer or ErrUnsupported: a remembered failure keeps answering for this upstream after it has recovered, and every request keeps failing over")
}

// atomStr renders one guard atom with locals shown by role.
func atomStr(info *types.Info, a Atom) string {
	t := roleStr(info, a.E)
	if a.Tag != nil {
		t = roleStr(info, a.Tag) + " == " + t
	}
	if !a.Truth {
		t = "!(" + t + ")"
	}
	return t
}

// c15DeadlineAboveServerLimit: a query that is too expensive is refused by the
// server itself when the `timeout` it was sent expires (422, an error caused by
// the query, no failover). That only works while pint's own deadline is later
// than the limit it sends: every `timeout` request argument is the configured
// Prometheus.timeout as it is, and requestContext's deadline is that same field
// plus a positive constant. With the two equal, pint's deadline fires first and
// the expensive query is classified as a connection timeout: failover, and an
// outage report, after an error the query caused.
func c15DeadlineAboveServerLimit(c *Ctx) {
	R := "C15-R2"
	prom := c.P.Pkg("internal/promapi")
	if prom == nil {
		return
	}
	info := prom.TypesInfo
	nSet := 0
	for _, fi := range c.P.AllFuncs() {
		if fi.Pkg != prom || fi.Decl.Body == nil || c.P.IsTestFile(fi.Decl.Pos()) {
			continue
		}
		ast.Inspect(fi.Decl.Body, func(n ast.Node) bool {
			call, ok := n.(*ast.CallExpr)
			if !ok || len(call.Args) != 2 {
				return true
			}
			if fn := Callee(info, call); fn == nil || fn.FullName() != "(net/url.Values).Set" {
				return true
			}
			if k, isC := constString(info, call.Args[0]); !isC || k != "timeout" {
				return true
			}
			nSet++
			good := false
			if sc, isCall := ast.Unparen(call.Args[1]).(*ast.CallExpr); isCall && len(sc.Args) == 0 {
				if sel, isSel := sc.Fun.(*ast.SelectorExpr); isSel && sel.Sel.Name == "String" && fieldSel(info, sel.X, "internal/promapi.Prometheus", "timeout") {
					good = true
				}
			}
			c.Check(good, R, strings.TrimPrefix(fi.Name, "internal/promapi.")+":server-side limit is the configured timeout", call.Pos(), "prom.timeout",
				"the `timeout` sent to the server is `"+exprStr(call.Args[1])+"`, not the configured timeout itself")
			return true
		})
	}
	c.Check(nSet >= 2, R, "timeout request arguments enumerated", token.NoPos, itoa(nSet), "fewer than 2 requests send a timeout")
	rc := c.MustFunc(R, "internal/promapi.Prometheus.requestContext")
	if rc == nil {
		return
	}
	nCtx := 0
	ast.Inspect(rc.Decl.Body, func(n ast.Node) bool {
		call, ok := n.(*ast.CallExpr)
		if !ok || len(call.Args) != 2 {
			return true
		}
		if fn := Callee(info, call); fn == nil || fn.FullName() != "context.WithTimeout" {
			return true
		}
		nCtx++
		good := false
		if be, isBin := ast.Unparen(call.Args[1]).(*ast.BinaryExpr); isBin && be.Op == token.ADD {
			for _, pair := range [][2]ast.Expr{{be.X, be.Y}, {be.Y, be.X}} {
				if fieldSel(info, pair[0], "internal/promapi.Prometheus", "timeout") {
					if tv, has := info.Types[pair[1]]; has && tv.Value != nil && constant.Sign(tv.Value) > 0 {
						good = true
					}
				}
			}
		}
		c.Check(good, R, "requestContext:deadline is the configured timeout plus a positive margin", call.Pos(), "prom.timeout + constant",
			"pint's own deadline is `"+exprStr(call.Args[1])+"`: it no longer lies after the time limit sent to the server, so a query the server would refuse as too expensive (an error caused by the query) ends as a connection timeout instead, which triggers failover and is reported as an outage")
		return true
	})
	c.Check(nCtx == 1, R, "requestContext:one deadline", rc.Decl.Pos(), itoa(nCtx), "expected exactly one context.WithTimeout")
	// the request context is the only deadline: an http.Client of this package has no Timeout of its own
	// (it would fire before timeout+margin and turn the server's own "query timed out" answer into a
	// connection error, which is failed over and reported as an outage)
	nClient, badClient := 0, ""
	for _, fi := range c.P.AllFuncs() {
		if fi.Pkg != prom || fi.Decl.Body == nil || c.P.IsTestFile(fi.Decl.Pos()) {
			continue
		}
		ast.Inspect(fi.Decl.Body, func(n ast.Node) bool {
			switch x := n.(type) {
			case *ast.CompositeLit:
				if typeQName(info.TypeOf(x)) == "net/http.Client" {
					nClient++
					if v := litField(x, "Timeout"); v != nil {
						badClient = c.P.Pos(v.Pos())
					}
				}
			case *ast.AssignStmt:
				for _, l := range x.Lhs {
					if sel, ok := ast.Unparen(l).(*ast.SelectorExpr); ok && sel.Sel.Name == "Timeout" && typeQName(info.TypeOf(sel.X)) == "net/http.Client" {
						badClient = c.P.Pos(l.Pos())
					}
				}
			}
			return true
		})
	}
	c.Check(nClient >= 1 && badClient == "", R, "http.Client:no deadline besides the request context", rc.Decl.Pos(), itoa(nClient)+" client literal(s)",
		"the HTTP client gets a Timeout of its own at "+badClient+": it ends a request before pint's deadline (configured timeout plus margin), so a query the server aborts at its time limit is seen as a connection timeout, failed over and reported as an outage")
}

// c15UpstreamIdentityAndOrder: three structural facts about the upstream list of
// a failover group that "the first reachable upstream in the configured order
// answers" rests on. (a) Each upstream has an API tracker of its own: what is
// stored in Prometheus.apis is a tracker allocated at that spot (per upstream),
// never one variable shared by the upstreams of a group — a 404 on an optional
// API of one upstream would otherwise stop the others from being asked. (b) The
// failover addresses keep their configured order on the whole way from the
// configuration (static block or discovery template) to the group: nothing
// sorts, compacts or reverses a list that ends up in PrometheusConfig.Failover.
// (c) When discovered groups are merged, two upstreams are the same upstream
// exactly when their request URIs are equal (the public URI is shared by all
// members of a group).
func c15UpstreamIdentityAndOrder(c *Ctx) {
	R := "C15-R1"
	p := c.P
	prom := p.Pkg("internal/promapi")
	cfg := p.Pkg("internal/config")
	if prom == nil || cfg == nil {
		return
	}
	// (a)
	info := prom.TypesInfo
	nA := 0
	for _, fi := range p.AllFuncs() {
		if fi.Pkg != prom || fi.Decl.Body == nil || p.IsTestFile(fi.Decl.Pos()) {
			continue
		}
		pm := parentMap(fi.Decl.Body)
		check := func(rhs ast.Expr, at ast.Node) {
			nA++
			r := ast.Unparen(rhs)
			ok := false
			why := "`" + exprStr(rhs) + "`"
			isFreshLit := func(e ast.Expr) bool {
				if u, isU := ast.Unparen(e).(*ast.UnaryExpr); isU && u.Op == token.AND {
					_, isLit := ast.Unparen(u.X).(*ast.CompositeLit)
					return isLit
				}
				if call, isCall := ast.Unparen(e).(*ast.CallExpr); isCall && exprStr(call.Fun) == "new" {
					return true
				}
				return false
			}
			if isFreshLit(r) {
				ok = true
			} else if id, isID := r.(*ast.Ident); isID {
				// a local: allocated inside the innermost loop around the store (one per upstream)
				def := singleDef(info, fi.Decl.Body, id)
				if def != nil && isFreshLit(def) {
					var loop ast.Node
					for cur := pm[at]; cur != nil; cur = pm[cur] {
						switch cur.(type) {
						case *ast.ForStmt, *ast.RangeStmt:
							if loop == nil {
								loop = cur
							}
						}
					}
					ok = loop == nil || (loop.Pos() <= def.Pos() && def.End() <= loop.End())
					if !ok {
						why = "`" + id.Name + "`, allocated once outside the loop over the upstreams"
					}
				}
			}
			c.Check(ok, R, strings.TrimPrefix(fi.Name, "internal/promapi.")+":every upstream gets an API tracker of its own#"+itoa(nA), at.Pos(), "allocated at the store",
				"Prometheus.apis is filled with "+why+": the upstreams of a group then share one record of unsupported APIs, and a 404 from the first upstream makes the group answer `unsupported` instead of asking the next one")
		}
		ast.Inspect(fi.Decl.Body, func(nd ast.Node) bool {
			switch x := nd.(type) {
			case *ast.AssignStmt:
				for i, l := range x.Lhs {
					if fieldSel(info, l, "internal/promapi.Prometheus", "apis") && i < len(x.Rhs) {
						check(x.Rhs[i], x)
					}
				}
			case *ast.CompositeLit:
				if typeQName(info.TypeOf(x)) == "internal/promapi.Prometheus" {
					if v := litField(x, "apis"); v != nil {
						check(v, x)
					}
				}
			}
			return true
		})
	}
	c.Check(nA >= 1, R, "stores to Prometheus.apis enumerated", token.NoPos, itoa(nA), "no store found")
	// (b)
	cinfo := cfg.TypesInfo
	nB, bad := 0, ""
	badPos := token.NoPos
	for _, fi := range p.AllFuncs() {
		if fi.Pkg != cfg || fi.Decl.Body == nil || p.IsTestFile(fi.Decl.Pos()) {
			continue
		}
		// variables that end up in a Failover field
		flows := map[types.Object]bool{}
		ast.Inspect(fi.Decl.Body, func(nd ast.Node) bool {
			if cl, ok := nd.(*ast.CompositeLit); ok && typeQName(cinfo.TypeOf(cl)) == "internal/config.PrometheusConfig" {
				if v := litField(cl, "Failover"); v != nil {
					if o := objOf(cinfo, v); o != nil {
						flows[o] = true
					}
				}
			}
			return true
		})
		ast.Inspect(fi.Decl.Body, func(nd ast.Node) bool {
			call, ok := nd.(*ast.CallExpr)
			if !ok || len(call.Args) == 0 {
				return true
			}
			fn := Callee(cinfo, call)
			if fn == nil || fn.Pkg() == nil || (fn.Pkg().Path() != "slices" && fn.Pkg().Path() != "sort") {
				return true
			}
			a := call.Args[0]
			isFailover := fieldSel(cinfo, a, "internal/config.PrometheusConfig", "Failover") || fieldSel(cinfo, a, "internal/config.PrometheusTemplate", "Failover") || flows[objOf(cinfo, a)]
			if !isFailover {
				return true
			}
			nB++
			switch fn.Name() {
			case "Contains", "Index", "IndexFunc", "ContainsFunc", "Clone", "Equal":
			default:
				bad, badPos = "`"+exprStr(call)+"` in "+shortFuncName(fi.Name), call.Pos()
			}
			return true
		})
	}
	c.Check(bad == "", R, "the configured failover order is never rearranged in internal/config", badPos, itoa(nB)+" slice operations on failover lists",
		bad+" sorts, compacts or otherwise rearranges the failover addresses: queries then go to the smallest address first, not to the first configured one")
	// (c)
	if mu := c.MustFunc(R, "internal/promapi.FailoverGroup.MergeUpstreams"); mu != nil {
		nC, okC := 0, true
		got := ""
		ast.Inspect(mu.Decl.Body, func(nd ast.Node) bool {
			be, ok := nd.(*ast.BinaryExpr)
			if !ok || (be.Op != token.EQL && be.Op != token.NEQ) {
				return true
			}
			ox, oy := fieldOwner(info, selOf(be.X)), fieldOwner(info, selOf(be.Y))
			if ox != "internal/promapi.Prometheus" || oy != "internal/promapi.Prometheus" {
				return true
			}
			nC++
			if selOf(be.X).Sel.Name != "unsafeURI" || selOf(be.Y).Sel.Name != "unsafeURI" {
				okC, got = false, exprStr(be)
			}
			return true
		})
		c.Check(nC >= 1 && okC, R, "MergeUpstreams:upstreams are the same when their request URIs are", mu.Decl.Pos(), "unsafeURI == unsafeURI",
			"two upstreams are compared with `"+got+"`: the public URI (and the name) is common to all members of a group, so every discovered replica after the first is taken for a duplicate and dropped — when the first one is down nobody else is asked")
	}
}

func selOf(e ast.Expr) *ast.SelectorExpr {
	if s, ok := ast.Unparen(e).(*ast.SelectorExpr); ok {
		return s
	}
	return &ast.SelectorExpr{X: &ast.Ident{Name: "_"}, Sel: &ast.Ident{Name: "_"}}
}
