package main

import (
	"fmt"
	"go/ast"
	"go/token"
	"go/types"
	"os"
	"reflect"
	"sort"
	"strings"
)

func init() {
	register("C01", runC01,
		"Decides sibling-acceptor coverage between Prometheus' rule loader (vendored model/rulefmt) and pint's strict pipeline — not language inclusion: (R1) the keys pint's strict walker accepts at the three levels are a subset of the yaml tags of rulefmt.RuleGroups/RuleGroup/Rule read from the vendored types, every key switch has a rejecting default and partial_response_strategy is rejected outside the Thanos schema; (R2) every reason for which the Prometheus side rejects a file (enumerated from rulefmt.Validate/Parse and the yaml decoder settings it relies on) has a counterpart on the pint side that is a guarded error exit or an unconditionally registered check with a Bug/Fatal problem — one obligation per reason, identified by the guard's predicate, never by text position; (R3) parse errors at file, group and rule level are routed to entries, entries with errors get the always-enabled error check, and the parse-error problems are Fatal; (R4) promql/syntax, alerts/for and alerts/template are registered for every entry and enabled by default, validate every field/label/annotation they are responsible for, and report with severity >= Bug; (R5) the strict gate: strict mode goes through parseGroups, rejects multi-document files, and builds rules only through parseRuleStrict.",
		"that each counterpart fires on exactly the same byte strings as Prometheus (node walking vs struct decoding, anchors, tags, CR line ends): equivalence of the two acceptors is not decided.")
}

// errorExit describes a guarded error return (or Error assignment + return).
type errorExit struct {
	pos    token.Pos
	guards []Atom
	inits  []string // init statements of the enclosing ifs (`if _, ok := m[k]; ok`)
	own    int      // how many of guards come from the innermost enclosing if / case
	node   ast.Node // the statement or literal the exit was recognised at
}

// ownGuards counts the facts contributed by the innermost if / case around n.
func ownGuards(pm map[ast.Node]ast.Node, n ast.Node, stop ast.Node) int {
	for cur := pm[n]; cur != nil && cur != stop; cur = pm[cur] {
		switch cur.(type) {
		case *ast.IfStmt, *ast.CaseClause:
			return len(lexicalGuards(pm, n, pm[cur]))
		}
	}
	return 0
}

// enclosingInits renders the init statements of the if statements whose body contains n.
func enclosingInits(pm map[ast.Node]ast.Node, n ast.Node, stop ast.Node) []string {
	var out []string
	child := n
	for cur := pm[n]; cur != nil && cur != stop; child, cur = cur, pm[cur] {
		if ifs, ok := cur.(*ast.IfStmt); ok && ifs.Init != nil && child == ast.Node(ifs.Body) {
			if as, ok := ifs.Init.(*ast.AssignStmt); ok && len(as.Rhs) >= 1 {
				if canonInfo != nil {
					out = append(out, canonStr(canonInfo, as.Rhs[0]))
				} else {
					out = append(out, exprStr(as.Rhs[0]))
				}
			}
		}
	}
	return out
}

// sameStmt reports whether node n lies inside the statement that starts at pos.
func sameStmt(pm map[ast.Node]ast.Node, pos token.Pos, n ast.Node) bool {
	for cur := ast.Node(n); cur != nil; cur = pm[cur] {
		if st, ok := cur.(ast.Stmt); ok && st.Pos() == pos {
			return true
		}
	}
	return false
}

// errorExits lists the error exits of fi: returns of a ParseError/Rule/Group
// value with an error set, and `X.Error = ParseError{…}` assignments.
func errorExits(p *Prog, fi *FuncInfo) []errorExit {
	info := fi.Pkg.TypesInfo
	pm := parentMap(fi.Decl.Body)
	var out []errorExit
	isErrLit := func(e ast.Expr) bool {
		cl, ok := ast.Unparen(e).(*ast.CompositeLit)
		if !ok {
			return false
		}
		switch typeQName(info.TypeOf(cl)) {
		case "internal/parser.ParseError":
			return litField(cl, "Err") != nil
		case "internal/parser.Rule", "internal/parser.Group", "internal/parser.File":
			return litField(cl, "Error") != nil
		}
		return false
	}
	ast.Inspect(fi.Decl.Body, func(n ast.Node) bool {
		switch x := n.(type) {
		case *ast.ReturnStmt:
			for _, r := range x.Results {
				if isErrLit(r) {
					out = append(out, errorExit{x.Pos(), lexicalGuards(pm, x, fi.Decl.Body), enclosingInits(pm, x, fi.Decl.Body), ownGuards(pm, x, fi.Decl.Body), x})
					return true
				}
				if call, ok := ast.Unparen(r).(*ast.CallExpr); ok {
					switch calleeName(info, call) {
					case "internal/parser.duplicatedKeyError", "internal/parser.invalidValueError":
						out = append(out, errorExit{x.Pos(), lexicalGuards(pm, x, fi.Decl.Body), enclosingInits(pm, x, fi.Decl.Body), ownGuards(pm, x, fi.Decl.Body), x})
						return true
					}
				}
			}
			// `return r, false` with r bound by `if r, ok := helper(…); !ok`
			if len(x.Results) == 2 && exprStr(x.Results[1]) == "false" {
				if _, isID := x.Results[0].(*ast.Ident); isID {
					out = append(out, errorExit{x.Pos(), lexicalGuards(pm, x, fi.Decl.Body), enclosingInits(pm, x, fi.Decl.Body), ownGuards(pm, x, fi.Decl.Body), x})
				}
			}
			// `return false, ParseError{…}, lines`
		case *ast.CompositeLit:
			// a ParseError value with its error set, wherever it is built (returned through a
			// helper's result, stored in a local first): the place where a rejection is decided
			if typeQName(info.TypeOf(x)) == "internal/parser.ParseError" && litField(x, "Err") != nil {
				dup := false
				for _, e := range out {
					for cur := ast.Node(x); cur != nil; cur = pm[cur] {
						if cur == e.node {
							dup = true
						}
					}
				}
				if !dup {
					out = append(out, errorExit{x.Pos(), lexicalGuards(pm, x, fi.Decl.Body), enclosingInits(pm, x, fi.Decl.Body), ownGuards(pm, x, fi.Decl.Body), x})
				}
			}
		case *ast.AssignStmt:
			for i, l := range x.Lhs {
				// a ParseError handed on from a helper's result (`perr := perr` after expansion)
				if len(x.Lhs) == len(x.Rhs) {
					if id, isID := ast.Unparen(x.Rhs[i]).(*ast.Ident); isID && typeQName(info.TypeOf(id)) == "internal/parser.ParseError" {
						if _, lhsSel := ast.Unparen(l).(*ast.SelectorExpr); !lhsSel {
							out = append(out, errorExit{x.Pos(), lexicalGuards(pm, x, fi.Decl.Body), enclosingInits(pm, x, fi.Decl.Body), ownGuards(pm, x, fi.Decl.Body), x})
						}
					}
				}
				if sel, ok := ast.Unparen(l).(*ast.SelectorExpr); ok && sel.Sel.Name == "Error" && i < len(x.Rhs) {
					if isErrLit(x.Rhs[i]) || typeQName(info.TypeOf(x.Rhs[i])) == "internal/parser.ParseError" {
						out = append(out, errorExit{x.Pos(), lexicalGuards(pm, x, fi.Decl.Body), enclosingInits(pm, x, fi.Decl.Body), ownGuards(pm, x, fi.Decl.Body), x})
					}
				}
			}
		}
		return true
	})
	// the verdict may be chosen first and acted on once: `switch { case A: bad = x; case B: bad = y }`
	// followed by `if bad != "" { return error }`. For every error exit that stands under `v != <zero>`
	// (or `v` for a boolean) of a local v, each place that gives v a value is an exit of its own, with the
	// facts it stands under added to the others
	var virtual []errorExit
	for _, e := range out {
		for gi, a := range e.guards {
			if a.Tag != nil || !a.Truth {
				continue
			}
			var v types.Object
			switch x := ast.Unparen(a.E).(type) {
			case *ast.Ident:
				v = info.Uses[x]
			case *ast.BinaryExpr:
				if x.Op == token.NEQ {
					if tv, ok := info.Types[x.Y]; ok && (tv.Value != nil || tv.IsNil()) {
						v = objOf(info, x.X)
					} else if isNilIdent(info, x.Y) {
						v = objOf(info, x.X)
					}
				}
			}
			vv, isVar := v.(*types.Var)
			if !isVar || vv.IsField() || vv.Parent() == nil || vv.Parent() == vv.Pkg().Scope() {
				continue
			}
			sig := fi.Obj.Type().(*types.Signature)
			isParam := false
			for i := 0; i < sig.Params().Len(); i++ {
				if types.Object(sig.Params().At(i)) == v {
					isParam = true
				}
			}
			if isParam {
				continue
			}
			ast.Inspect(fi.Decl.Body, func(n ast.Node) bool {
				as, ok := n.(*ast.AssignStmt)
				if !ok || as.Pos() > e.pos {
					return true
				}
				for _, l := range as.Lhs {
					if objOf(info, l) != v {
						continue
					}
					var g []Atom
					g = append(g, lexicalGuards(pm, as, fi.Decl.Body)...)
					for gj, b := range e.guards {
						if gj != gi {
							g = append(g, b)
						}
					}
					virtual = append(virtual, errorExit{as.Pos(), g, enclosingInits(pm, as, fi.Decl.Body), ownGuards(pm, as, fi.Decl.Body), as})
				}
				return true
			})
		}
	}
	out = append(out, virtual...)
	return out
}

// canon maps local variables of the parser functions to role names, so that
// the reason predicates below do not depend on how locals are spelled:
//   - a variable assigned from newYamlNode/newPromQLExpr/newYamlMap under `case <key>` -> <key>Part
//   - range variable over mappingNodes(…)                                   -> entry
//   - range variable over <labels part>.Items / <annotations part>.Items    -> lab / ann
//   - map[string]struct{} locals                                            -> set<N> by first use; the one indexed by a group name -> names
//   - bool locals                                                           -> flag
var canon = map[types.Object]string{}

func buildCanon(p *Prog, fis ...*FuncInfo) {
	keyRole := map[string]string{"record": "record", "alert": "alert", "expr": "expr", "for": "for", "keep_firing_for": "keepFiringFor", "labels": "labels", "annotations": "annotations"}
	for _, fi := range fis {
		if fi == nil {
			continue
		}
		info := fi.Pkg.TypesInfo
		// parts by key role
		for _, sw := range findSwitches(fi.Decl.Body, func(s *ast.SwitchStmt) bool { return s.Tag != nil }) {
			cases, _ := switchCases(sw)
			for _, cs := range cases {
				k, ok := constString(info, cs.Expr)
				role, known := keyRole[k]
				if !ok || !known {
					continue
				}
				var stmts []ast.Stmt
				for _, st := range cs.Clause.Body {
					ast.Inspect(st, func(m ast.Node) bool {
						if as, ok := m.(*ast.AssignStmt); ok {
							stmts = append(stmts, as)
						}
						return true
					})
				}
				for _, st := range stmts {
					as, ok := st.(*ast.AssignStmt)
					if !ok || len(as.Lhs) != 1 || len(as.Rhs) != 1 {
						continue
					}
					if call, ok := as.Rhs[0].(*ast.CallExpr); ok {
						switch calleeName(info, call) {
						case "internal/parser.newYamlNode", "internal/parser.newPromQLExpr", "internal/parser.newYamlMap":
							if o := objOf(info, as.Lhs[0]); o != nil {
								canon[o] = role + "Part"
								// the constructed value handed on to another local in the same case
								// (`yn := newYamlNode(…); recordPart, last = yn, …`)
								for _, st2 := range cs.Clause.Body {
									ast.Inspect(st2, func(m ast.Node) bool {
										as2, ok := m.(*ast.AssignStmt)
										if !ok || len(as2.Lhs) != len(as2.Rhs) {
											return true
										}
										for i, r := range as2.Rhs {
											if objOf(info, r) == o {
												if t := objOf(info, as2.Lhs[i]); t != nil && t != o {
													canon[t] = role + "Part"
												}
											}
										}
										return true
									})
								}
							}
						}
					}
				}
			}
		}
		ast.Inspect(fi.Decl.Body, func(n ast.Node) bool {
			switch x := n.(type) {
			case *ast.RangeStmt:
				v, _ := x.Value.(*ast.Ident)
				if v == nil {
					return true
				}
				o := info.Defs[v]
				if call, ok := ast.Unparen(x.X).(*ast.CallExpr); ok && isCallTo(info, call, "internal/parser.mappingNodes") {
					canon[o] = "entry"
				}
				if sel, ok := ast.Unparen(x.X).(*ast.SelectorExpr); ok && sel.Sel.Name == "Items" {
					switch canon[objOf(info, sel.X)] {
					case "labelsPart":
						canon[o] = "lab"
					case "annotationsPart":
						canon[o] = "ann"
					}
				}
				if _, isLit := ast.Unparen(x.X).(*ast.CompositeLit); isLit {
					canon[o] = "entry" // the two literal tables of (key, node) pairs in parseRule
				}
			case *ast.AssignStmt:
				for _, l := range x.Lhs {
					id, ok := l.(*ast.Ident)
					if !ok {
						continue
					}
					o := info.Defs[id]
					if o == nil {
						continue
					}
					if t, ok := o.Type().Underlying().(*types.Map); ok && t.Elem().String() == "struct{}" {
						canon[o] = "set"
					}
					if b, ok := o.Type().Underlying().(*types.Basic); ok && b.Kind() == types.Bool {
						canon[o] = "flag"
					}
				}
			case *ast.ValueSpec:
				for _, id := range x.Names {
					o := info.Defs[id]
					if o == nil {
						continue
					}
					if b, ok := o.Type().Underlying().(*types.Basic); ok && b.Kind() == types.Bool {
						canon[o] = "flag"
					}
				}
			}
			return true
		})
	}
}

// canonStr renders an expression with locals replaced by their role names.
func canonStr(info *types.Info, e ast.Node) string {
	var sb strings.Builder
	var w func(n ast.Node)
	w = func(n ast.Node) {
		switch x := n.(type) {
		case *ast.Ident:
			if o := info.Uses[x]; o != nil {
				if r, ok := canon[o]; ok {
					sb.WriteString(r)
					return
				}
				if r := typeRole(o); r != "" {
					sb.WriteString(r)
					return
				}
			}
			sb.WriteString(x.Name)
		case *ast.SelectorExpr:
			w(x.X)
			sb.WriteString("." + x.Sel.Name)
		case *ast.BinaryExpr:
			w(x.X)
			sb.WriteString(" " + x.Op.String() + " ")
			w(x.Y)
		case *ast.UnaryExpr:
			sb.WriteString(x.Op.String())
			w(x.X)
		case *ast.ParenExpr:
			sb.WriteString("(")
			w(x.X)
			sb.WriteString(")")
		case *ast.CallExpr:
			w(x.Fun)
			sb.WriteString("(")
			for i, a := range x.Args {
				if i > 0 {
					sb.WriteString(", ")
				}
				w(a)
			}
			sb.WriteString(")")
		case *ast.IndexExpr:
			w(x.X)
			sb.WriteString("[")
			w(x.Index)
			sb.WriteString("]")
		default:
			sb.WriteString(exprStr(n))
		}
	}
	w(e)
	return sb.String()
}

var canonInfo *types.Info

// guardText renders the guards of an exit (with truth) for matching.
func guardText(e errorExit) string {
	var parts []string
	str := exprStr
	if canonInfo != nil {
		str = func(n ast.Node) string { return canonStr(canonInfo, n) }
	}
	for i, a := range e.guards {
		if i == e.own && e.own > 0 {
			parts = append(parts, "«outer»")
		}
		t := str(a.E)
		if a.Tag != nil {
			t = str(a.Tag) + " == " + t
		}
		if !a.Truth {
			// a false `x != nil` reads `x == nil` (and the other way round)
			if be, ok := ast.Unparen(a.E).(*ast.BinaryExpr); ok && a.Tag == nil && (be.Op == token.EQL || be.Op == token.NEQ) {
				op := " != "
				if be.Op == token.NEQ {
					op = " == "
				}
				t = str(be.X) + op + str(be.Y)
			} else {
				t = "!(" + t + ")"
			}
		}
		parts = append(parts, t)
	}
	for _, in := range e.inits {
		parts = append(parts, "init:"+in)
	}
	// a membership test written as a scan — slices.ContainsFunc(seen, func(p T) bool { return p.k == key })
	// or slices.Contains(seen, key) — states the same fact as `_, ok := set[key]; ok`
	for _, a := range e.guards {
		call, ok := ast.Unparen(a.E).(*ast.CallExpr)
		if !ok || a.Tag != nil || len(call.Args) != 2 {
			continue
		}
		flag := "flag"
		if !a.Truth {
			flag = "!(flag)"
		}
		sel, isSel := call.Fun.(*ast.SelectorExpr)
		if !isSel || (sel.Sel.Name != "ContainsFunc" && sel.Sel.Name != "Contains") || exprStr(sel.X) != "slices" {
			continue
		}
		if sel.Sel.Name == "Contains" {
			parts = append(parts, "init:set["+str(call.Args[1])+"]", flag)
			continue
		}
		if lit, isLit := call.Args[1].(*ast.FuncLit); isLit && len(lit.Body.List) == 1 && len(lit.Type.Params.List) == 1 && len(lit.Type.Params.List[0].Names) == 1 {
			if ret, isRet := lit.Body.List[0].(*ast.ReturnStmt); isRet && len(ret.Results) == 1 {
				if be, isBin := ast.Unparen(ret.Results[0]).(*ast.BinaryExpr); isBin && be.Op == token.EQL {
					pname := lit.Type.Params.List[0].Names[0].Name
					mentionsParam := func(x ast.Expr) bool {
						m := false
						ast.Inspect(x, func(n ast.Node) bool {
							if id, isID := n.(*ast.Ident); isID && id.Name == pname {
								m = true
							}
							return true
						})
						return m
					}
					key := be.Y
					if mentionsParam(be.Y) && !mentionsParam(be.X) {
						key = be.X
					}
					parts = append(parts, "init:set["+str(key)+"]", flag)
				}
			}
		}
	}
	return strings.Join(parts, " && ")
}

// yamlTags returns the yaml key names of a vendored struct type.
func yamlTags(p *Prog, pkg, name string) map[string]bool {
	tn := p.LookupType(pkg, name)
	if tn == nil {
		return nil
	}
	st, ok := tn.Type().Underlying().(*types.Struct)
	if !ok {
		return nil
	}
	out := map[string]bool{}
	for i := 0; i < st.NumFields(); i++ {
		tag := reflect.StructTag(st.Tag(i)).Get("yaml")
		if tag == "" || tag == "-" {
			continue
		}
		out[strings.Split(tag, ",")[0]] = true
	}
	return out
}

func runC01(c *Ctx) {
	defer c01TemplateAlwaysParsed(c)
	defer checkParamsUsed(c, "C01-R1", "internal/parser.NewParser")
	p := c.P
	c.Rule("C01-R1", "strict key tables are subsets of the vendored rulefmt yaml tags; defaults reject", 17)
	c.Rule("C01-R2", "every Prometheus rejection reason has a guarded error exit or a Bug/Fatal check on the pint side", 38)
	c.Rule("C01-R3", "parse errors are routed to always-enabled Fatal problems", 7)
	c.Rule("C01-R4", "syntax/for/template checks registered unconditionally, enabled by default, complete and >= Bug", 12)
	c.Rule("C01-R5", "strict gate", 4)
	defer c01DurationErrorsAreAlwaysReported(c, "C01-R4")
	defer c01EveryFileIsRead(c, "C01-R3")

	const rulefmt = "github.com/prometheus/prometheus/model/rulefmt"
	pg := c.MustFunc("C01-R1", "internal/parser.parseGroups")
	pgr := c.MustFunc("C01-R1", "internal/parser.parseGroup")
	prs := c.MustFunc("C01-R1", "internal/parser.parseRuleStrict")
	pr := c.MustFunc("C01-R2", "internal/parser.parseRule")
	if pg == nil || pgr == nil || prs == nil || pr == nil {
		return
	}
	info := pg.Pkg.TypesInfo
	buildCanon(p, pg, pgr, prs, pr, p.Func("internal/parser.ensureRequiredKeys"), p.Func("internal/parser.validateStringMap"), p.Func("internal/parser.Parser.Parse"))
	canonInfo = info
	defer func() { canonInfo = nil }()

	// ---- R1 ----
	topTags, groupTags, ruleTags := yamlTags(p, rulefmt, "RuleGroups"), yamlTags(p, rulefmt, "RuleGroup"), yamlTags(p, rulefmt, "Rule")
	if topTags == nil || groupTags == nil || ruleTags == nil {
		c.Undecided("C01-R1", "anchor:rulefmt types", token.NoPos, "vendored rulefmt.RuleGroups/RuleGroup/Rule not found")
		return
	}
	keySwitch := func(fi *FuncInfo, tagOK func(ast.Expr) bool) (*ast.SwitchStmt, []string) {
		var sw *ast.SwitchStmt
		for _, s := range findSwitches(fi.Decl.Body, func(s *ast.SwitchStmt) bool { return s.Tag != nil && tagOK(s.Tag) }) {
			if sw == nil {
				sw = s
			}
		}
		if sw == nil {
			return nil, nil
		}
		cases, _ := switchCases(sw)
		var keys []string
		for _, cs := range cases {
			if v, ok := constString(info, cs.Expr); ok {
				keys = append(keys, v)
			} else {
				keys = append(keys, "?"+exprStr(cs.Expr))
			}
		}
		return sw, keys
	}
	isKeyValue := func(e ast.Expr) bool {
		sel, ok := ast.Unparen(e).(*ast.SelectorExpr)
		return ok && sel.Sel.Name == "Value" && strings.HasSuffix(typeQName(info.TypeOf(sel.X)), "yaml.v3.Node")
	}
	// top level
	topOK := false
	for _, e := range errorExits(p, pg) {
		if strings.Contains(guardText(e), `.key.Value != "groups"`) {
			topOK = true
		}
	}
	c.Check(topOK && topTags["groups"], "C01-R1", "top level:only `groups` is accepted", pg.Decl.Pos(), "other keys rejected", "parseGroups no longer rejects top level keys other than `groups`")
	// group level
	if sw, keys := keySwitch(pgr, isKeyValue); sw == nil {
		c.Undecided("C01-R1", "parseGroup:key switch", pgr.Decl.Pos(), "switch over entry.key.Value not found")
	} else {
		for _, k := range keys {
			if k == "partial_response_strategy" {
				continue
			}
			c.Check(groupTags[k], "C01-R1", "group key "+strq(k)+" exists in rulefmt.RuleGroup", sw.Pos(), "known to Prometheus", "pint's strict parser accepts group key "+strq(k)+" which Prometheus' RuleGroup does not have (Prometheus rejects unknown fields)")
		}
		_, deflt := switchCases(sw)
		okDef := false
		if deflt != nil {
			for _, e := range errorExits(p, pgr) {
				if deflt.Pos() <= e.pos && e.pos <= deflt.End() {
					okDef = true
				}
			}
		}
		c.Check(okDef, "C01-R1", "parseGroup:unknown group key rejected", sw.Pos(), "default -> error", "an unknown group key is not rejected")
		// partial_response_strategy only for Thanos
		okThanos := false
		for _, e := range errorExits(p, pgr) {
			g := guardText(e)
			if strings.Contains(g, `"partial_response_strategy"`) && strings.Contains(g, "«Schema» != ThanosSchema") {
				okThanos = true
			}
		}
		c.Check(okThanos, "C01-R1", "parseGroup:partial_response_strategy rejected for the Prometheus schema", sw.Pos(), "guarded by schema != ThanosSchema", "partial_response_strategy is accepted under the Prometheus schema")
	}
	// rule level
	if sw, keys := keySwitch(prs, isKeyValue); sw == nil {
		// no switch over the key: the same table through comparisons. The accepted keys are the constants
		// a node's Value is compared with by ==; an unknown key is rejected when an error exit stands under
		// the negation of all of them (`!(k == a || k == b …)`, which is also what a look-up in a constant
		// list is read as), or follows key tests whose accepting branches all `continue`.
		isKeyVal2 := func(e ast.Expr) bool {
			if isKeyValue(e) {
				return true
			}
			// through a local holding the node: `key := nodes[i]; key.Value`
			sel, ok := ast.Unparen(e).(*ast.SelectorExpr)
			return ok && sel.Sel.Name == "Value" && strings.HasSuffix(typeQName(info.TypeOf(sel.X)), "yaml.v3.Node")
		}
		accepted := map[string]bool{}
		ast.Inspect(prs.Decl.Body, func(nd ast.Node) bool {
			if be, ok := nd.(*ast.BinaryExpr); ok && be.Op == token.EQL && isKeyVal2(be.X) {
				if v, isC := constString(info, be.Y); isC {
					accepted[v] = true
				}
			}
			return true
		})
		if len(accepted) == 0 {
			c.Undecided("C01-R1", "parseRuleStrict:key switch", prs.Decl.Pos(), "switch over node.Value not found")
		} else {
			for _, k := range sortedKeys(accepted) {
				c.Check(ruleTags[k], "C01-R1", "rule key "+strq(k)+" exists in rulefmt.Rule", prs.Decl.Pos(), "known to Prometheus", "pint's strict parser accepts rule key "+strq(k)+" which Prometheus' Rule does not have")
			}
			okDef := false
			for _, e := range errorExits(p, prs) {
				neg := map[string]bool{}
				for _, a := range e.guards {
					if be, ok := ast.Unparen(a.E).(*ast.BinaryExpr); ok && a.Tag == nil && isKeyVal2(be.X) {
						if v, isC := constString(info, be.Y); isC && ((be.Op == token.EQL && !a.Truth) || (be.Op == token.NEQ && a.Truth)) {
							neg[v] = true
						}
					}
				}
				if len(neg) == len(accepted) {
					okDef = true
				}
			}
			c.Check(okDef, "C01-R1", "parseRuleStrict:unknown rule key rejected", prs.Decl.Pos(), "error under the negation of every accepted key", "an unknown rule key is not rejected in strict mode")
		}
	} else {
		for _, k := range keys {
			c.Check(ruleTags[k], "C01-R1", "rule key "+strq(k)+" exists in rulefmt.Rule", sw.Pos(), "known to Prometheus", "pint's strict parser accepts rule key "+strq(k)+" which Prometheus' Rule does not have")
		}
		_, deflt := switchCases(sw)
		okDef := false
		if deflt != nil {
			for _, e := range errorExits(p, prs) {
				if deflt.Pos() <= e.pos && e.pos <= deflt.End() {
					okDef = true
				}
			}
		}
		if !okDef && deflt == nil {
			// every accepted key `continue`s and the statement after the switch is the error exit
			allContinue := len(sw.Body.List) > 0
			for _, st := range sw.Body.List {
				cc := st.(*ast.CaseClause)
				if len(cc.Body) == 0 {
					allContinue = false
					continue
				}
				if b, isBr := cc.Body[len(cc.Body)-1].(*ast.BranchStmt); !isBr || b.Tok != token.CONTINUE {
					allContinue = false
				}
			}
			if allContinue {
				pmS := parentMap(prs.Decl.Body)
				if blk, isBlk := pmS[ast.Node(sw)].(*ast.BlockStmt); isBlk {
					for i, st := range blk.List {
						if st == ast.Stmt(sw) && i+1 < len(blk.List) {
							for _, e := range errorExits(p, prs) {
								if blk.List[i+1].Pos() <= e.pos && e.pos <= blk.List[i+1].End() {
									okDef = true
								}
							}
						}
					}
				}
			}
		}
		c.Check(okDef, "C01-R1", "parseRuleStrict:unknown rule key rejected", sw.Pos(), "default -> error", "an unknown rule key is not rejected in strict mode")
	}

	// ---- R2 ----
	type reason struct {
		prom string // the Prometheus-side reason
		fn   *FuncInfo
		pred func(g string) bool
		why  string
	}
	has := func(subs ...string) func(string) bool {
		return func(g string) bool {
			for _, s := range subs {
				if !strings.Contains(g, s) {
					return false
				}
			}
			return true
		}
	}
	ens := p.Func("internal/parser.ensureRequiredKeys")
	vsm := p.Func("internal/parser.validateStringMap")
	reasons := []reason{
		{"top level is not a mapping", pg, has("!(isTag(", "mapTag)"), "cannot unmarshal into rulefmt.RuleGroups"},
		{"duplicated top level key", pg, func(g string) bool {
			// `if hasGroups {error}` (a flag set once the key was seen) or a set keyed by the key text;
			// outer guards (else branches of earlier rejections) may follow
			own := strings.TrimSuffix(strings.Split(g, "«outer»")[0], " && ")
			if i := strings.Index(own, " && init:"); i >= 0 {
				own = own[:i]
			}
			return (own == "flag" && !strings.Contains(g, ".Name]")) || strings.Contains(g, "init:set[entry.key.Value]")
		}, "yaml: mapping key already defined"},
		{"groups is not a list", pg, has("!(isTag(", "seqTag)"), "cannot unmarshal into []RuleGroup"},
		{"repeated group name", pg, func(g string) bool { return strings.Contains(g, "init:set[") && strings.Contains(g, ".Name]") }, "groupname is repeated in the same file"},
		{"group is not a mapping", pgr, func(g string) bool {
			return strings.Contains(g, "!(isTag(") && strings.Contains(g, ".ShortTag(), mapTag))") && !strings.Contains(g, "entry.")
		}, "cannot unmarshal into RuleGroup"},
		{"group name is not a string", pgr, has(`"name"`, "strTag"), "cannot unmarshal into string"},
		{"group name is empty", pgr, has(`"name"`, `.Value == ""`), "Groupname must not be empty"},
		{"group without a name (any group)", pgr, func(g string) bool {
			// `if _, ok := setKeys["name"]; !ok` and not nested under the presence of another key
			return strings.Contains(g, `init:set["name"]`) && strings.Contains(g, "!(flag)") && strings.Count(g, "init:") == 1 && !strings.Contains(g, "entry.key.Value ==")
		}, "Groupname must not be empty"},
		{"group interval is not a duration string", pgr, has(`"interval"`, "strTag"), "cannot unmarshal into model.Duration"},
		{"group interval does not parse", pgr, has(`"interval"`, "err != nil"), "not a valid duration string"},
		{"group query_offset is not a duration string", pgr, has(`"query_offset"`, "strTag"), "cannot unmarshal into model.Duration"},
		{"group query_offset does not parse", pgr, has(`"query_offset"`, "err != nil"), "not a valid duration string"},
		{"group limit is not an integer", pgr, has(`"limit"`, "intTag"), "cannot unmarshal into int"},
		{"group labels is not a mapping", pgr, has(`"labels"`, "mapTag"), "cannot unmarshal into map[string]string"},
		{"group labels: non-string value or duplicated key", pgr, has(`"labels"`, "!(flag)", "init:validateStringMap("), "yaml: mapping key already defined / cannot unmarshal"},
		{"group label name invalid", pgr, has(`"labels"`, "LabelName(", ".IsValid()"), "invalid label name"},
		{"group label name is __name__", pgr, has(`"labels"`, "MetricNameLabel"), "invalid label name"},
		{"group label value invalid", pgr, has(`"labels"`, "LabelValue(", ".IsValid()"), "invalid label value"},
		{"group rules is not a list", pgr, has(`"rules"`, "seqTag"), "cannot unmarshal into []Rule"},
		{"duplicated group key", pgr, has("init:set[entry.key.Value]"), "yaml: mapping key already defined"},
		{"rule is not a mapping", prs, func(g string) bool {
			return strings.Contains(g, "!(isTag(") && strings.Contains(g, ".ShortTag(), mapTag))") && !strings.Contains(g, "entry.")
		}, "cannot unmarshal into Rule"},
		{"rule with neither record nor alert (no key at all)", prs, func(g string) bool { return g == "flag" }, "one of 'record' or 'alert' must be set"},
		{"both record and alert", pr, has("recordPart != nil", "alertPart != nil"), "only one of 'record' and 'alert' must be set"},
		{"expr without record or alert", pr, has("exprPart != nil", "alertPart == nil", "recordPart == nil"), "one of 'record' or 'alert' must be set"},
		{"for in a recording rule", pr, has("recordPart != nil", "forPart != nil"), "invalid field 'for' in recording rule"},
		{"keep_firing_for in a recording rule", pr, has("recordPart != nil", "keepFiringForPart != nil"), "invalid field 'keep_firing_for' in recording rule"},
		{"annotations in a recording rule", pr, has("recordPart != nil", "annotationsPart != nil"), "invalid field 'annotations' in recording rule"},
		{"scalar rule field is not a string", pr, has("!(isTag(entry.part.ShortTag(), strTag))"), "cannot unmarshal into string / model.Duration"},
		{"record/alert/expr is an explicit null", pr, has("nullTag", "recordKey", "alertKey", "exprKey"), "decodes to the empty string, then: must be set"},
		{"labels/annotations is not a mapping", pr, has("!(isTag(entry.part.ShortTag(), mapTag))"), "cannot unmarshal into map[string]string"},
		{"rule labels: non-string value or duplicated key", pr, has("!(flag)", "init:validateStringMap("), "yaml: mapping key already defined / cannot unmarshal"},
		{"invalid recording rule name", pr, has("IsValidMetricName("), "invalid recording rule name"},
		{"braces in recording rule name", pr, func(g string) bool {
			return strings.Contains(g, "recordPart") && (strings.Contains(g, `"{}"`) || strings.Contains(g, `"{"`))
		}, "braces present in the recording rule name"},
		{"invalid rule label name", pr, has("LabelName(lab.Key.Value).IsValid()"), "invalid label name"},
		{"rule label name is __name__", pr, has("lab.Key.Value", "MetricNameLabel"), "invalid label name"},
		{"invalid rule label value", pr, has("LabelValue(lab.Value.Value).IsValid()"), "invalid label value"},
		{"invalid annotation name", pr, has("LabelName(ann.Key.Value).IsValid()"), "invalid annotation name"},
	}
	if ens != nil {
		reasons = append(reasons,
			reason{"record/alert value is empty", ens, func(g string) bool { return strings.Contains(g, "!(hasValue(") && !strings.Contains(g, ".Value))") }, "one of 'record' or 'alert' must be set"},
			reason{"expr is missing", ens, func(g string) bool { return strings.Contains(g, "«PromQLExpr» == nil") }, "field 'expr' must be set in rule"},
			reason{"expr is empty", ens, func(g string) bool { return strings.Contains(g, "!(hasValue(") && strings.Contains(g, ".Value))") }, "field 'expr' must be set in rule"},
		)
	}
	if vsm != nil {
		reasons = append(reasons,
			reason{"string map: value is not a string", vsm, has("!(isTag(entry.val.ShortTag(), strTag))"), "cannot unmarshal into string"},
			reason{"string map: duplicated key", vsm, has("init:set[entry.key.Value]"), "yaml: mapping key already defined"},
		)
	}
	exitCache := map[*FuncInfo][]errorExit{}
	if os.Getenv("PINTSA_DUMP_GUARDS") != "" {
		for _, fi := range []*FuncInfo{pg, pgr, prs, pr, ens, vsm, p.Func("internal/parser.Parser.Parse")} {
			if fi == nil {
				continue
			}
			for _, e := range errorExits(p, fi) {
				fmt.Fprintf(os.Stderr, "GUARD %s | %s\n", fi.Obj.Name(), guardText(e))
			}
		}
	}
	for _, r := range reasons {
		if r.fn == nil {
			c.Undecided("C01-R2", "reason:"+r.prom, token.NoPos, "pint-side function not found")
			continue
		}
		if _, ok := exitCache[r.fn]; !ok {
			exitCache[r.fn] = errorExits(p, r.fn)
		}
		found := token.NoPos
		for _, e := range exitCache[r.fn] {
			if r.pred(guardText(e)) {
				found = e.pos
				break
			}
		}
		if found == token.NoPos {
			// the same test written as an early exit of the other case: `if !c { return ok }; return error`
			// — an error exit that stands under nothing, right after a terminating `if` without else whose
			// condition is the negation of the expected fact
			pmR := parentMap(r.fn.Decl.Body)
			for _, e := range exitCache[r.fn] {
				if len(e.guards) != 0 || e.node == nil {
					continue
				}
				var stmt ast.Node = e.node
				for stmt != nil {
					if _, isBlk := pmR[stmt].(*ast.BlockStmt); isBlk {
						break
					}
					stmt = pmR[stmt]
				}
				blk, _ := pmR[stmt].(*ast.BlockStmt)
				if blk == nil {
					continue
				}
				for i, st := range blk.List {
					if ast.Node(st) != stmt || i == 0 {
						continue
					}
					prev, isIf := blk.List[i-1].(*ast.IfStmt)
					if !isIf || prev.Else != nil || prev.Init != nil || len(prev.Body.List) == 0 {
						continue
					}
					if _, isRet := prev.Body.List[len(prev.Body.List)-1].(*ast.ReturnStmt); !isRet {
						continue
					}
					var facts []Atom
					for _, a := range implied(prev.Cond, nil, false) {
						switch x := ast.Unparen(a.E).(type) {
						case *ast.UnaryExpr:
							if x.Op == token.NOT {
								continue // its operand is listed too
							}
						case *ast.BinaryExpr:
							if x.Op == token.LAND || x.Op == token.LOR {
								continue
							}
						}
						facts = append(facts, a)
					}
					fake := errorExit{pos: e.pos, guards: facts, node: e.node}
					if r.pred(guardText(fake)) {
						found = e.pos
					}
				}
			}
		}
		c.Check(found != token.NoPos, "C01-R2", "reason:"+r.prom, firstPos(found, r.fn.Decl.Pos()), "error exit in "+r.fn.Obj.Name()+" (Prometheus: "+r.why+")",
			"Prometheus rejects a file for this reason ("+r.why+") but "+r.fn.Obj.Name()+" has no error exit guarded by the corresponding test: such a file passes pint and fails to load in Prometheus")
	}
	// the seven duplicated-key exits of parseRule
	nDup := 0
	for _, e := range errorExits(p, pr) {
		g := guardText(e)
		if strings.Contains(g, "Part != nil") && strings.Contains(g, "«Node».Value ==") {
			nDup++
		}
	}
	c.Check(nDup >= 7, "C01-R2", "reason:duplicated rule key (7 keys)", pr.Decl.Pos(), itoa(nDup)+" duplicated-key exits", "only "+itoa(nDup)+" of the seven rule keys are checked for duplicates")
	// parseRule consumes both helpers
	for _, h := range []string{"internal/parser.ensureRequiredKeys", "internal/parser.validateStringMap"} {
		n := 0
		ast.Inspect(pr.Decl.Body, func(nd ast.Node) bool {
			if call, ok := nd.(*ast.CallExpr); ok && isCallTo(info, call, h) {
				n++
			}
			return true
		})
		c.Check(n == 2, "C01-R2", "parseRule calls "+h[strings.LastIndex(h, ".")+1:]+" for both maps/kinds", pr.Decl.Pos(), "2 calls", itoa(n)+" calls")
	}
	// the vendored side: new rejection sites must be re-confirmed
	c01PromReasons(c, rulefmt)

	// ---- R3 ----
	c01Routing(c)
	c02Gate(c, "C01-R3")

	// ---- R4 ----
	c01Checks(c)
	c04NoExperimentalFlag(c, "C01-R4")
	c11PackageSlicesNotAppended(c, "C01-R4")

	// ---- R5 ----
	if parse := c.MustFunc("C01-R5", "internal/parser.Parser.Parse"); parse != nil {
		fl := p.NewFlow(parse)
		calls := fl.FindCalls("internal/parser.parseGroups")
		okStrict := len(calls) == 1
		for _, s := range calls {
			if !fl.Dominated(s.Site, s.Inner, func(a Atom) bool {
				return a.Truth && a.Tag == nil && strings.HasSuffix(exprStr(a.E), ".isStrict")
			}) {
				okStrict = false
			}
		}
		c.Check(okStrict, "C01-R5", "Parse:strict mode goes through parseGroups", parse.Decl.Pos(), "guarded by p.isStrict", "strict parsing does not go through parseGroups")
		multi := false
		for _, e := range errorExits(p, parse) {
			g := guardText(e)
			if strings.Contains(g, "int > 1") && strings.Contains(g, "isStrict") {
				multi = true
			}
			if strings.Contains(g, "int > 1") && !multi && e.node != nil {
				// strict mode established by the flow (the relaxed case ended the iteration further up)
				for _, sm := range fl.Find(func(x ast.Node) bool {
					found := false
					ast.Inspect(x, func(m ast.Node) bool {
						if m == e.node {
							found = true
						}
						return !found
					})
					return found
				}) {
					if fl.Dominated(sm.Site, sm.Inner, func(a Atom) bool {
						return a.Truth && a.Tag == nil && strings.HasSuffix(exprStr(a.E), ".isStrict")
					}) {
						multi = true
					}
				}
			}
		}
		c.Check(multi, "C01-R5", "Parse:multi-document files rejected in strict mode", parse.Decl.Pos(), "index > 1 && isStrict -> error", "a second YAML document is accepted in strict mode (Prometheus silently ignores it: rules in it are never loaded)")
		decodeErr := false
		for _, e := range errorExits(p, parse) {
			if strings.Contains(guardText(e), "err != nil") {
				decodeErr = true
			}
		}
		c.Check(decodeErr, "C01-R2", "reason:yaml syntax error", parse.Decl.Pos(), "decode error -> File.Error", "a YAML decode error is not turned into File.Error")
	}
	c01Schema(c)
	for _, cs := range p.CallersOf(prs.Obj) {
		c.Check(cs.Caller.Name == "internal/parser.parseGroup", "C01-R5", "parseRuleStrict called from "+cs.Caller.Name, cs.Call.Pos(), "only the strict group walker", "unexpected caller")
	}
	okDelegates := false
	ast.Inspect(prs.Decl.Body, func(n ast.Node) bool {
		if call, ok := n.(*ast.CallExpr); ok && isCallTo(info, call, "internal/parser.parseRule") {
			okDelegates = true
		}
		return true
	})
	c.Check(okDelegates, "C01-R5", "parseRuleStrict delegates field validation to parseRule", prs.Decl.Pos(), "shared implementation", "strict mode no longer uses parseRule")
}

func firstPos(a, b token.Pos) token.Pos {
	if a != token.NoPos {
		return a
	}
	return b
}

// c01PromReasons enumerates the rejection sites of the vendored loader; a
// count different from the one confirmed for v0.303.0 requires re-confirmation.
func c01PromReasons(c *Ctx, rulefmt string) {
	p := c.P
	pkg := p.Pkg(rulefmt)
	if pkg == nil {
		c.Undecided("C01-R2", "anchor:vendored rulefmt", token.NoPos, "package not loaded")
		return
	}
	counts := map[string]int{}
	knownFields := false
	for _, f := range pkg.Syntax {
		for _, d := range f.Decls {
			fd, ok := d.(*ast.FuncDecl)
			if !ok || fd.Body == nil {
				continue
			}
			name := fd.Name.Name
			if fd.Recv != nil && len(fd.Recv.List) == 1 {
				name = exprStr(fd.Recv.List[0].Type) + "." + name
			}
			ast.Inspect(fd.Body, func(n ast.Node) bool {
				call, ok := n.(*ast.CallExpr)
				if !ok {
					return true
				}
				if id, ok := call.Fun.(*ast.Ident); ok && id.Name == "append" && len(call.Args) >= 2 {
					if a, ok := call.Args[0].(*ast.Ident); ok && (a.Name == "errs" || a.Name == "nodes") {
						counts[name]++
					}
				}
				if sel, ok := call.Fun.(*ast.SelectorExpr); ok && sel.Sel.Name == "KnownFields" && len(call.Args) == 1 && exprStr(call.Args[0]) == "true" {
					knownFields = true
				}
				return true
			})
		}
	}
	want := map[string]int{"*RuleGroups.Validate": 5, "*Rule.Validate": 13, "testTemplateParsing": 2}
	for _, k := range sortedKeys(want) {
		c.Check(counts[k] == want[k], "C01-R2", "vendored rulefmt:"+k+" rejection sites", token.NoPos, itoa(counts[k])+" sites, all mapped above",
			"the vendored Prometheus loader has "+itoa(counts[k])+" rejection sites in "+k+" (confirmed mapping covers "+itoa(want[k])+"): the dependency changed, re-confirm the reason table")
	}
	c.Check(knownFields, "C01-R2", "vendored rulefmt:decoder rejects unknown fields", token.NoPos, "KnownFields(true)", "rulefmt no longer enables KnownFields(true); the unknown-key reasons need re-confirmation")
	var names []string
	for k, v := range counts {
		names = append(names, k+"="+itoa(v))
	}
	sort.Strings(names)
	c.Note("vendored rulefmt rejection sites: %s", strings.Join(names, " "))
}

func c01Routing(c *Ctx) {
	p := c.P
	_ = p
	rr := c.MustFunc("C01-R3", "internal/discovery.readRules")
	if rr == nil {
		return
	}
	info := rr.Pkg.TypesInfo
	// File.Error, Group.Error -> PathError entries; rules (with their Error) -> entries
	for _, f := range []struct{ owner, what string }{{"internal/parser.File", "file"}, {"internal/parser.Group", "group"}} {
		ok := false
		for _, cl := range compositeLits(info, rr.Decl.Body, "internal/discovery.Entry") {
			if v := litField(cl, "PathError"); v != nil {
				if sel, isSel := ast.Unparen(v).(*ast.SelectorExpr); isSel && sel.Sel.Name == "Error" && fieldOwner(info, sel) == f.owner {
					ok = true
				}
			}
		}
		c.Check(ok, "C01-R3", "readRules:"+f.what+" level parse error becomes an entry with PathError", rr.Decl.Pos(), "routed", "a "+f.what+" level parse error is dropped (no entry, no report)")
	}
	ruleOK := false
	for _, cl := range compositeLits(info, rr.Decl.Body, "internal/discovery.Entry") {
		if v := litField(cl, "Rule"); v != nil && litField(cl, "PathError") == nil {
			ruleOK = true
		}
	}
	c.Check(ruleOK, "C01-R3", "readRules:every rule (with its Error) becomes an entry", rr.Decl.Pos(), "routed", "rules are not turned into entries")
	// no filtering of rules with errors: the rule loop has no skip
	var ruleLoop *ast.RangeStmt
	ast.Inspect(rr.Decl.Body, func(n ast.Node) bool {
		if rs, ok := n.(*ast.RangeStmt); ok && fieldSel(info, rs.X, "internal/parser.Group", "Rules") {
			ruleLoop = rs
		}
		return true
	})
	okLoop := ruleLoop != nil
	if ruleLoop != nil {
		inspectNoLit(ruleLoop.Body, func(n ast.Node) bool {
			if b, ok := n.(*ast.BranchStmt); ok && b.Tok != token.FALLTHROUGH {
				okLoop = false
			}
			return true
		})
	}
	c.Check(okLoop, "C01-R3", "readRules:no rule of a group is skipped", rr.Decl.Pos(), "unconditional", "a rule can be skipped when entries are built (its error is never reported)")
	// GetChecksForEntry: errors -> NewErrorCheck (C02-R2 checks the gate); problems Fatal
	if pre := c.MustFunc("C01-R3", "internal/checks.parseRuleError"); pre != nil {
		pinfo := pre.Pkg.TypesInfo
		pm := parentMap(pre.Decl.Body)
		nFatal := 0
		for _, cl := range compositeLits(pinfo, pre.Decl.Body, "internal/checks.Problem") {
			sev := litField(cl, "Severity")
			k := constObj(pinfo, sev)
			// which error kind leads here: the positive errors.As(err, &x) among the guards, by the type of x
			label := "default"
			for _, g := range lexicalGuards(pm, cl, pre.Decl.Body) {
				call, ok := ast.Unparen(g.E).(*ast.CallExpr)
				if !ok || !g.Truth || g.Tag != nil || len(call.Args) != 2 {
					continue
				}
				if fn := Callee(pinfo, call); fn == nil || fn.Pkg() == nil || fn.Pkg().Path() != "errors" || fn.Name() != "As" {
					continue
				}
				if u, ok := ast.Unparen(call.Args[1]).(*ast.UnaryExpr); ok && u.Op == token.AND {
					label = typeQName(pinfo.TypeOf(u.X))
				}
			}
			if label == "internal/parser.ParseError" || label == "default" {
				nFatal++
				c.Check(k != nil && k.Name() == "Fatal", "C01-R3", "parseRuleError:"+label+" is Fatal", cl.Pos(), "Fatal", "a YAML/rule parse error is reported below Fatal: with the default --fail-on a file Prometheus cannot load passes")
			}
		}
		c.Check(nFatal == 2, "C01-R3", "parseRuleError:file and rule parse errors handled", pre.Decl.Pos(), "2 cases", itoa(nFatal)+" cases")
	}
}

// enclosingCaseTagless finds the enclosing case clause of a tagless switch.
func enclosingCaseTagless(pm map[ast.Node]ast.Node, n ast.Node) (*ast.CaseClause, *ast.SwitchStmt) {
	for cur := pm[n]; cur != nil; cur = pm[cur] {
		if cc, ok := cur.(*ast.CaseClause); ok {
			if blk, ok := pm[cc].(*ast.BlockStmt); ok {
				if sw, ok := pm[blk].(*ast.SwitchStmt); ok {
					return cc, sw
				}
			}
		}
	}
	return nil, nil
}

func c01Checks(c *Ctx) {
	p := c.P
	br := c.MustFunc("C01-R4", "internal/config.baseRules")
	if br == nil {
		return
	}
	info := br.Pkg.TypesInfo
	pm := parentMap(br.Decl.Body)
	names, _, _ := stringSliceVar(p, "internal/checks", "CheckNames")
	nameSet := map[string]bool{}
	for _, n := range names {
		nameSet[n] = true
	}
	for _, ck := range []struct{ ctor, typ, name string }{
		{"internal/checks.NewSyntaxCheck", "internal/checks.SyntaxCheck", "promql/syntax"},
		{"internal/checks.NewAlertsForCheck", "internal/checks.AlertsForChecksFor", "alerts/for"},
		{"internal/checks.NewTemplateCheck", "internal/checks.TemplateCheck", "alerts/template"},
	} {
		found, inLoop := false, false
		ast.Inspect(br.Decl.Body, func(n ast.Node) bool {
			if call, ok := n.(*ast.CallExpr); ok && isCallTo(info, call, ck.ctor) {
				found = true
				for cur := pm[call]; cur != nil; cur = pm[cur] {
					switch cur.(type) {
					case *ast.RangeStmt, *ast.ForStmt, *ast.IfStmt:
						inLoop = true
					}
				}
			}
			return true
		})
		c.Check(found && !inLoop, "C01-R4", ck.name+":registered for every entry", br.Decl.Pos(), "unconditional in baseRules", ck.name+" is not registered unconditionally (outside the per-Prometheus loop / any condition)")
		c.Check(nameSet[ck.name], "C01-R4", ck.name+":enabled by default", br.Decl.Pos(), "in checks.CheckNames", ck.name+" is not part of the default enabled list")
		if meta := p.methodOn(ck.typ, "Meta"); meta != nil {
			online, ok := metaBool(meta, "Online")
			c.Check(ok && !online, "C01-R4", ck.name+":offline", meta.Decl.Pos(), "runs with --offline", ck.name+" is marked online: --offline (and the property's default offline set) loses it")
			states, _ := metaStates(meta)
			need := map[string]bool{"Noop": false, "Added": false, "Modified": false, "Moved": false}
			for _, s := range states {
				if _, ok := need[s]; ok {
					need[s] = true
				}
			}
			all := true
			for _, v := range need {
				if !v {
					all = false
				}
			}
			c.Check(all, "C01-R4", ck.name+":runs for every present rule state", meta.Decl.Pos(), strings.Join(states, ","), ck.name+" does not run for all of noop/added/modified/moved")
		}
	}
	sevAtLeastBug := func(fi *FuncInfo, guardSub string) (bool, string) {
		finfo := fi.Pkg.TypesInfo
		fpm := parentMap(fi.Decl.Body)
		ok, detail := false, "no matching problem"
		saved := canonInfo
		canonInfo = finfo
		defer func() { canonInfo = saved }()
		for _, cl := range compositeLits(finfo, fi.Decl.Body, "internal/checks.Problem") {
			// the literal stands under the positive fact guardSub (a negated mention, as in the
			// later arms of a switch, does not count)
			under := false
			for _, a := range lexicalGuards(fpm, cl, fi.Decl.Body) {
				if a.Truth && a.Tag == nil && strings.Contains(canonStr(finfo, a.E), guardSub) {
					under = true
				}
			}
			if !under {
				continue
			}
			k := constObj(finfo, litField(cl, "Severity"))
			if k != nil && (k.Name() == "Bug" || k.Name() == "Fatal") {
				ok = true
				detail = k.Name()
			} else {
				return false, "severity " + exprStr(litField(cl, "Severity"))
			}
		}
		return ok, detail
	}
	if sc := c.MustFunc("C01-R4", "internal/checks.SyntaxCheck.Check"); sc != nil {
		ok, d := sevAtLeastBug(sc, "SyntaxError != nil")
		c.Check(ok, "C01-R4", "promql/syntax:syntax error reported >= Bug", sc.Decl.Pos(), d, "a PromQL syntax error is not reported with severity >= Bug ("+d+")")
	}
	if af := c.MustFunc("C01-R4", "internal/checks.AlertsForChecksFor.checkField"); af != nil {
		ok, d := sevAtLeastBug(af, "err != nil")
		c.Check(ok, "C01-R4", "alerts/for:unparsable duration reported >= Bug", af.Decl.Pos(), d, "an invalid for/keep_firing_for duration is not reported with severity >= Bug ("+d+")")
		usesParse := false
		ast.Inspect(af.Decl.Body, func(n ast.Node) bool {
			if call, ok := n.(*ast.CallExpr); ok {
				if fn := Callee(af.Pkg.TypesInfo, call); fn != nil && fn.Pkg() != nil && fn.Pkg().Path() == "github.com/prometheus/common/model" && fn.Name() == "ParseDuration" {
					usesParse = true
				}
			}
			return true
		})
		c.Check(usesParse, "C01-R4", "alerts/for:uses Prometheus' own duration parser", af.Decl.Pos(), "model.ParseDuration", "durations are no longer parsed with model.ParseDuration")
	}
	if ac := c.MustFunc("C01-R4", "internal/checks.AlertsForChecksFor.Check"); ac != nil {
		finfo := ac.Pkg.TypesInfo
		fpm := parentMap(ac.Decl.Body)
		for _, field := range []string{"For", "KeepFiringFor"} {
			ok := false
			ast.Inspect(ac.Decl.Body, func(n ast.Node) bool {
				call, isCall := n.(*ast.CallExpr)
				if !isCall || !isCallTo(finfo, call, "internal/checks.AlertsForChecksFor.checkField") || len(call.Args) != 2 {
					return true
				}
				if !fieldSel(finfo, call.Args[1], "internal/parser.AlertingRule", field) {
					return true
				}
				// guarded only by its own nil test (and the AlertingRule guard at the top)
				own := true
				for _, g := range lexicalGuards(fpm, call, ac.Decl.Body) {
					x, _, isNilA := nilAtom(finfo, g)
					if !isNilA || !(fieldSel(finfo, x, "internal/parser.AlertingRule", field) || fieldSel(finfo, x, "internal/parser.Rule", "AlertingRule")) {
						own = false
					}
				}
				if own {
					ok = true
				}
				return true
			})
			c.Check(ok, "C01-R4", "alerts/for:"+field+" validated whenever it is set", ac.Decl.Pos(), "independent of the other field", field+" is validated only under conditions other than `"+field+" != nil` (e.g. not when the other duration field is set too): an invalid value passes")
		}
	}
	if tc := c.MustFunc("C01-R4", "internal/checks.TemplateCheck.Check"); tc != nil {
		finfo := tc.Pkg.TypesInfo
		fpm := parentMap(tc.Decl.Body)
		nLoops := 0
		ast.Inspect(tc.Decl.Body, func(n ast.Node) bool {
			rs, ok := n.(*ast.RangeStmt)
			if !ok {
				return true
			}
			var call *ast.CallExpr
			ast.Inspect(rs.Body, func(m ast.Node) bool {
				if cl, ok := m.(*ast.CallExpr); ok && isCallTo(finfo, cl, "internal/checks.checkTemplateSyntax") && call == nil {
					call = cl
				}
				return true
			})
			if call == nil {
				return true
			}
			nLoops++
			what := "labels"
			if strings.Contains(exprStr(rs.X), "Annotations") {
				what = "annotations"
			}
			// nothing skips an item before its template is parsed
			bad := ""
			ast.Inspect(rs.Body, func(m ast.Node) bool {
				if b, ok := m.(*ast.BranchStmt); ok && b.Pos() < call.Pos() && b.Tok != token.FALLTHROUGH {
					bad = p.Pos(b.Pos())
				}
				return true
			})
			g := lexicalGuards(fpm, call, rs)
			extra := ""
			for _, a := range g {
				if _, isInit := a.E.(*ast.BinaryExpr); isInit && strings.Contains(canonStr(finfo, a.E), "err") {
					continue
				}
				extra = exprStr(a.E)
			}
			c.Check(bad == "" && extra == "", "C01-R4", "alerts/template:every item of "+what+" is parsed", rs.Pos(), "no skip before checkTemplateSyntax", "some "+what+" can be skipped before their template is parsed ("+bad+extra+")")
			// labels come from entry.Labels(): rule values override group values, so every effective label is parsed
			return true
		})
		c.Check(nLoops == 2, "C01-R4", "alerts/template:labels and annotations both parsed", tc.Decl.Pos(), "two loops", itoa(nLoops)+" loops call checkTemplateSyntax")
		ok, d := sevAtLeastBug(tc, "err != nil")
		c.Check(ok, "C01-R4", "alerts/template:template parse error reported >= Bug", tc.Decl.Pos(), d, "a template parse error is not reported with severity >= Bug ("+d+")")
	}
}

// c01Schema: the Thanos schema (which accepts partial_response_strategy, a key
// Prometheus rejects) is selected only when the configured word equals
// config.SchemaThanos; everything else, including the empty default, selects
// the Prometheus schema.
func c01Schema(c *Ctx) {
	fi := c.MustFunc("C01-R5", "cmd/pint.parseSchema")
	if fi == nil {
		return
	}
	info := fi.Pkg.TypesInfo
	pm := parentMap(fi.Decl.Body)
	nThanos, nProm, bad := 0, 0, ""
	ast.Inspect(fi.Decl.Body, func(n ast.Node) bool {
		ret, ok := n.(*ast.ReturnStmt)
		if !ok || len(ret.Results) != 1 {
			return true
		}
		k := constObj(info, ret.Results[0])
		if k == nil {
			bad = "returns a non-constant " + exprStr(ret.Results[0])
			return true
		}
		switch k.Name() {
		case "ThanosSchema":
			nThanos++
			okGuard := false
			for _, a := range lexicalGuards(pm, ret, fi.Decl.Body) {
				be, isBin := ast.Unparen(a.E).(*ast.BinaryExpr)
				if !isBin || a.Tag != nil {
					if a.Tag != nil && a.Truth {
						if kk := constObj(info, a.E); kk != nil && kk.Name() == "SchemaThanos" {
							okGuard = true
						}
					}
					continue
				}
				if be.Op == token.EQL && a.Truth {
					for _, side := range []ast.Expr{be.X, be.Y} {
						if kk := constObj(info, side); kk != nil && kk.Name() == "SchemaThanos" {
							okGuard = true
						}
					}
				}
			}
			if !okGuard {
				bad = "ThanosSchema is selected without the test `word == config.SchemaThanos`"
			}
		case "PrometheusSchema":
			nProm++
		}
		return true
	})
	c.Check(bad == "" && nThanos == 1 && nProm >= 1, "C01-R5", "parseSchema:Thanos schema only for the configured word `thanos`", fi.Decl.Pos(), "everything else is the Prometheus schema",
		"the parser schema is chosen differently ("+bad+"): with the default (empty) setting files are parsed with the Thanos schema, which accepts `partial_response_strategy`, a key Prometheus rejects as unknown")
}

// c01TemplateAlwaysParsed: every label and annotation value is handed to the
// Prometheus template parser, whatever it looks like: in checkTemplateSyntax
// no return is reachable without the expander's ParseTest() call. A shortcut
// for "plain strings" decides with its own idea of what a template is, and a
// value such as `{{ $labels.instance is down` (Prometheus: unclosed action)
// passes pint.
func c01TemplateAlwaysParsed(c *Ctx) {
	fi := c.MustFunc("C01-R4", "internal/checks.checkTemplateSyntax")
	if fi == nil {
		return
	}
	info := fi.Pkg.TypesInfo
	fl := c.P.NewFlow(fi)
	isParse := func(n ast.Node) bool {
		found := false
		inspectNoLit(n, func(m ast.Node) bool {
			if call, ok := m.(*ast.CallExpr); ok {
				if fn := Callee(info, call); fn != nil && fn.Name() == "ParseTest" && fn.Pkg() != nil && strings.HasSuffix(fn.Pkg().Path(), "prometheus/template") {
					found = true
				}
			}
			return true
		})
		return found
	}
	rets := fl.Find(func(n ast.Node) bool { _, ok := n.(*ast.ReturnStmt); return ok })
	bad := ""
	for _, r := range rets {
		target := r.Site
		if isParse(r.Inner) {
			continue
		}
		if ok, _ := fl.MustPass(fl.Entry(), func(s Site) bool { return s == target }, false, isParse); !ok {
			bad = c.P.Pos(r.Inner.Pos())
		}
	}
	c.Check(len(rets) >= 1 && bad == "", "C01-R4", "checkTemplateSyntax:every value goes through the Prometheus template parser", fi.Decl.Pos(), itoa(len(rets))+" return(s), all after ParseTest()",
		"checkTemplateSyntax can return at "+bad+" without having called the template expander's ParseTest(): some label or annotation values are declared fine by pint's own test, and a value that Prometheus refuses (unclosed action, bad operand) passes")
}
