package main

import (
	"fmt"
	"go/ast"
	"go/token"
	"go/types"
	"sort"
	"strings"
)

func init() {
	register("C07", runC07,
		"Decides the structural clauses every control-comment suppression relies on: (R1) the dynamic type comments.parseValue/parseComment store in Comment.Value for each comment Type equals the type every reader asserts for that Type (comments.Only[T] instantiations and `.Value.(T)` under a `case Type`); (R2) every comment Type constant is handled in exactly one of: rule-level set (IsRuleComment), file-level collection in ContentReader.parseComments, the ignore/* cases; parseType maps the documented keywords to the constants of the same role; (R3) every read of Snooze.Match is dominated by the not-expired edge of Until.After(time.Now()); (R4) in config.isEnabled the rule-level comment test is dominated by !locked and by the AlwaysEnabled short-circuit, and `locked` flows from Rule.Locked; (R5) disable/snooze comments are compared by equality with name, check.String() and name(+tag); (R6) file-level disables collected in readRules reach isEnabled through Entry.DisabledChecks.",
		"the relational two-run statement (same output minus one slice); comment placement as attached by yaml.v3; tag-suffix string logic.")
}

var c07Keywords = map[string]string{ // documented keyword -> Type constant (docs/ignoring.md, docs/checks/*)
	"ignore/file":      "IgnoreFileType",
	"ignore/line":      "IgnoreLineType",
	"ignore/begin":     "IgnoreBeginType",
	"ignore/end":       "IgnoreEndType",
	"ignore/next-line": "IgnoreNextLineType",
	"file/owner":       "FileOwnerType",
	"rule/owner":       "RuleOwnerType",
	"file/disable":     "FileDisableType",
	"disable":          "DisableType",
	"file/snooze":      "FileSnoozeType",
	"snooze":           "SnoozeType",
	"rule/set":         "RuleSetType",
}

// commentTypeConsts lists the constants of type comments.Type.
func commentTypeConsts(p *Prog) map[string]*types.Const {
	out := map[string]*types.Const{}
	pkg := p.Pkg("internal/comments")
	if pkg == nil {
		return out
	}
	sc := pkg.Types.Scope()
	for _, n := range sc.Names() {
		if k, ok := sc.Lookup(n).(*types.Const); ok && typeQName(k.Type()) == "internal/comments.Type" {
			out[n] = k
		}
	}
	return out
}

// c07WriterTable: Type constant name -> dynamic type of Comment.Value.
func c07WriterTable(c *Ctx) map[string]string {
	p := c.P
	tab := map[string]string{}
	pv := c.MustFunc("C07-R1", "internal/comments.parseValue")
	if pv == nil {
		return tab
	}
	info := pv.Pkg.TypesInfo
	sws := findSwitches(pv.Decl.Body, func(s *ast.SwitchStmt) bool {
		return s.Tag != nil && typeQName(info.TypeOf(s.Tag)) == "internal/comments.Type"
	})
	if len(sws) != 1 {
		c.Undecided("C07-R1", "parseValue:switch", pv.Decl.Pos(), "expected one switch over the comment type")
		return tab
	}
	cases, _ := switchCases(sws[0])
	for _, cs := range cases {
		k := constObj(info, cs.Expr)
		if k == nil {
			c.Undecided("C07-R1", "parseValue:case:"+exprStr(cs.Expr), cs.Expr.Pos(), "case label is not a Type constant")
			continue
		}
		vt := ""
		conflict := false
		for _, r := range returnsIn(cs.Clause.Body) {
			if len(r.Results) == 0 {
				continue
			}
			var t types.Type
			if len(r.Results) == 1 {
				if tup, ok := info.TypeOf(r.Results[0]).(*types.Tuple); ok && tup.Len() > 0 {
					t = tup.At(0).Type()
				}
			} else {
				if isNilIdent(info, r.Results[0]) {
					continue
				}
				t = info.TypeOf(r.Results[0])
			}
			if t == nil {
				continue
			}
			q := typeQName(t)
			if vt != "" && vt != q {
				conflict = true
			}
			vt = q
		}
		if conflict {
			c.Undecided("C07-R1", "parseValue:case:"+k.Name(), cs.Clause.Pos(), "case returns values of different types")
			continue
		}
		if vt != "" {
			tab[k.Name()] = vt
		}
	}
	// parseComment: X.Type = K ; X.Value = T{...} in one block
	if pc := c.MustFunc("C07-R1", "internal/comments.parseComment"); pc != nil {
		pinfo := pc.Pkg.TypesInfo
		ast.Inspect(pc.Decl.Body, func(n ast.Node) bool {
			blk, ok := n.(*ast.BlockStmt)
			if !ok {
				return true
			}
			var k *types.Const
			for _, st := range blk.List {
				as, ok := st.(*ast.AssignStmt)
				if !ok || len(as.Lhs) != 1 || len(as.Rhs) != 1 {
					continue
				}
				if fieldSel(pinfo, as.Lhs[0], "internal/comments.Comment", "Type") {
					k = constObj(pinfo, as.Rhs[0])
				}
				if fieldSel(pinfo, as.Lhs[0], "internal/comments.Comment", "Value") && k != nil {
					if _, isLit := as.Rhs[0].(*ast.CompositeLit); isLit {
						tab[k.Name()] = typeQName(pinfo.TypeOf(as.Rhs[0]))
					}
				}
			}
			return true
		})
	}
	_ = p
	return tab
}

func runC07(c *Ctx) {
	defer c07EveryCommentStringParsed(c, "C07-R2")
	defer c07OwnCommentsOnly(c, "C07-R4")
	defer c07ServersKnownAfterDiscovery(c)
	p := c.P
	c.Rule("C07-R1", "writer/reader agreement on the dynamic type of Comment.Value per comment Type", 20)
	c.Rule("C07-R2", "every comment Type handled in exactly one class; keyword table", 26)
	c.Rule("C07-R3", "Snooze.Match reads dominated by the not-expired edge", 3)
	c.Rule("C07-R4", "locked / AlwaysEnabled dominate the rule-comment test; locked flows from Rule.Locked", 6)
	c.Rule("C07-R5", "comment matches compared by equality with the documented spellings", 4)
	c.Rule("C07-R6", "file-level disables flow through Entry.DisabledChecks into isEnabled", 4)
	defer c07CommentDecisionFirst(c)
	defer c07NodeComments(c)
	defer c07ValueTrimmed(c)

	writer := c07WriterTable(c)
	for _, k := range sortedKeys(writer) {
		c.Ok("C07-R1", "writer:"+k+"->"+writer[k], token.NoPos, "dynamic type stored for this comment type")
	}
	consts := commentTypeConsts(p)

	// ---- R1 readers ----
	onlyFn, _ := p.LookupObj("internal/comments", "Only").(*types.Func)
	for _, pkg := range p.ModPkgs() {
		info := pkg.TypesInfo
		for _, f := range pkg.Syntax {
			if p.IsTestFile(f.Pos()) {
				continue
			}
			pm := parentMap(f)
			ast.Inspect(f, func(n ast.Node) bool {
				switch x := n.(type) {
				case *ast.CallExpr:
					if onlyFn == nil || Callee(info, x) != onlyFn || len(x.Args) != 2 {
						return true
					}
					fi := p.enclosingFunc(x.Pos())
					k := constObj(info, x.Args[1])
					var targ types.Type
					var id *ast.Ident
					switch fun := ast.Unparen(x.Fun).(type) {
					case *ast.IndexExpr:
						switch y := fun.X.(type) {
						case *ast.Ident:
							id = y
						case *ast.SelectorExpr:
							id = y.Sel
						}
					}
					if id != nil {
						if inst, ok := info.Instances[id]; ok && inst.TypeArgs.Len() == 1 {
							targ = inst.TypeArgs.At(0)
						}
					}
					key := fnName(fi) + ":Only[" + typeQName(targ) + "](" + exprStr(x.Args[1]) + ")"
					if k == nil || targ == nil {
						c.Undecided("C07-R1", key, x.Pos(), "type argument or Type constant not resolvable")
						return true
					}
					c.Check(writer[k.Name()] == typeQName(targ), "C07-R1", key, x.Pos(), "agrees with the writer",
						"reader asserts "+typeQName(targ)+" for "+k.Name()+" but the parser stores "+writer[k.Name()]+" (single-value assertion: panic)")
				case *ast.TypeAssertExpr:
					if x.Type == nil || !fieldSel(info, x.X, "internal/comments.Comment", "Value") {
						return true
					}
					if fn := p.enclosingFunc(x.Pos()); fn != nil && fn.Name == "internal/comments.Only" {
						return true // the generic reader itself
					}
					fi := p.enclosingFunc(x.Pos())
					asserted := typeQName(info.TypeOf(x.Type))
					root, _, _ := accessPath(info, x.X)
					kinds := c07GoverningTypes(info, pm, fi, x, root)
					key := fnName(fi) + ":" + exprStr(x.X) + ".(" + asserted + ")"
					if len(kinds) == 0 {
						c.Undecided("C07-R1", key, x.Pos(), "no governing `case <Type>` found for this assertion")
						return true
					}
					for _, k := range kinds {
						c.Check(writer[k] == asserted, "C07-R1", key+" under "+k, x.Pos(), "agrees with the writer",
							"reader asserts "+asserted+" under "+k+" but the parser stores "+writer[k])
					}
				}
				return true
			})
		}
	}

	// ---- R2 partition ----
	ruleLevel := map[string]bool{}
	if irc := c.MustFunc("C07-R2", "internal/comments.IsRuleComment"); irc != nil {
		info := irc.Pkg.TypesInfo
		for _, sw := range findSwitches(irc.Decl.Body, nil) {
			cases, _ := switchCases(sw)
			for _, cs := range cases {
				rets := returnsIn(cs.Clause.Body)
				if k := constObj(info, cs.Expr); k != nil && len(rets) == 1 && exprStr(rets[0].Results[0]) == "true" {
					ruleLevel[k.Name()] = true
				}
			}
		}
	}
	fileLevel, ignoreLevel, passLevel := map[string]bool{}, map[string]bool{}, map[string]bool{}
	if pc := c.MustFunc("C07-R2", "internal/parser.ContentReader.parseComments"); pc != nil {
		info := pc.Pkg.TypesInfo
		sws := findSwitches(pc.Decl.Body, func(s *ast.SwitchStmt) bool {
			return s.Tag != nil && fieldSel(info, s.Tag, "internal/comments.Comment", "Type")
		})
		if len(sws) != 1 {
			c.Undecided("C07-R2", "parseComments:switch", pc.Decl.Pos(), "expected one switch over comment.Type")
		} else {
			cases, _ := switchCases(sws[0])
			for _, cs := range cases {
				k := constObj(info, cs.Expr)
				if k == nil {
					continue
				}
				appendsComments, setsSkip := false, false
				for _, st := range cs.Clause.Body {
					ast.Inspect(st, func(n ast.Node) bool {
						as, ok := n.(*ast.AssignStmt)
						if !ok {
							return true
						}
						for _, l := range as.Lhs {
							if fieldSel(info, l, "internal/parser.ContentReader", "comments") {
								appendsComments = true
							}
							if id, ok := l.(*ast.Ident); ok && typeQName(info.TypeOf(id)) == "internal/parser.skipMode" {
								setsSkip = true
							}
						}
						return true
					})
				}
				switch {
				case appendsComments && !setsSkip:
					fileLevel[k.Name()] = true
				case setsSkip && !appendsComments:
					ignoreLevel[k.Name()] = true
				case !setsSkip && !appendsComments:
					passLevel[k.Name()] = true
				default:
					c.Bad("C07-R2", "parseComments:case:"+k.Name(), cs.Clause.Pos(), "case both collects the comment and changes the skip mode")
				}
			}
		}
	}
	wantClass := map[string]string{
		"InvalidComment": "file", "IgnoreFileType": "ignore", "IgnoreLineType": "ignore", "IgnoreBeginType": "ignore", "IgnoreEndType": "ignore", "IgnoreNextLineType": "ignore",
		"FileOwnerType": "file", "RuleOwnerType": "rule", "FileDisableType": "file", "DisableType": "rule", "FileSnoozeType": "file", "SnoozeType": "rule", "RuleSetType": "rule",
	}
	names := sortedKeys(consts)
	for _, n := range names {
		if n == "UnknownType" {
			continue
		}
		var got []string
		if ruleLevel[n] {
			got = append(got, "rule")
		}
		if fileLevel[n] {
			got = append(got, "file")
		}
		if ignoreLevel[n] {
			got = append(got, "ignore")
		}
		want, known := wantClass[n]
		if !known {
			c.Undecided("C07-R2", "class:"+n, consts[n].Pos(), "new comment type without a reference class; re-confirm the partition")
			continue
		}
		c.Check(len(got) == 1 && got[0] == want, "C07-R2", "class:"+n+"="+want, consts[n].Pos(), "handled in exactly its class",
			"comment type "+n+" is handled as ["+strings.Join(got, ",")+"], expected exactly ["+want+"]")
		if want == "rule" {
			// "passes" = has an arm that does nothing, or no arm at all in the file reader's switch
			c.Check(passLevel[n] || (!fileLevel[n] && !ignoreLevel[n]), "C07-R2", "class:"+n+" ignored by the file reader", consts[n].Pos(), "file reader passes", "rule-level comment "+n+" is also consumed by the file reader")
		}
	}
	// keyword table
	if pt := c.MustFunc("C07-R2", "internal/comments.parseType"); pt != nil {
		info := pt.Pkg.TypesInfo
		got := map[string]string{}
		for _, sw := range findSwitches(pt.Decl.Body, func(s *ast.SwitchStmt) bool { return s.Tag != nil }) {
			cases, _ := switchCases(sw)
			for _, cs := range cases {
				word, ok := stringValue(p, pt.Pkg, cs.Expr)
				rets := returnsIn(cs.Clause.Body)
				if !ok || len(rets) != 1 {
					c.Undecided("C07-R2", "parseType:case:"+exprStr(cs.Expr), cs.Expr.Pos(), "keyword is not a constant-initialised variable")
					continue
				}
				if k := constObj(info, rets[0].Results[0]); k != nil {
					got[word] = k.Name()
				}
			}
		}
		for _, w := range sortedKeys(c07Keywords) {
			c.Check(got[w] == c07Keywords[w], "C07-R2", "keyword:"+w+"->"+c07Keywords[w], pt.Decl.Pos(), "documented keyword maps to its type",
				"keyword "+strq(w)+" parses as "+got[w]+", documented meaning is "+c07Keywords[w])
		}
		for w, k := range got {
			if _, ok := c07Keywords[w]; !ok {
				c.Bad("C07-R2", "keyword-extra:"+w, pt.Decl.Pos(), "undocumented keyword "+strq(w)+" parses as "+k)
			}
		}
	}
	// rule comments are attached in parser.parseRule under IsRuleComment
	if pr := c.MustFunc("C07-R2", "internal/parser.parseRule"); pr != nil {
		fl := p.NewFlow(pr)
		info := pr.Pkg.TypesInfo
		// find appends to the local that ends up in Rule.Comments
		apps := fl.Find(func(n ast.Node) bool {
			as, ok := n.(*ast.AssignStmt)
			if !ok || len(as.Rhs) != 1 {
				return false
			}
			call, ok := as.Rhs[0].(*ast.CallExpr)
			if !ok || exprStr(call.Fun) != "append" {
				return false
			}
			t := info.TypeOf(as.Lhs[0])
			return t != nil && t.String() == "[]"+ModPath+"/internal/comments.Comment"
		})
		c.Check(len(apps) > 0, "C07-R2", "parseRule:collects rule comments", pr.Decl.Pos(), "append found", "parseRule no longer collects comments")
		for _, a := range apps {
			// `all = append(all, some...)` where `some` is another local list of comments: what goes
			// into `some` is checked at its own appends
			if call := a.Inner.(*ast.AssignStmt).Rhs[0].(*ast.CallExpr); call.Ellipsis.IsValid() && len(call.Args) == 2 {
				if v, isVar := objOf(info, call.Args[1]).(*types.Var); isVar && !v.IsField() && (v.Parent() == nil || v.Parent() != v.Pkg().Scope()) {
					c.Ok("C07-R2", "parseRule:rule comments filtered by IsRuleComment", a.Inner.Pos(), "a local list, checked where it is filled")
					continue
				}
			}
			dom := fl.Dominated(a.Site, a.Inner, func(at Atom) bool {
				call, ok := ast.Unparen(at.E).(*ast.CallExpr)
				return ok && at.Truth && isCallTo(info, call, "internal/comments.IsRuleComment")
			})
			c.Check(dom, "C07-R2", "parseRule:rule comments filtered by IsRuleComment", a.Inner.Pos(), "guarded", "comments are attached to a rule without the IsRuleComment filter")
		}
	}

	// ---- R3 ----
	c07Snooze(c)

	// ---- R4 ----
	if ie := c.MustFunc("C07-R4", "internal/config.isEnabled"); ie != nil {
		fl := p.NewFlow(ie)
		info := ie.Pkg.TypesInfo
		sig := ie.Obj.Type().(*types.Signature)
		var lockedObj types.Object
		if i := paramIndex(sig, "locked"); i >= 0 {
			lockedObj = sig.Params().At(i)
		}
		calls := fl.FindCalls("internal/config.isDisabledForRule")
		c.Check(len(calls) > 0 && lockedObj != nil, "C07-R4", "isEnabled->isDisabledForRule", ie.Decl.Pos(), "rule comments are consulted", "isEnabled no longer consults rule comments or has no `locked` parameter")
		for _, cs := range calls {
			domLocked := fl.Dominated(cs.Site, cs.Inner, func(a Atom) bool {
				return a.Tag == nil && !a.Truth && objOf(info, a.E) == lockedObj
			})
			c.Check(domLocked, "C07-R4", "isEnabled:isDisabledForRule under !locked", cs.Inner.Pos(), "locked blocks ignore rule comments", "rule-level disable/snooze comments are consulted even for locked config blocks")
			domAlways := fl.Dominated(cs.Site, cs.Inner, func(a Atom) bool {
				sel, ok := ast.Unparen(a.E).(*ast.SelectorExpr)
				return ok && !a.Truth && sel.Sel.Name == "AlwaysEnabled"
			})
			c.Check(domAlways, "C07-R4", "isEnabled:AlwaysEnabled short-circuits before comments", cs.Inner.Pos(), "always-enabled checks cannot be disabled", "AlwaysEnabled no longer short-circuits before the comment test")
		}
		// a true result from isDisabledForRule returns false
		for _, cs := range calls {
			pm := parentMap(ie.Decl.Body)
			var ifs *ast.IfStmt
			for cur := pm[cs.Inner]; cur != nil; cur = pm[cur] {
				if x, ok := cur.(*ast.IfStmt); ok {
					ifs = x
					break
				}
			}
			ok := false
			if ifs != nil && len(ifs.Body.List) == 1 {
				if r, isRet := ifs.Body.List[0].(*ast.ReturnStmt); isRet && len(r.Results) == 1 && exprStr(r.Results[0]) == "false" {
					ok = true
				}
			}
			c.Check(ok, "C07-R4", "isEnabled:disabled-by-comment returns false", cs.Inner.Pos(), "returns false", "a matching disable/snooze comment does not disable the check")
		}
	}
	// locked flows: newParsedRule sets locked: rule.Locked; GetChecksForEntry passes pr.locked
	if npr := c.MustFunc("C07-R4", "internal/config.newParsedRule"); npr != nil {
		ok := false
		for _, cl := range compositeLits(npr.Pkg.TypesInfo, npr.Decl.Body, "internal/config.parsedRule") {
			if v := litField(cl, "locked"); v != nil && fieldSel(npr.Pkg.TypesInfo, v, "internal/config.Rule", "Locked") {
				ok = true
			}
		}
		c.Check(ok, "C07-R4", "newParsedRule:locked=rule.Locked", npr.Decl.Pos(), "copied", "parsedRule.locked is not taken from Rule.Locked")
	}
	if gce := c.MustFunc("C07-R4", "internal/config.Config.GetChecksForEntry"); gce != nil {
		info := gce.Pkg.TypesInfo
		pie := p.Func("internal/config.parsedRule.isEnabled")
		ok := false
		ast.Inspect(gce.Decl.Body, func(n ast.Node) bool {
			call, isCall := n.(*ast.CallExpr)
			if !isCall || pie == nil || Callee(info, call) != pie.Obj {
				return true
			}
			i := paramIndex(pie.Obj.Type().(*types.Signature), "locked")
			if i >= 0 && fieldSel(info, call.Args[i], "internal/config.parsedRule", "locked") {
				// receiver and argument must be the same parsed rule
				if sel, isSel := call.Fun.(*ast.SelectorExpr); isSel {
					ra, _, _ := accessPath(info, sel.X)
					rb, _, _ := accessPath(info, call.Args[i])
					ok = ra == rb
				}
			}
			return true
		})
		c.Check(ok, "C07-R4", "GetChecksForEntry:isEnabled(..., pr.locked)", gce.Decl.Pos(), "passes the block's locked flag", "parsedRule.isEnabled does not receive the parsed rule's own locked flag")
	}
	// every parsed rule that matches the entry gets its own enable decision
	if gce := c.MustFunc("C07-R4", "internal/config.Config.GetChecksForEntry"); gce != nil {
		info := gce.Pkg.TypesInfo
		pie := p.Func("internal/config.parsedRule.isEnabled")
		var loop *ast.RangeStmt
		var call *ast.CallExpr
		ast.Inspect(gce.Decl.Body, func(n ast.Node) bool {
			if rs, ok := n.(*ast.RangeStmt); ok {
				ast.Inspect(rs.Body, func(m ast.Node) bool {
					if cl, ok := m.(*ast.CallExpr); ok && pie != nil && Callee(info, cl) == pie.Obj {
						loop, call = rs, cl
					}
					return true
				})
			}
			return true
		})
		if loop == nil {
			c.Bad("C07-R4", "GetChecksForEntry:decision loop", gce.Decl.Pos(), "no loop calls parsedRule.isEnabled")
		} else {
			pm := parentMap(loop)
			bad := ""
			ast.Inspect(loop.Body, func(n ast.Node) bool {
				b, ok := n.(*ast.BranchStmt)
				if !ok || b.Pos() > call.Pos() {
					return true
				}
				onlyIsMatch := false
				for _, a := range lexicalGuards(pm, b, loop) {
					if cl, ok := ast.Unparen(a.E).(*ast.CallExpr); ok && !a.Truth && isCallTo(info, cl, "internal/config.isMatch") {
						onlyIsMatch = true
					}
				}
				if !onlyIsMatch {
					bad = p.Pos(b.Pos())
				}
				return true
			})
			c.Check(bad == "", "C07-R4", "GetChecksForEntry:every matching parsed rule reaches its own isEnabled decision", loop.Pos(), "only !isMatch skips",
				"a parsed rule can be skipped at "+bad+" before its own enable decision (e.g. de-duplicated against an unlocked twin that a comment disabled)")
			// the append is guarded by that decision
			fl := p.NewFlow(gce)
			apps := fl.Find(func(n ast.Node) bool {
				as, ok := n.(*ast.AssignStmt)
				if !ok || len(as.Rhs) != 1 {
					return false
				}
				cl, ok := as.Rhs[0].(*ast.CallExpr)
				return ok && exprStr(cl.Fun) == "append" && len(cl.Args) == 2 && fieldSel(info, cl.Args[1], "internal/config.parsedRule", "check")
			})
			for _, a := range apps {
				dom := fl.Dominated(a.Site, nil, func(at Atom) bool {
					cl, ok := ast.Unparen(at.E).(*ast.CallExpr)
					return ok && at.Truth && pie != nil && Callee(info, cl) == pie.Obj
				})
				c.Check(dom, "C07-R4", "GetChecksForEntry:check appended only when isEnabled", a.Inner.Pos(), "guarded", "a check is scheduled without a positive isEnabled decision")
			}
		}
	}
	if pie := c.MustFunc("C07-R4", "internal/config.parsedRule.isEnabled"); pie != nil {
		info := pie.Pkg.TypesInfo
		sig := pie.Obj.Type().(*types.Signature)
		var lockedObj types.Object
		if i := paramIndex(sig, "locked"); i >= 0 {
			lockedObj = sig.Params().At(i)
		}
		ie := p.Func("internal/config.isEnabled")
		n, good := 0, 0
		ast.Inspect(pie.Decl.Body, func(nd ast.Node) bool {
			call, isCall := nd.(*ast.CallExpr)
			if !isCall || ie == nil || Callee(info, call) != ie.Obj {
				return true
			}
			n++
			i := paramIndex(ie.Obj.Type().(*types.Signature), "locked")
			if i >= 0 && lockedObj != nil && objOf(info, call.Args[i]) == lockedObj {
				good++
			}
			return true
		})
		c.Check(n > 0 && n == good, "C07-R4", "parsedRule.isEnabled:forwards locked", pie.Decl.Pos(), itoa(n)+" calls forward locked", "parsedRule.isEnabled does not forward `locked` to every isEnabled call")
	}

	// ---- R5 ----
	if dfr := c.MustFunc("C07-R5", "internal/config.isDisabledForRule"); dfr != nil {
		c07DisabledForRuleSemantics(c, dfr)
	}

	// ---- R6 ----
	if rr := c.MustFunc("C07-R6", "internal/discovery.readRules"); rr != nil {
		info := rr.Pkg.TypesInfo
		// variable appended with .Match of Disable/Snooze
		var dc types.Object
		nApp := 0
		ast.Inspect(rr.Decl.Body, func(n ast.Node) bool {
			as, ok := n.(*ast.AssignStmt)
			if !ok || len(as.Rhs) != 1 {
				return true
			}
			call, ok := as.Rhs[0].(*ast.CallExpr)
			if !ok || exprStr(call.Fun) != "append" || len(call.Args) != 2 {
				return true
			}
			if fieldSel(info, call.Args[1], "internal/comments.Disable", "Match") || fieldSel(info, call.Args[1], "internal/comments.Snooze", "Match") {
				o := objOf(info, as.Lhs[0])
				if dc == nil || dc == o {
					dc = o
					nApp++
				}
			}
			return true
		})
		c.Check(dc != nil && nApp == 2, "C07-R6", "readRules:file/disable and file/snooze matches collected", rr.Decl.Pos(), "two collectors", "file-level disable/snooze matches are not both collected into one list")
		// the list may be handed on from one local to another (`list := collected`) before it is stored
		alias := map[types.Object]bool{}
		if dc != nil {
			alias[dc] = true
			for round := 0; round < 5; round++ {
				ast.Inspect(rr.Decl.Body, func(n ast.Node) bool {
					if as, ok := n.(*ast.AssignStmt); ok && len(as.Lhs) == len(as.Rhs) {
						for i, r := range as.Rhs {
							if o := objOf(info, r); o != nil && alias[o] {
								if t := objOf(info, as.Lhs[i]); t != nil {
									alias[t] = true
								}
							}
						}
					}
					return true
				})
			}
		}
		nRuleEntries, good := 0, 0
		for _, cl := range compositeLits(info, rr.Decl.Body, "internal/discovery.Entry") {
			if litField(cl, "Rule") == nil {
				continue
			}
			nRuleEntries++
			if v := litField(cl, "DisabledChecks"); v != nil && dc != nil && alias[objOf(info, v)] {
				good++
			}
		}
		c.Check(nRuleEntries > 0 && nRuleEntries == good, "C07-R6", "readRules:rule entries carry DisabledChecks", rr.Decl.Pos(), itoa(good)+" rule entry literal(s)", "a rule Entry is built without the file-level DisabledChecks")
	}
	if pie := c.MustFunc("C07-R6", "internal/config.parsedRule.isEnabled"); pie != nil {
		info := pie.Pkg.TypesInfo
		ie := p.Func("internal/config.isEnabled")
		found := false
		ast.Inspect(pie.Decl.Body, func(nd ast.Node) bool {
			call, isCall := nd.(*ast.CallExpr)
			if !isCall || ie == nil || Callee(info, call) != ie.Obj {
				return true
			}
			i := paramIndex(ie.Obj.Type().(*types.Signature), "disabledChecks")
			if i >= 0 && fieldSel(info, call.Args[i], "internal/discovery.Entry", "DisabledChecks") {
				found = true
				// must lead to `return false` when not enabled
			}
			return true
		})
		c.Check(found, "C07-R6", "parsedRule.isEnabled:isEnabled(e.DisabledChecks)", pie.Decl.Pos(), "file-level list consulted", "Entry.DisabledChecks is never passed to isEnabled")
	}
	// Entry.DisabledChecks survives the git-branch merge: every Entry literal with Rule set in discovery copies DisabledChecks or is readRules
	nCopies := 0
	for _, pkg := range p.ModPkgs() {
		for _, f := range pkg.Syntax {
			if p.IsTestFile(f.Pos()) {
				continue
			}
			ast.Inspect(f, func(n ast.Node) bool {
				as, ok := n.(*ast.AssignStmt)
				if !ok {
					return true
				}
				for _, l := range as.Lhs {
					if fieldSel(pkg.TypesInfo, l, "internal/discovery.Entry", "DisabledChecks") {
						nCopies++
						fi := p.enclosingFunc(as.Pos())
						c.Bad("C07-R6", "store Entry.DisabledChecks in "+fnName(fi), as.Pos(), "Entry.DisabledChecks is overwritten after discovery")
					}
				}
				return true
			})
		}
	}
	c.Ok("C07-R6", "no stores to Entry.DisabledChecks after construction", token.NoPos, itoa(nCopies)+" stores")
}

// c07GoverningTypes finds the comment Type constants under which the
// assertion x executes: the labels of the enclosing `case` of a switch over
// <root>.Type, or — for a range variable over a slice — the cases under which
// that slice is appended to.
func c07GoverningTypes(info *types.Info, pm map[ast.Node]ast.Node, fi *FuncInfo, x ast.Node, root types.Object) []string {
	var out []string
	for cur := x; cur != nil; {
		cc, sw := enclosingCase(pm, cur)
		if cc == nil {
			break
		}
		if sw.Tag != nil && fieldSel(info, sw.Tag, "internal/comments.Comment", "Type") {
			if r, _, ok := accessPath(info, sw.Tag); ok && r == root {
				for _, e := range cc.List {
					if k := constObj(info, e); k != nil {
						out = append(out, k.Name())
					}
				}
				return out
			}
		}
		cur = sw
	}
	// range variable over a local slice
	if fi == nil || root == nil {
		return nil
	}
	var slice types.Object
	ast.Inspect(fi.Decl.Body, func(n ast.Node) bool {
		if rs, ok := n.(*ast.RangeStmt); ok {
			if v, ok := rs.Value.(*ast.Ident); ok && info.Defs[v] == root {
				slice = objOf(info, rs.X)
			}
		}
		return true
	})
	if slice == nil {
		return nil
	}
	set := map[string]bool{}
	undecided := false
	ast.Inspect(fi.Decl.Body, func(n ast.Node) bool {
		as, ok := n.(*ast.AssignStmt)
		if !ok || len(as.Lhs) != 1 || objOf(info, as.Lhs[0]) != slice || len(as.Rhs) != 1 {
			return true
		}
		call, ok := as.Rhs[0].(*ast.CallExpr)
		if !ok || exprStr(call.Fun) != "append" {
			return true
		}
		cc, sw := enclosingCase(pm, as)
		if cc == nil || sw.Tag == nil || !fieldSel(info, sw.Tag, "internal/comments.Comment", "Type") || len(call.Args) != 2 {
			undecided = true
			return true
		}
		r, _, _ := accessPath(info, sw.Tag)
		if objOf(info, call.Args[1]) != r {
			undecided = true
			return true
		}
		for _, e := range cc.List {
			if k := constObj(info, e); k != nil {
				set[k.Name()] = true
			}
		}
		return true
	})
	if undecided {
		return nil
	}
	out = sortedKeys(set)
	sort.Strings(out)
	return out
}

func c07Snooze(c *Ctx) {
	p := c.P
	exempt := map[string]string{
		"internal/checks.orphanedComments": "only validates that the comment's spelling refers to something; never suppresses a problem",
		"internal/comments.Snooze.String":  "formatter",
		"internal/comments.parseSnooze":    "constructor (stores)",
	}
	n := 0
	for _, fi := range p.AllFuncs() {
		if p.IsTestFile(fi.Decl.Pos()) || fi.Decl.Body == nil {
			continue
		}
		info := fi.Pkg.TypesInfo
		var fl *Flow
		pm := parentMap(fi.Decl.Body)
		seq := 0
		ast.Inspect(fi.Decl.Body, func(nd ast.Node) bool {
			sel, ok := nd.(*ast.SelectorExpr)
			if !ok || !fieldSel(info, sel, "internal/comments.Snooze", "Match") || isLHS(pm, sel) {
				return true
			}
			seq++
			key := fi.Name + ":read Snooze.Match"
			if why, ok := exempt[fi.Name]; ok {
				c.Ok("C07-R3", key+" (exempt)", sel.Pos(), why)
				return true
			}
			n++
			if fl == nil {
				fl = p.NewFlow(fi)
			}
			root, _, _ := accessPath(info, sel)
			est := func(a Atom) bool {
				call, ok := ast.Unparen(a.E).(*ast.CallExpr)
				if !ok || !a.Truth || a.Tag != nil {
					return false
				}
				fs, ok := call.Fun.(*ast.SelectorExpr)
				if !ok || fs.Sel.Name != "After" || !fieldSel(info, fs.X, "internal/comments.Snooze", "Until") {
					return false
				}
				r, _, _ := accessPath(info, fs.X)
				if r != root || len(call.Args) != 1 {
					return false
				}
				now, ok := call.Args[0].(*ast.CallExpr)
				if !ok {
					return false
				}
				fn := Callee(info, now)
				return fn != nil && fn.Pkg() != nil && fn.Pkg().Path() == "time" && fn.Name() == "Now"
			}
			// locate the site containing sel (may be inside a closure: then undecided)
			var site *SiteMatch
			for _, sm := range fl.Find(func(x ast.Node) bool { return x == sel }) {
				s := sm
				site = &s
			}
			if site == nil {
				c.Undecided("C07-R3", key, sel.Pos(), "read is inside a function literal; not analysed")
				return true
			}
			c.Check(fl.Dominated(site.Site, sel, est), "C07-R3", key, sel.Pos(), "dominated by Until.After(time.Now())",
				"Snooze.Match is used without first establishing that the snooze has not expired")
			return true
		})
	}
	if n == 0 {
		c.Bad("C07-R3", "no snooze consumers found", token.NoPos, "expected consumers of Snooze.Match")
	}
}

// c07CommentDecisionFirst: in parsedRule.isEnabled the decision taken from rule
// and file comments (isEnabled(…, e.DisabledChecks, …)) lies on every path to a
// `return true`: nothing in the configuration, not even rule{enable=[…]}, makes
// a check run that a (not locked-out) comment switched off.
func c07CommentDecisionFirst(c *Ctx) {
	p := c.P
	pie := c.MustFunc("C07-R6", "internal/config.parsedRule.isEnabled")
	if pie == nil {
		return
	}
	info := pie.Pkg.TypesInfo
	fl := p.NewFlow(pie)
	isCommentCall := func(n ast.Node) bool {
		found := false
		inspectNoLit(n, func(m ast.Node) bool {
			call, ok := m.(*ast.CallExpr)
			if !ok || !isCallTo(info, call, "internal/config.isEnabled") {
				return true
			}
			for _, a := range call.Args {
				if fieldSel(info, a, "internal/discovery.Entry", "DisabledChecks") {
					// go/cfg does not split && / ||: a call that is only evaluated
					// when an earlier operand allows it does not count
					if len(WithinExprAtoms(n, call)) == 0 {
						found = true
					}
				}
			}
			return true
		})
		return found
	}
	rets := fl.Find(func(n ast.Node) bool {
		r, ok := n.(*ast.ReturnStmt)
		return ok && len(r.Results) == 1 && exprStr(r.Results[0]) == "true"
	})
	bad := ""
	for _, r := range rets {
		target := r.Site
		if ok, _ := fl.MustPass(fl.Entry(), func(s Site) bool { return s == target }, false, isCommentCall); !ok {
			// or: the exit is dominated by the fact "the comment decision was positive", whatever
			// larger condition that test is part of (`if !states || !isEnabled(…DisabledChecks…) { return false }`)
			dom := fl.Dominated(target, nil, func(a Atom) bool {
				e, t := ast.Unparen(a.E), a.Truth
				for {
					u, isU := e.(*ast.UnaryExpr)
					if !isU || u.Op != token.NOT {
						break
					}
					e, t = ast.Unparen(u.X), !t
				}
				call, isCall := e.(*ast.CallExpr)
				if !isCall || !t || a.Tag != nil || !isCallTo(info, call, "internal/config.isEnabled") {
					return false
				}
				for _, arg := range call.Args {
					if fieldSel(info, arg, "internal/discovery.Entry", "DisabledChecks") {
						return true
					}
				}
				return false
			})
			if !dom {
				bad = p.Pos(r.Inner.Pos())
			}
		}
	}
	c.Check(len(rets) >= 1 && bad == "", "C07-R6", "parsedRule.isEnabled:comment decision precedes every `return true`", pie.Decl.Pos(), itoa(len(rets))+" positive exits, all after the comment test",
		"the check can be declared enabled at "+bad+" without having consulted the rule's and the file's disable/snooze comments: a matching rule{enable=[…]} block then overrides `# pint disable`, a future snooze and file/disable for that check")
}

// c07NodeComments: the comments yaml.v3 attaches to the rule's mapping node
// itself (head, line, foot) are handed to the rule's first/last part
// independently of each other; arms of one switch or an else-chain would carry
// over only one of them, and a control comment after a flow-style rule is lost
// whenever there is also a comment above it.
func c07NodeComments(c *Ctx) {
	fi := c.MustFunc("C07-R2", "internal/parser.parseRule")
	if fi == nil {
		return
	}
	info := fi.Pkg.TypesInfo
	nodeP := paramObj(fi, 0)
	pm := parentMap(fi.Decl.Body)
	type site struct {
		as    *ast.AssignStmt
		field string
	}
	var sites []site
	ast.Inspect(fi.Decl.Body, func(n ast.Node) bool {
		as, ok := n.(*ast.AssignStmt)
		if !ok || len(as.Lhs) != 1 || len(as.Rhs) != 1 {
			return true
		}
		sel, ok := ast.Unparen(as.Rhs[0]).(*ast.SelectorExpr)
		if !ok || !strings.HasSuffix(sel.Sel.Name, "Comment") || !isObj(info, sel.X, nodeP) {
			return true
		}
		sites = append(sites, site{as, sel.Sel.Name})
		return true
	})
	c.Check(len(sites) == 3, "C07-R2", "parseRule:head, line and foot comment of the rule node are carried over", fi.Decl.Pos(), itoa(len(sites))+" transfers", "expected three transfers of node.{Head,Line,Foot}Comment, found "+itoa(len(sites)))
	// mutual exclusion: different clauses of one switch, or body/else of one if
	arm := func(n ast.Node) map[ast.Node]ast.Node {
		out := map[ast.Node]ast.Node{}
		child := n
		for cur := pm[n]; cur != nil; child, cur = cur, pm[cur] {
			switch x := cur.(type) {
			case *ast.CaseClause:
				if blk, ok := pm[x].(*ast.BlockStmt); ok {
					if sw, ok := pm[blk].(*ast.SwitchStmt); ok {
						out[sw] = x
					}
				}
			case *ast.IfStmt:
				if child == ast.Node(x.Body) || child == x.Else {
					out[x] = child
				}
			}
		}
		return out
	}
	for i := 0; i < len(sites); i++ {
		for j := i + 1; j < len(sites); j++ {
			ai, aj := arm(sites[i].as), arm(sites[j].as)
			excl := false
			for k, vi := range ai {
				if vj, ok := aj[k]; ok && vi != vj {
					excl = true
				}
			}
			c.Check(!excl, "C07-R2", "parseRule:"+sites[i].field+" and "+sites[j].field+" are carried over independently", sites[j].as.Pos(), "not arms of one switch / else chain",
				"node."+sites[i].field+" and node."+sites[j].field+" are carried over in mutually exclusive arms: when the rule node has both, only one survives — `- {alert: a, expr: e} # pint disable X` loses its control comment as soon as any comment stands on the line above")
		}
	}
}

// c07ValueTrimmed: file-level control comments are read from raw source lines,
// which in a CRLF file end in "\r". The value text handed to parseValue is
// therefore trimmed of ALL trailing white space (strings.TrimSpace, or a
// Trim/TrimRight whose cutset contains "\r"); otherwise every `file/disable X`
// in a file with Windows line endings names the check "X\r" and disables nothing.
func c07ValueTrimmed(c *Ctx) {
	pc := c.MustFunc("C07-R1", "internal/comments.parseComment")
	if pc == nil {
		return
	}
	info := pc.Pkg.TypesInfo
	n := 0
	ast.Inspect(pc.Decl.Body, func(nd ast.Node) bool {
		call, ok := nd.(*ast.CallExpr)
		if !ok || !isCallTo(info, call, "internal/comments.parseValue") || len(call.Args) < 2 {
			return true
		}
		n++
		ok2, got := false, exprStr(call.Args[1])
		if tc, isCall := ast.Unparen(call.Args[1]).(*ast.CallExpr); isCall {
			if fn := Callee(info, tc); fn != nil && fn.Pkg() != nil && fn.Pkg().Path() == "strings" {
				switch fn.Name() {
				case "TrimSpace":
					ok2 = true
				case "Trim", "TrimRight":
					if len(tc.Args) == 2 {
						if cut, isC := constString(info, tc.Args[1]); isC && strings.Contains(cut, "\r") {
							ok2 = true
						}
					}
				}
			}
		}
		c.Check(ok2, "C07-R1", "parseComment:value text is trimmed of all trailing white space", call.Pos(), "strings.TrimSpace",
			"the value of a control comment is passed on as `"+got+"`: a trailing carriage return survives, so in a CRLF file `# pint file/disable promql/rate` names the check \"promql/rate\\r\" and suppresses nothing")
		return true
	})
	c.Check(n >= 1, "C07-R1", "parseComment:hands the value to parseValue", pc.Decl.Pos(), itoa(n), "no parseValue call found")
}

// c07ServersKnownAfterDiscovery: the list of all Prometheus servers that the
// checks use to recognise `promql/series(<server>)` / `(+tag)` comments is put
// into the context after dynamic discovery has run: in checkRules the
// context.WithValue(ctx, AllPrometheusServers, gen.Servers()) call cannot be
// reached from the entry without passing GenerateDynamic, except on the path
// where discovery is skipped (offline, or no rules). Built earlier, the list
// lacks every discovered server, and a comment that names one makes the check
// of every other server report an "invalid comment" problem.
func c07ServersKnownAfterDiscovery(c *Ctx) {
	fi := c.MustFunc("C07-R5", "cmd/pint.checkRules")
	if fi == nil {
		return
	}
	info := fi.Pkg.TypesInfo
	fl := c.P.NewFlow(fi)
	isSetServers := func(n ast.Node) bool {
		call, ok := n.(*ast.CallExpr)
		if !ok || len(call.Args) != 3 {
			return false
		}
		fn := Callee(info, call)
		if fn == nil || fn.Pkg() == nil || fn.Pkg().Path() != "context" || fn.Name() != "WithValue" {
			return false
		}
		k := constObj(info, call.Args[1])
		return k != nil && k.Name() == "AllPrometheusServers"
	}
	isDiscover := func(n ast.Node) bool {
		found := false
		inspectNoLit(n, func(m ast.Node) bool {
			if call, ok := m.(*ast.CallExpr); ok && isCallTo(info, call, "internal/config.PrometheusGenerator.GenerateDynamic") {
				found = true
			}
			return true
		})
		return found
	}
	sets := fl.Find(isSetServers)
	c.Check(len(sets) >= 1, "C07-R5", "checkRules:server list handed to the checks", fi.Decl.Pos(), itoa(len(sets))+" site(s)", "checkRules no longer puts AllPrometheusServers into the context")
	skipParam := paramObj(fi, paramIndex(fi.Obj.Type().(*types.Signature), "isOffline"))
	for _, s := range sets {
		target := s.Site
		reach, _ := fl.Reach(fl.Entry(), func(x Site) bool { return x == target }, false, PathQ{
			Avoid: isDiscover,
			Cut: func(atoms []Atom) bool {
				// paths on which discovery is skipped on purpose
				for _, a := range atoms {
					if a.Tag != nil {
						continue
					}
					if a.Truth && objOf(info, a.E) == skipParam && skipParam != nil {
						return true
					}
					// len(entries) > 0 false
					if be, ok := ast.Unparen(a.E).(*ast.BinaryExpr); ok {
						if lc, isCall := ast.Unparen(be.X).(*ast.CallExpr); isCall && exprStr(lc.Fun) == "len" {
							if k, isC := constInt(info, be.Y); isC && k == 0 && ((be.Op == token.GTR && !a.Truth) || (be.Op == token.EQL && a.Truth) || (be.Op == token.NEQ && !a.Truth)) {
								return true
							}
						}
					}
				}
				return false
			},
		})
		c.Check(!reach, "C07-R5", "checkRules:server list is taken after dynamic discovery", s.Inner.Pos(), "GenerateDynamic precedes gen.Servers()",
			"the list of all Prometheus servers is put into the checks' context on a path that has not run dynamic discovery yet: servers found through `discovery {}` are missing from it, so `# pint disable promql/series(<discovered server>)` is reported as an invalid comment by the check of every other server")
	}
}

// c07EveryCommentStringParsed: every comment string yaml attached to a rule's
// nodes is given to comments.Parse: in parseRule the loop over
// mergeComments(part) reaches the Parse call for every element. yaml.v3 glues
// neighbouring comment lines into one string, so skipping a string because it
// contains one kind of comment (`# pint ignore/end`) also drops the rule's own
// `# pint disable …` that happens to follow it in the same string.
func c07EveryCommentStringParsed(c *Ctx, R string) {
	fi := c.MustFunc(R, "internal/parser.parseRule")
	if fi == nil {
		return
	}
	info := fi.Pkg.TypesInfo
	pm := parentMap(fi.Decl.Body)
	n := 0
	ast.Inspect(fi.Decl.Body, func(nd ast.Node) bool {
		rs, ok := nd.(*ast.RangeStmt)
		if !ok {
			return true
		}
		src, isCall := ast.Unparen(singleDef(info, fi.Decl.Body, rs.X)).(*ast.CallExpr)
		if !isCall || !isCallTo(info, src, "internal/parser.mergeComments") {
			return true
		}
		n++
		var call *ast.CallExpr
		ast.Inspect(rs.Body, func(m ast.Node) bool {
			if cl, ok := m.(*ast.CallExpr); ok && call == nil && isCallTo(info, cl, "internal/comments.Parse") {
				call = cl
			}
			return true
		})
		why := ""
		switch {
		case call == nil:
			why = "the loop does not call comments.Parse"
		case len(lexicalGuards(pm, call, rs.Body)) > 0:
			why = "comments.Parse is guarded by `" + roleStr(info, lexicalGuards(pm, call, rs.Body)[0].E) + "`"
		default:
			for _, st := range rs.Body.List {
				inside := false
				ast.Inspect(st, func(m ast.Node) bool {
					if m == ast.Node(call) {
						inside = true
					}
					return !inside
				})
				if inside {
					break
				}
				if containsBranch(st) {
					why = "a statement in front of comments.Parse can skip the string"
				}
			}
		}
		c.Check(why == "", R, "parseRule:every comment string of a rule is parsed", rs.Pos(), "unconditional comments.Parse",
			why+": yaml joins neighbouring comment lines into one string, so leaving a string out because of one comment in it drops the rule's own control comments that share the string")
		return true
	})
	c.Check(n >= 1, R, "parseRule:comment strings of a rule enumerated", fi.Decl.Pos(), itoa(n), "no loop over mergeComments(…)")
}

// c07DisabledForRuleSemantics runs config.isDisabledForRule (minieval.go) on
// every combination of: the rule's disable comments (8 shapes of their Match
// values), its snooze comments (the same shapes, each comment expired or
// still active), and the check having a Prometheus tag or not — and compares
// the verdict with the documented one: the check is off for the rule exactly
// when a disable comment, or a snooze comment that has not expired, names it
// by its registered name, by its String() form or as name(+tag) for one of its
// tags. comments.Only[T](rule.Comments, <T>Type) is the oracle that supplies
// the comments; handing it the wrong type constant fails the run.
func c07DisabledForRuleSemantics(c *Ctx, fi *FuncInfo) {
	R := "C07-R5"
	info := fi.Pkg.TypesInfo
	sig := fi.Obj.Type().(*types.Signature)
	par := func(name string) types.Object {
		if i := paramIndex(sig, name); i >= 0 {
			return sig.Params().At(i)
		}
		return nil
	}
	ruleP, nameP, checkP, tagsP := par("rule"), par("name"), par("check"), par("promTags")
	// renamed parameters: by type (the rule, the first string, the checker, the only string list)
	byType := func(key string) types.Object {
		for i := 0; i < sig.Params().Len(); i++ {
			if paramTypeKey(sig.Params().At(i).Type()) == key {
				return sig.Params().At(i)
			}
		}
		return nil
	}
	if ruleP == nil {
		ruleP = byType("internal/parser.Rule")
	}
	if nameP == nil {
		nameP = byType("string")
	}
	if checkP == nil {
		checkP = byType("internal/checks.RuleChecker")
	}
	if tagsP == nil || paramTypeKey(tagsP.Type()) != "[]string" {
		tagsP = byType("[]string")
	}
	if ruleP == nil || nameP == nil || checkP == nil || tagsP == nil {
		c.Undecided(R, "anchor:isDisabledForRule:params", fi.Decl.Pos(), "expected parameters rule, name, check, promTags")
		return
	}
	const N, S, T = "N", "S(…)", "t"
	shapes := [][]string{{}, {N}, {S}, {N + "(+" + T + ")"}, {"X"}, {"X", N}, {N + "(+other)"}, {N + "("}}
	show := func(l []string) string {
		if len(l) == 0 {
			return "-"
		}
		return strings.Join(l, ",")
	}
	names := func(tags []string) map[string]bool {
		m := map[string]bool{N: true, S: true}
		for _, t := range tags {
			m[N+"(+"+t+")"] = true
		}
		return m
	}
	for _, dis := range shapes {
		for _, sn := range shapes {
			key := "isDisabledForRule:disable=[" + show(dis) + "] snooze=[" + show(sn) + "]"
			bad, undec := "", ""
			// active: bit i set = i-th snooze comment has not expired
			for act := 0; act < 1<<len(sn); act++ {
				for _, hasTag := range []bool{false, true} {
					tags := []string{}
					if hasTag {
						tags = []string{T}
					}
					nm := names(tags)
					want := false
					for _, d := range dis {
						if nm[d] {
							want = true
						}
					}
					for i, s := range sn {
						if act&(1<<i) != 0 && nm[s] {
							want = true
						}
					}
					var disRecs, snRecs []map[string]mval
					for _, d := range dis {
						disRecs = append(disRecs, map[string]mval{"Match": mStr(d)})
					}
					for i, s := range sn {
						snRecs = append(snRecs, map[string]mval{"Match": mStr(s), "Until": {k: mvRec, rec: map[string]mval{"active": mBool(act&(1<<i) != 0)}}})
					}
					ev := &miniEval{info: info, prog: c.P, env: map[types.Object]mval{}}
					ev.env[nameP], ev.env[tagsP] = mStr(N), mList(tags)
					isNow := func(e ast.Expr) bool {
						call, ok := ast.Unparen(e).(*ast.CallExpr)
						if !ok {
							return false
						}
						fn := Callee(info, call)
						return fn != nil && fn.FullName() == "time.Now"
					}
					ev.oracle = func(ev *miniEval, call *ast.CallExpr) (mval, bool) {
						if s2, ok := call.Fun.(*ast.SelectorExpr); ok && s2.Sel.Name == "String" && len(call.Args) == 0 && objOf(info, s2.X) == checkP {
							return mStr(S), true
						}
						if fn := Callee(info, call); fn != nil && fn.Pkg() != nil && fn.Pkg().Path() == "fmt" && fn.Name() == "Sprintf" && len(call.Args) == 3 {
							if f, ok := constString(info, call.Args[0]); ok && f == "%s(+%s)" {
								a, b := ev.expr(call.Args[1]), ev.expr(call.Args[2])
								if a.k == mvStr && b.k == mvStr {
									return mStr(a.s + "(+" + b.s + ")"), true
								}
							}
						}
						// comments.Only[T](rule.Comments, TType)
						if fn := Callee(info, call); fn != nil && fn.Pkg() != nil && strings.HasSuffix(fn.Pkg().Path(), "internal/comments") && fn.Name() == "Only" && len(call.Args) == 2 {
							if !fieldSel(info, call.Args[0], "internal/parser.Rule", "Comments") || objOf(info, ast.Unparen(call.Args[0]).(*ast.SelectorExpr).X) != ruleP {
								ev.fail("comments.Only is not given the comments of the rule")
								return mval{}, true
							}
							t := info.TypeOf(call)
							k, _ := info.Uses[selOrIdent(call.Args[1])].(*types.Const)
							switch {
							case t != nil && strings.HasSuffix(t.String(), "comments.Disable") && k != nil && k.Name() == "DisableType":
								return mval{k: mvRecList, recs: disRecs}, true
							case t != nil && strings.HasSuffix(t.String(), "comments.Snooze") && k != nil && k.Name() == "SnoozeType":
								return mval{k: mvRecList, recs: snRecs}, true
							}
							ev.fail("comments.Only[" + exprStr(call.Fun) + "] is asked for `" + exprStr(call.Args[1]) + "`: the comment type and the type constant do not belong together")
							return mval{}, true
						}
						// <until>.After(time.Now()) / time.Now().Before(<until>): not expired
						if s2, ok := call.Fun.(*ast.SelectorExpr); ok && len(call.Args) == 1 {
							switch {
							case s2.Sel.Name == "After" && isNow(call.Args[0]), s2.Sel.Name == "Before" && isNow(s2.X):
								u := call.Args[0]
								if s2.Sel.Name == "After" {
									u = s2.X
								}
								if r := ev.expr(u); r.k == mvRec {
									return r.rec["active"], true
								}
							case s2.Sel.Name == "Before" && isNow(call.Args[0]), s2.Sel.Name == "After" && isNow(s2.X):
								u := call.Args[0]
								if s2.Sel.Name == "Before" {
									u = s2.X
								}
								if r := ev.expr(u); r.k == mvRec {
									if a := r.rec["active"]; a.k == mvBool {
										return mBool(!a.b), true
									}
								}
							}
						}
						return mval{}, false
					}
					ctl := ev.block(fi.Decl.Body.List)
					if ev.undec != "" || ctl.kind != 'r' || ctl.ret.k != mvBool {
						if undec == "" {
							undec = ev.undec
							if undec == "" {
								undec = "no boolean result"
							}
						}
						continue
					}
					if ctl.ret.b != want && bad == "" {
						bad = "with tags=[" + show(tags) + "] and snooze comments active=" + fmt.Sprintf("%b", act) + " the check is " + map[bool]string{true: "off", false: "on"}[ctl.ret.b] + " for the rule, documented: " + map[bool]string{true: "off", false: "on"}[want]
					}
				}
			}
			switch {
			case undec != "":
				c.Undecided(R, key, fi.Decl.Pos(), "isDisabledForRule could not be evaluated: "+undec)
			default:
				c.Check(bad == "", R, key, fi.Decl.Pos(), "agrees with the documented meaning on every valuation",
					bad+": a `# pint disable`/`snooze` comment switches off a check it does not name, or fails to switch off the one it names (N = registered name, S(…) = String() form, t = a tag of the check's server)")
			}
		}
	}
}

func selOrIdent(e ast.Expr) *ast.Ident {
	switch x := ast.Unparen(e).(type) {
	case *ast.Ident:
		return x
	case *ast.SelectorExpr:
		return x.Sel
	}
	return nil
}

// c07OwnCommentsOnly: a control comment speaks about the rule it is attached
// to. Inside internal/checks the comments of a rule are read only from the rule
// being checked: `<x>.Comments` is rooted in the `entry` parameter of a Check
// method, or in a parser.Rule / discovery.Entry parameter that every caller
// fills from that entry. A check that looks at the comments of the *other*
// entries (to skip "opted out" candidates, say) lets a comment on one rule
// remove a problem reported for another.
func c07OwnCommentsOnly(c *Ctx, R string) {
	p := c.P
	chk := p.Pkg("internal/checks")
	if chk == nil {
		return
	}
	info := chk.TypesInfo
	n := 0
	// isOwn(fi, obj): obj (a variable of fi) stands for the entry under check / its rule
	var isOwn func(fi *FuncInfo, o types.Object, depth int) bool
	isOwn = func(fi *FuncInfo, o types.Object, depth int) bool {
		if o == nil || depth > 3 {
			return false
		}
		sig := fi.Obj.Type().(*types.Signature)
		idx := -1
		for i := 0; i < sig.Params().Len(); i++ {
			if types.Object(sig.Params().At(i)) == o {
				idx = i
			}
		}
		if idx < 0 {
			// a local: fine when it is defined once from an own value (`rule := entry.Rule`)
			var def ast.Expr
			defs := 0
			ast.Inspect(fi.Decl.Body, func(nd ast.Node) bool {
				if as, ok := nd.(*ast.AssignStmt); ok && len(as.Lhs) == len(as.Rhs) {
					for i, l := range as.Lhs {
						if objOf(info, l) == o {
							def = as.Rhs[i]
							defs++
						}
					}
				}
				return true
			})
			if defs == 1 {
				if root, _, ok := accessPath(info, def); ok && root != o {
					return isOwn(fi, root, depth+1)
				}
			}
			return false
		}
		if fi.Obj.Name() == "Check" && fi.Decl.Recv != nil && typeQName(o.Type()) == "internal/discovery.Entry" {
			return true // the entry parameter of a Check method
		}
		callers := p.CallersOf(fi.Obj)
		if len(callers) == 0 {
			return false
		}
		for _, cs := range callers {
			if p.IsTestFile(cs.Call.Pos()) {
				continue
			}
			if idx >= len(cs.Call.Args) {
				return false
			}
			root, _, ok := accessPath(cs.Caller.Pkg.TypesInfo, cs.Call.Args[idx])
			if !ok || !isOwn(cs.Caller, root, depth+1) {
				return false
			}
		}
		return true
	}
	for _, fi := range p.AllFuncs() {
		if fi.Pkg != chk || fi.Decl.Body == nil || p.IsTestFile(fi.Decl.Pos()) {
			continue
		}
		seq := 0
		ast.Inspect(fi.Decl.Body, func(nd ast.Node) bool {
			sel, ok := nd.(*ast.SelectorExpr)
			if !ok || sel.Sel.Name != "Comments" || fieldOwner(info, sel) != "internal/parser.Rule" {
				return true
			}
			n++
			seq++
			root, _, okPath := accessPath(info, sel)
			own := okPath && isOwn(fi, root, 0)
			c.Check(own, R, strings.TrimPrefix(fi.Name, "internal/checks.")+":comments read are those of the rule under check#"+itoa(seq), sel.Pos(), "rooted in the entry parameter",
				"`"+exprStr(sel)+"` is not (only) the comment list of the rule being checked: a `# pint disable …` or `# pint rule/set …` comment on one rule then changes what is reported for another rule")
			return true
		})
	}
	c.Check(n >= 5, R, "reads of rule comments in internal/checks enumerated", token.NoPos, itoa(n), "fewer than 5")
}
