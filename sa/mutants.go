package main

import (
	"bytes"
	"encoding/json"
	"fmt"
	"os"
	"os/exec"
	"path/filepath"
	"sort"
	"strings"
	"sync"
)

// Mutant is a seeded source edit that breaks exactly one obligation while
// still compiling. It is applied as an in-memory overlay (never written to
// the repository) and the rules of the property must report it.
type Mutant struct {
	Name       string `json:"name"`
	File       string `json:"file"` // relative to the repository root
	Old        string `json:"old"`
	New        string `json:"new"`
	Occurrence int    `json:"occurrence,omitempty"` // 1-based; 0 = must be unique
	ExpectRule string `json:"expect_rule"`
	ExpectKey  string `json:"expect_key,omitempty"` // substring of the reported key
	Why        string `json:"why,omitempty"`
	// More: further edits to the same file, applied after the first one
	// (each fragment must be unique in the file).
	More []struct {
		Old string `json:"old"`
		New string `json:"new"`
	} `json:"more,omitempty"`
}

// SelfTestResult is the outcome of one mutant.
type SelfTestResult struct {
	Name   string `json:"name"`
	Status string `json:"status"` // caught | missed | skipped
	Detail string `json:"detail,omitempty"`
}

func mutantsDir() string {
	if d := os.Getenv("PINTSA_MUTANTS"); d != "" {
		return d
	}
	exe, err := os.Executable()
	if err != nil {
		return ""
	}
	return filepath.Join(filepath.Dir(exe), "..", "sa", "mutants")
}

func loadMutants(prop string) []Mutant {
	dir := filepath.Join(mutantsDir(), prop)
	ents, err := os.ReadDir(dir)
	if err != nil {
		return nil
	}
	var out []Mutant
	for _, e := range ents {
		if !strings.HasSuffix(e.Name(), ".json") {
			continue
		}
		raw, err := os.ReadFile(filepath.Join(dir, e.Name()))
		if err != nil {
			continue
		}
		var ms []Mutant
		if err := json.Unmarshal(raw, &ms); err != nil {
			var m Mutant
			if err2 := json.Unmarshal(raw, &m); err2 != nil {
				out = append(out, Mutant{Name: e.Name() + ": unreadable: " + err.Error()})
				continue
			}
			ms = []Mutant{m}
		}
		out = append(out, ms...)
	}
	sort.Slice(out, func(i, j int) bool { return out[i].Name < out[j].Name })
	return out
}

func nthIndex(s, sub string, n int) int {
	off := 0
	for i := 1; ; i++ {
		k := strings.Index(s[off:], sub)
		if k < 0 {
			return -1
		}
		if i == n {
			return off + k
		}
		off += k + len(sub)
	}
}

func runSelfTests(prop, repo string) []SelfTestResult {
	ms := loadMutants(prop)
	res := make([]SelfTestResult, len(ms))
	exe, err := os.Executable()
	if err != nil {
		return nil
	}
	sem := make(chan struct{}, 6)
	var wg sync.WaitGroup
	for i, m := range ms {
		wg.Add(1)
		go func(i int, m Mutant) {
			defer wg.Done()
			sem <- struct{}{}
			defer func() { <-sem }()
			res[i] = runMutant(exe, prop, repo, m)
		}(i, m)
	}
	wg.Wait()
	return res
}

func runMutant(exe, prop, repo string, m Mutant) SelfTestResult {
	r := SelfTestResult{Name: m.Name}
	path := filepath.Join(repo, m.File)
	raw, err := os.ReadFile(path)
	if err != nil || m.Old == "" {
		r.Status, r.Detail = "skipped", "file or fragment unavailable in the current tree"
		return r
	}
	src := string(raw)
	var at int
	if m.Occurrence == 0 {
		if strings.Count(src, m.Old) != 1 {
			r.Status, r.Detail = "skipped", fmt.Sprintf("fragment occurs %d times in the current tree (the tree changed; self-test not applicable)", strings.Count(src, m.Old))
			return r
		}
		at = strings.Index(src, m.Old)
	} else {
		at = nthIndex(src, m.Old, m.Occurrence)
		if at < 0 {
			r.Status, r.Detail = "skipped", "fragment occurrence not present in the current tree"
			return r
		}
	}
	mut := src[:at] + m.New + src[at+len(m.Old):]
	for _, e := range m.More {
		if strings.Count(mut, e.Old) != 1 {
			r.Status, r.Detail = "skipped", "additional fragment not unique in the current tree"
			return r
		}
		mut = strings.Replace(mut, e.Old, e.New, 1)
	}
	ov, _ := json.Marshal(map[string]string{path: mut})
	tmp, err := os.CreateTemp("", "pintsa-overlay-*.json")
	if err != nil {
		r.Status, r.Detail = "skipped", err.Error()
		return r
	}
	defer os.Remove(tmp.Name())
	tmp.Write(ov)
	tmp.Close()
	cmd := exec.Command(exe, "-prop", prop, "-repo", repo, "-child", "-overlay", tmp.Name())
	var stdout, stderr bytes.Buffer
	cmd.Stdout, cmd.Stderr = &stdout, &stderr
	if err := cmd.Run(); err != nil {
		r.Status, r.Detail = "skipped", "mutant does not type-check or child failed: "+firstLine(stderr.String())
		return r
	}
	var obs []Obligation
	if err := json.Unmarshal(stdout.Bytes(), &obs); err != nil {
		r.Status, r.Detail = "skipped", "child output unreadable"
		return r
	}
	var reported []string
	for _, o := range obs {
		if o.Status == OK {
			continue
		}
		reported = append(reported, o.Rule+" "+o.Key)
		if o.Rule == m.ExpectRule && strings.Contains(o.Key, m.ExpectKey) {
			r.Status = "caught"
			r.Detail = o.Rule + " " + o.Key + " at " + o.Pos + ": " + o.Detail
			return r
		}
	}
	r.Status = "missed"
	r.Detail = fmt.Sprintf("expected %s %q; reported: %v", m.ExpectRule, m.ExpectKey, reported)
	return r
}

func firstLine(s string) string {
	s = strings.TrimSpace(s)
	if i := strings.IndexByte(s, '\n'); i >= 0 {
		s = s[:i]
	}
	if len(s) > 300 {
		s = s[:300]
	}
	return s
}
