package main

import (
	"go/ast"
	"go/constant"
	"go/token"
	"go/types"
	"strings"
)

func init() {
	register("C13", runC13,
		"Decides only the arrival-order and completeness clauses of range-query slicing: (R1) in Prometheus.RangeQuery every successful return is preceded on all paths by sort.Stable on the merged ranges after the loop that drains the per-slice results, and MergeRanges sorts what it collected from its map before returning it; (R2) every successful return with more than one collected range passes MergeRanges (cross-slice merge), every per-slice result is appended unconditionally when it carries no error, a slice error makes the whole query fail, and rangeQuery.Run expands range ends before publishing its value; (R3) the order used for sorting keys on series identity and start time.",
		"the interval arithmetic itself: sliceRange boundaries, AppendSampleToRanges, Overlaps cases, ExpandRangesEnd amounts — equivalence with an unsliced evaluation is a function of (start, end, step) and data and is not decided.")
}

func runC13(c *Ctx) {
	p := c.P
	c.Rule("C13-R1", "result canonicalised by a sort after the fan-in; MergeRanges sorts after map iteration", 3)
	c.Rule("C13-R2", "all slice results consumed; cross-slice merge; slice error fails the query; slice cache key complete; ends expanded", 11)
	c.Rule("C13-R3", "sort order keys on series identity and start", 2)
	defer c13SeriesLabelsAreCanonical(c, "C13-R3")
	defer c13DecodeTargetReset(c)
	defer c13CancellationMarker(c)
	defer checkSearchFlags(c, "C13-R2", "internal/promapi.AppendSampleToRanges", "internal/promapi.MergeRanges", "internal/promapi.SeriesTimeRanges.FindGaps")
	defer c14HashIsADigest(c, "C13-R2")
	rq := c.MustFunc("C13-R1", "internal/promapi.Prometheus.RangeQuery")
	if rq == nil {
		return
	}
	info := rq.Pkg.TypesInfo
	fl := p.NewFlow(rq)
	// the fan-in loop: range over a chan queryResult
	var drain *ast.RangeStmt
	ast.Inspect(rq.Decl.Body, func(n ast.Node) bool {
		if rs, ok := n.(*ast.RangeStmt); ok {
			if ch, ok := info.TypeOf(rs.X).Underlying().(*types.Chan); ok && typeQName(ch.Elem()) == "internal/promapi.queryResult" {
				if _, inLit := enclosingLit(rq.Decl.Body, rs); !inLit {
					drain = rs
				}
			}
		}
		return true
	})
	if drain == nil {
		c.Undecided("C13-R1", "RangeQuery:fan-in loop", rq.Decl.Pos(), "no range over the results channel in the function body")
		return
	}
	isRangesSel := func(e ast.Expr) bool {
		return fieldSel(info, e, "internal/promapi.SeriesTimeRanges", "Ranges")
	}
	succ := fl.Find(func(n ast.Node) bool {
		r, ok := n.(*ast.ReturnStmt)
		return ok && len(r.Results) == 2 && isNilIdent(info, r.Results[1])
	})
	c.Check(len(succ) >= 1, "C13-R1", "RangeQuery:has a success return", rq.Decl.Pos(), itoa(len(succ)), "no `return &merged, nil`")
	isSort := func(n ast.Node) bool {
		found := false
		inspectNoLit(n, func(m ast.Node) bool {
			if call, ok := m.(*ast.CallExpr); ok && len(call.Args) >= 1 {
				if fn := Callee(info, call); fn != nil && fn.Pkg() != nil && (fn.Pkg().Path() == "sort" || fn.Pkg().Path() == "slices") && (strings.HasPrefix(fn.Name(), "Sort") || fn.Name() == "Stable") && isRangesSel(call.Args[0]) {
					found = true
				}
			}
			return true
		})
		return found
	}
	// first node after the drain loop: the loop's done block
	var after *Site
	for _, b := range fl.G.Blocks {
		if b.Stmt == drain && b.Kind.String() == "RangeDone" {
			s := Site{b, 0}
			after = &s
		}
	}
	for _, s := range succ {
		target := s.Site
		ok := false
		if after != nil {
			ok, _ = fl.MustPass(*after, func(x Site) bool { return x == target }, false, isSort)
		}
		c.Check(ok, "C13-R1", "RangeQuery:sort after the fan-in loop precedes the success return", s.Inner.Pos(), "arrival order erased", "a successful result can be returned without sorting the merged ranges after all slice responses were collected: the order is the arrival order of the slices")
		// cross-slice merge unless there is at most one range
		reach := true
		if after != nil {
			reach, _ = fl.Reach(*after, func(x Site) bool { return x == target }, false, PathQ{
				Avoid: func(n ast.Node) bool { return fl.containsCall(n, "internal/promapi.MergeRanges") },
				Cut: func(atoms []Atom) bool {
					for _, a := range atoms {
						if be, ok := ast.Unparen(a.E).(*ast.BinaryExpr); ok && a.Tag == nil {
							if call, ok := be.X.(*ast.CallExpr); ok && exprStr(call.Fun) == "len" && len(call.Args) == 1 && isRangesSel(call.Args[0]) {
								if k, isC := constInt(info, be.Y); isC && k == 1 && be.Op == token.GTR && !a.Truth {
									return true
								}
							}
						}
					}
					return false
				},
			})
		}
		c.Check(!reach, "C13-R2", "RangeQuery:MergeRanges precedes the success return when more than one range was collected", s.Inner.Pos(), "cross-slice merge", "results of several slices can be returned without MergeRanges: a series present across a slice boundary is reported as two ranges")
		// success only when no slice failed
		okErr := fl.Dominated(s.Site, nil, func(a Atom) bool {
			x, isNil, ok := nilAtom(info, a)
			if !ok || !isNil {
				return false
			}
			t := info.TypeOf(x)
			return t != nil && t.String() == "error"
		})
		c.Check(okErr, "C13-R2", "RangeQuery:success only when no slice failed", s.Inner.Pos(), "dominated by lastErr == nil", "a partial result (some slices failed) can be returned as success")
	}
	// every error-free slice result is appended
	dfl := fl
	apps := dfl.Find(func(n ast.Node) bool {
		as, ok := n.(*ast.AssignStmt)
		if !ok || len(as.Lhs) != 1 || !isRangesSel(as.Lhs[0]) || as.Pos() < drain.Body.Pos() || as.End() > drain.Body.End() {
			return false
		}
		call, ok := as.Rhs[0].(*ast.CallExpr)
		return ok && exprStr(call.Fun) == "append"
	})
	c.Check(len(apps) == 1, "C13-R2", "RangeQuery:one append of slice results", drain.Pos(), "one", itoa(len(apps))+" appends inside the fan-in loop")
	if len(apps) == 1 {
		pm := parentMap(drain)
		// no guard, or only "this slice did not fail" (`if result.err == nil { append } else …`)
		var guards []Atom
		for _, g := range lexicalGuards(pm, apps[0].Inner, drain) {
			if x, isNil, ok := nilAtom(info, g); ok && isNil {
				if sel, isSel := ast.Unparen(x).(*ast.SelectorExpr); isSel && sel.Sel.Name == "err" && fieldOwner(info, sel) == "internal/promapi.queryResult" {
					continue
				}
			}
			guards = append(guards, g)
		}
		c.Check(len(guards) == 0, "C13-R2", "RangeQuery:error-free slice results appended unconditionally", apps[0].Inner.Pos(), "no guard", "the append of a slice result is conditional: some slice responses can be dropped")
		// the only way to skip it is the err != nil branch
		bad := ""
		ast.Inspect(drain.Body, func(n ast.Node) bool {
			b, ok := n.(*ast.BranchStmt)
			if !ok || b.Pos() > apps[0].Inner.Pos() {
				return true
			}
			isErr := false
			for _, a := range lexicalGuards(pm, b, drain) {
				if x, isNil, ok := nilAtom(info, a); ok && !isNil {
					if sel, isSel := ast.Unparen(x).(*ast.SelectorExpr); isSel && sel.Sel.Name == "err" {
						isErr = true
					}
				}
			}
			if !isErr {
				bad = p.Pos(b.Pos())
			}
			return true
		})
		c.Check(bad == "", "C13-R2", "RangeQuery:only failed slices skip the append", drain.Pos(), "skip guarded by result.err != nil", "a slice response can be skipped at "+bad+" although it carries no error")
	}
	// the slice size handed to sliceRange is a multiple of the step (otherwise every slice restarts the evaluation grid)
	{
		var sizeExpr ast.Expr
		var stepObj types.Object
		ast.Inspect(rq.Decl.Body, func(n ast.Node) bool {
			if call, ok := n.(*ast.CallExpr); ok && isCallTo(info, call, "internal/promapi.sliceRange") && len(call.Args) == 4 {
				stepObj, sizeExpr = objOf(info, call.Args[2]), call.Args[3]
			}
			return true
		})
		if sizeExpr == nil || stepObj == nil {
			c.Undecided("C13-R2", "RangeQuery:slice size variable", rq.Decl.Pos(), "sliceRange(start, end, step, size) call with a step variable not found")
		} else {
			// a size is fine when it is X.Round(step), the whole lookback (params.Dur()), the smaller or
			// larger of two fine sizes, or a variable every assignment of which is fine
			bad := ""
			n := 0
			var okSize func(e ast.Expr, depth int) bool
			okSize = func(e ast.Expr, depth int) bool {
				e = ast.Unparen(e)
				if depth > 4 {
					return false
				}
				switch x := e.(type) {
				case *ast.CallExpr:
					if sel, isSel := x.Fun.(*ast.SelectorExpr); isSel && sel.Sel.Name == "Round" && len(x.Args) == 1 && objOf(info, x.Args[0]) == stepObj {
						return true
					}
					if sel, isSel := x.Fun.(*ast.SelectorExpr); isSel && sel.Sel.Name == "Dur" && len(x.Args) == 0 {
						return true
					}
					if id, isID := x.Fun.(*ast.Ident); isID && (id.Name == "min" || id.Name == "max") {
						if _, isB := info.Uses[id].(*types.Builtin); isB {
							for _, a := range x.Args {
								if !okSize(a, depth+1) {
									return false
								}
							}
							return len(x.Args) > 0
						}
					}
				case *ast.Ident:
					o := info.Uses[x]
					if o == nil {
						return false
					}
					if definedByMethod(info, rq.Decl.Body, o, "Dur") {
						return true
					}
					cnt, all := 0, true
					ast.Inspect(rq.Decl.Body, func(nd ast.Node) bool {
						as, ok := nd.(*ast.AssignStmt)
						if !ok {
							return true
						}
						for i, l := range as.Lhs {
							if objOf(info, l) != o || i >= len(as.Rhs) {
								continue
							}
							cnt++
							n++
							if !okSize(as.Rhs[i], depth+1) {
								all = false
								bad = exprStr(as)
							}
						}
						return true
					})
					return cnt >= 1 && all
				}
				return false
			}
			ok := okSize(sizeExpr, 0)
			if !ok && bad == "" {
				bad = exprStr(sizeExpr)
			}
			// … and positive: X.Round(step) is zero as soon as the step is more than twice X, and
			// sliceRange advances by the slice size (a zero size never reaches the end)
			{
				var scall *ast.CallExpr
				ast.Inspect(rq.Decl.Body, func(nd ast.Node) bool {
					if call, isCall := nd.(*ast.CallExpr); isCall && isCallTo(info, call, "internal/promapi.sliceRange") {
						scall = call
					}
					return true
				})
				positive := false
				if scall != nil {
					guards := lexicalGuards(parentMap(rq.Decl.Body), scall, rq.Decl.Body)
					isZero := func(e ast.Expr) bool {
						v, isC := constInt(info, e)
						return isC && v == 0
					}
					var pos func(e ast.Expr, depth int) bool
					pos = func(e ast.Expr, depth int) bool {
						e = ast.Unparen(e)
						if depth > 4 {
							return false
						}
						if tv, has := info.Types[e]; has && tv.Value != nil {
							return constant.Sign(tv.Value) > 0
						}
						if call, isCall := e.(*ast.CallExpr); isCall {
							if id, isID := call.Fun.(*ast.Ident); isID && len(call.Args) > 0 {
								if _, isB := info.Uses[id].(*types.Builtin); isB && (id.Name == "min" || id.Name == "max") {
									all, some := true, false
									for _, a := range call.Args {
										if pos(a, depth+1) {
											some = true
										} else {
											all = false
										}
									}
									return id.Name == "min" && all || id.Name == "max" && some
								}
							}
							return false
						}
						o := objOf(info, e)
						if o == nil {
							return false
						}
						for _, g := range guards {
							be, isBin := ast.Unparen(g.E).(*ast.BinaryExpr)
							if !isBin {
								continue
							}
							op := be.Op
							if !g.Truth {
								switch op {
								case token.GTR:
									op = token.LEQ
								case token.GEQ:
									op = token.LSS
								case token.LSS:
									op = token.GEQ
								case token.LEQ:
									op = token.GTR
								case token.EQL:
									op = token.NEQ
								case token.NEQ:
									op = token.EQL
								default:
									continue
								}
							}
							x, y := be.X, be.Y
							if objOf(info, y) == o && objOf(info, x) != o {
								// write the fact with o on the left
								x, y = y, x
								switch op {
								case token.GTR:
									op = token.LSS
								case token.GEQ:
									op = token.LEQ
								case token.LSS:
									op = token.GTR
								case token.LEQ:
									op = token.GEQ
								}
							}
							if objOf(info, x) != o {
								continue
							}
							switch {
							case isZero(y) && (op == token.GTR || op == token.NEQ):
								// (durations here are never negative: X.Round(step) of a positive X, a lookback)
								return true
							case !isZero(y) && (op == token.GTR || op == token.GEQ) && pos(y, depth+1):
								return true
							}
						}
						// every definition of the variable is positive under the same facts
						if id, isID := e.(*ast.Ident); isID {
							defs := allDefs(info, rq.Decl.Body, id)
							if len(defs) == 0 {
								return false
							}
							for _, d := range defs {
								if !pos(d, depth+1) {
									return false
								}
							}
							return true
						}
						return false
					}
					positive = pos(sizeExpr, 0)
				}
				c.Check(positive, "C13-R2", "RangeQuery:slice size is positive where sliceRange is called", rq.Decl.Pos(), "guarded by a comparison of the size with zero (or with the step)",
					"nothing on the way to sliceRange excludes a slice size of zero: `(2h).Round(step)` is 0 for every step above four hours, and sliceRange then appends slices of zero length forever (the range query never returns, where the unsliced evaluation answers)")
			}
			c.Check(ok, "C13-R2", "RangeQuery:slice size is a multiple of the step", rq.Decl.Pos(), itoa(n)+" assignment(s), all `.Round(step)` or the whole lookback", "the slice size is given by `"+bad+"`, which is not a multiple of the step: each slice restarts the step grid, so gaps next to a slice boundary appear or vanish")
		}
	}
	// the only slice error that may be ignored is cancellation caused by an earlier failure
	{
		pmq := parentMap(rq.Decl.Body)
		n := 0
		ast.Inspect(rq.Decl.Body, func(nd ast.Node) bool {
			as, ok := nd.(*ast.AssignStmt)
			if !ok || len(as.Lhs) != 1 || len(as.Rhs) != 1 {
				return true
			}
			rhs, isSel := as.Rhs[0].(*ast.SelectorExpr)
			if !isSel || rhs.Sel.Name != "err" || fieldOwner(info, rhs) != "internal/promapi.queryResult" {
				return true
			}
			if t := info.TypeOf(as.Lhs[0]); t == nil || t.String() != "error" {
				return true
			}
			n++
			bad := rangeSliceErrGuard(info, pmq, as, rq.Decl.Body)
			c.Check(bad == "", "C13-R2", "RangeQuery:only context.Canceled slice errors are ignored", as.Pos(), "every other slice error fails the query", "`"+bad+"` lets a failed slice be dropped silently: the result has a hole whose extent depends on the arrival order of the slice responses")
			return true
		})
		c.Check(n == 1, "C13-R2", "RangeQuery:slice errors recorded", rq.Decl.Pos(), "one recorder", itoa(n)+" stores of result.err")
	}
	// a slice answer is cached under a key that identifies the slice completely (start, end, step)
	if ck := c.MustFunc("C13-R2", "internal/promapi.rangeQuery.CacheKey"); ck != nil {
		kinfo := ck.Pkg.TypesInfo
		for _, sf := range []string{"Start", "End", "Step"} {
			found := false
			ast.Inspect(ck.Decl.Body, func(n ast.Node) bool {
				call, ok := n.(*ast.CallExpr)
				if !ok || !isCallTo(kinfo, call, "internal/promapi.hash") {
					return true
				}
				for _, a := range call.Args {
					ast.Inspect(a, func(m ast.Node) bool {
						if sel, ok := m.(*ast.SelectorExpr); ok && sel.Sel.Name == sf {
							if inner, ok := sel.X.(*ast.SelectorExpr); ok && inner.Sel.Name == "r" && fieldOwner(kinfo, inner) == "internal/promapi.rangeQuery" {
								found = true
							}
						}
						return true
					})
				}
				return true
			})
			c.Check(found, "C13-R2", "rangeQuery.CacheKey hashes r."+sf, ck.Decl.Pos(), "hashed", "the cache key of a slice ignores r."+sf+": a slice is answered from the cached result of a different slice (truncated or shifted ranges)")
		}
	}
	// … and the upstream that answered: the members of a failover group share one cache (and one public
	// URI), and a query retried on the next upstream must not be handed the slices of the previous one
	if ck := c.MustFunc("C13-R2", "internal/promapi.rangeQuery.CacheKey"); ck != nil {
		kinfo := ck.Pkg.TypesInfo
		found := false
		ast.Inspect(ck.Decl.Body, func(n ast.Node) bool {
			call, ok := n.(*ast.CallExpr)
			if !ok || !isCallTo(kinfo, call, "internal/promapi.hash") {
				return true
			}
			for _, a := range call.Args {
				ast.Inspect(a, func(m ast.Node) bool {
					if sel, ok := m.(*ast.SelectorExpr); ok && fieldSel(kinfo, sel, "internal/promapi.Prometheus", "unsafeURI") {
						found = true
					}
					return true
				})
			}
			return true
		})
		c.Check(found, "C13-R2", "rangeQuery.CacheKey hashes the upstream's own URI", ck.Decl.Pos(), "prom.unsafeURI", "the cache key of a slice does not name the upstream that answered (its request URI): after a failover in the middle of a query the next upstream is handed slices cached from the previous one, and the merged result mixes the data of two servers")
	}
	// rangeQuery.Run: ExpandRangesEnd before value is published
	if run := c.MustFunc("C13-R2", "internal/promapi.rangeQuery.Run"); run != nil {
		rfl := p.NewFlow(run)
		rinfo := run.Pkg.TypesInfo
		stores := rfl.Find(func(n ast.Node) bool {
			as, ok := n.(*ast.AssignStmt)
			if !ok {
				return false
			}
			for _, l := range as.Lhs {
				if sel, ok := l.(*ast.SelectorExpr); ok && sel.Sel.Name == "value" && fieldOwner(rinfo, sel) == "internal/promapi.queryResult" {
					return true
				}
			}
			return false
		})
		ok := len(stores) >= 1
		for _, s := range stores {
			target := s.Site
			okE, _ := rfl.MustPass(rfl.Entry(), func(x Site) bool { return x == target }, false, func(n ast.Node) bool {
				return rfl.containsCall(n, "internal/promapi.ExpandRangesEnd")
			})
			if !okE {
				ok = false
			}
		}
		c.Check(ok, "C13-R2", "rangeQuery.Run:range ends expanded before the value is published", run.Decl.Pos(), "ExpandRangesEnd precedes qr.value", "a slice's ranges are published without end expansion (a single sample no longer covers its step; adjacent slices do not touch)")
	}
	// MergeRanges sorts after ranging over its map
	if mr := c.MustFunc("C13-R1", "internal/promapi.MergeRanges"); mr != nil {
		minfo := mr.Pkg.TypesInfo
		mfl := p.NewFlow(mr)
		rets := mfl.Find(func(n ast.Node) bool {
			r, ok := n.(*ast.ReturnStmt)
			if !ok || len(r.Results) != 2 {
				return false
			}
			// returns built from the map (not the untouched source)
			o := objOf(minfo, r.Results[0])
			if o == nil {
				return false
			}
			_, isVar := o.(*types.Var)
			// not the untouched input (the function's first parameter)
			return isVar && o != paramObj(mr, 0)
		})
		ok := len(rets) >= 1
		for _, r := range rets {
			ret := r.Inner.(*ast.ReturnStmt)
			out := objOf(minfo, ret.Results[0])
			target := r.Site
			sorted, _ := mfl.MustPass(mfl.Entry(), func(x Site) bool { return x == target }, false, func(n ast.Node) bool {
				found := false
				inspectNoLit(n, func(m ast.Node) bool {
					if call, isCall := m.(*ast.CallExpr); isCall && len(call.Args) >= 1 {
						if fn := Callee(minfo, call); fn != nil && fn.Pkg() != nil && (fn.Pkg().Path() == "sort" || fn.Pkg().Path() == "slices") && objOf(minfo, call.Args[0]) == out {
							found = true
						}
					}
					return true
				})
				return found
			})
			if !sorted {
				ok = false
			}
		}
		c.Check(ok, "C13-R1", "MergeRanges:sorts what it collected from the fingerprint map", mr.Decl.Pos(), "sorted", "MergeRanges returns ranges in map iteration order")
	}
	// ---- R3 ----
	if less := c.MustFunc("C13-R3", "internal/promapi.MetricTimeRanges.Less"); less != nil {
		linfo := less.Pkg.TypesInfo
		usesFP, usesStart := false, false
		ast.Inspect(less.Decl.Body, func(n ast.Node) bool {
			if sel, ok := n.(*ast.SelectorExpr); ok && fieldOwner(linfo, sel) == "internal/promapi.MetricTimeRange" {
				switch sel.Sel.Name {
				case "Fingerprint", "Labels":
					usesFP = true
				case "Start":
					usesStart = true
				}
			}
			return true
		})
		c.Check(usesFP, "C13-R3", "Less:orders by series identity", less.Decl.Pos(), "Fingerprint/Labels", "the range order no longer depends on the series")
		c.Check(usesStart, "C13-R3", "Less:orders ranges of one series by start", less.Decl.Pos(), "Start", "ranges of one series are no longer ordered by start time")
	}
}

// enclosingLit reports whether n lies inside a function literal within root.
func enclosingLit(root ast.Node, n ast.Node) (*ast.FuncLit, bool) {
	// structural containment (positions of code expanded from a helper lie elsewhere)
	var found *ast.FuncLit
	var lits []*ast.FuncLit
	var stack []ast.Node
	ast.Inspect(root, func(m ast.Node) bool {
		if m == nil {
			top := stack[len(stack)-1]
			stack = stack[:len(stack)-1]
			if _, ok := top.(*ast.FuncLit); ok {
				lits = lits[:len(lits)-1]
			}
			return true
		}
		stack = append(stack, m)
		if lit, ok := m.(*ast.FuncLit); ok {
			lits = append(lits, lit)
		}
		if m == n && len(lits) > 0 {
			found = lits[len(lits)-1]
		}
		return true
	})
	return found, found != nil
}

// definedByMethod: obj is defined in body by `obj := x.<method>()`.
func definedByMethod(info *types.Info, body ast.Node, obj types.Object, method string) bool {
	found := false
	ast.Inspect(body, func(n ast.Node) bool {
		as, ok := n.(*ast.AssignStmt)
		if !ok || len(as.Lhs) != 1 || len(as.Rhs) != 1 || obj == nil {
			return true
		}
		id, ok := as.Lhs[0].(*ast.Ident)
		if !ok || (info.Defs[id] != obj && info.Uses[id] != obj) {
			return true
		}
		if call, ok := ast.Unparen(as.Rhs[0]).(*ast.CallExpr); ok {
			if sel, ok := call.Fun.(*ast.SelectorExpr); ok && sel.Sel.Name == method {
				found = true
			}
		}
		return true
	})
	return found
}

// c13DecodeTargetReset: streamSampleStream decodes every series of a slice
// response into ONE variable declared outside the per-element callback. The
// streaming decoder fills maps in place, so a map-typed field of that variable
// (the label set) must be replaced by a fresh value inside the callback, or
// labels of an earlier series leak into later ones and the same series has
// different identities in different slices (the cross-slice merge then fails).
func c13DecodeTargetReset(c *Ctx) {
	fi := c.MustFunc("C13-R2", "internal/promapi.streamSampleStream")
	if fi == nil {
		return
	}
	info := fi.Pkg.TypesInfo
	// the decode target: a local of a struct type whose address is taken in a call argument
	var target types.Object
	ast.Inspect(fi.Decl.Body, func(n ast.Node) bool {
		u, ok := n.(*ast.UnaryExpr)
		if !ok || u.Op != token.AND {
			return true
		}
		id, ok := u.X.(*ast.Ident)
		if !ok {
			return true
		}
		if v, ok := info.Uses[id].(*types.Var); ok && !v.IsField() {
			if _, isStruct := v.Type().Underlying().(*types.Struct); isStruct && typeQName(v.Type()) != "" && target == nil {
				target = v
			}
		}
		return true
	})
	if target == nil {
		c.Undecided("C13-R2", "streamSampleStream:decode target", fi.Decl.Pos(), "no `&local` of a struct type handed to the decoder")
		return
	}
	st := target.Type().Underlying().(*types.Struct)
	n := 0
	for i := 0; i < st.NumFields(); i++ {
		f := st.Field(i)
		if _, isMap := f.Type().Underlying().(*types.Map); !isMap {
			continue
		}
		n++
		reset := false
		ast.Inspect(fi.Decl.Body, func(nd ast.Node) bool {
			lit, ok := nd.(*ast.FuncLit)
			if !ok {
				return true
			}
			ast.Inspect(lit.Body, func(m ast.Node) bool {
				as, ok := m.(*ast.AssignStmt)
				if !ok || len(as.Lhs) != 1 || len(as.Rhs) != 1 {
					return true
				}
				sel, ok := as.Lhs[0].(*ast.SelectorExpr)
				if !ok || sel.Sel.Name != f.Name() || !isObj(info, sel.X, target) {
					return true
				}
				switch r := ast.Unparen(as.Rhs[0]).(type) {
				case *ast.CompositeLit:
					reset = true
				case *ast.CallExpr:
					if id, ok := r.Fun.(*ast.Ident); ok && id.Name == "make" {
						reset = true
					}
				case *ast.Ident:
					if r.Name == "nil" {
						reset = true
					}
				}
				return true
			})
			return true
		})
		c.Check(reset, "C13-R2", "streamSampleStream:decode target field "+f.Name()+" (map) is replaced after every series", fi.Decl.Pos(), "fresh value per series",
			"the map field "+f.Name()+" of the shared decode target is not replaced inside the per-series callback: the decoder adds keys in place, so labels of an earlier series stay on later ones; a series then has different label sets in different slices and is not merged across the slice boundary")
	}
	c.Check(n >= 1, "C13-R2", "streamSampleStream:map fields of the decode target enumerated", fi.Decl.Pos(), itoa(n), "no map-typed field found in the decode target")
}

// c13CancellationMarker: RangeQuery drops slice results whose error is
// context.Canceled (they only follow the failure of a sibling slice, whose
// error is the one reported). That is sound only while nothing but a cancelled
// context produces that error: in internal/promapi context.Canceled is only
// ever tested for (second argument of errors.Is) or rendered (.Error()), never
// returned, stored or wrapped; and processJob returns what Run() produced — the
// result variable itself, a cached result, or the ErrUnsupported sentinel.
func c13CancellationMarker(c *Ctx) {
	p := c.P
	prom := p.Pkg("internal/promapi")
	if prom == nil {
		return
	}
	info := prom.TypesInfo
	n := 0
	for _, f := range prom.Syntax {
		if p.IsTestFile(f.Pos()) {
			continue
		}
		pm := parentMap(f)
		ast.Inspect(f, func(nd ast.Node) bool {
			sel, ok := nd.(*ast.SelectorExpr)
			if !ok {
				return true
			}
			v, isVar := info.Uses[sel.Sel].(*types.Var)
			if !isVar || v.Pkg() == nil || v.Pkg().Path() != "context" || v.Name() != "Canceled" {
				return true
			}
			n++
			ok = false
			var parent ast.Node = pm[sel]
			for {
				if pe, isP := parent.(*ast.ParenExpr); isP {
					parent = pm[pe]
					continue
				}
				break
			}
			switch x := parent.(type) {
			case *ast.CallExpr:
				if fn := Callee(info, x); fn != nil && fn.Pkg() != nil && fn.Pkg().Path() == "errors" && fn.Name() == "Is" && len(x.Args) == 2 && ast.Unparen(x.Args[1]) == ast.Expr(sel) {
					ok = true
				}
			case *ast.SelectorExpr:
				ok = x.Sel.Name == "Error"
			}
			c.Check(ok, "C13-R2", "context.Canceled is only tested for, never produced ("+p.Pos(sel.Pos())[:strings.LastIndex(p.Pos(sel.Pos()), ":")]+")", sel.Pos(), "errors.Is target / rendered", "context.Canceled is stored, returned or wrapped here: RangeQuery silently drops slice results carrying that error (they normally follow a sibling slice's failure), so a slice that failed for another reason but is relabelled as cancelled leaves a slice-shaped hole and no error")
			return true
		})
	}
	c.Check(n >= 3, "C13-R2", "uses of context.Canceled in internal/promapi enumerated", token.NoPos, itoa(n), "fewer uses of context.Canceled than confirmed ("+itoa(n)+")")

	pj := c.MustFunc("C13-R2", "internal/promapi.processJob")
	if pj == nil {
		return
	}
	var resultObj types.Object
	ast.Inspect(pj.Decl.Body, func(nd ast.Node) bool {
		if as, ok := nd.(*ast.AssignStmt); ok && len(as.Rhs) == 1 && len(as.Lhs) == 1 {
			if call, isCall := as.Rhs[0].(*ast.CallExpr); isCall {
				if fn := Callee(info, call); fn != nil && fn.Name() == "Run" && strings.HasSuffix(funcQName(fn), "querier.Run") {
					resultObj = objOf(info, as.Lhs[0])
				}
			}
		}
		return true
	})
	if resultObj == nil {
		c.Undecided("C13-R2", "processJob:Run result", pj.Decl.Pos(), "no `x := job.query.Run()`")
		return
	}
	bad := ""
	inspectNoLit(pj.Decl.Body, func(nd ast.Node) bool {
		switch x := nd.(type) {
		case *ast.AssignStmt:
			for _, l := range x.Lhs {
				if sel, ok := ast.Unparen(l).(*ast.SelectorExpr); ok && objOf(info, sel.X) == resultObj && (sel.Sel.Name == "err" || sel.Sel.Name == "value") {
					bad = "assigns " + roleStr(info, l) + " at " + p.Pos(x.Pos())
				}
				if x.Tok != token.DEFINE && objOf(info, l) == resultObj {
					if _, isCall := x.Rhs[0].(*ast.CallExpr); !isCall {
						bad = "replaces the Run() result at " + p.Pos(x.Pos())
					}
				}
			}
		case *ast.ReturnStmt:
			if len(x.Results) != 1 {
				return true
			}
			r := ast.Unparen(x.Results[0])
			if objOf(info, r) == resultObj {
				return true
			}
			if _, isTA := r.(*ast.TypeAssertExpr); isTA {
				return true // cached result
			}
			if cl, isLit := r.(*ast.CompositeLit); isLit {
				ev := litField(cl, "err")
				if ev != nil && litField(cl, "value") == nil {
					if v, isVar := info.Uses[identOf(ev)].(*types.Var); isVar && v.Pkg() == prom.Types && v.Parent() == prom.Types.Scope() && v.Name() == "ErrUnsupported" {
						return true
					}
				}
			}
			bad = "returns `" + roleStr(info, r) + "` at " + p.Pos(x.Pos())
		}
		return true
	})
	c.Check(bad == "", "C13-R2", "processJob:hands back what Run() produced", pj.Decl.Pos(), "result, cached result or ErrUnsupported", "processJob "+bad+": the error (or value) a slice query produced is replaced on its way to the fan-in, so RangeQuery's decision which slice errors fail the query is taken on a different error")
}
