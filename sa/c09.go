package main

import (
	"go/ast"
	"go/token"
	"go/types"
	"strings"
)

func init() {
	register("C09", runC09,
		"Decides the table and shape clauses of rule selection for all configurations: (R1) in durationMatch.isMatch the Go comparison between the rule's duration and the configured one spells the operator constant of its case, and parseMatchOperation is the identity on operator words; (R2) state vocabulary and per-command default (shared with C03-R4), defaultRuleMatch fills State only when empty; (R3) the match-time regexps of path/name/label/annotation conditions are built only by strictRegex, whose constant wrapper must group the user's pattern (`^(?:`…`)$`), otherwise alternations escape the anchors; (R4) label conditions iterate Entry.Labels(), which merges group labels in every case; (R5) Match.IsMatch lets each of the nine condition fields influence its result; (R6) in config.isMatch a matching ignore block only leads to `return false` and `return true` is reachable only with no match blocks or after a matching one.",
		"regexp semantics beyond the wrapper, duration parsing, HCL decoding.")
}

func runC09(c *Ctx) {
	defer c09PerIterationAddresses(c, "C09-R4")
	defer c09EveryRuleBlockParsed(c, "C09-R6")
	defer pureClosure(c, "C09-R3", "match/ignore conditions keep no package-level state", "strictRegex, Match.IsMatch and Match.validate", "a regexp cached under its pattern text is shared by everything that compiles that text, anchored or not: whether a condition is fully anchored then depends on who compiled the pattern first", "internal/config.strictRegex", "internal/config.Match.IsMatch", "internal/config.Match.validate")
	defer c09NoStateDefaultInIsMatch(c, "C09-R2")
	defer c09CommandTravelsWithTheContext(c, "C09-R2")
	defer c09BlocksAreNotEditedInPlace(c, "C09-R4")
	p := c.P
	c.Rule("C09-R1", "duration operator tables", 12)
	c.Rule("C09-R2", "state vocabulary, per-command default, defaultRuleMatch", 16)
	c.Rule("C09-R3", "match-time regexps only via strictRegex; wrapper groups the pattern", 8)
	c.Rule("C09-R4", "label conditions see group labels", 5)
	c.Rule("C09-R5", "Match.IsMatch: every condition field influences the result", 9)
	c.Rule("C09-R6", "ignore dominates; any-match disjunction (isMatch evaluated on every shape of its block lists)", 25)
	// the merged label view is computed per rule without touching the group: shared with C11-R3
	defer c11Globals(c, "C09-R4")

	cfg := p.Pkg("internal/config")
	if cfg == nil {
		c.Undecided("C09-R1", "anchor:internal/config", token.NoPos, "package not found")
		return
	}
	info := cfg.TypesInfo

	// ---- R1 ----
	opTok := map[string]token.Token{"<": token.LSS, "<=": token.LEQ, "=": token.EQL, "!=": token.NEQ, ">=": token.GEQ, ">": token.GTR}
	if im := c.MustFunc("C09-R1", "internal/config.durationMatch.isMatch"); im != nil {
		recv, param := recvAndParam(im)
		seen := map[string]bool{}
		for _, sw := range findSwitches(im.Decl.Body, func(s *ast.SwitchStmt) bool { return s.Tag != nil }) {
			cases, _ := switchCases(sw)
			for _, cs := range cases {
				word, ok := constString(info, cs.Expr)
				if !ok {
					c.Undecided("C09-R1", "isMatch:case:"+exprStr(cs.Expr), cs.Expr.Pos(), "case label is not a constant")
					continue
				}
				seen[word] = true
				rets := returnsIn(cs.Clause.Body)
				if len(rets) != 1 || len(rets[0].Results) != 1 {
					c.Undecided("C09-R1", "isMatch:"+word, cs.Clause.Pos(), "case is not a single return")
					continue
				}
				be, ok := ast.Unparen(rets[0].Results[0]).(*ast.BinaryExpr)
				if !ok {
					c.Undecided("C09-R1", "isMatch:"+word, cs.Clause.Pos(), "case does not return a comparison")
					continue
				}
				lhsIsRule := objOf(info, be.X) == param
				rootY, _, _ := accessPath(info, be.Y)
				rhsIsCfg := rootY == recv && recv != nil
				want, known := opTok[word]
				if !lhsIsRule && (be.Op == token.EQL || be.Op == token.NEQ) {
					// == and != are symmetric: accept the configured duration on the left
					rootX, _, _ := accessPath(info, be.X)
					if objOf(info, be.Y) == param && rootX == recv && recv != nil {
						lhsIsRule, rhsIsCfg = true, true
					}
				}
				c.Check(known && lhsIsRule && rhsIsCfg && be.Op == want, "C09-R1", "isMatch:operator "+strq(word), be.Pos(), "rule duration "+be.Op.String()+" configured duration",
					"operator "+strq(word)+" is implemented as `"+exprStr(be)+"`")
			}
		}
		for w := range opTok {
			c.Check(seen[w], "C09-R1", "isMatch:handles "+strq(w), im.Decl.Pos(), "handled", "operator "+strq(w)+" has no case (falls to `return false`)")
		}
	}
	if pm := c.MustFunc("C09-R1", "internal/config.parseMatchOperation"); pm != nil && !c09ParseOperationByEvaluation(c, pm, opTok) {
		n := 0
		for _, sw := range findSwitches(pm.Decl.Body, func(s *ast.SwitchStmt) bool { return s.Tag != nil }) {
			cases, deflt := switchCases(sw)
			for _, cs := range cases {
				word, ok := constString(info, cs.Expr)
				rets := returnsIn(cs.Clause.Body)
				if !ok || len(rets) != 1 || len(rets[0].Results) != 2 {
					c.Undecided("C09-R1", "parseMatchOperation:case:"+exprStr(cs.Expr), cs.Expr.Pos(), "unexpected case shape")
					continue
				}
				got, ok2 := constString(info, rets[0].Results[0])
				n++
				c.Check(ok2 && got == word && isNilIdent(info, rets[0].Results[1]), "C09-R1", "parseMatchOperation:"+strq(word), cs.Clause.Pos(), "identity", "operator word "+strq(word)+" parses as "+strq(got))
			}
			okDef := false
			if deflt != nil {
				rets := returnsIn(deflt.Body)
				okDef = len(rets) == 1 && len(rets[0].Results) == 2 && !isNilIdent(info, rets[0].Results[1])
			}
			c.Check(okDef, "C09-R1", "parseMatchOperation:unknown operator is an error", pm.Decl.Pos(), "rejected", "unknown operator words are accepted")
		}
		c.Check(n == 6, "C09-R1", "parseMatchOperation:six operators", pm.Decl.Pos(), "6", "operator count is "+itoa(n))
	}

	// ---- R2 ----
	c03StateTables(c, "C09-R2")
	c09StateDefault(c, "C09-R2")
	for name, val := range map[string]string{"AlertingRuleType": "alerting", "RecordingRuleType": "recording"} {
		k, _ := p.LookupObj("internal/config", name).(*types.Const)
		got := ""
		if k != nil {
			got = strings.Trim(k.Val().ExactString(), "\"")
		}
		c.Check(got == val, "C09-R2", "kind word:"+name+"="+val, token.NoPos, "documented", name+" is "+strq(got))
	}

	// ---- R3 ----
	if sr := c.MustFunc("C09-R3", "internal/config.strictRegex"); sr != nil {
		sig := sr.Obj.Type().(*types.Signature)
		sParam := sig.Params().At(0)
		var pattern ast.Expr
		ast.Inspect(sr.Decl.Body, func(n ast.Node) bool {
			if call, ok := n.(*ast.CallExpr); ok {
				if fn := Callee(info, call); fn != nil && fn.Pkg() != nil && fn.Pkg().Path() == "regexp" && (fn.Name() == "MustCompile" || fn.Name() == "Compile") && len(call.Args) == 1 {
					pattern = call.Args[0]
				}
			}
			return true
		})
		if pattern == nil {
			c.Undecided("C09-R3", "strictRegex:pattern", sr.Decl.Pos(), "no regexp.MustCompile call found")
		} else {
			parts := flattenConcat(pattern)
			prefix, suffix := "", ""
			shape := len(parts) == 3 && objOf(info, parts[1]) == sParam
			if shape {
				prefix, _ = constString(info, parts[0])
				suffix, _ = constString(info, parts[2])
			}
			okPre := prefix == "^(?:" || prefix == "^(" || prefix == `\A(?:` || prefix == `\A(`
			okSuf := suffix == ")$" || suffix == `)\z`
			c.Check(shape && okPre && okSuf, "C09-R3", "strictRegex:wrapper groups the pattern; built as "+roleStr(info, pattern), pattern.Pos(), "prefix "+strq(prefix)+" suffix "+strq(suffix),
				"strictRegex builds `"+exprStr(pattern)+"`: the anchors bind tighter than `|`, so name = \"foo|bar\" also selects `foobaz` (docs: patterns are fully anchored)")
		}
	}
	for _, fn := range []string{"internal/config.Match.IsMatch", "internal/config.MatchLabel.isMatching", "internal/config.MatchAnnotation.isMatching"} {
		fi := c.MustFunc("C09-R3", fn)
		if fi == nil {
			continue
		}
		pm := parentMap(fi.Decl.Body)
		for _, fld := range []struct{ typ, name string }{
			{"internal/config.Match", "Path"}, {"internal/config.Match", "Name"},
			{"internal/config.MatchLabel", "Key"}, {"internal/config.MatchLabel", "Value"},
			{"internal/config.MatchAnnotation", "Key"}, {"internal/config.MatchAnnotation", "Value"},
		} {
			n, bad := 0, ""
			ast.Inspect(fi.Decl.Body, func(nd ast.Node) bool {
				sel, ok := nd.(*ast.SelectorExpr)
				if !ok || !fieldSel(info, sel, fld.typ, fld.name) {
					return true
				}
				n++
				switch par := pm[sel].(type) {
				case *ast.BinaryExpr:
					if (par.Op == token.NEQ || par.Op == token.EQL) && (exprStr(par.X) == `""` || exprStr(par.Y) == `""`) {
						return true
					}
					bad = exprStr(par)
				case *ast.CallExpr:
					if isCallTo(info, par, "internal/config.strictRegex") {
						return true
					}
					bad = exprStr(par)
				default:
					bad = "used outside strictRegex"
				}
				return true
			})
			if n == 0 {
				continue
			}
			short := fn[strings.LastIndex(fn, "/")+1:]
			c.Check(bad == "", "C09-R3", short+":"+fld.name+" reaches a regexp only through strictRegex", fi.Decl.Pos(), itoa(n)+" uses", "pattern field is used as `"+bad+"`")
		}
		// no direct regexp construction in these functions
		direct := ""
		ast.Inspect(fi.Decl.Body, func(nd ast.Node) bool {
			if call, ok := nd.(*ast.CallExpr); ok {
				if f := Callee(info, call); f != nil && f.Pkg() != nil && f.Pkg().Path() == "regexp" && strings.Contains(f.Name(), "ompile") {
					direct = exprStr(call)
				}
			}
			return true
		})
		short := fn[strings.LastIndex(fn, "/")+1:]
		c.Check(direct == "", "C09-R3", short+":no direct regexp construction", fi.Decl.Pos(), "none", "regexp built directly: "+direct)
	}

	// ---- R4 ----
	if ml := c.MustFunc("C09-R4", "internal/config.MatchLabel.isMatching"); ml != nil {
		ok := false
		ast.Inspect(ml.Decl.Body, func(n ast.Node) bool {
			var scanned ast.Expr
			if rs, isR := n.(*ast.RangeStmt); isR {
				scanned = rs.X
			}
			// the scan written as slices.ContainsFunc / IndexFunc over the same list
			if call, isCall := n.(*ast.CallExpr); isCall && len(call.Args) == 2 {
				if fn := Callee(info, call); fn != nil && fn.Pkg() != nil && fn.Pkg().Path() == "slices" && (fn.Name() == "ContainsFunc" || fn.Name() == "IndexFunc") {
					scanned = call.Args[0]
				}
			}
			if scanned != nil {
				if sel, isSel := ast.Unparen(scanned).(*ast.SelectorExpr); isSel && sel.Sel.Name == "Items" {
					if call, isCall := ast.Unparen(sel.X).(*ast.CallExpr); isCall && isCallTo(info, call, "internal/discovery.Entry.Labels") {
						ok = true
					}
				}
			}
			return true
		})
		c.Check(ok, "C09-R4", "MatchLabel.isMatching ranges over entry.Labels().Items", ml.Decl.Pos(), "group-aware label set", "label conditions no longer iterate Entry.Labels() (group labels are invisible)")
		// nothing about the entry decides the result before the merged label set was
		// looked at: a return that can be reached without passing the loop over
		// entry.Labels().Items is not guarded by a condition on the entry
		{
			fl := p.NewFlow(ml)
			entryP := paramObj(ml, 0)
			pmM := parentMap(ml.Decl.Body)
			isLoop := func(n ast.Node) bool {
				found := false
				inspectNoLit(n, func(m ast.Node) bool {
					if call, isCall := m.(*ast.CallExpr); isCall && isCallTo(info, call, "internal/discovery.Entry.Labels") {
						found = true
					}
					return true
				})
				return found
			}
			bad := ""
			for _, r := range fl.Find(func(n ast.Node) bool { _, isRet := n.(*ast.ReturnStmt); return isRet }) {
				target := r.Site
				if reach, _ := fl.Reach(fl.Entry(), func(s Site) bool { return s == target }, false, PathQ{Avoid: isLoop}); !reach {
					continue
				}
				for _, a := range lexicalGuards(pmM, r.Inner, ml.Decl.Body) {
					if mentionsObj(info, a.E, entryP) {
						bad = roleStr(info, a.E)
					}
				}
			}
			c.Check(bad == "", "C09-R4", "MatchLabel.isMatching:no verdict about the entry before its merged labels were read", ml.Decl.Pos(), "no entry-dependent early return",
				"the label condition returns under `"+bad+"` without having looked at entry.Labels(): a shortcut on the rule's own labels hides the labels the rule inherits from its group, so `label` conditions never match rules whose labels come only from the group")
		}
	}
	if el := c.MustFunc("C09-R4", "internal/discovery.Entry.Labels"); el != nil {
		c09EntryLabelsSemantics(c, el)
	}

	// ---- R5 ----
	if im := c.MustFunc("C09-R5", "internal/config.Match.IsMatch"); im != nil {
		recv, _ := recvAndParam(im)
		tn := p.LookupType("internal/config", "Match")
		for _, f := range structFields(tn) {
			c.Check(fieldInfluencesResult(im, recv, "internal/config.Match", f), "C09-R5", "Match.IsMatch:"+f, im.Decl.Pos(), "influences the result",
				"condition `"+f+"` of a match/ignore block no longer influences Match.IsMatch")
		}
	}

	// ---- R6 ----
	if ism := c.MustFunc("C09-R6", "internal/config.isMatch"); ism != nil {
		c09IsMatchSemantics(c, ism)
	}
	// ignore blocks are used as configured (no state default), match blocks go through defaultRuleMatch
	if npr := c.MustFunc("C09-R2", "internal/config.newParsedRule"); npr != nil {
		okIgn, okMatch := false, false
		for _, cl := range compositeLits(info, npr.Decl.Body, "internal/config.parsedRule") {
			if v := litField(cl, "ignore"); v != nil && fieldSel(info, v, "internal/config.Rule", "Ignore") {
				okIgn = true
			}
			if v := litField(cl, "match"); v != nil {
				if call, ok := v.(*ast.CallExpr); ok && isCallTo(info, call, "internal/config.defaultRuleMatch") && len(call.Args) == 2 && fieldSel(info, call.Args[0], "internal/config.Rule", "Match") {
					okMatch = true
				}
			}
		}
		c.Check(okIgn, "C09-R2", "newParsedRule:ignore blocks taken as configured", npr.Decl.Pos(), "ignore: rule.Ignore", "ignore blocks are transformed before use (e.g. given a state default): a fully satisfied ignore block can stop excluding rules")
		c.Check(okMatch, "C09-R2", "newParsedRule:match blocks get the command's state default", npr.Decl.Pos(), "match: defaultRuleMatch(rule.Match, …)", "match blocks no longer go through defaultRuleMatch")
	}
	// path conditions see the path the file was found under
	if ism := c.MustFunc("C09-R3", "internal/config.isMatch"); ism != nil {
		sig := ism.Obj.Type().(*types.Signature)
		entryP := sig.Params().At(paramIndex(sig, "e"))
		mim := p.Func("internal/config.Match.IsMatch")
		n, good := 0, 0
		// in isMatch itself, and in helpers of the package it hands the entry to (the helper's
		// parameter then stands for the entry)
		var scan func(body ast.Node, entry types.Object, depth int)
		scan = func(body ast.Node, entry types.Object, depth int) {
			ast.Inspect(body, func(nd ast.Node) bool {
				call, ok := nd.(*ast.CallExpr)
				if !ok || mim == nil {
					return true
				}
				fn := Callee(info, call)
				if fn == mim.Obj {
					n++
					i := paramIndex(mim.Obj.Type().(*types.Signature), "path")
					j := paramIndex(mim.Obj.Type().(*types.Signature), "e")
					if i >= 0 && j >= 0 && fieldSel(info, call.Args[i], "internal/discovery.Path", "Name") && objOf(info, call.Args[j]) == entry {
						if r, _, _ := accessPath(info, call.Args[i]); r == entry {
							good++
						}
					}
					return true
				}
				if hf := p.FuncOf(fn); hf != nil && depth < 2 && hf.Pkg == ism.Pkg && hf != ism && hf.Decl.Body != nil && hf.Decl.Recv == nil {
					k := 0
					for _, f := range hf.Decl.Type.Params.List {
						for _, nm := range f.Names {
							if k < len(call.Args) && objOf(info, call.Args[k]) == entry {
								scan(hf.Decl.Body, info.Defs[nm], depth+1)
							}
							k++
						}
					}
				}
				return true
			})
		}
		scan(ism.Decl.Body, entryP, 0)
		c.Check(n >= 1 && n == good, "C09-R3", "isMatch:path conditions evaluated on e.Path.Name", ism.Decl.Pos(), itoa(good)+" call(s)", "path conditions are not evaluated against the entry's Path.Name ("+itoa(good)+"/"+itoa(n)+" calls)")
	}
	// isMatch is what GetChecksForEntry and parsedRule.isEnabled use
	for _, fn := range []string{"internal/config.Config.GetChecksForEntry", "internal/config.parsedRule.isEnabled"} {
		if fi := c.MustFunc("C09-R6", fn); fi != nil {
			n := 0
			ast.Inspect(fi.Decl.Body, func(nd ast.Node) bool {
				if call, ok := nd.(*ast.CallExpr); ok && isCallTo(info, call, "internal/config.isMatch") {
					n++
				}
				return true
			})
			c.Check(n > 0, "C09-R6", fn[strings.LastIndex(fn, ".")+1:]+" selects through isMatch", fi.Decl.Pos(), "uses isMatch", "selection no longer goes through isMatch")
		}
	}
}

// flattenConcat splits a + b + c into its operands.
func flattenConcat(e ast.Expr) []ast.Expr {
	e = ast.Unparen(e)
	if be, ok := e.(*ast.BinaryExpr); ok && be.Op == token.ADD {
		return append(flattenConcat(be.X), flattenConcat(be.Y)...)
	}
	return []ast.Expr{e}
}

// c09StateDefault: defaultRuleMatch fills Match.State from the command's
// default states only when the block leaves it empty (len == 0, which covers
// both an omitted and an explicitly empty list), only for match blocks, and a
// rule without match{} gets the state-only default block. Shared by C09-R2 and
// C03-R4 (which rules `pint ci` looks at is part of the change classification).
func c09StateDefault(c *Ctx, R string) {
	p := c.P
	cfg := p.Pkg("internal/config")
	if cfg == nil {
		c.Undecided(R, "anchor:internal/config", token.NoPos, "package not found")
		return
	}
	info := cfg.TypesInfo
	if drm0 := c.MustFunc(R, "internal/config.defaultRuleMatch"); drm0 != nil {
		// follow a helper the body may have been extracted into (depth 1): the function that stores Match.State
		drm := drm0
		storesState := func(fi *FuncInfo) bool {
			found := false
			ast.Inspect(fi.Decl.Body, func(n ast.Node) bool {
				if as, ok := n.(*ast.AssignStmt); ok {
					for _, l := range as.Lhs {
						if fieldSel(info, l, "internal/config.Match", "State") {
							found = true
						}
					}
				}
				return true
			})
			return found
		}
		if !storesState(drm0) {
			ast.Inspect(drm0.Decl.Body, func(n ast.Node) bool {
				if call, ok := n.(*ast.CallExpr); ok {
					if callee := p.FuncOf(Callee(info, call)); callee != nil && callee.Pkg == cfg && callee.Decl.Body != nil && storesState(callee) {
						drm = callee
					}
				}
				return true
			})
		}
		// the defaulting function is applied to match blocks only
		if drm != drm0 {
			for _, cs := range p.CallersOf(drm.Obj) {
				c.Check(cs.Caller == drm0, R, "state defaulting helper called from "+cs.Caller.Name, cs.Call.Pos(), "only for match blocks", "the state default is also applied outside defaultRuleMatch (ignore blocks must not get a state default)")
			}
		}
		fl := p.NewFlow(drm)
		sig := drm.Obj.Type().(*types.Signature)
		if paramIndex(sig, "defaultStates") < 0 {
			c.Undecided(R, "defaultRuleMatch:defaultStates parameter", drm.Decl.Pos(), "parameter not found in "+drm.Name)
			return
		}
		def := sig.Params().At(paramIndex(sig, "defaultStates"))
		stores := fl.Find(func(n ast.Node) bool {
			as, ok := n.(*ast.AssignStmt)
			if !ok {
				return false
			}
			for _, l := range as.Lhs {
				if fieldSel(info, l, "internal/config.Match", "State") {
					return true
				}
			}
			return false
		})
		c.Check(len(stores) == 1, R, "defaultRuleMatch:one store to Match.State", drm.Decl.Pos(), "single store", itoa(len(stores))+" stores to Match.State")
		for _, s := range stores {
			as := s.Inner.(*ast.AssignStmt)
			fromDefault := objOf(info, as.Rhs[0]) == def
			root, _, _ := accessPath(info, as.Lhs[0])
			if root == nil {
				// dst[i].State: the list variable
				for cur := ast.Unparen(as.Lhs[0]); cur != nil; {
					switch x := cur.(type) {
					case *ast.SelectorExpr:
						cur = ast.Unparen(x.X)
					case *ast.IndexExpr:
						cur = ast.Unparen(x.X)
					case *ast.Ident:
						root = info.Uses[x]
						cur = nil
					default:
						cur = nil
					}
				}
			}
			dom := fl.Dominated(s.Site, nil, func(a Atom) bool {
				be, ok := ast.Unparen(a.E).(*ast.BinaryExpr)
				if !ok || a.Tag != nil {
					return false
				}
				call, ok := be.X.(*ast.CallExpr)
				if !ok || exprStr(call.Fun) != "len" || !fieldSel(info, call.Args[0], "internal/config.Match", "State") {
					return false
				}
				r, _, _ := accessPath(info, call.Args[0])
				k, isC := constInt(info, be.Y)
				if r != root && r != nil {
					// the element variable of a loop over the list the store goes into stands for that element
					ast.Inspect(drm.Decl.Body, func(nd ast.Node) bool {
						if rs, isRange := nd.(*ast.RangeStmt); isRange && rs.Value != nil && objOf(info, rs.Value) == r && rs.Pos() <= as.Pos() && as.End() <= rs.End() {
							if rr, _, _ := accessPath(info, rs.X); rr == root {
								r = root
							}
						}
						return true
					})
				}
				if r != root || !isC || k != 0 {
					return false
				}
				return (be.Op == token.EQL && a.Truth) || ((be.Op == token.GTR || be.Op == token.NEQ) && !a.Truth)
			})
			c.Check(fromDefault && dom, R, "defaultRuleMatch:State defaulted only when empty", as.Pos(), "guarded by len(m.State)==0", "Match.State is overwritten even when the block sets it, or not from the command default")
		}
		// empty match list -> one block with the default states
		okEmpty := false
		for _, cl := range compositeLits(info, drm.Decl.Body, "internal/config.Match") {
			if v := litField(cl, "State"); v != nil && objOf(info, v) == def && len(cl.Elts) == 1 {
				okEmpty = true
			}
		}
		if !okEmpty && drm != drm0 {
			sig0 := drm0.Obj.Type().(*types.Signature)
			if i := paramIndex(sig0, "defaultStates"); i >= 0 {
				def0 := sig0.Params().At(i)
				for _, cl := range compositeLits(info, drm0.Decl.Body, "internal/config.Match") {
					if v := litField(cl, "State"); v != nil && objOf(info, v) == def0 && len(cl.Elts) == 1 {
						okEmpty = true
					}
				}
			}
		}
		// the loop that defaults State visits every block: it is never left early
		{
			early := ""
			for _, s2 := range stores {
				for cur := parentMap(drm.Decl.Body)[s2.Inner]; cur != nil; cur = parentMap(drm.Decl.Body)[cur] {
					loopBody := (*ast.BlockStmt)(nil)
					switch x := cur.(type) {
					case *ast.RangeStmt:
						loopBody = x.Body
					case *ast.ForStmt:
						loopBody = x.Body
					}
					if loopBody == nil {
						continue
					}
					inspectNoLit(loopBody, func(m ast.Node) bool {
						switch y := m.(type) {
						case *ast.ReturnStmt:
							early = "return"
						case *ast.BranchStmt:
							if y.Tok == token.BREAK || y.Tok == token.GOTO {
								early = y.Tok.String()
							}
						}
						return true
					})
					break
				}
			}
			c.Check(early == "", R, "defaultRuleMatch:every match block is visited", drm.Decl.Pos(), "the defaulting loop is never left early",
				"the loop that gives match blocks their default state is left with `"+early+"`: blocks after that point keep an empty state list and match every state, so their checks also run on unmodified rules in `pint ci`")
		}
		// every result is the default block or the slice rebuilt by the loop over ALL
		// match blocks: handing the parameter back untouched skips the defaulting
		{
			matchP := sig.Params().At(0)
			bad := ""
			for _, r := range returnsIn(drm.Decl.Body.List) {
				if len(r.Results) == 1 && isObj(info, r.Results[0], matchP) {
					bad = p.Pos(r.Pos())
				}
			}
			c.Check(bad == "", R, "defaultRuleMatch:never returns its input untouched", drm.Decl.Pos(), "results are rebuilt block by block", "the match blocks are handed back unchanged at "+bad+": a block without `state` keeps an empty state list (no command default) whenever that shortcut is taken, e.g. because a sibling block sets `state`")
		}
		c.Check(okEmpty, R, "defaultRuleMatch:no match block -> state-only default block", drm.Decl.Pos(), "Match{State: defaultStates}", "a rule block without match{} no longer gets the state-only default")
	}
}

// c09NoStateDefaultInIsMatch: Match.IsMatch tests the state only when the
// block sets one, and then against the block's own list: stateMatches receives
// the field m.State under `len(m.State) != 0`. The command's state default is
// given to `match` blocks of check definitions by defaultRuleMatch and to
// nothing else: an ignore block, or the match block of a rule{disable/enable},
// without `state` applies to every entry.
func c09NoStateDefaultInIsMatch(c *Ctx, R string) {
	fi := c.MustFunc(R, "internal/config.Match.IsMatch")
	if fi == nil {
		return
	}
	info := fi.Pkg.TypesInfo
	pm := parentMap(fi.Decl.Body)
	n := 0
	ast.Inspect(fi.Decl.Body, func(nd ast.Node) bool {
		call, ok := nd.(*ast.CallExpr)
		if !ok || !isCallTo(info, call, "internal/config.stateMatches") || len(call.Args) != 2 {
			return true
		}
		n++
		own := fieldSel(info, call.Args[0], "internal/config.Match", "State")
		guarded := false
		// the call may be the right operand of `len(m.State) != 0 && !stateMatches(…)`
		atoms := WithinExprAtoms(enclosingCond(pm, call), call)
		atoms = append(atoms, lexicalGuards(pm, call, fi.Decl.Body)...)
		for _, a := range atoms {
			be, isBin := ast.Unparen(a.E).(*ast.BinaryExpr)
			if !isBin || a.Tag != nil {
				continue
			}
			lc, isCall := ast.Unparen(be.X).(*ast.CallExpr)
			if !isCall || exprStr(lc.Fun) != "len" || len(lc.Args) != 1 || !fieldSel(info, lc.Args[0], "internal/config.Match", "State") {
				continue
			}
			if k, isC := constInt(info, be.Y); isC && k == 0 && ((be.Op == token.NEQ && a.Truth) || (be.Op == token.GTR && a.Truth) || (be.Op == token.EQL && !a.Truth)) {
				guarded = true
			}
		}
		c.Check(own && guarded, R, "Match.IsMatch:state tested only when the block sets one, against its own list", call.Pos(), "stateMatches(m.State, …) under len(m.State) != 0",
			"Match.IsMatch compares the entry's state with `"+roleStr(info, call.Args[0])+"` (or does so for a block without `state`): a block that does not mention the state gets a default here, so an ignore block or the match block of rule{disable=[…]} silently stops applying to unmodified rules in `pint ci`")
		return true
	})
	c.Check(n == 1, R, "Match.IsMatch:one state test", fi.Decl.Pos(), "one", itoa(n)+" calls of stateMatches")
}

// enclosingCond returns the condition expression of the innermost if statement whose
// condition contains n (or n itself).
func enclosingCond(pm map[ast.Node]ast.Node, n ast.Node) ast.Expr {
	child := n
	for cur := pm[n]; cur != nil; child, cur = cur, pm[cur] {
		if ifs, ok := cur.(*ast.IfStmt); ok && ast.Node(ifs.Cond) == child {
			return ifs.Cond
		}
		if _, isStmt := cur.(ast.Stmt); isStmt {
			break
		}
	}
	if e, ok := n.(ast.Expr); ok {
		return e
	}
	return nil
}

// c09PerIterationAddresses: an address taken inside a loop and kept (stored in
// an Entry, appended) is the address of a variable of that iteration. With the
// loop variable declared outside the loop (`var group Group; for _, group =
// range …`) every Entry.Group of a file points at one variable, and after the
// loop all rules carry the last group's labels: label conditions then see the
// wrong group-level labels.
func c09PerIterationAddresses(c *Ctx, R string) {
	fi := c.MustFunc(R, "internal/discovery.readRules")
	if fi == nil {
		return
	}
	info := fi.Pkg.TypesInfo
	pm := parentMap(fi.Decl.Body)
	n := 0
	ast.Inspect(fi.Decl.Body, func(nd ast.Node) bool {
		u, ok := nd.(*ast.UnaryExpr)
		if !ok || u.Op != token.AND {
			return true
		}
		v, isVar := objOf(info, u.X).(*types.Var)
		if !isVar || v.IsField() {
			return true
		}
		// v is what an enclosing range loop iterates with
		var loop *ast.RangeStmt
		for cur := pm[ast.Node(u)]; cur != nil; cur = pm[cur] {
			if rs, isR := cur.(*ast.RangeStmt); isR {
				for _, l := range []ast.Expr{rs.Key, rs.Value} {
					if l != nil && objOf(info, l) == types.Object(v) {
						loop = rs
					}
				}
			}
		}
		if loop == nil {
			return true // a variable that is the same for all iterations on purpose (the file)
		}
		n++
		inside := loop.Tok == token.DEFINE
		c.Check(inside, R, "readRules:address of `"+typeRole(v)+"` kept inside a loop is per iteration", u.Pos(), "declared by the loop",
			"the address of a variable declared outside the loop is kept inside it: every entry built by the loop points at the same variable, which holds the last element once the loop is done — all rules of a file then see the last group's labels")
		return true
	})
	c.Check(n >= 1, R, "readRules:addresses kept inside loops enumerated", fi.Decl.Pos(), itoa(n), "none found")
}

// c09EveryRuleBlockParsed: GetChecksForEntry turns every rule{} block of the
// configuration into checks for every error-free entry: the parseRule call in
// the loop over cfg.Rules has no guard of its own and nothing before it in the
// loop body can skip the block. Whether a block applies is decided afterwards,
// per parsed rule, by isMatch.
func c09EveryRuleBlockParsed(c *Ctx, R string) {
	fi := c.MustFunc(R, "internal/config.Config.GetChecksForEntry")
	if fi == nil {
		return
	}
	info := fi.Pkg.TypesInfo
	pm := parentMap(fi.Decl.Body)
	var loop *ast.RangeStmt
	ast.Inspect(fi.Decl.Body, func(n ast.Node) bool {
		if rs, ok := n.(*ast.RangeStmt); ok && fieldSel(info, rs.X, "internal/config.Config", "Rules") {
			loop = rs
		}
		return true
	})
	if loop == nil {
		c.Bad(R, "GetChecksForEntry:ranges over cfg.Rules", fi.Decl.Pos(), "no loop over the configured rule{} blocks")
		return
	}
	var call *ast.CallExpr
	ast.Inspect(loop.Body, func(n ast.Node) bool {
		if cl, ok := n.(*ast.CallExpr); ok && call == nil && isCallTo(info, cl, "internal/config.parseRule") {
			call = cl
		}
		return true
	})
	why := ""
	switch {
	case call == nil:
		why = "the loop does not call parseRule"
	case len(lexicalGuards(pm, call, loop.Body)) > 0:
		why = "parseRule is guarded by `" + roleStr(info, lexicalGuards(pm, call, loop.Body)[0].E) + "`"
	default:
		for _, st := range loop.Body.List {
			inside := false
			ast.Inspect(st, func(m ast.Node) bool {
				if m == ast.Node(call) {
					inside = true
				}
				return !inside
			})
			if inside {
				break
			}
			if containsBranch(st) {
				why = "a statement in front of parseRule can skip the block"
			}
		}
	}
	c.Check(why == "", R, "GetChecksForEntry:every rule{} block is parsed for the entry", loop.Pos(), "unconditional parseRule",
		why+": some rule{} blocks are never turned into checks for some entries, whatever their match/ignore blocks say (a shortcut that guesses the outcome of the match from the entry's state skips blocks that do select it)")
}

// c09EntryLabelsSemantics runs discovery.Entry.Labels (minieval.go) on every
// combination of {alerting rule with labels, alerting rule without, recording
// rule with labels, recording rule without} × {no group, group without labels,
// group with labels} and compares what it hands back with the documented
// meaning: the rule's labels merged over the group's (MergeMaps(group, rule),
// the rule overriding), the rule's alone when the group has none, the group's
// alone when the rule has none, nothing otherwise. parser.MergeMaps is the
// oracle; the item lists are symbols.
func c09EntryLabelsSemantics(c *Ctx, el *FuncInfo) {
	R := "C09-R4"
	info := el.Pkg.TypesInfo
	if el.Decl.Recv == nil || len(el.Decl.Recv.List) != 1 || len(el.Decl.Recv.List[0].Names) != 1 {
		c.Undecided(R, "Entry.Labels:receiver", el.Decl.Pos(), "no named receiver")
		return
	}
	recv := info.Defs[el.Decl.Recv.List[0].Names[0]]
	sig := el.Obj.Type().(*types.Signature)
	rec := func(kv ...interface{}) mval {
		m := map[string]mval{}
		for i := 0; i+1 < len(kv); i += 2 {
			m[kv[i].(string)] = kv[i+1].(mval)
		}
		return mval{k: mvRec, rec: m}
	}
	nilV := mval{k: mvNil}
	labels := func(tag string) mval { return rec("Key", mStr(tag+".key"), "Items", mStr(tag)) }
	type shape struct {
		name           string
		alert, record  mval
		ruleTag        string // "" when the rule has no labels
		group          mval
		groupHasLabels bool
	}
	var shapes []shape
	for _, g := range []struct {
		name string
		v    mval
		has  bool
	}{{"no group", nilV, false}, {"group without labels", rec("Labels", nilV), false}, {"group with labels", rec("Labels", labels("G")), true}} {
		shapes = append(shapes,
			shape{"alerting rule with labels, " + g.name, rec("Labels", labels("A")), nilV, "A", g.v, g.has},
			shape{"alerting rule without labels, " + g.name, rec("Labels", nilV), nilV, "", g.v, g.has},
			shape{"recording rule with labels, " + g.name, nilV, rec("Labels", labels("R")), "R", g.v, g.has},
			shape{"recording rule without labels, " + g.name, nilV, rec("Labels", nilV), "", g.v, g.has},
		)
	}
	for _, sh := range shapes {
		wantItems, wantKey := "", ""
		switch {
		case sh.ruleTag != "" && sh.groupHasLabels:
			wantItems, wantKey = "merge(G,"+sh.ruleTag+")", sh.ruleTag+".key"
		case sh.ruleTag != "":
			wantItems, wantKey = sh.ruleTag, sh.ruleTag+".key"
		case sh.groupHasLabels:
			wantItems, wantKey = "G", "G.key"
		}
		ev := &miniEval{info: info, prog: c.P, env: map[types.Object]mval{}}
		ev.env[recv] = rec("Rule", rec("AlertingRule", sh.alert, "RecordingRule", sh.record), "Group", sh.group)
		// a named result starts as the zero record
		if sig.Results().Len() == 1 && sig.Results().At(0).Name() != "" {
			ev.env[sig.Results().At(0)] = mval{k: mvRec, rec: map[string]mval{}}
		}
		ev.oracle = func(ev *miniEval, call *ast.CallExpr) (mval, bool) {
			if isCallTo(info, call, "internal/parser.MergeMaps") && len(call.Args) == 2 {
				a, b := ev.expr(call.Args[0]), ev.expr(call.Args[1])
				if a.k != mvRec || b.k != mvRec {
					ev.fail("MergeMaps is handed a map that is not there")
					return mval{}, true
				}
				return mval{k: mvRec, rec: map[string]mval{"Items": mStr("merge(" + a.rec["Items"].s + "," + b.rec["Items"].s + ")"), "Key": b.rec["Key"]}}, true
			}
			return mval{}, false
		}
		ctl := ev.block(el.Decl.Body.List)
		key := "Entry.Labels:" + sh.name
		if ev.undec != "" || ctl.kind != 'r' {
			u := ev.undec
			if u == "" {
				u = "no result"
			}
			c.Undecided(R, key, el.Decl.Pos(), "Entry.Labels could not be evaluated: "+u)
			continue
		}
		res := ctl.ret
		if res.k != mvRec && sig.Results().Len() == 1 {
			res = ev.env[sig.Results().At(0)] // bare return of the named result
		}
		gotItems, gotKey := res.rec["Items"].s, res.rec["Key"].s
		c.Check(gotItems == wantItems && gotKey == wantKey, R, key, el.Decl.Pos(), "items="+wantItems,
			"Entry.Labels() hands back items `"+gotItems+"` under key `"+gotKey+"`, documented: items `"+wantItems+"` under key `"+wantKey+"` (G = group labels, A/R = the rule's own; merge(G,x) = rule labels over group labels): `label` conditions of match/ignore blocks and every check that reads labels then see the wrong label set")
	}
}

// c09CommandTravelsWithTheContext: match/ignore blocks with `command = …`, and
// the per-command state default, read the running command from the context.
// Every context handed to checkRules / problemCollector.scan in cmd/pint
// therefore descends — through context.With* wrappers — from the function's own
// context parameter or from a context.WithValue(…, config.CommandKey, …); one
// that starts again from context.Background() has lost the command: during
// `pint watch` no `command = "watch"` block matches any more.
func c09CommandTravelsWithTheContext(c *Ctx, R string) {
	cmd := c.P.Pkg("cmd/pint")
	if cmd == nil {
		return
	}
	// what is stored under CommandKey is a config.ContextCommandVal (the reader asserts that type): an
	// untyped or string constant with the same text compiles and is never recognised as the command
	nStores := 0
	for _, pkg := range c.P.ModPkgs() {
		pinfo := pkg.TypesInfo
		for _, f := range pkg.Syntax {
			if c.P.IsTestFile(f.Pos()) {
				continue
			}
			ast.Inspect(f, func(n ast.Node) bool {
				call, ok := n.(*ast.CallExpr)
				if !ok || len(call.Args) != 3 {
					return true
				}
				fn := Callee(pinfo, call)
				if fn == nil || fn.FullName() != "context.WithValue" {
					return true
				}
				k := objOf(pinfo, call.Args[1])
				if k == nil || k.Name() != "CommandKey" || k.Pkg() == nil || relPkg(k.Pkg().Path()) != "internal/config" {
					return true
				}
				nStores++
				t := typeQName(pinfo.TypeOf(call.Args[2]))
				c.Check(t == "internal/config.ContextCommandVal", R, "command stored in the context is a ContextCommandVal:"+relPkg(pkg.PkgPath)+"#"+itoa(nStores), call.Pos(), t,
					"the value stored under config.CommandKey is a `"+pinfo.TypeOf(call.Args[2]).String()+"`, not a config.ContextCommandVal: the reader's type assertion does not recognise it, so `command = …` conditions never hold for this command")
				return true
			})
		}
	}
	c.Check(nStores >= 3, R, "stores under CommandKey enumerated", token.NoPos, itoa(nStores), "fewer than three commands store themselves in the context")
	info := cmd.TypesInfo
	n := 0
	var carries func(fi *FuncInfo, e ast.Expr, depth int) (bool, string)
	carries = func(fi *FuncInfo, e ast.Expr, depth int) (bool, string) {
		e = ast.Unparen(e)
		if depth > 5 {
			return false, "too deep"
		}
		switch x := e.(type) {
		case *ast.Ident:
			o := info.Uses[x]
			if o == nil {
				o = info.Defs[x]
			}
			sig := fi.Obj.Type().(*types.Signature)
			for i := 0; i < sig.Params().Len(); i++ {
				if types.Object(sig.Params().At(i)) == o {
					return true, ""
				}
			}
			// a closure parameter or a local: look at its definitions
			defs := allDefs(info, fi.Decl.Body, x)
			if len(defs) == 0 {
				// parameter of a function literal: the literal is given the context by its caller (cli action, goroutine)
				return true, ""
			}
			for _, d := range defs {
				if ok, why := carries(fi, d, depth+1); !ok {
					return false, why
				}
			}
			return true, ""
		case *ast.CallExpr:
			fn := Callee(info, x)
			if fn == nil || fn.Pkg() == nil {
				return false, "context produced by `" + exprStr(x.Fun) + "`"
			}
			if fn.Pkg().Path() == "context" {
				switch fn.Name() {
				case "Background", "TODO":
					return false, "it starts from context." + fn.Name() + "()"
				case "WithValue":
					if len(x.Args) == 3 {
						if k := constObj(info, x.Args[1]); k != nil && k.Name() == "CommandKey" {
							return true, ""
						}
						if sel, isSel := ast.Unparen(x.Args[1]).(*ast.SelectorExpr); isSel && sel.Sel.Name == "CommandKey" {
							return true, ""
						}
					}
					return carries(fi, x.Args[0], depth+1)
				default:
					if len(x.Args) >= 1 {
						return carries(fi, x.Args[0], depth+1)
					}
				}
			}
			return false, "context produced by `" + exprStr(x.Fun) + "`"
		}
		return false, "context expression `" + exprStr(e) + "`"
	}
	for _, fi := range c.P.AllFuncs() {
		if fi.Pkg != cmd || fi.Decl.Body == nil || c.P.IsTestFile(fi.Decl.Pos()) {
			continue
		}
		seq := 0
		ast.Inspect(fi.Decl.Body, func(nd ast.Node) bool {
			call, ok := nd.(*ast.CallExpr)
			if !ok || len(call.Args) == 0 {
				return true
			}
			if !isCallTo(info, call, "cmd/pint.checkRules") && !isCallTo(info, call, "cmd/pint.problemCollector.scan") {
				return true
			}
			if t := info.TypeOf(call.Args[0]); t == nil || t.String() != "context.Context" {
				return true
			}
			n++
			seq++
			ok2, why := carries(fi, call.Args[0], 0)
			c.Check(ok2, R, strings.TrimPrefix(fi.Name, "cmd/pint.")+":the scan context carries the command#"+itoa(seq), call.Pos(), "derived from the caller's context",
				"the context given to the scan does not descend from the one that holds the command ("+why+"): commandFromContext() then returns the empty command, `match { command = … }` / `ignore { command = … }` blocks never apply and the state default is the wrong command's")
			return true
		})
	}
	c.Check(n >= 3, R, "scan entry points with a context enumerated", token.NoPos, itoa(n), "fewer than 3 calls of checkRules / scan")
}

// c09BlocksAreNotEditedInPlace: the match/ignore blocks of a rule{} live in the
// loaded configuration and are shared by every entry and every check that
// consults them. Nothing in internal/config edits a list of them in place
// (slices.Delete/DeleteFunc/Sort…/Reverse/Compact…/Replace, sort.Slice…, or a
// store into an element of a list it was handed): the first evaluation would
// change what every later one sees — a filtered-out block leaves a zero
// Match{} at the tail, and an empty ignore block is satisfied by every rule.
func c09BlocksAreNotEditedInPlace(c *Ctx, R string) {
	cfg := c.P.Pkg("internal/config")
	if cfg == nil {
		return
	}
	info := cfg.TypesInfo
	isBlockList := func(t types.Type) bool {
		sl, ok := t.Underlying().(*types.Slice)
		if !ok {
			return false
		}
		q := typeQName(sl.Elem())
		return q == "internal/config.Match" || q == "internal/config.Rule"
	}
	n, bad := 0, ""
	badPos := token.NoPos
	for _, fi := range c.P.AllFuncs() {
		if fi.Pkg != cfg || fi.Decl.Body == nil || c.P.IsTestFile(fi.Decl.Pos()) {
			continue
		}
		sig := fi.Obj.Type().(*types.Signature)
		params := map[types.Object]bool{}
		for i := 0; i < sig.Params().Len(); i++ {
			params[sig.Params().At(i)] = true
		}
		if sig.Recv() != nil {
			params[sig.Recv()] = true
		}
		ast.Inspect(fi.Decl.Body, func(nd ast.Node) bool {
			switch x := nd.(type) {
			case *ast.CallExpr:
				fn := Callee(info, x)
				if fn == nil || fn.Pkg() == nil || len(x.Args) == 0 {
					return true
				}
				t := info.TypeOf(x.Args[0])
				if t == nil || !isBlockList(t) {
					return true
				}
				n++
				inPlace := false
				switch fn.Pkg().Path() {
				case "slices":
					switch fn.Name() {
					case "Delete", "DeleteFunc", "Insert", "Replace", "Sort", "SortFunc", "SortStableFunc", "Reverse", "Compact", "CompactFunc":
						inPlace = true
					}
				case "sort":
					inPlace = true
				}
				if fid, isID := x.Fun.(*ast.Ident); isID && fid.Name == "clear" {
					inPlace = true
				}
				// working on a fresh copy is fine: slices.DeleteFunc(slices.Clone(ms), …)
				if inner, isCall := ast.Unparen(x.Args[0]).(*ast.CallExpr); isCall {
					if f2 := Callee(info, inner); f2 != nil && f2.Pkg() != nil && f2.Pkg().Path() == "slices" && f2.Name() == "Clone" {
						inPlace = false
					}
				}
				if inPlace {
					bad, badPos = "`"+exprStr(x)+"` in "+shortFuncName(fi.Name), x.Pos()
				}
			case *ast.AssignStmt:
				for _, l := range x.Lhs {
					ix, isIx := ast.Unparen(l).(*ast.IndexExpr)
					if !isIx {
						// field of an element: ms[i].State = …
						if sel, isSel := ast.Unparen(l).(*ast.SelectorExpr); isSel {
							ix, isIx = ast.Unparen(sel.X).(*ast.IndexExpr)
						}
					}
					if !isIx {
						continue
					}
					t := info.TypeOf(ix.X)
					if t == nil || !isBlockList(t) {
						continue
					}
					n++
					root, _, ok := accessPath(info, ix.X)
					if ok && root != nil && params[root] {
						bad, badPos = "`"+exprStr(l)+" = …` in "+shortFuncName(fi.Name), x.Pos()
					}
				}
			}
			return true
		})
	}
	c.Check(bad == "", R, "match/ignore block lists are never edited in place", badPos, itoa(n)+" uses inspected",
		bad+" rewrites a list of match/ignore blocks (or rule{} blocks) that the loaded configuration still refers to: after the first entry was evaluated every later entry and check sees a different configuration")
}

// c09ParseOperationByEvaluation decides parseMatchOperation by evaluating it for the six operator words and
// for words that are not operators, whatever way its table is written. It reports false (and nothing else)
// when the function is outside what the evaluator reads; the syntactic reading of a switch then applies.
func c09ParseOperationByEvaluation(c *Ctx, pm *FuncInfo, opTok map[string]token.Token) bool {
	info := pm.Pkg.TypesInfo
	sig := pm.Obj.Type().(*types.Signature)
	if sig.Params().Len() != 1 || sig.Results().Len() != 2 {
		return false
	}
	run := func(w string) (string, bool, bool) {
		ev := &miniEval{info: info, prog: c.P, env: map[types.Object]mval{sig.Params().At(0): mStr(w)}, multi: true}
		ctl := ev.block(pm.Decl.Body.List)
		if ev.undec != "" || ctl.kind != 'r' || ctl.ret.k != mvRec {
			return "", false, false
		}
		op, e := ctl.ret.rec["0"], ctl.ret.rec["1"]
		if op.k != mvStr || (e.k != mvNil && e.k != mvRec) {
			return "", false, false
		}
		return op.s, e.k == mvNil, true
	}
	words := []string{"<", "<=", "=", "!=", ">=", ">"}
	others := []string{"", "==", "<>", "=<", "=>", "~", "<<", " <", "< ", "lt"}
	type res struct {
		got string
		ok  bool
	}
	out := map[string]res{}
	for _, w := range append(append([]string{}, words...), others...) {
		got, ok, decided := run(w)
		if !decided {
			return false
		}
		out[w] = res{got, ok}
	}
	n := 0
	for _, w := range words {
		if _, known := opTok[w]; !known {
			continue
		}
		r := out[w]
		if r.ok {
			n++
		}
		c.Check(r.ok && r.got == w, "C09-R1", "parseMatchOperation:"+strq(w), pm.Decl.Pos(), "identity", "operator word "+strq(w)+" parses as "+strq(r.got)+map[bool]string{true: "", false: " with an error"}[r.ok])
	}
	bad := ""
	for _, w := range others {
		if out[w].ok {
			bad = w
			break
		}
	}
	c.Check(bad == "", "C09-R1", "parseMatchOperation:unknown operator is an error", pm.Decl.Pos(), "rejected", "unknown operator words are accepted ("+strq(bad)+")")
	c.Check(n == 6, "C09-R1", "parseMatchOperation:six operators", pm.Decl.Pos(), "6", "operator count is "+itoa(n))
	return true
}
