// renamelocals rewrites, in place, every non-test Go file of the module in the
// given directory so that every local variable, parameter and named result is
// renamed (suffix "_r"). Used only to test that the checkers do not depend on
// local names: the renamed tree must still build and every check must stay silent.
package main

import (
	"bytes"
	"fmt"
	"go/ast"
	"go/format"
	"go/token"
	"go/types"
	"os"
	"strings"

	"golang.org/x/tools/go/packages"
)

func main() {
	dir := os.Args[len(os.Args)-1]
	mode := "rename"
	if len(os.Args) > 2 {
		mode = strings.TrimPrefix(os.Args[1], "-")
	}
	os.Setenv("GOFLAGS", "-mod=mod")
	os.Setenv("GOPROXY", "off")
	fset := token.NewFileSet()
	cfg := &packages.Config{Mode: packages.LoadSyntax, Dir: dir, Fset: fset, Env: append(os.Environ(), "GOWORK=off")}
	pkgs, err := packages.Load(cfg, "./...")
	if err != nil {
		panic(err)
	}
	n := 0
	for _, pkg := range pkgs {
		if len(pkg.Errors) > 0 {
			panic(fmt.Sprint(pkg.Errors))
		}
		info := pkg.TypesInfo
		local := func(o types.Object) bool {
			v, ok := o.(*types.Var)
			if !ok || v.IsField() || v.Pkg() == nil {
				return false
			}
			if v.Parent() == nil || v.Parent() == v.Pkg().Scope() || v.Parent() == types.Universe {
				return false
			}
			if v.Name() == "_" || v.Name() == "" {
				return false
			}
			return true
		}
		for i, f := range pkg.Syntax {
			name := pkg.CompiledGoFiles[i]
			if strings.HasSuffix(name, "_test.go") || !strings.HasPrefix(name, dir) {
				continue
			}
			// struct literal keys and embedded shorthand are not Uses of locals; only rename idents whose object is local
			if mode == "swapeq" {
				// a == b  ->  b == a ; a != b -> b != a (behaviour preserving)
				ast.Inspect(f, func(nd ast.Node) bool {
					if be, ok := nd.(*ast.BinaryExpr); ok && (be.Op == token.EQL || be.Op == token.NEQ) {
						be.X, be.Y = be.Y, be.X
						n++
					}
					return true
				})
			}
			if mode == "invertif" {
				// if c { A } else { B }  ->  if !(c) { B } else { A } (behaviour preserving;
				// only plain else blocks, and only when A does not declare labels)
				ast.Inspect(f, func(nd ast.Node) bool {
					ifs, ok := nd.(*ast.IfStmt)
					if !ok {
						return true
					}
					els, ok := ifs.Else.(*ast.BlockStmt)
					if !ok {
						return true
					}
					ifs.Cond = &ast.UnaryExpr{Op: token.NOT, X: &ast.ParenExpr{X: ifs.Cond}}
					ifs.Body, ifs.Else = els, ifs.Body
					n++
					return true
				})
			}
			ast.Inspect(f, func(nd ast.Node) bool {
				if mode != "rename" {
					return false
				}
				if ts, ok := nd.(*ast.TypeSwitchStmt); ok {
					// the symbolic variable of `switch v := x.(type)` has no Defs entry
					if as, ok := ts.Assign.(*ast.AssignStmt); ok && len(as.Lhs) == 1 {
						if id, ok := as.Lhs[0].(*ast.Ident); ok && id.Name != "_" && info.Defs[id] == nil {
							id.Name = id.Name + "_r"
							n++
						}
					}
					return true
				}
				id, ok := nd.(*ast.Ident)
				if !ok {
					return true
				}
				o := info.Defs[id]
				if o == nil {
					o = info.Uses[id]
				}
				if o != nil && local(o) {
					id.Name = id.Name + "_r"
					n++
				}
				return true
			})
			var buf bytes.Buffer
			if err := format.Node(&buf, fset, f); err != nil {
				panic(err)
			}
			if err := os.WriteFile(name, buf.Bytes(), 0o644); err != nil {
				panic(err)
			}
		}
	}
	fmt.Println("renamed identifiers:", n)
}
