// renamelocals rewrites, in place, every non-test Go file of the module in the
// given directory so that every local variable, parameter and named result is
// renamed (suffix "_r"). Used only to test that the checkers do not depend on
// local names: the renamed tree must still build and every check must stay silent.
package main

import (
	"bytes"
	"fmt"
	"go/ast"
	"go/format"
	"go/token"
	"go/types"
	"os"
	"strings"

	"golang.org/x/tools/go/packages"
)

func main() {
	dir := os.Args[len(os.Args)-1]
	mode := "rename"
	if len(os.Args) > 2 {
		mode = strings.TrimPrefix(os.Args[1], "-")
	}
	os.Setenv("GOFLAGS", "-mod=mod")
	os.Setenv("GOPROXY", "off")
	fset := token.NewFileSet()
	cfg := &packages.Config{Mode: packages.LoadSyntax, Dir: dir, Fset: fset, Env: append(os.Environ(), "GOWORK=off")}
	pkgs, err := packages.Load(cfg, "./...")
	if err != nil {
		panic(err)
	}
	n := 0
	for _, pkg := range pkgs {
		if len(pkg.Errors) > 0 {
			panic(fmt.Sprint(pkg.Errors))
		}
		info := pkg.TypesInfo
		local := func(o types.Object) bool {
			v, ok := o.(*types.Var)
			if !ok || v.IsField() || v.Pkg() == nil {
				return false
			}
			if v.Parent() == nil || v.Parent() == v.Pkg().Scope() || v.Parent() == types.Universe {
				return false
			}
			if v.Name() == "_" || v.Name() == "" {
				return false
			}
			return true
		}
		for i, f := range pkg.Syntax {
			name := pkg.CompiledGoFiles[i]
			if strings.HasSuffix(name, "_test.go") || !strings.HasPrefix(name, dir) {
				continue
			}
			// struct literal keys and embedded shorthand are not Uses of locals; only rename idents whose object is local
			if mode == "swapeq" {
				// a == b  ->  b == a ; a != b -> b != a (behaviour preserving)
				ast.Inspect(f, func(nd ast.Node) bool {
					if be, ok := nd.(*ast.BinaryExpr); ok && (be.Op == token.EQL || be.Op == token.NEQ) {
						be.X, be.Y = be.Y, be.X
						n++
					}
					return true
				})
			}
			if mode == "invertif" {
				// if c { A } else { B }  ->  if !(c) { B } else { A } (behaviour preserving;
				// only plain else blocks, and only when A does not declare labels)
				ast.Inspect(f, func(nd ast.Node) bool {
					ifs, ok := nd.(*ast.IfStmt)
					if !ok {
						return true
					}
					els, ok := ifs.Else.(*ast.BlockStmt)
					if !ok {
						return true
					}
					ifs.Cond = &ast.UnaryExpr{Op: token.NOT, X: &ast.ParenExpr{X: ifs.Cond}}
					ifs.Body, ifs.Else = els, ifs.Body
					n++
					return true
				})
			}
			if mode == "splitor" || mode == "hoistcond" {
				// splitor  : if a || b { ...; return }   ->  if a { ...; return }; if b { ...; return }
				//            (no else, no init, body ends in return/continue/break/panic)
				// hoistcond: if f(x) { .. }              ->  cond_N := f(x); if cond_N { .. }
				//            (statement-list position, no init, condition is a call or a negated call)
				terminates := func(b *ast.BlockStmt) bool {
					if len(b.List) == 0 {
						return false
					}
					switch x := b.List[len(b.List)-1].(type) {
					case *ast.ReturnStmt:
						return true
					case *ast.BranchStmt:
						return x.Tok == token.CONTINUE || x.Tok == token.BREAK || x.Tok == token.GOTO
					case *ast.ExprStmt:
						if call, ok := x.X.(*ast.CallExpr); ok {
							if id, ok := call.Fun.(*ast.Ident); ok && id.Name == "panic" {
								return true
							}
						}
					}
					return false
				}
				declares := func(b *ast.BlockStmt) bool {
					// duplicating a body that declares labels would not compile
					found := false
					ast.Inspect(b, func(m ast.Node) bool {
						if _, ok := m.(*ast.LabeledStmt); ok {
							found = true
						}
						return true
					})
					return found
				}
				var rewrite func(list []ast.Stmt) []ast.Stmt
				rewrite = func(list []ast.Stmt) []ast.Stmt {
					var out []ast.Stmt
					for _, st := range list {
						ifs, ok := st.(*ast.IfStmt)
						if !ok || ifs.Init != nil {
							out = append(out, st)
							continue
						}
						if mode == "splitor" {
							be, isOr := ifs.Cond.(*ast.BinaryExpr)
							if isOr && be.Op == token.LOR && ifs.Else == nil && terminates(ifs.Body) && !declares(ifs.Body) {
								out = append(out, &ast.IfStmt{Cond: be.X, Body: ifs.Body}, &ast.IfStmt{Cond: be.Y, Body: ifs.Body})
								n++
								continue
							}
						}
						if mode == "hoistcond" {
							c := ifs.Cond
							neg := false
							if u, isU := c.(*ast.UnaryExpr); isU && u.Op == token.NOT {
								c = u.X
								neg = true
							}
							if call, isCall := c.(*ast.CallExpr); isCall {
								if tv, ok := info.Types[call]; ok && tv.Type != nil && tv.Type.String() == "bool" {
									n++
									id := ast.NewIdent(fmt.Sprintf("cond_%d", n))
									out = append(out, &ast.AssignStmt{Lhs: []ast.Expr{id}, Tok: token.DEFINE, Rhs: []ast.Expr{call}})
									if neg {
										ifs.Cond = &ast.UnaryExpr{Op: token.NOT, X: ast.NewIdent(id.Name)}
									} else {
										ifs.Cond = ast.NewIdent(id.Name)
									}
								}
							}
						}
						out = append(out, st)
					}
					return out
				}
				ast.Inspect(f, func(nd ast.Node) bool {
					switch x := nd.(type) {
					case *ast.FuncDecl:
						// a new declaration may not be jumped over by a goto
						hasGoto := false
						ast.Inspect(x, func(m ast.Node) bool {
							if b, ok := m.(*ast.BranchStmt); ok && b.Tok == token.GOTO {
								hasGoto = true
							}
							return true
						})
						if hasGoto && mode == "hoistcond" {
							return false
						}
					case *ast.BlockStmt:
						x.List = rewrite(x.List)
					case *ast.CaseClause:
						x.Body = rewrite(x.Body)
					case *ast.CommClause:
						x.Body = rewrite(x.Body)
					}
					return true
				})
			}
			if mode == "dropelse" {
				// if c { …; return } else { B }  ->  if c { …; return }; B
				// (the else block must not declare names or labels: they would move to the outer scope)
				terminates := func(b *ast.BlockStmt) bool {
					if len(b.List) == 0 {
						return false
					}
					switch x := b.List[len(b.List)-1].(type) {
					case *ast.ReturnStmt:
						return true
					case *ast.BranchStmt:
						return x.Tok == token.CONTINUE || x.Tok == token.BREAK || x.Tok == token.GOTO
					}
					return false
				}
				declares := func(b *ast.BlockStmt) bool {
					for _, st := range b.List {
						switch x := st.(type) {
						case *ast.AssignStmt:
							if x.Tok == token.DEFINE {
								return true
							}
						case *ast.DeclStmt, *ast.LabeledStmt:
							return true
						}
					}
					return false
				}
				var rewrite func(list []ast.Stmt) []ast.Stmt
				rewrite = func(list []ast.Stmt) []ast.Stmt {
					var out []ast.Stmt
					for _, st := range list {
						ifs, ok := st.(*ast.IfStmt)
						if ok {
							if els, isBlock := ifs.Else.(*ast.BlockStmt); isBlock && ifs.Init == nil && terminates(ifs.Body) && !declares(els) {
								ifs.Else = nil
								out = append(out, ifs)
								out = append(out, rewrite(els.List)...)
								n++
								continue
							}
						}
						out = append(out, st)
					}
					return out
				}
				ast.Inspect(f, func(nd ast.Node) bool {
					switch x := nd.(type) {
					case *ast.BlockStmt:
						x.List = rewrite(x.List)
					case *ast.CaseClause:
						x.Body = rewrite(x.Body)
					case *ast.CommClause:
						x.Body = rewrite(x.Body)
					}
					return true
				})
			}
			if mode == "addelse" {
				// if c { …; return }; rest…  ->  if c { …; return } else { rest… }
				// (only in function bodies' statement lists where rest has no labels, and the
				// enclosing list is not the top level of a function with results — a missing
				// final return would not compile)
				terminates := func(b *ast.BlockStmt) bool {
					if len(b.List) == 0 {
						return false
					}
					_, ok := b.List[len(b.List)-1].(*ast.ReturnStmt)
					return ok
				}
				hasLabel := func(list []ast.Stmt) bool {
					found := false
					for _, st := range list {
						ast.Inspect(st, func(m ast.Node) bool {
							switch m.(type) {
							case *ast.LabeledStmt:
								found = true
							case *ast.FuncLit:
								return false
							}
							return true
						})
					}
					return found
				}
				var rewrite func(list []ast.Stmt, top bool) []ast.Stmt
				rewrite = func(list []ast.Stmt, top bool) []ast.Stmt {
					for i, st := range list {
						ifs, ok := st.(*ast.IfStmt)
						if !ok || ifs.Else != nil || !terminates(ifs.Body) || i+1 >= len(list) || top {
							continue
						}
						rest := list[i+1:]
						if hasLabel(rest) {
							continue
						}
						ifs.Else = &ast.BlockStmt{List: append([]ast.Stmt{}, rest...)}
						n++
						return list[:i+1]
					}
					return list
				}
				ast.Inspect(f, func(nd ast.Node) bool {
					switch x := nd.(type) {
					case *ast.FuncDecl:
						if x.Body != nil && (x.Type.Results == nil || len(x.Type.Results.List) == 0) {
							x.Body.List = rewrite(x.Body.List, false)
						}
					case *ast.ForStmt:
						x.Body.List = rewrite(x.Body.List, false)
					case *ast.RangeStmt:
						x.Body.List = rewrite(x.Body.List, false)
					}
					return true
				})
			}
			if mode == "nestif" {
				// if a && b { X }  ->  if a { if b { X } }   (no else; behaviour preserving)
				ast.Inspect(f, func(nd ast.Node) bool {
					ifs, ok := nd.(*ast.IfStmt)
					if !ok || ifs.Else != nil {
						return true
					}
					be, ok := ifs.Cond.(*ast.BinaryExpr)
					if !ok || be.Op != token.LAND {
						return true
					}
					inner := &ast.IfStmt{Cond: be.Y, Body: ifs.Body}
					ifs.Cond = be.X
					ifs.Body = &ast.BlockStmt{List: []ast.Stmt{inner}}
					n++
					return true
				})
			}
			if mode == "switchif" {
				// switch { case a: A; case b, c: B; default: D }  ->  if a {A} else if b || c {B} else {D}
				// only tagless switches without init, fallthrough, or a break that targets the switch
				breaksOut := func(body *ast.BlockStmt) bool {
					found := false
					var walk func(n ast.Node, depth int)
					walk = func(n ast.Node, depth int) {
						ast.Inspect(n, func(m ast.Node) bool {
							if m == n {
								return true
							}
							switch x := m.(type) {
							case *ast.BranchStmt:
								if x.Tok == token.FALLTHROUGH || (x.Tok == token.BREAK && (x.Label != nil || depth == 0)) {
									found = true
								}
							case *ast.ForStmt, *ast.RangeStmt, *ast.SwitchStmt, *ast.TypeSwitchStmt, *ast.SelectStmt:
								walk(m, depth+1)
								return false
							case *ast.FuncLit:
								return false
							case *ast.LabeledStmt:
								found = true
							}
							return true
						})
					}
					walk(body, 0)
					return found
				}
				var rewrite func(list []ast.Stmt)
				conv := func(sw *ast.SwitchStmt) ast.Stmt {
					if sw.Tag != nil || sw.Init != nil || breaksOut(sw.Body) || len(sw.Body.List) == 0 {
						return nil
					}
					var def *ast.CaseClause
					var arms []*ast.CaseClause
					for _, st := range sw.Body.List {
						cc := st.(*ast.CaseClause)
						if cc.List == nil {
							def = cc
						} else {
							arms = append(arms, cc)
						}
					}
					if len(arms) == 0 {
						return nil
					}
					// a default clause in the middle keeps its meaning (it is taken last)
					var first, last *ast.IfStmt
					for _, cc := range arms {
						var cond ast.Expr
						for _, e := range cc.List {
							pe := ast.Expr(&ast.ParenExpr{X: e})
							if cond == nil {
								cond = pe
							} else {
								cond = &ast.BinaryExpr{X: cond, Op: token.LOR, Y: pe}
							}
						}
						is := &ast.IfStmt{Cond: cond, Body: &ast.BlockStmt{List: cc.Body}}
						if first == nil {
							first = is
						} else {
							last.Else = is
						}
						last = is
					}
					if def != nil {
						last.Else = &ast.BlockStmt{List: def.Body}
					}
					n++
					return first
				}
				rewrite = func(list []ast.Stmt) {
					for i, st := range list {
						if sw, ok := st.(*ast.SwitchStmt); ok {
							if r := conv(sw); r != nil {
								list[i] = r
							}
						}
					}
				}
				ast.Inspect(f, func(nd ast.Node) bool {
					switch x := nd.(type) {
					case *ast.BlockStmt:
						rewrite(x.List)
					case *ast.CaseClause:
						rewrite(x.Body)
					case *ast.CommClause:
						rewrite(x.Body)
					}
					return true
				})
			}
			ast.Inspect(f, func(nd ast.Node) bool {
				if mode != "rename" {
					return false
				}
				if ts, ok := nd.(*ast.TypeSwitchStmt); ok {
					// the symbolic variable of `switch v := x.(type)` has no Defs entry
					if as, ok := ts.Assign.(*ast.AssignStmt); ok && len(as.Lhs) == 1 {
						if id, ok := as.Lhs[0].(*ast.Ident); ok && id.Name != "_" && info.Defs[id] == nil {
							id.Name = id.Name + "_r"
							n++
						}
					}
					return true
				}
				id, ok := nd.(*ast.Ident)
				if !ok {
					return true
				}
				o := info.Defs[id]
				if o == nil {
					o = info.Uses[id]
				}
				if o != nil && local(o) {
					id.Name = id.Name + "_r"
					n++
				}
				return true
			})
			var buf bytes.Buffer
			if err := format.Node(&buf, fset, f); err != nil {
				panic(err)
			}
			if err := os.WriteFile(name, buf.Bytes(), 0o644); err != nil {
				panic(err)
			}
		}
	}
	fmt.Println("renamed identifiers:", n)
}
