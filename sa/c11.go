package main

import (
	"go/ast"
	"go/token"
	"go/types"
	"sort"
	"strings"
)

func init() {
	register("C11", runC11,
		"Decides, for every schedule and worker count, the clauses that make the output independent of arrival order: (R1) in actionLint, actionCI and the watch collector every Submit (or publication of the summary) is preceded on all paths by SortReports() and then Dedup() on the same summary, and no report is added after sorting; the report comparator keys on path, first/last line, severity, reporter, summary and diagnostics of both operands; (R2) in checkRules no goroutine literal touches the summary and reports are added only by the loop draining the results channel; (R3) no function reachable from scanWorker / any RuleChecker.Check stores to a package-level variable; (R4) guarded state the workers touch is only accessed under its mutex (C14-R4 tables); (R5) console and JSON rendering never iterate a map, and GetPrometheusDetails sorts what it collected from a map.",
		"that the comparator is a total order on every rendered field for all data (cmpDiagnostics looks at the first diagnostic only), data-race freedom beyond R2–R4, third-party code.")
}

func runC11(c *Ctx) {
	p := c.P
	c.Rule("C11-R1", "sort then dedup before any output; comparator key set", 18)
	c.Rule("C11-R2", "single consumer of the summary in checkRules; arrival-order independent folding", 4)
	c.Rule("C11-R3", "no package-level stores and no stores into the shared rule/AST reachable from the workers", 3)
	c.Rule("C11-R4", "guarded state touched by workers (C14-R4 tables)", 10)
	c.Rule("C11-R5", "no map-order leaks in console/JSON output or log lines", 40)
	defer c11WorkerCount(c)
	defer c11PackageSlicesNotAppended(c, "C11-R3")
	defer c11NoRememberedAnswers(c, "C11-R3")

	cmd := p.Pkg("cmd/pint")
	if cmd == nil {
		c.Undecided("C11-R1", "anchor:cmd/pint", token.NoPos, "package not found")
		return
	}
	info := cmd.TypesInfo

	// ---- R1 ----
	isCallOn := func(n ast.Node, qname string, recv types.Object) bool {
		found := false
		inspectNoLit(n, func(m ast.Node) bool {
			call, ok := m.(*ast.CallExpr)
			if !ok || !isCallTo(info, call, qname) {
				return true
			}
			if sel, ok := call.Fun.(*ast.SelectorExpr); ok {
				if recv == nil || objOf(info, sel.X) == recv {
					found = true
				}
			}
			return true
		})
		return found
	}
	for _, fname := range []string{"cmd/pint.actionLint", "cmd/pint.actionCI"} {
		fi := c.MustFunc("C11-R1", fname)
		if fi == nil {
			continue
		}
		short := fi.Obj.Name()
		fl := p.NewFlow(fi)
		subs := fl.Find(func(n ast.Node) bool {
			call, ok := n.(*ast.CallExpr)
			if !ok {
				return false
			}
			fn := Callee(info, call)
			return fn != nil && fn.Name() == "Submit" && strings.HasSuffix(funcQName(fn), "reporter.Reporter.Submit")
		})
		c.Check(len(subs) >= 1, "C11-R1", short+":submits the summary", fi.Decl.Pos(), itoa(len(subs))+" Submit site(s)", "no Reporter.Submit call found")
		for _, s := range subs {
			call := s.Inner.(*ast.CallExpr)
			sum := objOf(info, call.Args[0])
			target := s.Site
			okD, _ := fl.MustPass(fl.Entry(), func(x Site) bool { return x == target }, false, func(n ast.Node) bool {
				return isCallOn(n, "internal/reporter.Summary.Dedup", sum)
			})
			c.Check(okD, "C11-R1", short+":Dedup precedes Submit", call.Pos(), "on all paths", "reports can be submitted without duplicate folding having run on that summary")
			for _, d := range fl.Find(func(n ast.Node) bool {
				cl, ok := n.(*ast.CallExpr)
				return ok && isCallTo(info, cl, "internal/reporter.Summary.Dedup")
			}) {
				dt := d.Site
				okS, _ := fl.MustPass(fl.Entry(), func(x Site) bool { return x == dt }, false, func(n ast.Node) bool {
					return isCallOn(n, "internal/reporter.Summary.SortReports", sum)
				})
				c.Check(okS, "C11-R1", short+":SortReports precedes Dedup", d.Inner.Pos(), "on all paths", "Dedup runs on unsorted reports: which report becomes the primary and which the duplicate depends on arrival order")
			}
			// nothing is added after sorting
			for _, so := range fl.Find(func(n ast.Node) bool {
				cl, ok := n.(*ast.CallExpr)
				return ok && isCallTo(info, cl, "internal/reporter.Summary.SortReports")
			}) {
				reach, _ := fl.Reach(so.Site.After(), func(x Site) bool {
					return isCallOn(x.Node(), "internal/reporter.Summary.Report", nil)
				}, false, PathQ{})
				c.Check(!reach, "C11-R1", short+":no report added after SortReports", so.Inner.Pos(), "closed set", "summary.Report(...) is reachable after SortReports(): late reports are appended unsorted")
			}
		}
	}
	if sc := c.MustFunc("C11-R1", "cmd/pint.problemCollector.scan"); sc != nil {
		fl := p.NewFlow(sc)
		pubs := fl.Find(func(n ast.Node) bool {
			as, ok := n.(*ast.AssignStmt)
			return ok && len(as.Lhs) == 1 && fieldSel(info, as.Lhs[0], "cmd/pint.problemCollector", "summary")
		})
		c.Check(len(pubs) == 1, "C11-R1", "watch scan:publishes the summary once", sc.Decl.Pos(), "one store", itoa(len(pubs))+" stores to c.summary")
		for _, pb := range pubs {
			target := pb.Site
			okD, _ := fl.MustPass(fl.Entry(), func(x Site) bool { return x == target }, false, func(n ast.Node) bool {
				return isCallOn(n, "internal/reporter.Summary.Dedup", nil)
			})
			okS := false
			for _, d := range fl.Find(func(n ast.Node) bool {
				cl, ok := n.(*ast.CallExpr)
				return ok && isCallTo(info, cl, "internal/reporter.Summary.Dedup")
			}) {
				dt := d.Site
				okS, _ = fl.MustPass(fl.Entry(), func(x Site) bool { return x == dt }, false, func(n ast.Node) bool {
					return isCallOn(n, "internal/reporter.Summary.SortReports", nil)
				})
			}
			c.Check(okD && okS, "C11-R1", "watch scan:SortReports then Dedup precede publication", pb.Inner.Pos(), "ordered", "the watch collector publishes a summary that was not sorted and then de-duplicated")
		}
	}
	c11ComparatorKeys(c, "C11-R1")

	// ---- R2 ----
	if cr := c.MustFunc("C11-R2", "cmd/pint.checkRules"); cr != nil {
		var summary types.Object
		if res := cr.Obj.Type().(*types.Signature).Results(); res.Len() > 0 {
			summary = res.At(0)
		}
		bad := ""
		nGo := 0
		ast.Inspect(cr.Decl.Body, func(n ast.Node) bool {
			g, ok := n.(*ast.GoStmt)
			if !ok {
				return true
			}
			nGo++
			ast.Inspect(g, func(m ast.Node) bool {
				if id, ok := m.(*ast.Ident); ok && summary != nil && info.Uses[id] == summary {
					bad = p.Pos(id.Pos())
				}
				return true
			})
			return true
		})
		c.Check(bad == "" && summary != nil, "C11-R2", "checkRules:no goroutine touches the summary", cr.Decl.Pos(), itoa(nGo)+" go statements inspected", "the summary is used inside a goroutine at "+bad+" (concurrent appends, arrival-order dependent state)")
		// Report only inside the range over the results channel, in the function body proper
		nRep, good := 0, 0
		pm := parentMap(cr.Decl.Body)
		ast.Inspect(cr.Decl.Body, func(n ast.Node) bool {
			call, ok := n.(*ast.CallExpr)
			if !ok || !isCallTo(info, call, "internal/reporter.Summary.Report") {
				return true
			}
			nRep++
			inLit := false
			var loop *ast.RangeStmt
			for cur := pm[call]; cur != nil; cur = pm[cur] {
				if _, ok := cur.(*ast.FuncLit); ok {
					inLit = true
				}
				if rs, ok := cur.(*ast.RangeStmt); ok && loop == nil {
					loop = rs
				}
			}
			if !inLit && loop != nil {
				if ch, ok := info.TypeOf(loop.X).Underlying().(*types.Chan); ok && typeQName(ch.Elem()) == "internal/reporter.Report" {
					good++
				}
			}
			return true
		})
		c.Check(nRep == 1 && good == 1, "C11-R2", "checkRules:reports added only by the loop draining the results channel", cr.Decl.Pos(), "single consumer", "summary.Report is called outside the single fan-in loop ("+itoa(good)+"/"+itoa(nRep)+")")
		// results channel closed only after all workers are done: close(results) deferred in a goroutine that waits
		okClose := false
		ast.Inspect(cr.Decl.Body, func(n ast.Node) bool {
			g, ok := n.(*ast.GoStmt)
			if !ok {
				return true
			}
			lit, ok := g.Call.Fun.(*ast.FuncLit)
			if !ok {
				return true
			}
			closes, waits := false, false
			ast.Inspect(lit.Body, func(m ast.Node) bool {
				if call, ok := m.(*ast.CallExpr); ok {
					if exprStr(call.Fun) == "close" && len(call.Args) == 1 {
						if ch, ok := info.TypeOf(call.Args[0]).Underlying().(*types.Chan); ok && typeQName(ch.Elem()) == "internal/reporter.Report" {
							closes = true
						}
					}
					if fn := Callee(info, call); fn != nil && fn.Pkg() != nil && fn.Pkg().Path() == "sync" && fn.Name() == "Wait" {
						waits = true
					}
				}
				return true
			})
			if closes && waits {
				okClose = true
			}
			return true
		})
		c.Check(okClose, "C11-R2", "checkRules:results closed after all workers finished", cr.Decl.Pos(), "close after wg.Wait", "the results channel is not closed by a goroutine that first waits for every worker")
	}

	// duplicate detection on arrival is order independent: hasReport scans the whole list
	if hr := c.P.Func("internal/reporter.Summary.hasReport"); hr == nil {
		// no helper: Summary.Report asks slices.ContainsFunc(s.reports, …), which looks at every stored report
		ok := false
		if rp := c.MustFunc("C11-R2", "internal/reporter.Summary.Report"); rp != nil {
			ast.Inspect(rp.Decl.Body, func(n ast.Node) bool {
				if call, isCall := n.(*ast.CallExpr); isCall && len(call.Args) == 2 {
					if fn := Callee(rp.Pkg.TypesInfo, call); fn != nil && fn.Pkg() != nil && fn.Pkg().Path() == "slices" && fn.Name() == "ContainsFunc" && fieldSel(rp.Pkg.TypesInfo, call.Args[0], "internal/reporter.Summary", "reports") {
						ok = true
					}
				}
				return true
			})
			c.Check(ok, "C11-R2", "hasReport:scans every stored report", rp.Decl.Pos(), "slices.ContainsFunc over s.reports", "Summary.Report no longer compares the new report with every stored one: whether two equal reports are folded depends on what arrived between them")
		}
	} else {
		rinfo := hr.Pkg.TypesInfo
		var loop *ast.RangeStmt
		nLoops := 0
		ast.Inspect(hr.Decl.Body, func(n ast.Node) bool {
			switch x := n.(type) {
			case *ast.RangeStmt:
				nLoops++
				if fieldSel(rinfo, x.X, "internal/reporter.Summary", "reports") {
					loop = x
				}
			case *ast.ForStmt:
				nLoops++
			}
			return true
		})
		okScan := loop != nil && nLoops == 1
		if loop == nil && nLoops == 0 {
			// the scan written as slices.ContainsFunc(s.reports, …): looks at every stored report
			ast.Inspect(hr.Decl.Body, func(n ast.Node) bool {
				if call, isCall := n.(*ast.CallExpr); isCall && len(call.Args) == 2 {
					if fn := Callee(rinfo, call); fn != nil && fn.Pkg() != nil && fn.Pkg().Path() == "slices" && fn.Name() == "ContainsFunc" && fieldSel(rinfo, call.Args[0], "internal/reporter.Summary", "reports") {
						okScan = true
					}
				}
				return true
			})
		} else if okScan {
			inspectNoLit(loop.Body, func(n ast.Node) bool {
				if b, ok := n.(*ast.BranchStmt); ok && b.Tok != token.FALLTHROUGH {
					okScan = false
				}
				return true
			})
			for _, r := range returnsIn(loop.Body.List) {
				if exprStr(r.Results[0]) != "true" {
					okScan = false
				}
			}
		}
		c.Check(okScan, "C11-R2", "hasReport:scans every stored report", hr.Decl.Pos(), "range s.reports, positive exit only", "Summary.hasReport no longer compares the new report with every stored one: whether two equal reports are folded depends on what arrived between them")
	}

	// ---- R3 ----
	c11Globals(c, "C11-R3")

	// ---- R4 ----
	checkGuards(c, "C11-R4", []GuardSpec{
		{Type: "internal/promapi.queryCache", Fields: []string{"entries", "stats", "evictions"}, Mutex: "mu"},
		{Type: "internal/promapi.partitionLocker", Fields: []string{"s"}, Mutex: "l"},
		{Type: "internal/promapi.unsupporedAPIs", Fields: []string{"noConfig", "noFlags", "noMetadata"}, Mutex: "mtx"},
		{Type: "internal/promapi.disabledChecks", Fields: []string{"apis"}, Mutex: "mtx"},
	}, map[string]string{
		"internal/promapi.disabledChecks.read": "consumer runs after the fan-in loop (checked below)",
	})
	disabledChecksEscape(c, "C11-R4")
	c11UnsupportedTables(c, "C11-R4")

	// ---- R5 ----
	for _, fn := range []string{"internal/reporter.ConsoleReporter.Submit", "internal/reporter.JSONReporter.Submit", "internal/reporter.Summary.ReportsPerPath", "internal/reporter.Summary.Reports"} {
		fi := c.MustFunc("C11-R5", fn)
		if fi == nil {
			continue
		}
		bad := ""
		ast.Inspect(fi.Decl.Body, func(n ast.Node) bool {
			if rs, ok := n.(*ast.RangeStmt); ok {
				if _, isMap := fi.Pkg.TypesInfo.TypeOf(rs.X).Underlying().(*types.Map); isMap {
					bad = p.Pos(rs.Pos())
				}
			}
			return true
		})
		c.Check(bad == "", "C11-R5", fn[strings.LastIndex(fn, "/")+1:]+":no map iteration", fi.Decl.Pos(), "order comes from the sorted slice", "output is produced while ranging over a map at "+bad+" (random order)")
	}
	// nothing is logged or printed from inside a loop over a map, anywhere in
	// the command or the reporters: the lines would come out in a random order
	nOut := 0
	for _, fi := range p.AllFuncs() {
		if fi.Decl.Body == nil || p.IsTestFile(fi.Decl.Pos()) {
			continue
		}
		rp := relPkg(fi.Pkg.PkgPath)
		if rp != "cmd/pint" && rp != "internal/reporter" {
			continue
		}
		finfo := fi.Pkg.TypesInfo
		var walk func(n ast.Node, inMap token.Pos)
		walk = func(n ast.Node, inMap token.Pos) {
			ast.Inspect(n, func(m ast.Node) bool {
				switch x := m.(type) {
				case *ast.RangeStmt:
					if _, isMap := finfo.TypeOf(x.X).Underlying().(*types.Map); isMap && x.Body != nil {
						walk(x.Body, x.Pos())
						return false
					}
				case *ast.CallExpr:
					fn := Callee(finfo, x)
					if fn == nil || fn.Pkg() == nil {
						return true
					}
					isOut := false
					switch fn.Pkg().Path() {
					case "log/slog":
						switch fn.Name() {
						case "Info", "Warn", "Error", "Log", "InfoContext", "WarnContext", "ErrorContext":
							isOut = true
						}
					case "fmt":
						isOut = strings.HasPrefix(fn.Name(), "Print") || strings.HasPrefix(fn.Name(), "Fprint")
					}
					if isOut {
						nOut++
						c.Check(inMap == token.NoPos, "C11-R5", fi.Name+":output call not inside a loop over a map", x.Pos(), "ordered", "a log or print call runs once per iteration of the map loop at "+p.Pos(inMap)+": Go randomises map iteration, so the order of these lines differs from run to run")
					}
				}
				return true
			})
		}
		walk(fi.Decl.Body, token.NoPos)
	}
	c.Check(nOut >= 20, "C11-R5", "output calls of the command and the reporters enumerated", token.NoPos, itoa(nOut), "implausibly few output calls found ("+itoa(nOut)+")")
	if gp := c.MustFunc("C11-R5", "internal/reporter.Summary.GetPrometheusDetails"); gp != nil {
		ginfo := gp.Pkg.TypesInfo
		fl := p.NewFlow(gp)
		rets := fl.Find(func(n ast.Node) bool { _, ok := n.(*ast.ReturnStmt); return ok })
		ok := len(rets) >= 1
		for _, r := range rets {
			ret := r.Inner.(*ast.ReturnStmt)
			out := objOf(ginfo, ret.Results[0])
			target := r.Site
			sorted, _ := fl.MustPass(fl.Entry(), func(x Site) bool { return x == target }, false, func(n ast.Node) bool {
				found := false
				inspectNoLit(n, func(m ast.Node) bool {
					if call, isCall := m.(*ast.CallExpr); isCall && len(call.Args) >= 1 {
						if fn := Callee(ginfo, call); fn != nil && fn.Pkg() != nil && (fn.Pkg().Path() == "slices" || fn.Pkg().Path() == "sort") && strings.HasPrefix(fn.Name(), "Sort") && objOf(ginfo, call.Args[0]) == out {
							found = true
						}
					}
					return true
				})
				return found
			})
			if !sorted {
				ok = false
			}
		}
		c.Check(ok, "C11-R5", "GetPrometheusDetails:result sorted after map iteration", gp.Decl.Pos(), "sorted", "the list collected from the promDetails map is returned unsorted")
	}
	c11NestedDetailsSorted(c, "C11-R5")
}

// c11NestedDetailsSorted: the two lists nested in the Prometheus details are
// filled in map-iteration order (`for api, names := range GetDisabledChecks()`
// in checkRules) and in the order the workers hit unsupported APIs, so they are
// sorted before anybody reads them: the per-server DisabledChecks list and the
// Checks list of each entry are each the first argument of a sort call in
// Summary.GetPrometheusDetails or Summary.MarkCheckDisabled. The comment that
// lists disabled checks is built from them; text that changes from run to run
// is posted again on every run.
func c11NestedDetailsSorted(c *Ctx, R string) {
	n := map[string]int{}
	var anchor token.Pos
	for _, name := range []string{"internal/reporter.Summary.GetPrometheusDetails", "internal/reporter.Summary.MarkCheckDisabled"} {
		fi := c.MustFunc(R, name)
		if fi == nil {
			continue
		}
		if anchor == token.NoPos {
			anchor = fi.Decl.Pos()
		}
		info := fi.Pkg.TypesInfo
		// parameters stored into DisabledChecks.Checks stand for that field
		alias := map[types.Object]bool{}
		ast.Inspect(fi.Decl.Body, func(nd ast.Node) bool {
			if cl, ok := nd.(*ast.CompositeLit); ok && strings.HasSuffix(typeQName(info.TypeOf(cl)), "reporter.DisabledChecks") {
				if v := litField(cl, "Checks"); v != nil {
					if o := objOf(info, v); o != nil {
						alias[o] = true
					}
				}
			}
			return true
		})
		ast.Inspect(fi.Decl.Body, func(nd ast.Node) bool {
			call, ok := nd.(*ast.CallExpr)
			if !ok || len(call.Args) == 0 {
				return true
			}
			fn := Callee(info, call)
			if fn == nil || fn.Pkg() == nil || (fn.Pkg().Path() != "slices" && fn.Pkg().Path() != "sort") || !(strings.HasPrefix(fn.Name(), "Sort") || fn.Name() == "Strings" || fn.Name() == "Stable" || fn.Name() == "Slice" || fn.Name() == "SliceStable") {
				return true
			}
			a := call.Args[0]
			switch {
			case fieldSel(info, a, "internal/reporter.PrometheusDetails", "DisabledChecks"):
				n["DisabledChecks"]++
			case fieldSel(info, a, "internal/reporter.DisabledChecks", "Checks"), alias[objOf(info, a)]:
				n["Checks"]++
			}
			return true
		})
	}
	for _, f := range []string{"DisabledChecks", "Checks"} {
		c.Check(n[f] >= 1, R, "Prometheus details: the "+f+" list is sorted before it is read", anchor, itoa(n[f])+" sort call(s)",
			"nothing sorts the "+f+" list of the Prometheus details: it is filled in map-iteration / worker order, so the `checks were disabled` log lines and the comment built from them change from run to run (and a comment whose text changed is posted again)")
	}
}

// c11Globals: functions reachable from the workers must not store to
// package-level variables.
func c11Globals(c *Ctx, R string) {
	p := c.P
	// roots: scanWorker and every Check method of RuleChecker implementers
	var roots []*FuncInfo
	if sw := c.MustFunc(R, "cmd/pint.scanWorker"); sw != nil {
		roots = append(roots, sw)
	}
	for _, tn := range checkerTypes(c, R) {
		if m := p.methodOn(typeQName(tn.Type()), "Check"); m != nil {
			roots = append(roots, m)
		}
	}
	// module interface methods -> implementers (CHA restricted to module interfaces)
	ifaceImpl := map[string][]*FuncInfo{}
	resolve := func(fn *types.Func) []*FuncInfo {
		if fi := p.FuncOf(fn); fi != nil {
			return []*FuncInfo{fi}
		}
		sig := fn.Type().(*types.Signature)
		if sig.Recv() == nil {
			return nil
		}
		it, ok := sig.Recv().Type().Underlying().(*types.Interface)
		if !ok || fn.Pkg() == nil || !strings.HasPrefix(fn.Pkg().Path(), ModPath) {
			return nil
		}
		key := funcQName(fn)
		if v, done := ifaceImpl[key]; done {
			return v
		}
		var out []*FuncInfo
		for _, tn := range p.implementers(it) {
			if m := p.methodOn(typeQName(tn.Type()), fn.Name()); m != nil {
				out = append(out, m)
			}
		}
		ifaceImpl[key] = out
		return out
	}
	reach := map[*FuncInfo]bool{}
	work := append([]*FuncInfo{}, roots...)
	for len(work) > 0 {
		fi := work[len(work)-1]
		work = work[:len(work)-1]
		if reach[fi] || fi.Decl.Body == nil {
			continue
		}
		reach[fi] = true
		info := fi.Pkg.TypesInfo
		ast.Inspect(fi.Decl.Body, func(n ast.Node) bool {
			switch x := n.(type) {
			case *ast.CallExpr:
				if fn := Callee(info, x); fn != nil {
					work = append(work, resolve(fn)...)
				}
			case *ast.Ident:
				// function values
				if fn, ok := info.Uses[x].(*types.Func); ok {
					work = append(work, resolve(fn.Origin())...)
				}
			}
			return true
		})
	}
	var names []string
	nStores := 0
	for fi := range reach {
		if p.IsTestFile(fi.Decl.Pos()) {
			continue
		}
		names = append(names, fi.Name)
		info := fi.Pkg.TypesInfo
		isPkgVar := func(e ast.Expr) types.Object {
			root, _, ok := accessPath(info, e)
			if !ok {
				// index expressions: pkgVar[k] = v
				if ix, isIx := ast.Unparen(e).(*ast.IndexExpr); isIx {
					root, _, ok = accessPath(info, ix.X)
				}
				if !ok {
					return nil
				}
			}
			v, isVar := root.(*types.Var)
			if !isVar || v.Pkg() == nil || v.Parent() != v.Pkg().Scope() {
				return nil
			}
			return v
		}
		ast.Inspect(fi.Decl.Body, func(n ast.Node) bool {
			var lhs []ast.Expr
			switch x := n.(type) {
			case *ast.AssignStmt:
				if x.Tok == token.DEFINE {
					return true
				}
				lhs = x.Lhs
			case *ast.IncDecStmt:
				lhs = []ast.Expr{x.X}
			}
			for _, l := range lhs {
				if v := isPkgVar(l); v != nil {
					nStores++
					c.Bad(R, "store to package variable "+relPkg(v.Pkg().Path())+"."+v.Name()+" in "+fi.Name, n.Pos(), "a function reachable from the check workers writes a package-level variable without synchronisation (result depends on scheduling)")
				}
			}
			return true
		})
	}
	// stores into the shared parsed rule / PromQL AST: allowed only on values the function (or, for a
	// pointer parameter, every caller) allocated itself, and never through a shared element or pointer field
	nShared, nSetup := 0, 0
	// the state of a check: the check types and every struct of internal/checks they hold in a field
	checkState := map[string]bool{}
	if R == "C11-R3" {
		var addT func(t types.Type, depth int)
		addT = func(t types.Type, depth int) {
			n := namedOf(t)
			if n == nil || n.Obj().Pkg() == nil || relPkg(n.Obj().Pkg().Path()) != "internal/checks" || depth > 3 {
				if sl, ok := t.Underlying().(*types.Slice); ok && depth <= 3 {
					addT(sl.Elem(), depth+1)
				}
				return
			}
			q := typeQName(n)
			if checkState[q] {
				return
			}
			st, ok := n.Underlying().(*types.Struct)
			if !ok {
				return
			}
			checkState[q] = true
			for i := 0; i < st.NumFields(); i++ {
				addT(st.Field(i).Type(), depth+1)
			}
		}
		for _, tn := range checkerTypes(c, R) {
			addT(tn.Type(), 0)
		}
	}
	isSharedType := func(owner string) bool {
		if R == "C09-R4" {
			// what match/ignore conditions read: the YAML side of a rule and the entry, not the PromQL tree
			return strings.HasPrefix(owner, "internal/parser.Yaml") || owner == "internal/parser.Rule" || owner == "internal/parser.AlertingRule" || owner == "internal/parser.RecordingRule" || owner == "internal/discovery.Entry"
		}
		// (and the checks themselves: a check instance, and the pattern objects it holds, may be built once and
		// used for many rules — a memo written from Check() makes one rule's result depend on another's)
		return strings.HasPrefix(owner, "github.com/prometheus/prometheus/promql/parser.") || strings.HasPrefix(owner, "internal/parser.") || owner == "internal/discovery.Entry" || (R == "C11-R3" && checkState[owner])
	}
	freshIn := func(fi *FuncInfo) map[types.Object]string {
		info := fi.Pkg.TypesInfo
		fresh := map[types.Object]string{}
		mark := func(l ast.Expr, rhs ast.Expr) {
			o := objOf(info, l)
			if o == nil || rhs == nil {
				return
			}
			// a literal whose slice or map field is filled with somebody
			// else's slice (as is, or re-sliced) owns the struct but not
			// the elements: "shallow"
			litKind := func(cl *ast.CompositeLit) string {
				for _, e := range cl.Elts {
					kv, ok := e.(*ast.KeyValueExpr)
					if !ok {
						continue
					}
					switch info.TypeOf(kv.Value).Underlying().(type) {
					case *types.Slice, *types.Map:
						switch ast.Unparen(kv.Value).(type) {
						case *ast.Ident, *ast.SelectorExpr, *ast.SliceExpr, *ast.IndexExpr:
							if tv, ok := info.Types[kv.Value]; ok && tv.IsNil() {
								continue
							}
							return "shallow"
						}
					}
				}
				return "literal"
			}
			switch r := ast.Unparen(rhs).(type) {
			case *ast.UnaryExpr:
				if cl, isLit := r.X.(*ast.CompositeLit); isLit && r.Op == token.AND {
					fresh[o] = litKind(cl)
				}
			case *ast.CompositeLit:
				fresh[o] = litKind(r)
			case *ast.CallExpr:
				if exprStr(r.Fun) == "new" || exprStr(r.Fun) == "make" {
					fresh[o] = "literal"
				}
				if fn := Callee(info, r); fn != nil && fn.Pkg() != nil && fn.Pkg().Path() == "github.com/prometheus/prometheus/promql/parser" && strings.HasPrefix(fn.Name(), "Parse") {
					fresh[o] = "parsed"
				}
			}
		}
		for pass := 0; pass < 2; pass++ {
			ast.Inspect(fi.Decl.Body, func(n ast.Node) bool {
				switch x := n.(type) {
				case *ast.AssignStmt:
					for i, l := range x.Lhs {
						if len(x.Rhs) == len(x.Lhs) {
							mark(l, x.Rhs[i])
						} else if len(x.Rhs) == 1 && i == 0 {
							mark(l, x.Rhs[0])
						}
					}
				case *ast.ValueSpec:
					if x.Type != nil {
						if _, isPtr := info.TypeOf(x.Type).(*types.Pointer); !isPtr {
							for _, id := range x.Names {
								fresh[info.Defs[id]] = "literal"
							}
						}
					}
				case *ast.TypeSwitchStmt:
					// switch n := node.(type): n owns what node owns
					if as, ok := x.Assign.(*ast.AssignStmt); ok && len(as.Rhs) == 1 {
						if ta, ok := as.Rhs[0].(*ast.TypeAssertExpr); ok {
							if kind, isFresh := fresh[objOf(info, ta.X)]; isFresh {
								for _, cl := range x.Body.List {
									if o := info.Implicits[cl]; o != nil {
										fresh[o] = kind
									}
								}
							}
						}
					}
				}
				return true
			})
		}
		return fresh
	}
	freshCache := map[*FuncInfo]map[types.Object]string{}
	getFresh := func(fi *FuncInfo) map[types.Object]string {
		if f, ok := freshCache[fi]; ok {
			return f
		}
		f := freshIn(fi)
		freshCache[fi] = f
		return f
	}
	// appends that can land in somebody else's array: a list the function was handed is re-sliced
	// without a capacity limit (`dst = src[:0]`, the filter-in-place idiom) or grown with slices.Grow
	// (which hands back the same array when there is room), and then appended to. The list the
	// workers are handed — the entries, a rule's labels — is shared with every other job.
	if R == "C11-R3" {
		nAlias := 0
		var names []*FuncInfo
		for fi := range reach {
			names = append(names, fi)
		}
		sort.Slice(names, func(i, j int) bool { return names[i].Name < names[j].Name })
		for _, fi := range names {
			if p.IsTestFile(fi.Decl.Pos()) {
				continue
			}
			info := fi.Pkg.TypesInfo
			sig := fi.Obj.Type().(*types.Signature)
			isParam := func(o types.Object) bool {
				for i := 0; i < sig.Params().Len(); i++ {
					if types.Object(sig.Params().At(i)) == o {
						return true
					}
				}
				return sig.Recv() != nil && types.Object(sig.Recv()) == o
			}
			fresh := getFresh(fi)
			foreign := func(e ast.Expr) bool {
				root, _, ok := accessPath(info, e)
				if !ok || root == nil {
					return false
				}
				if _, isFresh := fresh[root]; isFresh {
					return false
				}
				return isParam(root)
			}
			aliases := map[types.Object]ast.Node{}
			note := func(lhs ast.Expr, rhs ast.Expr, at ast.Node) {
				r := ast.Unparen(rhs)
				shared := false
				switch x := r.(type) {
				case *ast.SliceExpr:
					shared = !x.Slice3 && foreign(x.X)
				case *ast.CallExpr:
					if fn := Callee(info, x); fn != nil && fn.Pkg() != nil && fn.Pkg().Path() == "slices" && fn.Name() == "Grow" && len(x.Args) == 2 {
						shared = foreign(x.Args[0])
					}
				}
				if !shared {
					return
				}
				if o := objOf(info, lhs); o != nil {
					aliases[o] = rhs
					return
				}
				// a field of a literal / of a local struct: any later append through that field
				if sel, ok := ast.Unparen(lhs).(*ast.SelectorExpr); ok {
					if o := info.Uses[sel.Sel]; o != nil {
						aliases[o] = at
					}
				}
			}
			ast.Inspect(fi.Decl.Body, func(n ast.Node) bool {
				switch x := n.(type) {
				case *ast.AssignStmt:
					if len(x.Lhs) == len(x.Rhs) {
						for i := range x.Lhs {
							note(x.Lhs[i], x.Rhs[i], x)
						}
					}
				case *ast.KeyValueExpr:
					if id, ok := x.Key.(*ast.Ident); ok {
						if fo, isField := info.Uses[id].(*types.Var); isField && fo.IsField() {
							r := ast.Unparen(x.Value)
							shared := false
							switch y := r.(type) {
							case *ast.SliceExpr:
								shared = !y.Slice3 && foreign(y.X)
							case *ast.CallExpr:
								if fn := Callee(info, y); fn != nil && fn.Pkg() != nil && fn.Pkg().Path() == "slices" && fn.Name() == "Grow" && len(y.Args) == 2 {
									shared = foreign(y.Args[0])
								}
							}
							if shared {
								aliases[fo] = x
							}
						}
					}
				}
				return true
			})
			if len(aliases) == 0 {
				continue
			}
			// is the alias (or the field) appended to — here, or for a field anywhere in worker-reachable code?
			for o, at := range aliases {
				appended := token.NoPos
				scan := []*FuncInfo{fi}
				if v, isVar := o.(*types.Var); isVar && v.IsField() {
					scan = names
				}
				for _, g := range scan {
					ginfo := g.Pkg.TypesInfo
					ast.Inspect(g.Decl.Body, func(n ast.Node) bool {
						call, ok := n.(*ast.CallExpr)
						if !ok || exprStr(call.Fun) != "append" || len(call.Args) < 2 {
							return true
						}
						a0 := ast.Unparen(call.Args[0])
						if objOf(ginfo, a0) == o {
							appended = call.Pos()
						}
						if sel, isSel := a0.(*ast.SelectorExpr); isSel && ginfo.Uses[sel.Sel] == o {
							appended = call.Pos()
						}
						return true
					})
				}
				if appended != token.NoPos {
					nAlias++
					c.Bad(R, "append into a list shared with the caller in "+fi.Name, at.Pos(), "`"+exprStr(at)+"` keeps the array (and spare capacity) of a list this function was handed, and "+p.Pos(appended)+" appends to it: the elements land in the caller's array — the shared entry list of all scan jobs, or the label list of a group — so other jobs see entries or labels that are not theirs, depending on which job ran first")
				}
			}
		}
		c.Check(nAlias == 0, R, "no append into a re-sliced or grown list of the caller in worker-reachable code", token.NoPos, "0 sites", itoa(nAlias)+" sites")
	}
	for fi := range reach {
		if p.IsTestFile(fi.Decl.Pos()) {
			continue
		}
		info := fi.Pkg.TypesInfo
		fresh := getFresh(fi)
		ast.Inspect(fi.Decl.Body, func(n ast.Node) bool {
			var lhs []ast.Expr
			switch x := n.(type) {
			case *ast.AssignStmt:
				if x.Tok == token.DEFINE {
					return true
				}
				lhs = x.Lhs
			case *ast.IncDecStmt:
				lhs = []ast.Expr{x.X}
			}
			for _, l := range lhs {
				// walk the chain down to the root, noting the innermost shared-type field and crossings
				var root *ast.Ident
				crossed := 0 // element or pointer-field crossings strictly between root and the stored location
				sharedField := ""
				first := true
				for cur := ast.Unparen(l); cur != nil; {
					switch x := cur.(type) {
					case *ast.SelectorExpr:
						if owner := fieldOwner(info, x); isSharedType(owner) && sharedField == "" {
							sharedField = owner + "." + x.Sel.Name
						}
						if !first || true {
							// does evaluating x.X dereference a pointer that is not the root variable?
							if _, isPtr := info.TypeOf(x.X).Underlying().(*types.Pointer); isPtr {
								if _, isRoot := ast.Unparen(x.X).(*ast.Ident); !isRoot {
									crossed++
								}
							}
						}
						cur = ast.Unparen(x.X)
					case *ast.IndexExpr:
						if !first {
							crossed++
						}
						cur = ast.Unparen(x.X)
					case *ast.StarExpr:
						cur = ast.Unparen(x.X)
					case *ast.Ident:
						root = x
						cur = nil
					default:
						cur = nil
					}
					first = false
				}
				// the server objects (failover groups, upstreams) are set up before the workers start and
				// only read afterwards: a worker that rewrites one (reorders the upstream list, remembers
				// the last good server) makes later answers depend on which check ran first
				if R == "C11-R3" && root != nil {
					setup := ""
					for cur := ast.Unparen(l); cur != nil; {
						switch x := cur.(type) {
						case *ast.SelectorExpr:
							if owner := fieldOwner(info, x); owner == "internal/promapi.FailoverGroup" || owner == "internal/promapi.Prometheus" {
								setup = owner + "." + x.Sel.Name
							}
							cur = ast.Unparen(x.X)
						case *ast.IndexExpr:
							cur = ast.Unparen(x.X)
						case *ast.StarExpr:
							cur = ast.Unparen(x.X)
						default:
							cur = nil
						}
					}
					if v, isVar := info.Uses[root].(*types.Var); setup != "" && isVar && !v.IsField() {
						if _, isFresh := fresh[types.Object(v)]; !isFresh {
							nSetup++
							c.Bad(R, "store into "+setup+" in "+fi.Name, n.Pos(), "a function reachable from the check workers rewrites a field of a server object (failover group or upstream) that is shared by all workers and set up before they start: which upstream answers, and so the URI and result a problem quotes, then depends on which checks ran before (and the store races with the other workers)")
						}
					}
				}
				if root == nil || sharedField == "" {
					continue
				}
				ro := info.Uses[root]
				v, isVar := ro.(*types.Var)
				if !isVar || v.IsField() {
					continue
				}
				_, indexStore := ast.Unparen(l).(*ast.IndexExpr)
				kind, isFresh := fresh[ro]
				if isFresh && kind == "shallow" && indexStore {
					isFresh = false
				}
				if isFresh && (crossed == 0 || kind == "parsed") {
					continue
				}
				_, rootIsPtr := v.Type().Underlying().(*types.Pointer)
				if crossed == 0 && !rootIsPtr {
					continue // a struct value: only this function's copy changes
				}
				if crossed == 0 && rootIsPtr {
					// pointer parameter / receiver: every caller must hand in something it allocated itself
					sig := fi.Obj.Type().(*types.Signature)
					argIdx := -2
					if sig.Recv() == v {
						argIdx = -1
					}
					for i := 0; i < sig.Params().Len(); i++ {
						if sig.Params().At(i) == v {
							argIdx = i
						}
					}
					callers := p.CallersOf(fi.Obj)
					if argIdx >= -1 && len(callers) > 0 && len(p.FuncValueUses(fi.Obj)) == 0 {
						all := true
						for _, cs := range callers {
							var arg ast.Expr
							if argIdx == -1 {
								if sel, ok := cs.Call.Fun.(*ast.SelectorExpr); ok {
									arg = sel.X
								}
							} else if argIdx < len(cs.Call.Args) {
								arg = cs.Call.Args[argIdx]
							}
							ok := false
							if arg != nil {
								a := ast.Unparen(arg)
								if u, isU := a.(*ast.UnaryExpr); isU && u.Op == token.AND {
									a = ast.Unparen(u.X)
								}
								if id, isID := a.(*ast.Ident); isID {
									if k, f := getFresh(cs.Caller)[cs.Caller.Pkg.TypesInfo.Uses[id]]; f && !(k == "shallow" && indexStore) {
										ok = true
									}
								}
							}
							if !ok {
								all = false
							}
						}
						if all {
							continue
						}
					}
				}
				nShared++
				why := "through a pointer it did not allocate"
				if crossed > 0 {
					why = "through an element or pointer field that can be shared with the original"
				}
				c.Bad(R, "store into shared "+sharedField+" in "+fi.Name, n.Pos(), "a function reachable from the check workers writes into the parsed rule / PromQL AST "+why+": that state is shared by every check of the rule (and of its group), so later or concurrent checks see the modification and results depend on scheduling")
			}
			return true
		})
	}
	c.Check(nShared == 0, R, "no stores into the shared rule/AST from worker-reachable code", token.NoPos, "0 stores", itoa(nShared)+" stores")
	if R == "C11-R3" {
		c.Check(nSetup == 0, R, "no stores into server objects from worker-reachable code", token.NoPos, "0 stores", itoa(nSetup)+" stores")
	}
	sort.Strings(names)
	c.Check(len(reach) >= 100, R, "worker-reachable functions enumerated", token.NoPos, itoa(len(reach))+" functions reachable from scanWorker and the Check methods", "call-graph closure from the workers is implausibly small ("+itoa(len(reach))+")")
	c.Check(nStores == 0, R, "no package-level stores in worker-reachable code", token.NoPos, "0 stores", itoa(nStores)+" stores")
	c.Note(R+" reachable set (%d): %s", len(names), strings.Join(names, " "))
}

// c11WorkerCount: checkRules starts exactly `workers` scan workers: the
// counting loop around the go statement that runs scanWorker goes from 1 to
// `<= workers` or from 0 to `< workers`. One worker too few is invisible for
// every count but 1, where nothing is scanned at all and pint reports no problems.
func c11WorkerCount(c *Ctx) {
	p := c.P
	cr := c.MustFunc("C11-R2", "cmd/pint.checkRules")
	if cr == nil {
		return
	}
	info := cr.Pkg.TypesInfo
	sig := cr.Obj.Type().(*types.Signature)
	var workersP types.Object
	for i := 0; i < sig.Params().Len(); i++ {
		if sig.Params().At(i).Type().String() == "int" && workersP == nil {
			workersP = sig.Params().At(i)
		}
	}
	pm := parentMap(cr.Decl.Body)
	n := 0
	ast.Inspect(cr.Decl.Body, func(nd ast.Node) bool {
		call, ok := nd.(*ast.CallExpr)
		if !ok || !isCallTo(info, call, "cmd/pint.scanWorker") {
			return true
		}
		n++
		var loop *ast.ForStmt
		var rloop *ast.RangeStmt
		inGo := false
		for cur := pm[ast.Node(call)]; cur != nil; cur = pm[cur] {
			switch x := cur.(type) {
			case *ast.GoStmt:
				inGo = true
			case *ast.ForStmt:
				if loop == nil && rloop == nil {
					loop = x
				}
			case *ast.RangeStmt:
				if loop == nil && rloop == nil {
					rloop = x
				}
			}
		}
		ok2, detail := false, "scanWorker is not started from a counting loop"
		// `for range workers` / `for i := range workers` (range over an integer) runs exactly `workers` times
		if rloop != nil && isObj(info, rloop.X, workersP) {
			ok2, detail = true, "range over the worker count"
		}
		if loop != nil && loop.Init != nil && loop.Cond != nil && loop.Post != nil {
			init, _ := loop.Init.(*ast.AssignStmt)
			post, _ := loop.Post.(*ast.IncDecStmt)
			be, _ := ast.Unparen(loop.Cond).(*ast.BinaryExpr)
			if init != nil && post != nil && be != nil && post.Tok == token.INC && len(init.Rhs) == 1 && len(init.Lhs) == 1 {
				start, isC := constInt(info, init.Rhs[0])
				v := objOf(info, init.Lhs[0])
				same := v != nil && objOf(info, be.X) == v && objOf(info, post.X) == v
				detail = "loop from " + exprStr(init.Rhs[0]) + " while `" + roleStr(info, loop.Cond) + "`"
				if isC && same && isObj(info, be.Y, workersP) && ((start == 1 && be.Op == token.LEQ) || (start == 0 && be.Op == token.LSS)) {
					ok2 = true
				}
			}
		}
		c.Check(ok2 && inGo, "C11-R2", "checkRules:exactly `workers` scan workers are started", call.Pos(), detail,
			"the worker start loop does not run exactly `workers` times ("+detail+"): with --workers=1 no worker may run at all, the results channel is closed at once and pint reports zero problems")
		return true
	})
	c.Check(n == 1, "C11-R2", "checkRules:one scanWorker start site", cr.Decl.Pos(), "one", itoa(n)+" call sites of scanWorker")
	_ = p
}

// c11PackageSlicesNotAppended: `append(G, x)` on a package-level slice G is
// only harmless when G has no spare capacity: then every call copies. G's
// initialiser must therefore be a composite literal (len == cap). A slice
// expression or the result of a function (strings.SplitAfter(...)[:4]) can have
// spare capacity, and concurrent workers then write their element into the
// same backing slot — one worker parses another rule's template text.
func c11PackageSlicesNotAppended(c *Ctx, rule string) {
	p := c.P
	n := 0
	for _, fi := range p.AllFuncs() {
		if fi.Decl.Body == nil || p.IsTestFile(fi.Decl.Pos()) {
			continue
		}
		info := fi.Pkg.TypesInfo
		ast.Inspect(fi.Decl.Body, func(nd ast.Node) bool {
			call, ok := nd.(*ast.CallExpr)
			if !ok || len(call.Args) < 2 {
				return true
			}
			id, ok := call.Fun.(*ast.Ident)
			if !ok || id.Name != "append" {
				return true
			}
			if _, isBuiltin := info.Uses[id].(*types.Builtin); !isBuiltin {
				return true
			}
			g, ok := ast.Unparen(call.Args[0]).(*ast.Ident)
			if !ok {
				return true
			}
			v, ok := info.Uses[g].(*types.Var)
			if !ok || v.Pkg() == nil || v.Parent() != v.Pkg().Scope() {
				return true
			}
			// result stored back into G itself (initialisation-time growth) is a different matter: R3
			if as, isAs := parentOf(fi, call).(*ast.AssignStmt); isAs && len(as.Lhs) == 1 && isObj(info, as.Lhs[0], v) {
				return true
			}
			n++
			init := packageVarInit(p, v)
			okInit := false
			switch x := ast.Unparen(init).(type) {
			case *ast.CompositeLit:
				okInit = true
			case *ast.CallExpr:
				if fn := Callee(info, x); fn != nil && fn.Pkg() != nil && fn.Pkg().Path() == "slices" && (fn.Name() == "Clip" || fn.Name() == "Clone") {
					okInit = true
				}
			}
			c.Check(okInit, rule, fi.Name+":append to package-level "+v.Name()+" cannot write into shared spare capacity", call.Pos(), "initialised by a composite literal (len == cap)",
				"`append("+v.Name()+", …)` is evaluated by concurrent workers and "+v.Name()+" is initialised by `"+exprStr(init)+"`, which can leave spare capacity: the appended element lands in the same backing slot for every caller, so one worker can parse or report another rule's text")
			return true
		})
	}
	c.Ok(rule, "appends to package-level slices enumerated", token.NoPos, itoa(n)+" site(s)")
}

func parentOf(fi *FuncInfo, n ast.Node) ast.Node {
	return parentMap(fi.Decl.Body)[n]
}

// packageVarInit returns the initialiser expression of a package-level variable.
func packageVarInit(p *Prog, v *types.Var) ast.Expr {
	pkg := p.ByPath[v.Pkg().Path()]
	if pkg == nil {
		return &ast.BadExpr{}
	}
	for _, f := range pkg.Syntax {
		for _, d := range f.Decls {
			gd, ok := d.(*ast.GenDecl)
			if !ok || gd.Tok != token.VAR {
				continue
			}
			for _, sp := range gd.Specs {
				vs := sp.(*ast.ValueSpec)
				for i, nm := range vs.Names {
					if pkg.TypesInfo.Defs[nm] == types.Object(v) && i < len(vs.Values) {
						return vs.Values[i]
					}
				}
			}
		}
	}
	return &ast.BadExpr{}
}

// c11ComparatorKeys: the comparator of Summary.SortReports keys on every field
// that distinguishes two reports, and its helper for diagnostic lists is a
// total, antisymmetric order. Reported under R (C11-R1; C17-R5: the text of a
// pull-request comment is assembled from the reports in this order, so a tie
// makes two runs over the same commit disagree about the comment).
func c11ComparatorKeys(c *Ctx, R string) {
	p := c.P
	// comparator keys
	if sr := c.MustFunc(R, "internal/reporter.Summary.SortReports"); sr != nil {
		rinfo := sr.Pkg.TypesInfo
		var cmpLit *ast.FuncLit
		ast.Inspect(sr.Decl.Body, func(n ast.Node) bool {
			call, ok := n.(*ast.CallExpr)
			if !ok || len(call.Args) != 2 {
				return true
			}
			fn := Callee(rinfo, call)
			if fn == nil || fn.Pkg() == nil || fn.Pkg().Path() != "slices" || !strings.HasPrefix(fn.Name(), "Sort") {
				return true
			}
			if fieldSel(rinfo, call.Args[0], "internal/reporter.Summary", "reports") {
				cmpLit, _ = call.Args[1].(*ast.FuncLit)
				// a named comparator function passed as a value: analysed as if it were the literal
				if cmpLit == nil {
					if fn, ok := rinfo.Uses[identOf(call.Args[1])].(*types.Func); ok {
						if cf := p.FuncOf(fn); cf != nil && cf.Decl.Body != nil && cf.Decl.Recv == nil {
							cmpLit = &ast.FuncLit{Type: cf.Decl.Type, Body: cf.Decl.Body}
						}
					}
				}
				c.Check(fn.Name() == "SortStableFunc" || fn.Name() == "SortFunc", R, "SortReports:sorts s.reports in place", call.Pos(), fn.Name(), "unexpected sort function")
			}
			return true
		})
		if cmpLit == nil || len(cmpLit.Type.Params.List) == 0 {
			c.Undecided(R, "SortReports:comparator", sr.Decl.Pos(), "comparator literal on s.reports not found")
		} else {
			var pa, pb types.Object
			names := cmpLit.Type.Params.List[0].Names
			if len(names) == 2 {
				pa, pb = rinfo.Defs[names[0]], rinfo.Defs[names[1]]
			}
			keys := map[string]bool{}
			ast.Inspect(cmpLit.Body, func(n ast.Node) bool {
				call, ok := n.(*ast.CallExpr)
				if !ok || len(call.Args) != 2 {
					return true
				}
				ra, pathA, okA := accessPath(rinfo, call.Args[0])
				rb, pathB, okB := accessPath(rinfo, call.Args[1])
				if !okA || !okB || ra == rb {
					return true
				}
				if !((ra == pa && rb == pb) || (ra == pb && rb == pa)) {
					return true
				}
				sa := pathA[strings.Index(pathA, "."):]
				sb := pathB[strings.Index(pathB, "."):]
				if sa == sb {
					keys[sa] = true
				}
				return true
			})
			// the keys are combined lexicographically: a comparison that is not the last one is handed
			// back only when it is not zero (cmp.Or, or `if c := …; c != 0 { return c }`), so every later
			// key is consulted whenever the earlier ones are equal
			{
				pmC := parentMap(cmpLit.Body)
				var lastStmt ast.Stmt
				if l := cmpLit.Body.List; len(l) > 0 {
					lastStmt = l[len(l)-1]
				}
				early := ""
				inspectNoLit(cmpLit.Body, func(n ast.Node) bool {
					r, ok := n.(*ast.ReturnStmt)
					if !ok || ast.Stmt(r) == lastStmt || len(r.Results) != 1 {
						return true
					}
					o := objOf(rinfo, r.Results[0])
					nonZero := false
					for _, g := range lexicalGuards(pmC, r, cmpLit.Body) {
						if be, isBin := ast.Unparen(g.E).(*ast.BinaryExpr); isBin && o != nil && objOf(rinfo, be.X) == o {
							if k, isC := constInt(rinfo, be.Y); isC && k == 0 && ((be.Op == token.NEQ && g.Truth) || (be.Op == token.EQL && !g.Truth)) {
								nonZero = true
							}
						}
					}
					if !nonZero {
						early = "`return " + exprStr(r.Results[0]) + "` at " + p.Pos(r.Pos())
					}
					return true
				})
				c.Check(early == "", R, "SortReports:comparator keys are combined lexicographically", cmpLit.Pos(), "early returns only of a non-zero comparison",
					early+" hands back a comparison that may be zero before the remaining keys were looked at: reports equal up to there keep the order in which the workers delivered them, and everything rendered from that order (console output, the text of a comment shared by several problems) changes from run to run")
			}
			for _, k := range []string{".Path.Name", ".Problem.Lines.First", ".Problem.Lines.Last", ".Problem.Severity", ".Problem.Reporter", ".Problem.Summary", ".Problem.Diagnostics", ".Problem.Details"} {
				c.Check(keys[k], R, "SortReports:comparator keys on"+k, cmpLit.Pos(), "compared on both operands", "the report order no longer depends on"+k+": reports differing only there keep their arrival order")
			}
			// the helper that orders two diagnostic lists looks at ALL of them and is
			// antisymmetric: no fixed element of a parameter is singled out, and no
			// non-zero constant is returned on the strength of one side's length alone
			ast.Inspect(cmpLit.Body, func(n ast.Node) bool {
				call, ok := n.(*ast.CallExpr)
				if !ok || len(call.Args) != 2 || !strings.HasSuffix(exprStr(call.Args[0]), ".Problem.Diagnostics") {
					return true
				}
				h := p.FuncOf(Callee(rinfo, call))
				if h == nil || h.Decl.Body == nil {
					return true
				}
				hinfo := h.Pkg.TypesInfo
				pa0, pb0 := paramObj(h, 0), paramObj(h, 1)
				fixed := ""
				ast.Inspect(h.Decl.Body, func(m ast.Node) bool {
					if ix, ok := m.(*ast.IndexExpr); ok {
						if _, isC := constInt(hinfo, ix.Index); isC && (isObj(hinfo, ix.X, pa0) || isObj(hinfo, ix.X, pb0)) {
							fixed = exprStr(ix)
						}
					}
					return true
				})
				c.Check(fixed == "", R, h.Obj.Name()+":orders two diagnostic lists by all their elements", h.Decl.Pos(), "no fixed element singled out",
					"only `"+fixed+"` takes part in the comparison: reports that differ in a later diagnostic compare equal and keep the order in which the workers delivered them")
				hpm := parentMap(h.Decl.Body)
				oneSided := ""
				for _, r := range returnsIn(h.Decl.Body.List) {
					if len(r.Results) != 1 {
						continue
					}
					if k, isC := constInt(hinfo, r.Results[0]); !isC || k == 0 {
						continue
					}
					ma, mb := false, false
					for _, a := range lexicalGuards(hpm, r, h.Decl.Body) {
						if mentionsObj(hinfo, a.E, pa0) {
							ma = true
						}
						if mentionsObj(hinfo, a.E, pb0) {
							mb = true
						}
					}
					if ma != mb {
						oneSided = p.Pos(r.Pos())
					}
				}
				c.Check(oneSided == "", R, h.Obj.Name()+":is antisymmetric", h.Decl.Pos(), "no verdict from one operand alone",
					"a non-zero result is returned at "+oneSided+" after looking at one operand only: for two reports that both satisfy that test cmp(a,b) and cmp(b,a) have the same sign, the order is not a total order and the sorted output depends on the input order")
				return true
			})
		}
	}
}

// c11UnsupportedTables: the record of APIs a server does not offer is written
// by unsupporedAPIs.disable and read by unsupporedAPIs.isSupported, each with
// a switch over the API path. The two tables agree: for every path constant the
// flag that isSupported reads is the flag disable sets, and two paths never
// share a flag. Otherwise a 404 seen by one check switches off an API another
// check uses, and which rules get that check's problems depends on which
// check happened to run first.
func c11UnsupportedTables(c *Ctx, R string) {
	is := c.MustFunc(R, "internal/promapi.unsupporedAPIs.isSupported")
	dis := c.MustFunc(R, "internal/promapi.unsupporedAPIs.disable")
	if is == nil || dis == nil {
		return
	}
	table := func(fi *FuncInfo, stores bool) (map[string]string, bool) {
		info := fi.Pkg.TypesInfo
		sig := fi.Obj.Type().(*types.Signature)
		if sig.Params().Len() != 1 {
			return nil, false
		}
		par := types.Object(sig.Params().At(0))
		pm := parentMap(fi.Decl.Body)
		sets := map[string]map[string]bool{}
		ok := true
		note := func(sel *ast.SelectorExpr) {
			// which API path is being handled here? the enclosing `s == CONST` / `case CONST` facts say
			var consts []string
			for _, g := range lexicalGuards(pm, sel, fi.Decl.Body) {
				if !g.Truth {
					continue
				}
				if g.Tag != nil {
					if objOf(info, g.Tag) == par {
						if v, isC := constString(info, g.E); isC {
							consts = append(consts, v)
						}
					}
					continue
				}
				if be, isBin := ast.Unparen(g.E).(*ast.BinaryExpr); isBin && be.Op == token.EQL {
					for _, pr := range [][2]ast.Expr{{be.X, be.Y}, {be.Y, be.X}} {
						if objOf(info, pr[0]) == par {
							if v, isC := constString(info, pr[1]); isC {
								consts = append(consts, v)
							}
						}
					}
				}
			}
			if len(consts) == 0 {
				ok = false
				return
			}
			for _, k := range consts {
				if sets[k] == nil {
					sets[k] = map[string]bool{}
				}
				sets[k][sel.Sel.Name] = true
			}
		}
		ast.Inspect(fi.Decl.Body, func(m ast.Node) bool {
			if stores {
				if as, isAs := m.(*ast.AssignStmt); isAs {
					for _, l := range as.Lhs {
						if sel, isSel := ast.Unparen(l).(*ast.SelectorExpr); isSel && fieldOwner(info, sel) == "internal/promapi.unsupporedAPIs" {
							note(sel)
						}
					}
				}
				return true
			}
			if sel, isSel := m.(*ast.SelectorExpr); isSel && fieldOwner(info, sel) == "internal/promapi.unsupporedAPIs" {
				if _, isVar := info.Uses[sel.Sel].(*types.Var); isVar && sel.Sel.Name != "mtx" {
					note(sel)
				}
			}
			return true
		})
		out := map[string]string{}
		for k, fs := range sets {
			var fl []string
			for f := range fs {
				fl = append(fl, f)
			}
			sort.Strings(fl)
			out[k] = strings.Join(fl, "+")
		}
		return out, ok && len(out) > 0
	}
	rt, ok1 := table(is, false)
	wt, ok2 := table(dis, true)
	if !ok1 || !ok2 {
		c.Undecided(R, "unsupporedAPIs:tables", is.Decl.Pos(), "a flag of unsupporedAPIs is read or set outside a branch that compares the API path with a constant")
		return
	}
	var keys []string
	for k := range rt {
		keys = append(keys, k)
	}
	for k := range wt {
		if _, dup := rt[k]; !dup {
			keys = append(keys, k)
		}
	}
	sort.Strings(keys)
	usedBy := map[string]string{}
	for _, k := range keys {
		r, w := rt[k], wt[k]
		c.Check(r != "" && r == w && !strings.Contains(r, "+"), R, "unsupporedAPIs:"+k+" read and recorded under one flag", is.Decl.Pos(), r,
			"isSupported answers for "+k+" from `"+r+"` while disable records it in `"+w+"`: an API that failed for one kind of query switches off (or fails to switch off) another, and the outcome depends on which check reached the server first")
		if prev, dup := usedBy[r]; dup && r != "" {
			c.Bad(R, "unsupporedAPIs:"+k+" shares a flag", is.Decl.Pos(), k+" and "+prev+" are both kept in `"+r+"`")
		}
		usedBy[r] = k
	}
	c.Check(len(keys) >= 3, R, "unsupporedAPIs:paths enumerated", is.Decl.Pos(), itoa(len(keys)), "fewer than 3 API paths")
}

// c11NoRememberedAnswers: the objects every worker shares (servers, failover groups, checks, the config)
// remember nothing about earlier questions in atomics: a field of a sync/atomic type that is stored, added
// to or swapped makes what a later check sees depend on which checks ran before it ("the upstream that
// answered last is asked first"). Race-free, and therefore invisible to the lock rules. Atomic counters
// that are local to one function (the scan counters) are not fields and stay out of this.
func c11NoRememberedAnswers(c *Ctx, R string) {
	n, bad := 0, ""
	for _, pkg := range c.P.ModPkgs() {
		rel := relPkg(pkg.PkgPath)
		if !strings.HasPrefix(rel, "internal/") {
			continue
		}
		info := pkg.TypesInfo
		for _, f := range pkg.Syntax {
			if c.P.IsTestFile(f.Pos()) {
				continue
			}
			ast.Inspect(f, func(nd ast.Node) bool {
				call, ok := nd.(*ast.CallExpr)
				if !ok {
					return true
				}
				n++
				sel, ok := call.Fun.(*ast.SelectorExpr)
				if !ok {
					return true
				}
				switch sel.Sel.Name {
				case "Store", "Add", "Swap", "CompareAndSwap", "And", "Or":
				default:
					return true
				}
				fn, _ := info.Uses[sel.Sel].(*types.Func)
				if fn == nil || fn.Pkg() == nil || fn.Pkg().Path() != "sync/atomic" {
					return true
				}
				if fs, isField := ast.Unparen(sel.X).(*ast.SelectorExpr); isField {
					if v, isVar := info.Uses[fs.Sel].(*types.Var); isVar && v.IsField() {
						bad = exprStr(sel.X) + "." + sel.Sel.Name + " at " + c.P.Pos(call.Pos())
					}
				}
				return true
			})
		}
	}
	c.Check(bad == "" && n > 1000, R, "shared objects remember nothing in atomics", token.NoPos, itoa(n)+" calls inspected",
		"an atomic field of a shared object is updated ("+bad+"): what a later question sees depends on the questions asked before it, so the reported text depends on the order in which the workers ran the checks")
}
