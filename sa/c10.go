package main

import (
	"go/ast"
	"go/token"
	"go/types"
	"strings"
)

func init() {
	register("C10", runC10,
		"Decides the structural clauses of ignore-comment exclusion for all files: (R1) in ContentReader.readNextLine every published use of the line buffer (append to r.lines; the copy in Read is fed only from r.buf) is preceded on all paths by parseComments(); r.buf has no writers besides readNextLine (fill), Read (consume) and emptyCurrentLine (blank); (R2) in parseComments every append to r.comments and r.diagnostics is dominated by skipAll == false and by the line not having been excluded by an earlier comment (the skipNext flag as it was on entry); a line excluded by an earlier comment is blanked completely; (R3) emptyCurrentLine only stores ' ' into existing elements of r.buf and never into a '\\n', and nothing between read and publish reslices or appends to r.buf.",
		"that yaml.v3 attaches nothing from blanked text; the nesting/adjacency state machine of the five flags (legacy behaviour of ignore/* comments that themselves sit on excluded lines is pinned by the unit tests and left as is).")
}

// linesPublishedBlanked: the line table the positions are reconstructed from
// (ContentReader.lines) receives each line once, from the same buffer the YAML
// decoder is served from, after parseComments blanked the excluded text.
// Shared by C10-R1 and C06-R7.
func linesPublishedBlanked(c *Ctx, rule string, rnl *FuncInfo) {
	const CR = "internal/parser.ContentReader"
	info := rnl.Pkg.TypesInfo
	fl := c.P.NewFlow(rnl)
	isPC := func(n ast.Node) bool { return fl.containsCall(n, "internal/parser.ContentReader.parseComments") }
	pubs := fl.Find(func(n ast.Node) bool {
		as, ok := n.(*ast.AssignStmt)
		if !ok || len(as.Lhs) != 1 || !fieldSel(info, as.Lhs[0], CR, "lines") {
			return false
		}
		return true
	})
	c.Check(len(pubs) == 1, rule, "readNextLine:publishes the line once", rnl.Decl.Pos(), "one append to r.lines", itoa(len(pubs))+" stores to r.lines")
	for _, s := range pubs {
		target := s.Site
		ok, _ := fl.MustPass(fl.Entry(), func(x Site) bool { return x == target }, false, isPC)
		c.Check(ok, rule, "readNextLine:parseComments precedes the append to r.lines", s.Inner.Pos(), "blank before publish", "a line can be recorded in r.lines before its comments were parsed and excluded text blanked (positions are later read from unblanked text)")
		// the published text is the (blanked) buffer
		mentionsBuf := false
		ast.Inspect(s.Inner, func(n ast.Node) bool {
			if sel, ok := n.(*ast.SelectorExpr); ok && fieldSel(info, sel, CR, "buf") {
				mentionsBuf = true
			}
			return true
		})
		c.Check(mentionsBuf, rule, "readNextLine:r.lines receives r.buf", s.Inner.Pos(), "same buffer", "r.lines is fed from something other than the blanked buffer")
		// only the line terminator is removed on the way: blanks are content
		trimsBlanks := ""
		ast.Inspect(s.Inner, func(n ast.Node) bool {
			call, ok := n.(*ast.CallExpr)
			if !ok {
				return true
			}
			fn := Callee(info, call)
			if fn == nil || fn.Pkg() == nil || fn.Pkg().Path() != "strings" || !strings.HasPrefix(fn.Name(), "Trim") {
				return true
			}
			if fn.Name() == "TrimSpace" {
				trimsBlanks = exprStr(call)
			}
			if len(call.Args) == 2 {
				if cut, isC := constString(info, call.Args[1]); !isC || strings.ContainsAny(cut, " \t") {
					trimsBlanks = exprStr(call)
				}
			}
			return true
		})
		c.Check(trimsBlanks == "", rule, "readNextLine:r.lines keeps everything but the line terminator", s.Inner.Pos(), "no blanks trimmed",
			"the recorded line is `"+trimsBlanks+"`: trailing blanks are part of block scalar values, so the line table no longer matches what the YAML decoder saw and the position scan loses sync")
	}
}

func runC10(c *Ctx) {
	c10Prog = c.P
	defer c07EveryCommentStringParsed(c, "C10-R2")
	defer pureClosure(c, "C10-R1", "parsing a file keeps no package-level state", "Parser.Parse", "a content reader (or any other parsing state) that is reused for the next file carries exclusion state over: an unterminated ignore/begin in one file silently excludes text of the next", "internal/parser.Parser.Parse")
	defer c10ReadConsumes(c, "C10-R1")
	defer c10ExcludedFileYieldsNothingElse(c, "C10-R2")
	p := c.P
	c.Rule("C10-R1", "comments parsed and excluded text blanked before a line is published; writers of the line buffer", 6)
	c.Rule("C10-R2", "nothing is collected from lines excluded by an earlier comment; such lines are blanked completely", 8)
	c.Rule("C10-R3", "blanking preserves line structure; offsets in byte units", 5)
	c.Rule("C10-R4", "inside ignore/begin only ignore/end ends the exclusion", 4)

	const CR = "internal/parser.ContentReader"
	rnl := c.MustFunc("C10-R1", "internal/parser.ContentReader.readNextLine")
	pc := c.MustFunc("C10-R2", "internal/parser.ContentReader.parseComments")
	ecl := c.MustFunc("C10-R3", "internal/parser.ContentReader.emptyCurrentLine")
	if rnl == nil || pc == nil || ecl == nil {
		return
	}
	info := rnl.Pkg.TypesInfo

	// ---- R1 ----
	{
		fl := p.NewFlow(rnl)
		isPC := func(n ast.Node) bool { return fl.containsCall(n, "internal/parser.ContentReader.parseComments") }
		linesPublishedBlanked(c, "C10-R1", rnl)
		c02WholeLinesR(c, "C10-R1")
		// after the fill, every normal exit with a non-empty buffer passes parseComments
		fills := fl.Find(func(n ast.Node) bool {
			as, ok := n.(*ast.AssignStmt)
			if !ok {
				return false
			}
			for _, l := range as.Lhs {
				if fieldSel(info, l, CR, "buf") {
					return true
				}
			}
			return false
		})
		c.Check(len(fills) == 1, "C10-R1", "readNextLine:fills the buffer once", rnl.Decl.Pos(), "one fill", itoa(len(fills))+" stores to r.buf")
		// a local the buffer was filled from (`line, err := read(); r.buf = line`) stands for the buffer
		bufAlias := map[types.Object]bool{}
		for _, f := range fills {
			if as, ok := f.Inner.(*ast.AssignStmt); ok && len(as.Lhs) == len(as.Rhs) {
				for i, l := range as.Lhs {
					if fieldSel(info, l, CR, "buf") {
						if o := objOf(info, as.Rhs[i]); o != nil {
							bufAlias[o] = true
						}
					}
				}
			}
		}
		for _, f := range fills {
			reach, _ := fl.Reach(f.Site.After(), nil, true, PathQ{
				Avoid: isPC,
				Cut: func(atoms []Atom) bool {
					for _, a := range atoms {
						if be, ok := ast.Unparen(a.E).(*ast.BinaryExpr); ok && a.Tag == nil && a.Truth && be.Op == token.EQL {
							if call, ok := be.X.(*ast.CallExpr); ok && exprStr(call.Fun) == "len" && len(call.Args) == 1 && (fieldSel(info, call.Args[0], CR, "buf") || bufAlias[objOf(info, call.Args[0])]) {
								if k, isC := constInt(info, be.Y); isC && k == 0 {
									return true
								}
							}
						}
					}
					return false
				},
			})
			c.Check(!reach, "C10-R1", "readNextLine:non-empty buffer never leaves without parseComments", f.Inner.Pos(), "must-pass", "readNextLine can return with unparsed, unblanked bytes in r.buf (Read hands them to the YAML decoder)")
		}
	}
	// writers of r.buf across the package
	allowedBuf := map[string]string{
		"internal/parser.ContentReader.readNextLine":     "fill",
		"internal/parser.ContentReader.Read":             "consume (reslice after copy)",
		"internal/parser.ContentReader.emptyCurrentLine": "blank elements",
		"internal/parser.newContentReader":               "constructor",
	}
	for _, fi := range p.AllFuncs() {
		if fi.Pkg != rnl.Pkg || fi.Decl.Body == nil || p.IsTestFile(fi.Decl.Pos()) {
			continue
		}
		writes := false
		ast.Inspect(fi.Decl.Body, func(n ast.Node) bool {
			as, ok := n.(*ast.AssignStmt)
			if !ok {
				return true
			}
			for _, l := range as.Lhs {
				if fieldSel(info, l, CR, "buf") {
					writes = true
				}
				if ix, ok := l.(*ast.IndexExpr); ok && fieldSel(info, ix.X, CR, "buf") {
					writes = true
				}
			}
			return true
		})
		if writes {
			_, ok := allowedBuf[fi.Name]
			why := allowedBuf[fi.Name]
			if !ok && c10IsBlanker(fi) {
				ok, why = true, "blank elements (every store writes the constant ' ')"
			}
			c.Check(ok, "C10-R1", "writer of ContentReader.buf: "+fi.Name, fi.Decl.Pos(), why, "r.buf is written outside fill/consume/blank")
		}
	}
	// Read copies only from r.buf
	if rd := c.MustFunc("C10-R1", "internal/parser.ContentReader.Read"); rd != nil {
		ok := false
		ast.Inspect(rd.Decl.Body, func(n ast.Node) bool {
			if call, isCall := n.(*ast.CallExpr); isCall && exprStr(call.Fun) == "copy" && len(call.Args) == 2 && fieldSel(info, call.Args[1], CR, "buf") {
				ok = true
			}
			return true
		})
		c.Check(ok, "C10-R1", "Read:serves bytes from r.buf only", rd.Decl.Pos(), "copy(b, r.buf)", "Read no longer copies from the blanked buffer")
	}

	// ---- R2 ----
	{
		fl := p.NewFlow(pc)
		// local variable initialised from r.skipNext before any store to skipNext
		var excluded types.Object
		ast.Inspect(pc.Decl.Body, func(n ast.Node) bool {
			if as, ok := n.(*ast.AssignStmt); ok && as.Tok == token.DEFINE && len(as.Lhs) == 1 && len(as.Rhs) == 1 && fieldSel(info, as.Rhs[0], CR, "skipNext") {
				excluded = objOf(info, as.Lhs[0])
			}
			return true
		})
		skipNextStored := func(n ast.Node) bool {
			as, ok := n.(*ast.AssignStmt)
			if !ok {
				return false
			}
			for _, l := range as.Lhs {
				if fieldSel(info, l, CR, "skipNext") {
					return true
				}
			}
			return false
		}
		notExcluded := func(a Atom) bool {
			if a.Tag != nil || a.Truth {
				return false
			}
			e := ast.Unparen(a.E)
			if excluded != nil && objOf(info, e) == excluded {
				return true
			}
			return fieldSel(info, e, CR, "skipNext")
		}
		notSkipAll := func(a Atom) bool {
			return a.Tag == nil && !a.Truth && fieldSel(info, ast.Unparen(a.E), CR, "skipAll")
		}
		if excluded != nil {
			// the snapshot is taken before skipNext is modified
			var snap *Site
			for _, sm := range fl.Find(func(n ast.Node) bool {
				as, ok := n.(*ast.AssignStmt)
				return ok && as.Tok == token.DEFINE && len(as.Lhs) == 1 && objOf(info, as.Lhs[0]) == excluded
			}) {
				s := sm.Site
				snap = &s
			}
			okSnap := snap != nil
			if snap != nil {
				target := *snap
				reach, _ := fl.Reach(fl.Entry(), func(x Site) bool { return x == target }, false, PathQ{})
				okSnap = reach
				for _, st := range fl.Find(skipNextStored) {
					if r, _ := fl.Reach(st.Site, func(x Site) bool { return x == target }, false, PathQ{}); r {
						okSnap = false
					}
				}
			}
			c.Check(okSnap, "C10-R2", "parseComments:exclusion state read before it is updated", pc.Decl.Pos(), "snapshot of r.skipNext on entry", "the exclusion flag is read after it was already updated for this line")
		}
		// "after ignore/file the line counts as excluded": skipAll is only ever set together
		// with skipNext, and skipNext is only ever cleared where skipAll is known false. Then
		// the test for an excluded line also covers everything after ignore/file.
		isTrueStore := func(n ast.Node, field string, val string) bool {
			as, ok := n.(*ast.AssignStmt)
			if !ok || len(as.Lhs) != 1 || len(as.Rhs) != 1 || !fieldSel(info, as.Lhs[0], CR, field) {
				return false
			}
			tv, ok := info.Types[as.Rhs[0]]
			return ok && tv.Value != nil && tv.Value.String() == val
		}
		skipAllImpliesExcluded := true
		nAllStores := 0
		for _, st := range fl.Find(func(n ast.Node) bool { return isTrueStore(n, "skipAll", "true") }) {
			nAllStores++
			together := false
			for _, nd := range st.Site.B.Nodes {
				if isTrueStore(nd, "skipNext", "true") {
					together = true
				}
			}
			if !together {
				skipAllImpliesExcluded = false
			}
		}
		if nAllStores == 0 {
			skipAllImpliesExcluded = false
		}
		for _, st := range fl.Find(skipNextStored) {
			if isTrueStore(st.Inner, "skipNext", "true") {
				continue
			}
			if !fl.Dominated(st.Site, nil, notSkipAll) {
				skipAllImpliesExcluded = false
			}
		}
		for _, field := range []string{"comments", "diagnostics"} {
			apps := fl.Find(func(n ast.Node) bool {
				as, ok := n.(*ast.AssignStmt)
				if !ok || len(as.Lhs) != 1 || !fieldSel(info, as.Lhs[0], CR, field) {
					return false
				}
				return true
			})
			c.Check(len(apps) >= 1, "C10-R2", "parseComments:collects r."+field, pc.Decl.Pos(), itoa(len(apps))+" site(s)", "no store to r."+field+" found")
			for _, a := range apps {
				d1 := fl.Dominated(a.Site, nil, notSkipAll)
				d2 := fl.Dominated(a.Site, nil, notExcluded)
				if d2 && excluded == nil {
					// direct reads of r.skipNext must not be preceded by a store to it
					for _, st := range fl.Find(skipNextStored) {
						target := a.Site
						if r, _ := fl.Reach(st.Site, func(x Site) bool { return x == target }, false, PathQ{}); r {
							d2 = false
						}
					}
				}
				c.Check(d1 || (d2 && skipAllImpliesExcluded), "C10-R2", "parseComments:r."+field+" not collected after ignore/file", a.Inner.Pos(), "dominated by !skipAll (or by the excluded-line test, skipAll being set only together with skipNext)", "r."+field+" is appended to although everything after ignore/file must be inert")
				c.Check(d2, "C10-R2", "parseComments:r."+field+" not collected from a line excluded by an earlier comment", a.Inner.Pos(), "dominated by the line not being excluded",
					"a pint comment on a line excluded by ignore/next-line or ignore/begin is still collected into r."+field+" (e.g. `# pint file/disable promql/syntax` inside an ignored block silences a Fatal problem)")
			}
		}
		// a line excluded by an earlier comment is blanked completely: in the branch taken for
		// `r.skipNext` (no ignore comment on the line) emptyCurrentLine gets no comment offsets
		calls := fl.FindCalls("internal/parser.ContentReader.emptyCurrentLine")
		nPrev, good := 0, 0
		pm := parentMap(pc.Decl.Body)
		for _, cs := range calls {
			call := cs.Inner.(*ast.CallExpr)
			underSkipNext := false
			for _, a := range lexicalGuards(pm, call, pc.Decl.Body) {
				if a.Tag == nil && a.Truth && fieldSel(info, ast.Unparen(a.E), CR, "skipNext") {
					underSkipNext = true
				}
			}
			if !underSkipNext {
				continue
			}
			nPrev++
			if len(call.Args) == 1 && isNilIdent(info, call.Args[0]) {
				good++
			}
		}
		c.Check(nPrev >= 1 && nPrev == good, "C10-R2", "parseComments:line excluded by an earlier comment is blanked completely", pc.Decl.Pos(), "emptyCurrentLine(nil)",
			"a line excluded by ignore/next-line keeps its trailing comment text: a `# pint disable …` there is attached to a neighbouring rule by the YAML parser")
		c.Check(len(calls) >= 3, "C10-R2", "parseComments:blanking sites", pc.Decl.Pos(), itoa(len(calls)), "fewer than three blanking calls")
		// ignore/line on a line consumes a pending one-line exclusion: outside a begin
		// block the skipCurrentLine case clears skipNext, otherwise the line AFTER it is
		// excluded too (ignore/next-line followed by an ignore/line line)
		{
			cleared := false
			ast.Inspect(pc.Decl.Body, func(n ast.Node) bool {
				cc, ok := n.(*ast.CaseClause)
				if !ok || len(cc.List) != 1 {
					return true
				}
				if k := constObj(info, cc.List[0]); k == nil || k.Name() != "skipCurrentLine" {
					return true
				}
				for _, st := range cc.Body {
					ast.Inspect(st, func(m ast.Node) bool {
						as, ok := m.(*ast.AssignStmt)
						if !ok || len(as.Lhs) != 1 || len(as.Rhs) != 1 || !fieldSel(info, as.Lhs[0], CR, "skipNext") || exprStr(as.Rhs[0]) != "false" {
							return true
						}
						okGuards := true
						for _, a := range lexicalGuards(pm, as, cc) {
							if !(a.Tag == nil && !a.Truth && fieldSel(info, ast.Unparen(a.E), CR, "inBegin")) {
								if _, isNot := ast.Unparen(a.E).(*ast.UnaryExpr); !isNot {
									okGuards = false
								}
							}
						}
						if okGuards {
							cleared = true
						}
						return true
					})
				}
				return false
			})
			c.Check(cleared, "C10-R2", "parseComments:ignore/line ends a pending one-line exclusion", pc.Decl.Pos(), "skipNext cleared outside begin blocks",
				"after `# pint ignore/next-line` a line carrying `# pint ignore/line` leaves the one-line skip armed: the first line of whatever follows is blanked as well, although no comment excludes it")
		}
		// a line that was already excluded when it was read is blanked on EVERY path,
		// also when it carries an ignore comment of its own (ignore/next-line,
		// ignore/begin): starting from the snapshot of the exclusion flag, no exit is
		// reachable without passing emptyCurrentLine, once the edges that establish
		// "not excluded" or "inside a begin block" are cut
		if excluded != nil {
			var snap *Site
			for _, sm := range fl.Find(func(n ast.Node) bool {
				as, ok := n.(*ast.AssignStmt)
				return ok && as.Tok == token.DEFINE && len(as.Lhs) == 1 && objOf(info, as.Lhs[0]) == excluded
			}) {
				s := sm.Site
				snap = &s
			}
			if snap != nil {
				isBlank := func(n ast.Node) bool {
					found := false
					inspectNoLit(n, func(m ast.Node) bool {
						if call, ok := m.(*ast.CallExpr); ok {
							if callee := p.FuncOf(Callee(info, call)); callee != nil && c10IsBlanker(callee) {
								found = true
							}
						}
						return true
					})
					return found
				}
				reach, at := fl.Reach(snap.After(), func(Site) bool { return false }, true, PathQ{
					Avoid: isBlank,
					Cut: func(atoms []Atom) bool {
						// value of a condition under the assumptions of this query
						// (the line was excluded, we are not inside a begin block):
						// 1 true, -1 false, 0 unknown
						var val func(e ast.Expr) int
						val = func(e ast.Expr) int {
							e = ast.Unparen(e)
							switch x := e.(type) {
							case *ast.Ident:
								if info.Uses[x] == excluded {
									return 1
								}
							case *ast.UnaryExpr:
								if x.Op == token.NOT {
									return -val(x.X)
								}
							case *ast.BinaryExpr:
								l, r := val(x.X), val(x.Y)
								switch x.Op {
								case token.LAND:
									if l == -1 || r == -1 {
										return -1
									}
									if l == 1 && r == 1 {
										return 1
									}
								case token.LOR:
									if l == 1 || r == 1 {
										return 1
									}
									if l == -1 && r == -1 {
										return -1
									}
								}
							}
							return 0
						}
						for _, a := range atoms {
							if a.Tag != nil {
								continue
							}
							// an edge that contradicts the assumptions is infeasible
							if v := val(a.E); (v == 1 && !a.Truth) || (v == -1 && a.Truth) {
								return true
							}
							e := ast.Unparen(a.E)
							// not excluded
							if id, ok := e.(*ast.Ident); ok && info.Uses[id] == excluded && !a.Truth {
								return true
							}
							if fieldSel(info, e, CR, "skipNext") && !a.Truth {
								return true
							}
						}
						return false
					},
				})
				where := ""
				if reach {
					where = p.Pos(at.Node().Pos())
				}
				c.Check(!reach, "C10-R2", "parseComments:an already excluded line is blanked whatever comment it carries", pc.Decl.Pos(), "every exit passes emptyCurrentLine",
					"parseComments can return (via "+where+") for a line that an earlier ignore/next-line excluded without blanking it: when that line carries its own `# pint ignore/next-line` or `ignore/begin`, the text in front of the comment reaches the YAML parser")
			}
		}
	}

	// ---- R4: inside an ignore/begin block only ignore/end may end the exclusion ----
	{
		pm := parentMap(pc.Decl.Body)
		n := 0
		ast.Inspect(pc.Decl.Body, func(nd ast.Node) bool {
			as, ok := nd.(*ast.AssignStmt)
			if !ok || len(as.Lhs) != 1 || len(as.Rhs) != 1 {
				return true
			}
			ends := (fieldSel(info, as.Lhs[0], CR, "autoReset") && exprStr(as.Rhs[0]) == "true") ||
				(fieldSel(info, as.Lhs[0], CR, "skipNext") && exprStr(as.Rhs[0]) == "false")
			if !ends {
				return true
			}
			n++
			okGuard := false
			why := ""
			for _, a := range lexicalGuards(pm, as, pc.Decl.Body) {
				e := ast.Unparen(a.E)
				switch {
				case a.Tag == nil && !a.Truth && fieldSel(info, e, CR, "inBegin"):
					okGuard, why = true, "guarded by !r.inBegin"
				case a.Tag == nil && a.Truth && fieldSel(info, e, CR, "autoReset"):
					okGuard, why = true, "only when auto-reset was armed outside a block"
				case a.Tag != nil && a.Truth:
					if k := constObj(info, e); k != nil && k.Name() == "skipEnd" {
						okGuard, why = true, "ignore/end case"
					}
				}
			}
			c.Check(okGuard, "C10-R4", "parseComments:"+exprStr(as.Lhs[0])+" = "+exprStr(as.Rhs[0]), as.Pos(), why,
				"the exclusion can be ended (or its auto-reset armed) while inside an ignore/begin block by something other than ignore/end: the rest of the block leaks into the document")
			return true
		})
		c.Check(n >= 3, "C10-R4", "parseComments:exclusion-ending stores enumerated", pc.Decl.Pos(), itoa(n), "fewer than three stores found")
	}

	// ---- R3 ----
	{
		// every function of the reader that overwrites bytes of r.buf writes spaces and never the
		// line terminator; emptyCurrentLine blanks itself or through such a function
		type blanker struct {
			fi     *FuncInfo
			fl     *Flow
			stores []SiteMatch
		}
		var blankers []blanker
		for _, fi := range p.AllFuncs() {
			if fi.Pkg != ecl.Pkg || fi.Decl.Body == nil || p.IsTestFile(fi.Decl.Pos()) {
				continue
			}
			bfl := p.NewFlow(fi)
			st := bfl.Find(func(n ast.Node) bool {
				as, ok := n.(*ast.AssignStmt)
				if !ok || len(as.Lhs) != 1 {
					return false
				}
				ix, ok := as.Lhs[0].(*ast.IndexExpr)
				return ok && fieldSel(info, ix.X, CR, "buf")
			})
			if len(st) > 0 {
				blankers = append(blankers, blanker{fi, bfl, st})
			}
		}
		eclBlanks := false
		for _, b := range blankers {
			if b.fi == ecl {
				eclBlanks = true
			}
		}
		if !eclBlanks {
			ast.Inspect(ecl.Decl.Body, func(n ast.Node) bool {
				if call, ok := n.(*ast.CallExpr); ok {
					for _, b := range blankers {
						if Callee(info, call) == b.fi.Obj {
							eclBlanks = true
						}
					}
				}
				return true
			})
		}
		c.Check(eclBlanks, "C10-R3", "emptyCurrentLine:one element store", ecl.Decl.Pos(), "blanks r.buf itself or through a blanking method", "emptyCurrentLine no longer overwrites bytes of r.buf")
		for _, b := range blankers {
			fl := b.fl
			name := b.fi.Obj.Name()
			for _, s := range b.stores {
				as := s.Inner.(*ast.AssignStmt)
				v, isC := constInt(info, as.Rhs[0])
				c.Check(isC && v == ' ', "C10-R3", name+":stores a space", as.Pos(), "' '", "blanking writes something other than a space")
				ix := as.Lhs[0].(*ast.IndexExpr)
				// the byte at that index is also known as the value variable of `for i, b := range r.buf`
				var elem types.Object
				epm := parentMap(b.fi.Decl.Body)
				for cur := epm[ast.Node(as)]; cur != nil; cur = epm[cur] {
					if rs, ok := cur.(*ast.RangeStmt); ok && fieldSel(info, rs.X, CR, "buf") && rs.Key != nil && rs.Value != nil && objOf(info, rs.Key) != nil && objOf(info, rs.Key) == objOf(info, ix.Index) {
						elem = objOf(info, rs.Value)
					}
				}
				notNL := fl.Dominated(s.Site, nil, func(a Atom) bool {
					be, ok := ast.Unparen(a.E).(*ast.BinaryExpr)
					if !ok || a.Tag != nil {
						return false
					}
					lhs, ok := ast.Unparen(be.X).(*ast.IndexExpr)
					isElem := elem != nil && objOf(info, be.X) == elem
					if !isElem && (!ok || !fieldSel(info, lhs.X, CR, "buf") || exprStr(lhs.Index) != exprStr(ix.Index)) {
						return false
					}
					k, isC := constInt(info, be.Y)
					return isC && k == '\n' && ((be.Op == token.EQL && !a.Truth) || (be.Op == token.NEQ && a.Truth))
				})
				c.Check(notNL, "C10-R3", name+":newline never overwritten", as.Pos(), "guarded", "the line terminator can be blanked (lines merge, every later position shifts)")
			}
		}
		// the comment offset compared with byte indexes of r.buf is itself a byte offset:
		// comments.parseComment takes it from ranging over a string (not over []rune)
		if pcm := c.MustFunc("C10-R3", "internal/comments.parseComment"); pcm != nil {
			cinfo := pcm.Pkg.TypesInfo
			n, good := 0, 0
			ast.Inspect(pcm.Decl.Body, func(nd ast.Node) bool {
				as, ok := nd.(*ast.AssignStmt)
				if !ok || len(as.Lhs) != 1 || !fieldSel(cinfo, as.Lhs[0], "internal/comments.Comment", "Offset") {
					return true
				}
				n++
				idx := objOf(cinfo, as.Rhs[0])
				ast.Inspect(pcm.Decl.Body, func(m ast.Node) bool {
					rs, ok := m.(*ast.RangeStmt)
					if !ok {
						return true
					}
					if k, ok := rs.Key.(*ast.Ident); ok && cinfo.Defs[k] == idx && idx != nil {
						if b, ok := cinfo.TypeOf(rs.X).Underlying().(*types.Basic); ok && b.Kind() == types.String {
							good++
						}
					}
					return true
				})
				return true
			})
			c.Check(n >= 1 && n == good, "C10-R3", "comment offsets are byte offsets (producer ranges over a string)", pcm.Decl.Pos(), "byte index", "Comment.Offset is no longer the byte index obtained from ranging over the line string, but emptyCurrentLine compares it with byte indexes of r.buf: multi-byte text before an ignore comment is only partly blanked")
		}
		// the consumer compares the offset with an index into r.buf
		// no reslice/append of r.buf in the blanking path
		bad := ""
		for _, fi := range []*FuncInfo{ecl, pc} {
			ast.Inspect(fi.Decl.Body, func(n ast.Node) bool {
				as, ok := n.(*ast.AssignStmt)
				if !ok {
					return true
				}
				for _, l := range as.Lhs {
					if fieldSel(info, l, CR, "buf") {
						bad = p.Pos(as.Pos())
					}
				}
				return true
			})
		}
		c.Check(bad == "", "C10-R3", "blanking path never reslices or appends to r.buf", ecl.Decl.Pos(), "length preserved", "r.buf is reassigned at "+bad+" between read and publish (line length changes)")
	}
}

// c10IsBlanker: a method of ContentReader all of whose stores into r.buf are
// element stores of the blank character (and there is at least one).
func c10IsBlanker(fi *FuncInfo) bool {
	if fi == nil || fi.Decl.Body == nil {
		return false
	}
	info := fi.Pkg.TypesInfo
	n, good := 0, 0
	ast.Inspect(fi.Decl.Body, func(nd ast.Node) bool {
		as, ok := nd.(*ast.AssignStmt)
		if !ok {
			return true
		}
		for i, l := range as.Lhs {
			root := l
			isElem := false
			if ix, ok := l.(*ast.IndexExpr); ok {
				root, isElem = ix.X, true
			}
			if !fieldSel(info, root, "internal/parser.ContentReader", "buf") {
				continue
			}
			n++
			if isElem && i < len(as.Rhs) {
				if tv, ok := info.Types[as.Rhs[i]]; ok && tv.Value != nil && tv.Value.ExactString() == "32" {
					good++
				}
			}
		}
		return true
	})
	if n >= 1 && n == good {
		return true
	}
	if n > 0 {
		return false
	}
	// no store of its own: a method that does nothing to r.buf but hand the work to a blanker
	// (emptyCurrentLine computing how much to blank and calling emptyLinePrefix)
	delegates := false
	ast.Inspect(fi.Decl.Body, func(nd ast.Node) bool {
		if call, ok := nd.(*ast.CallExpr); ok {
			if fn := Callee(info, call); fn != nil && fn != fi.Obj && c10Prog != nil {
				if cf := c10Prog.FuncOf(fn); cf != nil && cf.Pkg == fi.Pkg && cf != fi && c10IsBlanker(cf) {
					delegates = true
				}
			}
		}
		return true
	})
	return delegates
}

var c10Prog *Prog

// c10ReadConsumes: ContentReader.Read hands every byte of the line buffer to
// the YAML decoder exactly once: the only stores to r.buf in Read are
// `r.buf = r.buf[n:]` with n the result of `copy(…, r.buf)`. Dropping the rest
// of the buffer (`r.buf = nil`) loses the tail of any line that does not fit the
// decoder's read size, newline included: the following line is glued on, and
// everything pint says about the file is said about another text. Reported
// under R (the content reader is shared by C02, C06, C10, C19; C04/C12: the
// query analysed must be the query in the file).
func c10ReadConsumes(c *Ctx, R string) {
	fi := c.MustFunc(R, "internal/parser.ContentReader.Read")
	if fi == nil {
		return
	}
	info := fi.Pkg.TypesInfo
	const CR = "internal/parser.ContentReader"
	copied := map[types.Object]bool{}
	ast.Inspect(fi.Decl.Body, func(n ast.Node) bool {
		as, ok := n.(*ast.AssignStmt)
		if !ok || len(as.Lhs) != 1 || len(as.Rhs) != 1 {
			return true
		}
		if call, ok := ast.Unparen(as.Rhs[0]).(*ast.CallExpr); ok && exprStr(call.Fun) == "copy" && len(call.Args) == 2 && fieldSel(info, call.Args[1], CR, "buf") {
			if o := objOf(info, as.Lhs[0]); o != nil {
				copied[o] = true
			}
		}
		return true
	})
	n, bad := 0, ""
	ast.Inspect(fi.Decl.Body, func(nd ast.Node) bool {
		as, ok := nd.(*ast.AssignStmt)
		if !ok {
			return true
		}
		for i, l := range as.Lhs {
			if !fieldSel(info, l, CR, "buf") {
				continue
			}
			n++
			okStore := false
			if i < len(as.Rhs) && len(as.Lhs) == len(as.Rhs) {
				if se, isSl := ast.Unparen(as.Rhs[i]).(*ast.SliceExpr); isSl && fieldSel(info, se.X, CR, "buf") && se.High == nil && se.Low != nil && copied[objOf(info, se.Low)] {
					okStore = true
				}
			}
			if !okStore {
				bad = c.P.Pos(as.Pos())
			}
		}
		return true
	})
	c.Check(n >= 1 && bad == "", R, "ContentReader.Read:consumes exactly what it copied", fi.Decl.Pos(), itoa(n)+" store(s), all `r.buf = r.buf[n:]` after n := copy(…, r.buf)",
		"Read changes the line buffer at "+bad+" by something other than dropping the bytes it has just copied out: bytes of the file never reach the YAML decoder (or reach it twice), so rules, positions and queries are those of a different text")
}

// c10ExcludedFileYieldsNothingElse: `# pint ignore/file` excludes the whole file. In discovery.readRules the
// entry that says so (PathError: FileIgnoreError) is the last thing the function produces: from the place
// where it is built no path leads to the walk over the parsed groups. Without that, rules above the comment
// are linted although the file is excluded, and control comments in the excluded text below it attach to
// them.
func c10ExcludedFileYieldsNothingElse(c *Ctx, R string) {
	rr := c.MustFunc(R, "internal/discovery.readRules")
	if rr == nil {
		return
	}
	info := rr.Pkg.TypesInfo
	fl := c.P.NewFlow(rr)
	isExcl := func(x ast.Node) bool {
		cl, ok := x.(*ast.CompositeLit)
		return ok && typeQName(info.TypeOf(cl)) == "internal/discovery.FileIgnoreError"
	}
	isGroups := func(x ast.Node) bool {
		sel, ok := x.(*ast.SelectorExpr)
		return ok && sel.Sel.Name == "Groups" && fieldOwner(info, sel) == "internal/parser.File"
	}
	excl := fl.Find(isExcl)
	groups := fl.Find(isGroups)
	if len(excl) == 0 || len(groups) == 0 {
		c.Undecided(R, "readRules:excluded file entry and group walk", rr.Decl.Pos(), "FileIgnoreError literal or file.Groups not found ("+itoa(len(excl))+"/"+itoa(len(groups))+")")
		return
	}
	bad := ""
	for _, e := range excl {
		for _, g := range groups {
			target := g.Site
			if r, _ := fl.Reach(e.Site.After(), func(s Site) bool { return s == target }, false, PathQ{}); r {
				bad = c.P.Pos(g.Inner.Pos())
			}
		}
	}
	c.Check(bad == "", R, "readRules:nothing else is produced for a file excluded by ignore/file", excl[0].Inner.Pos(), "returns after the exclusion entry",
		"after the entry for `# pint ignore/file` is built the parsed groups are still walked (at "+bad+"): rules of an excluded file are linted, and pint comments in its excluded part attach to them")
}
