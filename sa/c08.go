package main

import (
	"fmt"
	"go/ast"
	"go/token"
	"go/types"
	"os"
	"path/filepath"
	"strings"
)

func init() {
	register("C08", runC08,
		"Decides, for every configuration at once, the name-agreement clause of the property: (R1) each of the registration calls baseParsedRule/newParsedRule passes a name constant equal to the constant returned by Reporter() of the concrete check type it registers; (R2) every checks.Problem literal built inside a check carries that check's Reporter(); (R3) checks.CheckNames equals the set of Reporter() constants of all RuleChecker implementers (ErrorCheck excepted); (R4) checks.OnlineChecks equals the set of reporters whose Meta() says Online:true and the CLI expansions range over exactly these tables; (R5) docs/checks/<name>.md exists per name; (R6) the enable/disable decision compares list entries with the registered name by equality.",
		"string logic of tag suffixes name(+tag); HCL decoding of the lists; that a check's Check() emits anything at all.")
}

// checkerTypes returns every module type implementing checks.RuleChecker.
func checkerTypes(c *Ctx, rule string) []*types.TypeName {
	tn := c.P.LookupType("internal/checks", "RuleChecker")
	if tn == nil {
		c.Undecided(rule, "anchor:checks.RuleChecker", token.NoPos, "interface not found")
		return nil
	}
	iface, ok := tn.Type().Underlying().(*types.Interface)
	if !ok {
		c.Undecided(rule, "anchor:checks.RuleChecker", tn.Pos(), "not an interface")
		return nil
	}
	return c.P.implementers(iface)
}

// reporterConst returns the constant a check type's Reporter() returns.
func reporterConst(p *Prog, tn *types.TypeName) (string, bool) {
	return singleReturnConst(p.methodOn(typeQName(tn.Type()), "Reporter"))
}

// stringSliceVar evaluates a package-level `[]string{Const, …}` variable.
func stringSliceVar(p *Prog, pkgRel, name string) (vals []string, pos token.Pos, ok bool) {
	pkg := p.Pkg(pkgRel)
	if pkg == nil {
		return nil, token.NoPos, false
	}
	for _, f := range pkg.Syntax {
		for _, d := range f.Decls {
			gd, isGen := d.(*ast.GenDecl)
			if !isGen || gd.Tok != token.VAR {
				continue
			}
			for _, sp := range gd.Specs {
				vs := sp.(*ast.ValueSpec)
				for i, id := range vs.Names {
					if id.Name != name || i >= len(vs.Values) {
						continue
					}
					cl, isLit := vs.Values[i].(*ast.CompositeLit)
					if !isLit {
						return nil, id.Pos(), false
					}
					for _, el := range cl.Elts {
						s, isConst := constString(pkg.TypesInfo, el)
						if !isConst {
							return nil, id.Pos(), false
						}
						vals = append(vals, s)
					}
					return vals, id.Pos(), true
				}
			}
		}
	}
	return nil, token.NoPos, false
}

// paramRole describes a parameter anchor by type and ordinal among the
// parameters of that type, so that renaming a parameter does not lose it.
var paramRole = map[string]struct {
	typ string
	nth int
}{
	"locked":         {"bool", 0},
	"isOffline":      {"bool", 0},
	"concurrency":    {"int", 0},
	"name":           {"string", 0},
	"path":           {"string", 0},
	"query":          {"string", 0},
	"reporter":       {"string", 0},
	"check":          {"internal/checks.RuleChecker", 0},
	"enabledChecks":  {"[]string", 0},
	"disabledChecks": {"[]string", 1},
	"promTags":       {"[]string", 2},
	"defaultStates":  {"[]string", 0},
	"cfgRules":       {"[]internal/config.Rule", 0},
	"ignore":         {"[]internal/config.Match", 0},
	"match":          {"[]internal/config.Match", 1},
	"e":              {"internal/discovery.Entry", 0},
	"entries":        {"[]internal/discovery.Entry", 0},
	"s":              {"internal/checks.Severity", 0},
	"err":            {"error", 0},
	"strictErrors":   {"bool", 0},
	"ls":             {"internal/parser/utils.Source", 0},
	"rs":             {"internal/parser/utils.Source", 1},
}

func paramTypeKey(t types.Type) string {
	switch x := t.(type) {
	case *types.Slice:
		return "[]" + paramTypeKey(x.Elem())
	case *types.Pointer:
		return "*" + paramTypeKey(x.Elem())
	}
	if q := typeQName(t); q != "" {
		return q
	}
	return t.String()
}

// paramIndex finds a parameter by name; when no parameter has that name
// (renamed), by its role: the nth parameter of the recorded type.
func paramIndex(sig *types.Signature, name string) int {
	for i := 0; i < sig.Params().Len(); i++ {
		if sig.Params().At(i).Name() == name {
			return i
		}
	}
	if r, ok := paramRole[name]; ok {
		k := 0
		for i := 0; i < sig.Params().Len(); i++ {
			if paramTypeKey(sig.Params().At(i).Type()) == r.typ {
				if k == r.nth {
					return i
				}
				k++
			}
		}
	}
	return -1
}

func runC08(c *Ctx) {
	defer c08EnabledListUntouched(c)
	defer c08OfflineDisablesUnconditionally(c)
	defer c09NoStateDefaultInIsMatch(c, "C08-R6")
	defer checkParamsUsed(c, "C08-R1", "internal/config.newParsedRule", "internal/config.baseParsedRule")
	defer checkSearchFlags(c, "C08-R4", "internal/config.Config.DisableOnlineChecks", "internal/config.Config.SetDisabledChecks")
	p := c.P
	c.Rule("C08-R1", "registration name constant == Reporter() constant of the registered check type", 34)
	c.Rule("C08-R2", "Problem literals inside a check carry that check's reporter", 80)
	c.Rule("C08-R3", "checks.CheckNames == {Reporter() of every RuleChecker implementer except ErrorCheck}", 27)
	c.Rule("C08-R4", "checks.OnlineChecks == {Reporter() | Meta().Online}; CLI expansion loops range over the tables", 28)
	c.Rule("C08-R5", "docs/checks/<name>.md exists for every check name", 27)
	c.Rule("C08-R6", "enabled/disabled lists are matched against the registered name by equality (isEnabled evaluated on every combination of its inputs)", 38)
	defer c08ServersAlways(c)

	impls := checkerTypes(c, "C08-R3")
	reporters := map[string]string{} // type qname -> reporter
	for _, tn := range impls {
		if r, ok := reporterConst(p, tn); ok {
			reporters[typeQName(tn.Type())] = r
		}
	}

	// ---- R1 ----
	cfgPkg := p.Pkg("internal/config")
	for _, regName := range []string{"internal/config.baseParsedRule", "internal/config.newParsedRule"} {
		reg := c.MustFunc("C08-R1", regName)
		if reg == nil {
			continue
		}
		sig := reg.Obj.Type().(*types.Signature)
		ni, ci := paramIndex(sig, "name"), paramIndex(sig, "check")
		if ni < 0 || ci < 0 {
			c.Undecided("C08-R1", "anchor:"+regName+":params", reg.Decl.Pos(), "expected parameters `name` and `check`")
			continue
		}
		// the constructor must copy name/check into the parsedRule fields of the same role
		for _, cl := range compositeLits(cfgPkg.TypesInfo, reg.Decl.Body, "internal/config.parsedRule") {
			// tags: the last []string parameter of the constructor
			ti := -1
			for i := 0; i < sig.Params().Len(); i++ {
				if sig.Params().At(i).Type().String() == "[]string" {
					ti = i
				}
			}
			for field, pi := range map[string]int{"name": ni, "check": ci, "tags": ti} {
				v := litField(cl, field)
				id, _ := v.(*ast.Ident)
				c.Check(id != nil && pi >= 0 && cfgPkg.TypesInfo.Uses[id] == sig.Params().At(pi), "C08-R1", regName+":field:"+field, cl.Pos(),
					"field copied from parameter", "parsedRule."+field+" is not the constructor's `"+field+"` parameter")
			}
		}
		seq := map[string]int{}
		for _, cs := range p.CallersOf(reg.Obj) {
			info := cs.Caller.Pkg.TypesInfo
			nameArg, chkArg := cs.Call.Args[ni], cs.Call.Args[ci]
			chkT := info.Types[chkArg].Type
			tq := typeQName(chkT)
			base := cs.Caller.Name + "->" + reg.Obj.Name() + ":" + tq + ":" + exprStr(nameArg)
			seq[base]++
			key := base
			if seq[base] > 1 {
				key = base + "#" + itoa(seq[base])
			}
			if _, isIface := chkT.Underlying().(*types.Interface); isIface {
				c.Undecided("C08-R1", key, cs.Call.Pos(), "registered check has interface type; concrete type unknown")
				continue
			}
			// the error check: name is check.Reporter() of the same variable
			if call, ok := ast.Unparen(nameArg).(*ast.CallExpr); ok {
				if sel, ok := call.Fun.(*ast.SelectorExpr); ok && sel.Sel.Name == "Reporter" && samePath(info, sel.X, chkArg) {
					c.Ok("C08-R1", key, cs.Call.Pos(), "name is Reporter() of the registered value itself")
					continue
				}
			}
			nameVal, okN := constString(info, nameArg)
			rep, okR := reporters[tq]
			if !okN || !okR {
				c.Undecided("C08-R1", key, cs.Call.Pos(), "name or reporter is not a constant")
				continue
			}
			c.Check(nameVal == rep, "C08-R1", key, cs.Call.Pos(),
				"registered as "+nameVal, "registered under "+strq(nameVal)+" but "+tq+".Reporter() returns "+strq(rep))
		}
	}

	// ---- R2 ----
	chkPkg := p.Pkg("internal/checks")
	checkNames, namesPos, okNames := stringSliceVar(p, "internal/checks", "CheckNames")
	nameSet := map[string]bool{}
	for _, n := range checkNames {
		nameSet[n] = true
	}
	for _, pkg := range p.ModPkgs() {
		for _, f := range pkg.Syntax {
			if p.IsTestFile(f.Pos()) {
				continue
			}
			for _, d := range f.Decls {
				fd, ok := d.(*ast.FuncDecl)
				if !ok || fd.Body == nil {
					continue
				}
				fi := p.FuncOf(pkg.TypesInfo.Defs[fd.Name].(*types.Func))
				lits := compositeLits(pkg.TypesInfo, fd.Body, "internal/checks.Problem")
				for n, cl := range lits {
					key := fi.Name + ":Problem#" + itoa(n+1)
					rep := litField(cl, "Reporter")
					if rep == nil {
						c.Bad("C08-R2", key, cl.Pos(), "Problem literal without Reporter")
						continue
					}
					c08Reporter(c, fi, key, rep, reporters, nameSet)
				}
				// stores to Problem.Reporter outside literals
				ast.Inspect(fd.Body, func(n ast.Node) bool {
					as, ok := n.(*ast.AssignStmt)
					if !ok {
						return true
					}
					for _, l := range as.Lhs {
						if fieldSel(pkg.TypesInfo, l, "internal/checks.Problem", "Reporter") {
							c.Bad("C08-R2", fi.Name+":store:Problem.Reporter", as.Pos(), "Problem.Reporter is overwritten after construction")
						}
					}
					return true
				})
			}
		}
	}
	// problemFromError call sites
	if pfe := c.MustFunc("C08-R2", "internal/checks.problemFromError"); pfe != nil {
		ri := paramIndex(pfe.Obj.Type().(*types.Signature), "reporter")
		seq := map[string]int{}
		for _, cs := range p.CallersOf(pfe.Obj) {
			seq[cs.Caller.Name]++
			key := cs.Caller.Name + "->problemFromError#" + itoa(seq[cs.Caller.Name])
			if ri < 0 {
				c.Undecided("C08-R2", key, cs.Call.Pos(), "no `reporter` parameter")
				continue
			}
			c08Reporter(c, cs.Caller, key, cs.Call.Args[ri], reporters, nameSet)
		}
	}

	// ---- R3 ----
	if !okNames {
		c.Undecided("C08-R3", "anchor:checks.CheckNames", namesPos, "not a literal of string constants")
	} else {
		want := map[string]string{}
		for _, tn := range impls {
			tq := typeQName(tn.Type())
			if tq == "internal/checks.ErrorCheck" {
				continue
			}
			r, ok := reporters[tq]
			if !ok {
				c.Undecided("C08-R3", "reporter:"+tq, tn.Pos(), "Reporter() does not return one constant")
				continue
			}
			want[r] = tq
			c.Check(nameSet[r], "C08-R3", "in-CheckNames:"+r, tn.Pos(), tq, "reporter "+strq(r)+" of "+tq+" is missing from checks.CheckNames")
		}
		for _, n := range checkNames {
			if _, ok := want[n]; !ok {
				c.Bad("C08-R3", "CheckNames-has-owner:"+n, namesPos, "checks.CheckNames lists "+strq(n)+" but no check reports under it")
			}
		}
		dup := map[string]int{}
		for _, n := range checkNames {
			dup[n]++
		}
		for n, k := range dup {
			if k > 1 {
				c.Bad("C08-R3", "CheckNames-dup:"+n, namesPos, "duplicate entry")
			}
		}
	}

	// ---- R4 ----
	online, onlinePos, okOnline := stringSliceVar(p, "internal/checks", "OnlineChecks")
	if !okOnline {
		c.Undecided("C08-R4", "anchor:checks.OnlineChecks", onlinePos, "not a literal of string constants")
	} else {
		onlineSet := map[string]bool{}
		for _, n := range online {
			onlineSet[n] = true
		}
		for _, tn := range impls {
			tq := typeQName(tn.Type())
			meta := p.methodOn(tq, "Meta")
			if meta == nil {
				c.Undecided("C08-R4", "meta:"+tq, tn.Pos(), "no Meta method")
				continue
			}
			isOnline, decided := metaBool(meta, "Online")
			if !decided {
				c.Undecided("C08-R4", "meta:"+tq, meta.Decl.Pos(), "Meta() is not a single CheckMeta literal with constant Online")
				continue
			}
			r, ok := reporters[tq]
			if !ok {
				if tq == "internal/checks.ErrorCheck" {
					c.Check(!isOnline, "C08-R4", "online:"+tq, meta.Decl.Pos(), "error check is offline", "ErrorCheck is marked Online")
				}
				continue
			}
			c.Check(isOnline == onlineSet[r], "C08-R4", "online:"+r, meta.Decl.Pos(),
				"Meta().Online agrees with checks.OnlineChecks",
				tq+".Meta().Online="+boolStr(isOnline)+" but membership of "+strq(r)+" in checks.OnlineChecks is "+boolStr(onlineSet[r]))
		}
	}
	c08Expansion(c, "internal/config.Config.DisableOnlineChecks", "OnlineChecks")
	c08Expansion(c, "internal/config.Config.SetDisabledChecks", "CheckNames")
	// --offline reaches DisableOnlineChecks; --disabled reaches SetDisabledChecks
	if setup := c.MustFunc("C08-R4", "cmd/pint.actionSetup"); setup != nil {
		fl := p.NewFlow(setup)
		off := fl.FindCalls("internal/config.Config.DisableOnlineChecks")
		c.Check(len(off) > 0, "C08-R4", "actionSetup->DisableOnlineChecks", setup.Decl.Pos(), "called", "actionSetup no longer calls DisableOnlineChecks")
		for _, s := range off {
			isOfflineFlag := func(e ast.Expr) bool {
				call, ok := ast.Unparen(e).(*ast.CallExpr)
				if !ok || len(call.Args) != 1 {
					return false
				}
				v, ok := constString(fl.Info, call.Args[0])
				return ok && v == "offline"
			}
			dom := fl.Dominated(s.Site, s.Inner, func(a Atom) bool {
				if !a.Truth || a.Tag != nil {
					return false
				}
				if isOfflineFlag(a.E) {
					return true
				}
				// a variable or field that holds the flag: every assignment to it in the function is c.Bool("offline")
				key := exprIdentity(fl.Info, a.E)
				n, all := 0, true
				ast.Inspect(setup.Decl.Body, func(m ast.Node) bool {
					if as, ok := m.(*ast.AssignStmt); ok && len(as.Lhs) == len(as.Rhs) {
						for i, l := range as.Lhs {
							if exprIdentity(fl.Info, l) == key {
								n++
								if !isOfflineFlag(as.Rhs[i]) {
									all = false
								}
							}
						}
					}
					return true
				})
				return n >= 1 && all
			})
			c.Check(dom, "C08-R4", "actionSetup:DisableOnlineChecks-under-offline-flag", s.Inner.Pos(), "guarded by the offline flag", "DisableOnlineChecks is not guarded by c.Bool(\"offline\")")
		}
		sd := fl.FindCalls("internal/config.Config.SetDisabledChecks")
		c.Check(len(sd) > 0, "C08-R4", "actionSetup->SetDisabledChecks", setup.Decl.Pos(), "called", "actionSetup no longer calls SetDisabledChecks")
		for _, s := range sd {
			call := s.Inner.(*ast.CallExpr)
			ok := false
			if len(call.Args) == 1 {
				if inner, isCall := call.Args[0].(*ast.CallExpr); isCall && len(inner.Args) == 1 {
					v, isConst := constString(fl.Info, inner.Args[0])
					ok = isConst && v == "disabled"
				}
			}
			c.Check(ok, "C08-R4", "actionSetup:SetDisabledChecks(arg=disabled flag)", call.Pos(), "argument is the --disabled flag", "SetDisabledChecks is not fed from the `disabled` flag")
		}
	}
	// the default enabled list is CheckNames
	if load := c.MustFunc("C08-R4", "internal/config.Load"); load != nil {
		found := false
		for _, cl := range compositeLits(cfgPkg.TypesInfo, load.Decl.Body, "internal/config.Checks") {
			if v := litField(cl, "Enabled"); v != nil {
				if o := objOf(cfgPkg.TypesInfo, v); o != nil && o == p.LookupObj("internal/checks", "CheckNames") {
					found = true
				}
			}
		}
		c.Check(found, "C08-R4", "Load:default Enabled=checks.CheckNames", load.Decl.Pos(), "default enabled list is CheckNames", "config.Load no longer defaults Checks.Enabled to checks.CheckNames")
	}

	// ---- R5 ----
	for _, n := range checkNames {
		path := filepath.Join(p.Repo, "docs", "checks", filepath.FromSlash(n)+".md")
		_, err := os.Stat(path)
		c.Check(err == nil, "C08-R5", "docs:"+n, chkPkgPos(chkPkg), "docs/checks/"+n+".md exists", "docs/checks/"+n+".md is missing")
	}

	// ---- R6 ----
	c08Matching(c)
}

func chkPkgPos(pkg interface{}) token.Pos { return token.NoPos }

func strq(s string) string { return "\"" + s + "\"" }

func boolStr(b bool) string {
	if b {
		return "true"
	}
	return "false"
}

func itoa(i int) string {
	if i == 0 {
		return "0"
	}
	neg := i < 0
	if neg {
		i = -i
	}
	var b []byte
	for i > 0 {
		b = append([]byte{byte('0' + i%10)}, b...)
		i /= 10
	}
	if neg {
		b = append([]byte{'-'}, b...)
	}
	return string(b)
}

// c08Reporter classifies the expression given as a problem's reporter inside fn.
func c08Reporter(c *Ctx, fn *FuncInfo, key string, rep ast.Expr, reporters map[string]string, nameSet map[string]bool) {
	info := fn.Pkg.TypesInfo
	pos := rep.Pos()
	recvType := ""
	var recvObj types.Object
	if fn.Decl.Recv != nil && len(fn.Decl.Recv.List) == 1 {
		recvType = typeQName(info.TypeOf(fn.Decl.Recv.List[0].Type))
		if len(fn.Decl.Recv.List[0].Names) == 1 {
			recvObj = info.Defs[fn.Decl.Recv.List[0].Names[0]]
		}
	}
	ownRep, isCheck := reporters[recvType]
	// c.Reporter() on the receiver
	if call, ok := ast.Unparen(rep).(*ast.CallExpr); ok {
		if sel, ok := call.Fun.(*ast.SelectorExpr); ok && sel.Sel.Name == "Reporter" {
			if id, ok := ast.Unparen(sel.X).(*ast.Ident); ok && recvObj != nil && info.Uses[id] == recvObj {
				c.Ok("C08-R2", key, pos, "receiver.Reporter()")
				return
			}
			c.Bad("C08-R2", key, pos, "reporter taken from "+exprStr(sel.X)+".Reporter(), which is not the method receiver")
			return
		}
	}
	if v, ok := constString(info, rep); ok {
		switch {
		case isCheck:
			c.Check(v == ownRep, "C08-R2", key, pos, "constant equal to own reporter", "problem built in "+recvType+" carries reporter "+strq(v)+" but the check reports as "+strq(ownRep))
		case nameSet[v]:
			c.Bad("C08-R2", key, pos, "code outside a check emits a problem under the check name "+strq(v))
		default:
			c.Ok("C08-R2", key, pos, "fixed non-check reporter "+strq(v))
		}
		return
	}
	// parameter named reporter of problemFromError (call sites are checked separately)
	if id, ok := ast.Unparen(rep).(*ast.Ident); ok && fn.Name == "internal/checks.problemFromError" {
		if v, ok := info.Uses[id].(*types.Var); ok && isReporterParam(c.P, v) {
			c.Ok("C08-R2", key, pos, "reporter parameter; every call site is an obligation of its own")
			return
		}
	}
	c.Undecided("C08-R2", key, pos, "reporter expression "+exprStr(rep)+" is neither receiver.Reporter() nor a constant")
}

// metaBool reads field `name` of the single CheckMeta literal a Meta() method returns.
func metaBool(meta *FuncInfo, name string) (val, ok bool) {
	lits := compositeLits(meta.Pkg.TypesInfo, meta.Decl.Body, "internal/checks.CheckMeta")
	if len(lits) != 1 || len(returnsIn(meta.Decl.Body.List)) != 1 {
		return false, false
	}
	v := litField(lits[0], name)
	if v == nil {
		return false, true // zero value
	}
	tv := meta.Pkg.TypesInfo.Types[v]
	if tv.Value == nil {
		return false, false
	}
	return tv.Value.String() == "true", true
}

// c08Expansion: fnName ranges over checks.<table> and appends the ranged
// value to cfg.Checks.Disabled with no constant-dependent filtering.
func c08Expansion(c *Ctx, fnName, table string) {
	fi := c.MustFunc("C08-R4", fnName)
	if fi == nil {
		return
	}
	info := fi.Pkg.TypesInfo
	tableObj := c.P.LookupObj("internal/checks", table)
	var loop *ast.RangeStmt
	ast.Inspect(fi.Decl.Body, func(n ast.Node) bool {
		if rs, ok := n.(*ast.RangeStmt); ok && objOf(info, rs.X) == tableObj && tableObj != nil {
			loop = rs
		}
		return true
	})
	key := fnName + ":range checks." + table
	if loop == nil {
		c.Bad("C08-R4", key, fi.Decl.Pos(), "function does not range over checks."+table)
		return
	}
	c.Ok("C08-R4", key, loop.Pos(), "ranges over the table")
	// no condition inside the function mentions a string constant (a filter on specific names)
	bad := ""
	ast.Inspect(fi.Decl.Body, func(n ast.Node) bool {
		var cond ast.Expr
		switch x := n.(type) {
		case *ast.IfStmt:
			cond = x.Cond
		case *ast.CaseClause:
			for _, e := range x.List {
				if _, ok := constString(info, e); ok {
					bad = exprStr(e)
				}
			}
		}
		if cond != nil {
			ast.Inspect(cond, func(m ast.Node) bool {
				if e, ok := m.(ast.Expr); ok {
					if _, ok := constString(info, e); ok {
						bad = exprStr(cond)
					}
				}
				return true
			})
		}
		return true
	})
	c.Check(bad == "", "C08-R4", fnName+":no name-specific filter", fi.Decl.Pos(), "no condition compares against a string constant", "condition `"+bad+"` filters on a specific name")
	// the "already listed" test is an equality: no prefix/substring/regexp matching of disabled entries
	fuzzy := ""
	ast.Inspect(fi.Decl.Body, func(n ast.Node) bool {
		switch x := n.(type) {
		case *ast.CallExpr:
			if fn := Callee(info, x); fn != nil && fn.Pkg() != nil {
				switch fn.Pkg().Path() {
				case "strings", "path", "path/filepath":
					fuzzy = exprStr(x)
				}
			}
		case *ast.BinaryExpr:
			if t := info.TypeOf(x.X); t != nil && t.String() == "string" {
				switch x.Op {
				case token.EQL, token.NEQ, token.ADD:
				default:
					fuzzy = exprStr(x)
				}
			}
		case *ast.SliceExpr:
			if t := info.TypeOf(x.X); t != nil && t.String() == "string" {
				fuzzy = exprStr(x)
			}
		}
		return true
	})
	c.Check(fuzzy == "", "C08-R4", fnName+":names compared by equality only", fi.Decl.Pos(), "no prefix/substring matching", "`"+fuzzy+"` matches names loosely: a check can be taken as already disabled because of a similarly named entry")
	// an append to Checks.Disabled exists
	found := false
	ast.Inspect(fi.Decl.Body, func(n ast.Node) bool {
		as, ok := n.(*ast.AssignStmt)
		if !ok || len(as.Lhs) != 1 {
			return true
		}
		if fieldSel(info, as.Lhs[0], "internal/config.Checks", "Disabled") {
			if call, ok := as.Rhs[0].(*ast.CallExpr); ok {
				if id, ok := call.Fun.(*ast.Ident); ok && id.Name == "append" {
					found = true
				}
			}
		}
		return true
	})
	c.Check(found, "C08-R4", fnName+":appends to Checks.Disabled", fi.Decl.Pos(), "appends to cfg.Checks.Disabled", "no append to cfg.Checks.Disabled")
}

// c08Matching checks the equality comparisons in config.isEnabled and
// parsedRule.isEnabled.
func c08Matching(c *Ctx) {
	fi := c.MustFunc("C08-R6", "internal/config.isEnabled")
	if fi == nil {
		return
	}
	c08IsEnabledSemantics(c)

	// parsedRule.isEnabled: rule{disable/enable} compare rule.name; both isEnabled calls pass rule.name, rule.check, rule.tags
	pr := c.MustFunc("C08-R6", "internal/config.parsedRule.isEnabled")
	if pr == nil {
		return
	}
	pinfo := pr.Pkg.TypesInfo
	nContains := 0
	ast.Inspect(pr.Decl.Body, func(n ast.Node) bool {
		call, ok := n.(*ast.CallExpr)
		if !ok {
			return true
		}
		if fn := Callee(pinfo, call); fn != nil && fn.Pkg() != nil && fn.Pkg().Path() == "slices" && fn.Name() == "Contains" && len(call.Args) == 2 {
			if fieldSel(pinfo, call.Args[0], "internal/config.Rule", "Disable") || fieldSel(pinfo, call.Args[0], "internal/config.Rule", "Enable") {
				nContains++
				which := ast.Unparen(call.Args[0]).(*ast.SelectorExpr).Sel.Name
				c.Check(fieldSel(pinfo, call.Args[1], "internal/config.parsedRule", "name"), "C08-R6", "parsedRule.isEnabled:rule."+which+" contains rule.name", call.Pos(),
					"looked up by registered name", "rule{"+strings.ToLower(which)+"} is matched against "+exprStr(call.Args[1])+", not the registered name")
			}
		}
		if isCallTo(pinfo, call, "internal/config.isEnabled") {
			sig := fi.Obj.Type().(*types.Signature)
			for pname, field := range map[string]string{"name": "name", "check": "check", "promTags": "tags"} {
				i := paramIndex(sig, pname)
				c.Check(i >= 0 && fieldSel(pinfo, call.Args[i], "internal/config.parsedRule", field), "C08-R6",
					"parsedRule.isEnabled->isEnabled:"+pname+"=rule."+field, call.Pos(), "passes the registered "+field, "isEnabled receives "+exprStr(call.Args[max(i, 0)])+" as "+pname)
			}
		}
		return true
	})
	c.Check(nContains >= 2, "C08-R6", "parsedRule.isEnabled:rule enable+disable lookups", pr.Decl.Pos(), "both lookups present", "rule{enable}/rule{disable} lookups missing")
	// a later rule{} block may still disable the check: the scan over config rules never returns true early
	sigPR := pr.Obj.Type().(*types.Signature)
	if i := paramIndex(sigPR, "cfgRules"); i >= 0 {
		cfgRules := sigPR.Params().At(i)
		var loop *ast.RangeStmt
		ast.Inspect(pr.Decl.Body, func(n ast.Node) bool {
			if rs, ok := n.(*ast.RangeStmt); ok && objOf(pinfo, rs.X) == cfgRules {
				loop = rs
			}
			return true
		})
		okLoop := loop != nil
		if loop != nil {
			for _, r := range returnsIn(loop.Body.List) {
				if len(r.Results) != 1 || exprStr(r.Results[0]) != "false" {
					okLoop = false
				}
			}
			inspectNoLit(loop.Body, func(n ast.Node) bool {
				if b, ok := n.(*ast.BranchStmt); ok && b.Tok == token.BREAK {
					okLoop = false
				}
				return true
			})
		}
		c.Check(okLoop, "C08-R6", "parsedRule.isEnabled:all rule{} blocks scanned before enabling", pr.Decl.Pos(), "no early positive exit", "the scan over rule{} blocks can stop at an `enable` before a later matching `disable = [name]` is seen")
	} else {
		c.Undecided("C08-R6", "parsedRule.isEnabled:cfgRules parameter", pr.Decl.Pos(), "parameter not found")
	}
}

// isReporterParam: v is the `reporter` parameter of checks.problemFromError
// (by role: the first string parameter).
func isReporterParam(p *Prog, v *types.Var) bool {
	pfe := p.Func("internal/checks.problemFromError")
	if pfe == nil {
		return false
	}
	sig := pfe.Obj.Type().(*types.Signature)
	i := paramIndex(sig, "reporter")
	return i >= 0 && sig.Params().At(i) == v
}

// c08ServersAlways: --offline switches checks off by NAME (the online list);
// it must not change which servers exist, because checks that are not in that
// list but are instantiated per server (rule/duplicate, …) would silently
// disappear. GenerateStatic is called by every action regardless of isOffline.
func c08ServersAlways(c *Ctx) {
	p := c.P
	gen := p.Func("internal/config.PrometheusGenerator.GenerateStatic")
	if gen == nil {
		c.Undecided("C08-R4", "anchor:GenerateStatic", token.NoPos, "method not found")
		return
	}
	n := 0
	for _, cs := range p.CallersOf(gen.Obj) {
		if p.IsTestFile(cs.Call.Pos()) || relPkg(cs.Caller.Pkg.PkgPath) != "cmd/pint" {
			continue
		}
		n++
		pm := parentMap(cs.Caller.Decl.Body)
		bad := ""
		for _, a := range lexicalGuards(pm, cs.Call, cs.Caller.Decl.Body) {
			if strings.Contains(exprStr(a.E), "isOffline") || strings.Contains(strings.ToLower(exprStr(a.E)), "offline") {
				bad = exprStr(a.E)
			}
		}
		c.Check(bad == "", "C08-R4", cs.Caller.Name+":Prometheus servers are set up regardless of --offline #"+itoa(n), cs.Call.Pos(), "unconditional w.r.t. offline",
			"GenerateStatic is skipped under `"+bad+"`: with --offline no server exists, so per-server checks that are NOT in the online list (rule/duplicate) stop running although their name was never disabled")
	}
	c.Check(n >= 3, "C08-R4", "actions set up Prometheus servers", token.NoPos, itoa(n)+" call sites in cmd/pint", "expected GenerateStatic to be called by lint, ci and watch")
}

// c08IsEnabledSemantics decides config.isEnabled by running it (minieval.go)
// on every relevant combination of its inputs and comparing the result with
// the documented meaning: an always-enabled check is on; a check that a rule
// comment switches off is off unless its rule block is locked; a check named
// in the disabled list — by its registered name, by its String(), or as
// name(+tag) for one of the server's tags — is off (locked or not); otherwise
// it is on when the enabled list is empty or holds its registered name.
func c08IsEnabledSemantics(c *Ctx) { c08IsEnabledSemanticsR(c, "C08-R6") }

func c08IsEnabledSemanticsR(c *Ctx, R string) {
	fi := c.MustFunc(R, "internal/config.isEnabled")
	if fi == nil {
		return
	}
	info := fi.Pkg.TypesInfo
	sig := fi.Obj.Type().(*types.Signature)
	par := func(name string) types.Object {
		if i := paramIndex(sig, name); i >= 0 {
			return sig.Params().At(i)
		}
		return nil
	}
	enabledP, disabledP, nameP, checkP, tagsP, lockedP := par("enabledChecks"), par("disabledChecks"), par("name"), par("check"), par("promTags"), par("locked")
	if enabledP == nil || disabledP == nil || nameP == nil || checkP == nil || tagsP == nil || lockedP == nil {
		c.Undecided(R, "anchor:isEnabled:params", fi.Decl.Pos(), "expected parameters enabledChecks, disabledChecks, name, check, promTags, locked")
		return
	}
	const N, S, T = "N", "S(…)", "t"
	disabledShapes := [][]string{{}, {N}, {S}, {N + "(+" + T + ")"}, {"X"}, {"X", N}, {N + "(+other)"}, {N + "(+x" + T + ")"}, {N + "(+" + T + "x)"}}
	enabledShapes := [][]string{{}, {N}, {"X"}, {"X", N}, {S}}
	show := func(l []string) string {
		if len(l) == 0 {
			return "-"
		}
		return strings.Join(l, ",")
	}
	for _, dis := range disabledShapes {
		for _, en := range enabledShapes {
			key := "isEnabled:disabled=[" + show(dis) + "] enabled=[" + show(en) + "]"
			bad, undec := "", ""
			for bits := 0; bits < 16; bits++ {
				always, locked, byComment, hasTag := bits&1 != 0, bits&2 != 0, bits&4 != 0, bits&8 != 0
				tags := []string{}
				if hasTag {
					tags = []string{T}
				}
				// reference
				want := false
				switch {
				case always:
					want = true
				case !locked && byComment:
					want = false
				default:
					off := false
					for _, d := range dis {
						if d == N || d == S {
							off = true
						}
						for _, tg := range tags {
							if d == N+"(+"+tg+")" {
								off = true
							}
						}
					}
					if off {
						want = false
					} else if len(en) == 0 {
						want = true
					} else {
						for _, e := range en {
							if e == N {
								want = true
							}
						}
					}
				}
				ev := &miniEval{info: info, prog: c.P, env: map[types.Object]mval{}}
				ev.env[enabledP], ev.env[disabledP] = mList(en), mList(dis)
				ev.env[nameP], ev.env[tagsP], ev.env[lockedP] = mStr(N), mList(tags), mBool(locked)
				ev.sel = func(ev *miniEval, sel *ast.SelectorExpr) (mval, bool) {
					// check.Meta().AlwaysEnabled
					if sel.Sel.Name == "AlwaysEnabled" {
						if call, ok := ast.Unparen(sel.X).(*ast.CallExpr); ok {
							if s2, ok := call.Fun.(*ast.SelectorExpr); ok && s2.Sel.Name == "Meta" && objOf(info, s2.X) == checkP {
								return mBool(always), true
							}
						}
					}
					return mval{}, false
				}
				ev.oracle = func(ev *miniEval, call *ast.CallExpr) (mval, bool) {
					if isCallTo(info, call, "internal/config.isDisabledForRule") {
						return mBool(byComment), true
					}
					if s2, ok := call.Fun.(*ast.SelectorExpr); ok && s2.Sel.Name == "String" && len(call.Args) == 0 && objOf(info, s2.X) == checkP {
						return mStr(S), true
					}
					if fn := Callee(info, call); fn != nil && fn.Pkg() != nil && fn.Pkg().Path() == "fmt" && fn.Name() == "Sprintf" && len(call.Args) == 3 {
						if f, ok := constString(info, call.Args[0]); ok && f == "%s(+%s)" {
							a, b := ev.expr(call.Args[1]), ev.expr(call.Args[2])
							if a.k == mvStr && b.k == mvStr {
								return mStr(a.s + "(+" + b.s + ")"), true
							}
						}
					}
					if fn := Callee(info, call); fn != nil && fn.Pkg() != nil && fn.Pkg().Path() == "log/slog" {
						return mval{}, true
					}
					return mval{}, false
				}
				ctl := ev.block(fi.Decl.Body.List)
				if ev.undec != "" || ctl.kind != 'r' || ctl.ret.k != mvBool {
					undec = ev.undec
					if undec == "" {
						undec = "no boolean result"
					}
					break
				}
				if ctl.ret.b != want && bad == "" {
					bad = fmt.Sprintf("always-enabled=%v locked=%v disabled-by-comment=%v server-tags=%v: isEnabled yields %v, the documented meaning is %v", always, locked, byComment, tags, ctl.ret.b, want)
				}
			}
			if undec != "" {
				c.Undecided(R, key, fi.Decl.Pos(), undec)
				continue
			}
			c.Check(bad == "", R, key, fi.Decl.Pos(), "16 flag combinations agree with the documented meaning", "with the disabled list ["+show(dis)+"] and the enabled list ["+show(en)+"] (N = the registered name, S = check.String()) and "+bad)
		}
	}
}

// c08EnabledListUntouched: the list of enabled checks is what the user wrote:
// every store to Checks.Enabled outside package config assigns the value of the
// --enabled flag itself (a local all of whose definitions are a call on the
// cli.Command). "Cleaning" the list (dropping names that are also disabled) can
// empty it, and an empty list means "everything is enabled".
func c08EnabledListUntouched(c *Ctx) {
	p := c.P
	n := 0
	for _, fi := range p.AllFuncs() {
		if fi.Decl.Body == nil || p.IsTestFile(fi.Decl.Pos()) || relPkg(fi.Pkg.PkgPath) == "internal/config" {
			continue
		}
		info := fi.Pkg.TypesInfo
		ast.Inspect(fi.Decl.Body, func(nd ast.Node) bool {
			as, ok := nd.(*ast.AssignStmt)
			if !ok || len(as.Lhs) != len(as.Rhs) {
				return true
			}
			for i, l := range as.Lhs {
				if !fieldSel(info, l, "internal/config.Checks", "Enabled") {
					continue
				}
				n++
				okSrc := false
				if id, isID := ast.Unparen(as.Rhs[i]).(*ast.Ident); isID {
					defs := allDefs(info, fi.Decl.Body, id)
					okSrc = len(defs) > 0
					for _, d := range defs {
						call, isCall := d.(*ast.CallExpr)
						if !isCall {
							okSrc = false
							continue
						}
						sel, isSel := call.Fun.(*ast.SelectorExpr)
						if !isSel || !strings.HasSuffix(typeQNameOrString(info.TypeOf(sel.X)), "cli/v3.Command") {
							okSrc = false
						}
					}
				} else if call, isCall := ast.Unparen(as.Rhs[i]).(*ast.CallExpr); isCall {
					if sel, isSel := call.Fun.(*ast.SelectorExpr); isSel && strings.HasSuffix(typeQNameOrString(info.TypeOf(sel.X)), "cli/v3.Command") {
						okSrc = true
					}
				}
				c.Check(okSrc, "C08-R4", fi.Obj.Name()+":Checks.Enabled is set from the --enabled flag as it is", as.Pos(), "flag value",
					"the list of enabled checks is stored after being computed from something other than the flag value (filtered, merged): a list that ends up empty no longer means what the user wrote but `everything is enabled`")
			}
			return true
		})
	}
	c.Check(n >= 1, "C08-R4", "stores to Checks.Enabled outside package config enumerated", token.NoPos, itoa(n), "none found")
}

func typeQNameOrString(t types.Type) string {
	if t == nil {
		return ""
	}
	if q := typeQName(t); q != "" {
		return q
	}
	return t.String()
}

// c08OfflineDisablesUnconditionally: `--offline` is the same as disabling the
// documented online checks by name, whatever else the configuration holds. In
// actionSetup the call of Config.DisableOnlineChecks stands under the offline
// flag and nothing else: a further condition (no prometheus{} block, nothing to
// discover) leaves online checks that need no server — promql/range_query,
// rule/link — switched on although they would have been off by name.
func c08OfflineDisablesUnconditionally(c *Ctx) {
	R := "C08-R4"
	fi := c.MustFunc(R, "cmd/pint.actionSetup")
	if fi == nil {
		return
	}
	info := fi.Pkg.TypesInfo
	pm := parentMap(fi.Decl.Body)
	n := 0
	ast.Inspect(fi.Decl.Body, func(nd ast.Node) bool {
		call, ok := nd.(*ast.CallExpr)
		if !ok || !isCallTo(info, call, "internal/config.Config.DisableOnlineChecks") {
			return true
		}
		n++
		other := ""
		offline := false
		for _, g := range lexicalGuards(pm, call, fi.Decl.Body) {
			isOff := false
			ast.Inspect(g.E, func(m ast.Node) bool {
				switch x := m.(type) {
				case *ast.Ident:
					if k, isC := info.Uses[x].(*types.Const); isC && k.Name() == "offlineFlag" {
						isOff = true
					}
				case *ast.SelectorExpr:
					if x.Sel.Name == "isOffline" {
						isOff = true
					}
				}
				return true
			})
			_, isCall := ast.Unparen(g.E).(*ast.CallExpr)
			_, isSel := ast.Unparen(g.E).(*ast.SelectorExpr)
			if isOff && g.Truth && (isCall || isSel) {
				offline = true
				continue
			}
			if isOff {
				continue // a compound condition that mentions the flag: its other members are judged on their own
			}
			other = roleStr(info, g.E)
		}
		c.Check(offline && other == "", R, "actionSetup:--offline disables the online checks whatever the configuration", call.Pos(), "guarded by the offline flag only",
			"DisableOnlineChecks() also depends on `"+other+"`: with --offline some checks of the documented online list stay enabled (those that need no server, e.g. promql/range_query with a configured maximum), so --offline no longer equals disabling that list by name")
		return true
	})
	c.Check(n == 1, R, "actionSetup:one DisableOnlineChecks call", fi.Decl.Pos(), itoa(n), "expected exactly one call of DisableOnlineChecks in actionSetup")
}
