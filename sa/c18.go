package main

import (
	"go/ast"
	"go/token"
	"go/types"
	"reflect"
	"sort"
	"strings"

	"golang.org/x/tools/go/packages"
)

func init() {
	register("C18", runC18,
		"Decides the validate-before-use discipline for all configurations: (R1) every string that reaches a panicking or error-dropping constructor (regexp.MustCompile, checks.MustTemplatedRegexp / MustRawTemplatedRegexp, url.Parse with a discarded error) — directly, through module functions that forward a parameter to such a sink, or through a struct field that is later fed to one — and that originates in a field of a config struct, is validated by the corresponding error-returning constructor in that struct's validate(); (R2) no result of a call whose error is discarded, and no result of a module wrapper that can return nil because it discards an error, is dereferenced without a nil test; (R3) every field of a config struct whose type has a validate() method is validated by the owning struct's validate()/Load, and Check.Decode validates settings; (R4) settings values used after a dropped error are only those validate() checked.",
		"panics inside third-party code, resource exhaustion, semantic validity of values that pass their constructor.")
}

type sinkKind string

const (
	kRegexp  sinkKind = "regexp"
	kTRegexp sinkKind = "templated-regexp"
	kRawT    sinkKind = "raw-templated-regexp"
	kURL     sinkKind = "url"
)

// sinkOfCall: does this call make its argument a crash-relevant sink?
func sinkOfCall(info *types.Info, pm map[ast.Node]ast.Node, call *ast.CallExpr) (sinkKind, int, bool) {
	fn := Callee(info, call)
	if fn == nil || fn.Pkg() == nil {
		return "", 0, false
	}
	switch fn.Pkg().Path() + "." + fn.Name() {
	case "regexp.MustCompile":
		return kRegexp, 0, true
	case ModPath + "/internal/checks.MustTemplatedRegexp":
		return kTRegexp, 0, true
	case ModPath + "/internal/checks.MustRawTemplatedRegexp":
		return kRawT, 0, true
	case "net/url.Parse":
		if as, ok := pm[call].(*ast.AssignStmt); ok && len(as.Lhs) == 2 {
			if id, ok := as.Lhs[1].(*ast.Ident); ok && id.Name == "_" {
				return kURL, 0, true
			}
		}
	}
	return "", 0, false
}

// validatorOfCall: error-returning constructors used in validate().
func validatorOfCall(info *types.Info, call *ast.CallExpr) (sinkKind, bool) {
	fn := Callee(info, call)
	if fn == nil || fn.Pkg() == nil {
		return "", false
	}
	switch fn.Pkg().Path() + "." + fn.Name() {
	case "regexp.Compile":
		return kRegexp, true
	case ModPath + "/internal/checks.NewTemplatedRegexp":
		return kTRegexp, true
	case ModPath + "/internal/checks.NewRawTemplatedRegexp":
		return kRawT, true
	case "net/url.Parse":
		return kURL, true
	}
	return "", false
}

// origin describes where an argument expression comes from.
type origin struct {
	param    *types.Var // parameter of the enclosing function
	cfgType  string     // config struct type, if a field of one
	cfgField string
	constant bool
	other    string
}

// originOf resolves an expression to its origin inside fi (one step through
// locals, range variables, concatenation with constants and `x...`).
func originOf(p *Prog, fi *FuncInfo, e ast.Expr, depth int) []origin {
	info := fi.Pkg.TypesInfo
	e = ast.Unparen(e)
	if depth > 12 {
		return []origin{{other: exprStr(e)}}
	}
	if tv, ok := info.Types[e]; ok && tv.Value != nil {
		return []origin{{constant: true}}
	}
	switch x := e.(type) {
	case *ast.BinaryExpr:
		if x.Op == token.ADD {
			return append(originOf(p, fi, x.X, depth+1), originOf(p, fi, x.Y, depth+1)...)
		}
	case *ast.CallExpr:
		if fn := Callee(info, x); fn != nil && fn.Pkg() != nil && fn.Pkg().Path() == "regexp" && fn.Name() == "QuoteMeta" {
			return []origin{{constant: true}}
		}
		if fn := Callee(info, x); fn != nil && fn.Pkg() != nil && fn.Pkg().Path() == "strings" && (fn.Name() == "TrimSuffix" || fn.Name() == "TrimPrefix" || fn.Name() == "TrimSpace") && len(x.Args) >= 1 {
			return originOf(p, fi, x.Args[0], depth+1)
		}
	case *ast.SelectorExpr:
		owner := fieldOwner(info, x)
		if strings.HasPrefix(owner, "internal/config.") {
			return []origin{{cfgType: owner, cfgField: x.Sel.Name}}
		}
		if owner != "" {
			return []origin{{other: "field " + owner + "." + x.Sel.Name}}
		}
	case *ast.IndexExpr:
		return originOf(p, fi, x.X, depth+1)
	case *ast.Ident:
		o := info.Uses[x]
		v, isVar := o.(*types.Var)
		if !isVar {
			break
		}
		sig := fi.Obj.Type().(*types.Signature)
		for i := 0; i < sig.Params().Len(); i++ {
			if sig.Params().At(i) == v {
				return []origin{{param: v}}
			}
		}
		// local: range variable or single assignment
		var out []origin
		ast.Inspect(fi.Decl.Body, func(n ast.Node) bool {
			switch s := n.(type) {
			case *ast.RangeStmt:
				for _, kv := range []ast.Expr{s.Key, s.Value} {
					if id, ok := kv.(*ast.Ident); ok && info.Defs[id] == v {
						out = append(out, originOf(p, fi, s.X, depth+1)...)
					}
				}
			case *ast.AssignStmt:
				for i, l := range s.Lhs {
					if id, ok := l.(*ast.Ident); ok && (info.Defs[id] == v || info.Uses[id] == v) {
						if len(s.Rhs) == len(s.Lhs) {
							out = append(out, originOf(p, fi, s.Rhs[i], depth+1)...)
						} else if len(s.Rhs) == 1 {
							out = append(out, origin{other: "result of " + exprStr(s.Rhs[0])})
						}
					}
				}
			}
			return true
		})
		if len(out) > 0 {
			return out
		}
	}
	return []origin{{other: exprStr(e)}}
}

type paramSink struct {
	fn   *types.Func
	idx  int
	kind sinkKind
	via  string
	wrap string // grouping constants wrapped around the value on the way to the sink
}

// groupingConsts returns the constant operands of a concatenation that
// contain regexp grouping characters (a wrapper such as "^(?:" … ")$" is only
// safe for a value that was validated inside the same wrapper: an unterminated
// \Q…  in the value swallows the closing parenthesis).
func groupingConsts(info *types.Info, e ast.Expr) string {
	var out []string
	for _, part := range flattenConcat(e) {
		if s, ok := constString(info, part); ok && strings.ContainsAny(s, "()[]") {
			out = append(out, s)
		}
	}
	return strings.Join(out, " … ")
}

func runC18(c *Ctx) {
	p := c.P
	c.Rule("C18-R1", "config strings reaching panicking / error-dropping constructors are validated by the same constructor", 25)
	c.Rule("C18-R2", "results of error-dropping calls and nil-returning wrappers are not dereferenced unchecked", 6)
	c.Rule("C18-R3", "validate() coverage of nested config structs", 20)
	defer c18PatternsAreCompiledAsValidated(c, "C18-R1")

	// ---- validated table ----
	validated := map[string]map[sinkKind]bool{} // "Type.field" -> kinds
	validatedWrap := map[string]string{}        // "Type.field" -> grouping constants used at validation
	cfgPkg := p.Pkg("internal/config")
	if cfgPkg == nil {
		c.Undecided("C18-R1", "anchor:internal/config", token.NoPos, "package not found")
		return
	}
	for _, fi := range p.AllFuncs() {
		if fi.Pkg != cfgPkg || fi.Decl.Body == nil || p.IsTestFile(fi.Decl.Pos()) || fi.Obj.Name() != "validate" {
			continue
		}
		info := fi.Pkg.TypesInfo
		ast.Inspect(fi.Decl.Body, func(n ast.Node) bool {
			call, ok := n.(*ast.CallExpr)
			if !ok || len(call.Args) == 0 {
				return true
			}
			kind, ok := validatorOfCall(info, call)
			if !ok {
				return true
			}
			for _, o := range originOf(p, fi, call.Args[0], 0) {
				if o.cfgType != "" {
					k := o.cfgType + "." + o.cfgField
					if validated[k] == nil {
						validated[k] = map[sinkKind]bool{}
					}
					validated[k][kind] = true
					if kind == kRegexp {
						validatedWrap[k] = groupingConsts(info, call.Args[0])
					}
				}
			}
			return true
		})
	}

	// ---- sinks and summaries ----
	type fieldKey struct{ owner, field string }
	fieldSinks := map[fieldKey]sinkKind{}
	var psinks []paramSink
	hasPS := func(fn *types.Func, idx int, k sinkKind) bool {
		for _, s := range psinks {
			if s.fn == fn && s.idx == idx && s.kind == k {
				return true
			}
		}
		return false
	}
	type site struct {
		fi   *FuncInfo
		call *ast.CallExpr
		arg  ast.Expr
		kind sinkKind
		via  string
		wrap string
	}
	var sites []site
	funcs := p.AllFuncs()
	pms := map[*FuncInfo]map[ast.Node]ast.Node{}
	getPM := func(fi *FuncInfo) map[ast.Node]ast.Node {
		if m, ok := pms[fi]; ok {
			return m
		}
		m := parentMap(fi.Decl.Body)
		pms[fi] = m
		return m
	}
	for round := 0; round < 6; round++ {
		changed := false
		sites = sites[:0]
		for _, fi := range funcs {
			if fi.Decl.Body == nil || p.IsTestFile(fi.Decl.Pos()) {
				continue
			}
			info := fi.Pkg.TypesInfo
			pm := getPM(fi)
			sig := fi.Obj.Type().(*types.Signature)
			ast.Inspect(fi.Decl.Body, func(n ast.Node) bool {
				switch x := n.(type) {
				case *ast.CallExpr:
					var kinds []struct {
						k    sinkKind
						idx  int
						via  string
						wrap string
					}
					if k, idx, ok := sinkOfCall(info, pm, x); ok {
						kinds = append(kinds, struct {
							k    sinkKind
							idx  int
							via  string
							wrap string
						}{k, idx, calleeName(info, x), ""})
					}
					if fn := Callee(info, x); fn != nil {
						for _, s := range psinks {
							if s.fn == fn {
								kinds = append(kinds, struct {
									k    sinkKind
									idx  int
									via  string
									wrap string
								}{s.kind, s.idx, funcQName(fn) + " -> " + s.via, s.wrap})
							}
						}
					}
					for _, kk := range kinds {
						var args []ast.Expr
						if fn := Callee(info, x); fn != nil {
							fsig := fn.Type().(*types.Signature)
							if fsig.Variadic() && kk.idx == fsig.Params().Len()-1 {
								args = x.Args[kk.idx:]
							} else if kk.idx < len(x.Args) {
								args = []ast.Expr{x.Args[kk.idx]}
							}
						}
						for _, a := range args {
							wrap := kk.wrap
							if kk.k == kRegexp {
								if g := groupingConsts(info, a); g != "" {
									if wrap != "" {
										wrap += " … "
									}
									wrap += g
								}
							}
							sites = append(sites, site{fi, x, a, kk.k, kk.via, wrap})
							for _, o := range originOf(p, fi, a, 0) {
								if o.param != nil {
									for i := 0; i < sig.Params().Len(); i++ {
										if sig.Params().At(i) == o.param {
											found := false
											for j := range psinks {
												if psinks[j].fn == fi.Obj && psinks[j].idx == i && psinks[j].kind == kk.k {
													found = true
													if wrap != "" && !strings.Contains(psinks[j].wrap, wrap) {
														if psinks[j].wrap != "" {
															psinks[j].wrap += " | "
														}
														psinks[j].wrap += wrap
														changed = true
													}
												}
											}
											if !found {
												psinks = append(psinks, paramSink{fi.Obj, i, kk.k, kk.via, wrap})
												changed = true
											}
										}
									}
								}
								if strings.HasPrefix(o.other, "field ") {
									parts := strings.SplitN(strings.TrimPrefix(o.other, "field "), ".", -1)
									owner := strings.Join(parts[:len(parts)-1], ".")
									fk := fieldKey{owner, parts[len(parts)-1]}
									if _, ok := fieldSinks[fk]; !ok {
										fieldSinks[fk] = kk.k
										changed = true
									}
								}
							}
						}
					}
				case *ast.CompositeLit:
					// field-mediated: T{f: <derived from param>} where T.f feeds a sink
					tq := typeQName(info.TypeOf(x))
					for _, el := range x.Elts {
						kv, ok := el.(*ast.KeyValueExpr)
						if !ok {
							continue
						}
						id, ok := kv.Key.(*ast.Ident)
						if !ok {
							continue
						}
						k, isSink := fieldSinks[fieldKey{tq, id.Name}]
						if !isSink {
							continue
						}
						sites = append(sites, site{fi, nil, kv.Value, k, "field " + tq + "." + id.Name, ""})
						for _, o := range originOf(p, fi, kv.Value, 0) {
							if o.param != nil {
								for i := 0; i < sig.Params().Len(); i++ {
									if sig.Params().At(i) == o.param && !hasPS(fi.Obj, i, k) {
										psinks = append(psinks, paramSink{fi.Obj, i, k, "field " + tq + "." + id.Name, ""})
										changed = true
									}
								}
							}
						}
					}
				}
				return true
			})
		}
		if !changed {
			break
		}
	}

	// ---- R1 obligations: sites whose argument comes from a config field ----
	validatorFor := map[sinkKind]sinkKind{kRegexp: kRegexp, kTRegexp: kTRegexp, kRawT: kRawT, kURL: kURL}
	seen := map[string]bool{}
	var keys []string
	type ob struct {
		ok     bool
		pos    token.Pos
		detail string
	}
	obs := map[string]ob{}
	for _, s := range sites {
		for _, o := range originOf(p, s.fi, s.arg, 0) {
			if o.cfgType == "" {
				continue
			}
			key := o.cfgType + "." + o.cfgField + " -> " + string(s.kind) + " in " + s.fi.Name
			if seen[key] {
				continue
			}
			seen[key] = true
			keys = append(keys, key)
			okV := validated[o.cfgType+"."+o.cfgField][validatorFor[s.kind]]
			detail := "reaches " + s.via
			if okV && s.wrap != "" {
				// every grouping wrapper used at the sink must have been used at validation time as well
				for _, w := range strings.Split(s.wrap, " | ") {
					if w != "" && !strings.Contains(validatedWrap[o.cfgType+"."+o.cfgField], w) {
						okV = false
						detail += " wrapped in the grouping constants `" + w + "`, while validate() compiles it without that wrapper (a value such as `\\Qa|b` is valid alone but swallows the closing parenthesis)"
					}
				}
			}
			pos := s.arg.Pos()
			obs[key] = ob{okV, pos, detail}
		}
	}
	sort.Strings(keys)
	for _, k := range keys {
		o := obs[k]
		parts := strings.SplitN(k, " -> ", 2)
		c.Check(o.ok, "C18-R1", k, o.pos, "validated by the same constructor in validate(); "+o.detail,
			"config field "+parts[0]+" "+o.detail+" (a constructor that panics or whose error is dropped) but the field is not checked with the corresponding error-returning constructor when the configuration is loaded: an invalid value is accepted and crashes a later run")
	}
	c.Note("C18-R1 parameter sinks: %d, field sinks: %d, sink sites: %d", len(psinks), len(fieldSinks), len(sites))

	// ---- R2 ----
	c18ErrNil(c)

	// ---- R3 ----
	c18Coverage(c, cfgPkg)
	c18SubValidators(c, cfgPkg)
	c18RequiredFieldGuards(c, cfgPkg)
	c18SameParser(c, cfgPkg)
	c18NoEarlySuccess(c)
	c18PositiveLimits(c)
	c18Round5(c)
	c18MustNonNil(c)
	c18CacheAfterCheck(c)
	// validated pattern fields are not extended with unvalidated text afterwards:
	// outside internal/config a store into a field whose contents validate()
	// compiled may only add quoted text (regexp.QuoteMeta) or constants
	{
		n := 0
		for _, fi := range p.AllFuncs() {
			if fi.Pkg == cfgPkg || fi.Decl.Body == nil || p.IsTestFile(fi.Decl.Pos()) {
				continue
			}
			info := fi.Pkg.TypesInfo
			ast.Inspect(fi.Decl.Body, func(nd ast.Node) bool {
				as, ok := nd.(*ast.AssignStmt)
				if !ok || len(as.Lhs) != 1 || len(as.Rhs) != 1 {
					return true
				}
				sel, ok := as.Lhs[0].(*ast.SelectorExpr)
				if !ok {
					return true
				}
				owner := fieldOwner(info, sel)
				key := owner + "." + sel.Sel.Name
				if !validated[key][kRegexp] {
					return true
				}
				n++
				var added []ast.Expr
				switch r := ast.Unparen(as.Rhs[0]).(type) {
				case *ast.CallExpr:
					if id, ok := r.Fun.(*ast.Ident); ok && id.Name == "append" && len(r.Args) >= 2 && samePath(info, r.Args[0], sel) {
						added = r.Args[1:]
					} else {
						added = []ast.Expr{r}
					}
				default:
					added = []ast.Expr{r}
				}
				bad := ""
				for _, a := range added {
					a = ast.Unparen(a)
					if _, isC := constString(info, a); isC {
						continue
					}
					if call, ok := a.(*ast.CallExpr); ok {
						if fn := Callee(info, call); fn != nil && fn.Pkg() != nil && fn.Pkg().Path() == "regexp" && fn.Name() == "QuoteMeta" {
							continue
						}
					}
					bad = roleStr(info, a)
				}
				c.Check(bad == "", "C18-R3", fi.Name+":"+key+" extended only with quoted or constant text after validation", as.Pos(), "quoted",
					"`"+bad+"` is stored into "+key+" after the configuration was validated; the field is later compiled with regexp.MustCompile (strictRegex), so text with regexp metacharacters crashes lint/ci/watch — e.g. `pint --config 'conf(1.hcl' lint` (the config file's own path is appended to parser.exclude)")
				return true
			})
		}
		c.Check(n >= 1, "C18-R3", "stores into validated pattern fields outside internal/config enumerated", token.NoPos, itoa(n), "none found (expected the config path being added to parser.exclude)")
	}
}

// c18ErrNil: dropped error => result must not be dereferenced unchecked.
func c18ErrNil(c *Ctx) {
	p := c.P
	justified := map[string]string{
		"internal/checks.RegexpCheck.Check:regexp/syntax.Parse":                                           "the pattern was already compiled by the PromQL parser when the rule expression was parsed (label matcher regexp)",
		"internal/parser/utils.RemoveConditions:github.com/prometheus/prometheus/promql/parser.ParseExpr": "documented precondition: the source is the String() of an already parsed expression",
	}
	// wrappers that may return nil: `x, _ := f(); return x`
	nilWrappers := map[*types.Func]string{}
	for _, fi := range p.AllFuncs() {
		if fi.Decl.Body == nil || p.IsTestFile(fi.Decl.Pos()) {
			continue
		}
		info := fi.Pkg.TypesInfo
		res := fi.Obj.Type().(*types.Signature).Results()
		if res.Len() != 1 {
			continue
		}
		if !isNilable(res.At(0).Type()) {
			continue
		}
		var dropped types.Object
		var from string
		ast.Inspect(fi.Decl.Body, func(n ast.Node) bool {
			as, ok := n.(*ast.AssignStmt)
			if !ok || len(as.Lhs) != 2 || len(as.Rhs) != 1 {
				return true
			}
			if id, ok := as.Lhs[1].(*ast.Ident); !ok || id.Name != "_" {
				return true
			}
			call, ok := as.Rhs[0].(*ast.CallExpr)
			if !ok {
				return true
			}
			tup, ok := info.TypeOf(call).(*types.Tuple)
			if !ok || tup.Len() != 2 || tup.At(1).Type().String() != "error" {
				return true
			}
			dropped = objOf(info, as.Lhs[0])
			from = calleeName(info, call)
			return true
		})
		if dropped == nil {
			continue
		}
		for _, r := range returnsIn(fi.Decl.Body.List) {
			if len(r.Results) == 1 && objOf(info, r.Results[0]) == dropped {
				nilWrappers[fi.Obj] = from
			}
		}
	}
	n := 0
	for _, fi := range p.AllFuncs() {
		if fi.Decl.Body == nil || p.IsTestFile(fi.Decl.Pos()) {
			continue
		}
		info := fi.Pkg.TypesInfo
		var fl *Flow
		seq := map[string]int{}
		check := func(resObj types.Object, at ast.Node, what string) {
			if resObj == nil || !isNilable(resObj.Type()) {
				return
			}
			if fl == nil {
				fl = p.NewFlow(fi)
			}
			seq[what]++
			key := fi.Name + ":" + what
			if seq[what] > 1 {
				key += "#" + itoa(seq[what])
			}
			if why, ok := justified[fi.Name+":"+what]; ok {
				c.Ok("C18-R2", key+" (justified)", at.Pos(), why)
				return
			}
			n++
			bad := ""
			for _, sm := range fl.Find(func(x ast.Node) bool {
				switch e := x.(type) {
				case *ast.SelectorExpr:
					id, ok := ast.Unparen(e.X).(*ast.Ident)
					return ok && info.Uses[id] == resObj
				case *ast.StarExpr:
					id, ok := ast.Unparen(e.X).(*ast.Ident)
					return ok && info.Uses[id] == resObj
				case *ast.IndexExpr:
					id, ok := ast.Unparen(e.X).(*ast.Ident)
					if !ok || info.Uses[id] != resObj {
						return false
					}
					_, isMap := resObj.Type().Underlying().(*types.Map)
					return !isMap // reading a nil map is fine
				}
				return false
			}) {
				if sm.Inner.Pos() < at.End() {
					continue
				}
				safe := fl.Dominated(sm.Site, sm.Inner, func(a Atom) bool {
					x, isNil, ok := nilAtom(info, a)
					return ok && !isNil && objOf(info, x) == resObj
				})
				if !safe {
					bad = p.Pos(sm.Inner.Pos())
				}
			}
			// handed to another function that dereferences it: passing a possibly-nil *http.Request etc.
			if bad == "" {
				for _, sm := range fl.Find(func(x ast.Node) bool {
					call, ok := x.(*ast.CallExpr)
					if !ok || call.Pos() < at.End() {
						return false
					}
					if _, isPtr := resObj.Type().Underlying().(*types.Pointer); !isPtr {
						return false
					}
					for _, a := range call.Args {
						if id, ok := ast.Unparen(a).(*ast.Ident); ok && info.Uses[id] == resObj {
							if fn := Callee(info, call); fn != nil && fn.Pkg() != nil && !strings.HasPrefix(fn.Pkg().Path(), ModPath) && fn.Pkg().Path() != "log/slog" && fn.Pkg().Path() != "fmt" {
								return true
							}
						}
					}
					return false
				}) {
					safe := fl.Dominated(sm.Site, sm.Inner, func(a Atom) bool {
						x, isNil, ok := nilAtom(info, a)
						return ok && !isNil && objOf(info, x) == resObj
					})
					if !safe {
						bad = p.Pos(sm.Inner.Pos()) + " (passed to " + calleeName(info, sm.Inner.(*ast.CallExpr)) + ")"
					}
				}
			}
			c.Check(bad == "", "C18-R2", key, at.Pos(), "result nil-checked or never dereferenced", "the error of "+what+" is discarded and its result is used at "+bad+" without a nil test: an input the call rejects crashes the run")
		}
		ast.Inspect(fi.Decl.Body, func(nd ast.Node) bool {
			as, ok := nd.(*ast.AssignStmt)
			if !ok || len(as.Rhs) != 1 {
				return true
			}
			call, ok := as.Rhs[0].(*ast.CallExpr)
			if !ok {
				return true
			}
			fn := Callee(info, call)
			if _, _, isSink := sinkOfCall(info, parentMap(fi.Decl.Body), call); isSink {
				return true // provenance of the argument is decided by C18-R1
			}
			if len(as.Lhs) == 2 {
				if id, ok := as.Lhs[1].(*ast.Ident); ok && id.Name == "_" {
					if tup, ok := info.TypeOf(call).(*types.Tuple); ok && tup.Len() == 2 && tup.At(1).Type().String() == "error" {
						if lid, ok := as.Lhs[0].(*ast.Ident); ok && lid.Name != "_" {
							check(objOf(info, as.Lhs[0]), as, calleeName(info, call))
						}
					}
				}
			}
			if len(as.Lhs) == 1 && fn != nil {
				if from, ok := nilWrappers[fn]; ok {
					if lid, ok := as.Lhs[0].(*ast.Ident); ok && lid.Name != "_" {
						check(objOf(info, as.Lhs[0]), as, funcQName(fn)+" (drops the error of "+from+")")
					}
				}
			}
			return true
		})
		// direct chained use of a nil-returning wrapper: w(...).Method()
		ast.Inspect(fi.Decl.Body, func(nd ast.Node) bool {
			sel, ok := nd.(*ast.SelectorExpr)
			if !ok {
				return true
			}
			call, ok := ast.Unparen(sel.X).(*ast.CallExpr)
			if !ok {
				return true
			}
			if fn := Callee(info, call); fn != nil {
				if from, ok := nilWrappers[fn]; ok {
					n++
					c.Bad("C18-R2", fi.Name+":"+funcQName(fn)+"(...)."+sel.Sel.Name, sel.Pos(), funcQName(fn)+" drops the error of "+from+" and can return nil; its result is dereferenced immediately")
				}
			}
			return true
		})
	}
	// calls and dereferences through an unchecked map lookup: m[k](…) / m[k].f on nilable element types
	nMap := 0
	for _, fi := range p.AllFuncs() {
		if fi.Decl.Body == nil || p.IsTestFile(fi.Decl.Pos()) {
			continue
		}
		info := fi.Pkg.TypesInfo
		ast.Inspect(fi.Decl.Body, func(nd ast.Node) bool {
			var ix *ast.IndexExpr
			what := ""
			switch x := nd.(type) {
			case *ast.CallExpr:
				if i, ok := ast.Unparen(x.Fun).(*ast.IndexExpr); ok {
					ix, what = i, "called"
				}
			case *ast.SelectorExpr:
				if i, ok := ast.Unparen(x.X).(*ast.IndexExpr); ok {
					ix, what = i, "dereferenced (."+x.Sel.Name+")"
				}
			}
			if ix == nil {
				return true
			}
			mt, isMap := info.TypeOf(ix.X).Underlying().(*types.Map)
			if !isMap {
				return true
			}
			switch mt.Elem().Underlying().(type) {
			case *types.Signature, *types.Pointer, *types.Interface:
			default:
				return true
			}
			// the same element was stored just before in this function
			stored := false
			ast.Inspect(fi.Decl.Body, func(m ast.Node) bool {
				if as, ok := m.(*ast.AssignStmt); ok && as.Pos() < nd.Pos() {
					for _, l := range as.Lhs {
						if exprStr(l) == exprStr(ix) {
							stored = true
						}
					}
				}
				return true
			})
			if stored {
				return true
			}
			nMap++
			c.Bad("C18-R2", fi.Name+":"+exprStr(ix)+" "+what+" without presence check", nd.Pos(), "the element of map lookup "+exprStr(ix)+" is "+what+" directly; a key that is absent (e.g. a value accepted at load time but not in the table) yields nil and panics")
			return true
		})
	}
	c.Ok("C18-R2", "unchecked map-lookup uses enumerated", token.NoPos, itoa(nMap)+" found")
	var wn []string
	for fn, from := range nilWrappers {
		wn = append(wn, funcQName(fn)+"<-"+from)
	}
	sort.Strings(wn)
	c.Note("C18-R2 nil-returning wrappers: %s", strings.Join(wn, ", "))
	c.Check(n >= 5, "C18-R2", "dropped-error results enumerated", token.NoPos, itoa(n)+" sites", "implausibly few sites ("+itoa(n)+")")
}

func isNilable(t types.Type) bool {
	switch t.Underlying().(type) {
	case *types.Pointer, *types.Map, *types.Interface, *types.Slice, *types.Chan, *types.Signature:
		if _, isSlice := t.Underlying().(*types.Slice); isSlice {
			return false // indexing a nil slice panics only out of range; ranging is fine
		}
		return true
	}
	return false
}

// c18Coverage: nested config structs with a validate() method are validated
// by their owner.
func c18Coverage(c *Ctx, cfgPkg *packages.Package) {
	p := c.P
	info := cfgPkg.TypesInfo
	hasValidate := func(t types.Type) *FuncInfo {
		n := namedOf(t)
		if n == nil {
			// slices / pointers to named
			switch x := t.Underlying().(type) {
			case *types.Slice:
				n = namedOf(x.Elem())
			case *types.Pointer:
				n = namedOf(x.Elem())
			}
		}
		if n == nil || n.Obj().Pkg() == nil || n.Obj().Pkg().Path() != cfgPkg.PkgPath {
			return nil
		}
		return p.methodOn(typeQName(n), "validate")
	}
	sc := cfgPkg.Types.Scope()
	for _, name := range sc.Names() {
		tn, ok := sc.Lookup(name).(*types.TypeName)
		if !ok {
			continue
		}
		st, ok := tn.Type().Underlying().(*types.Struct)
		if !ok || p.IsTestFile(tn.Pos()) {
			continue
		}
		tagged := false
		for i := 0; i < st.NumFields(); i++ {
			if strings.Contains(st.Tag(i), "hcl:") {
				tagged = true
			}
		}
		if !tagged {
			continue
		}
		tq := typeQName(tn.Type())
		var owner *FuncInfo
		if name == "Config" {
			owner = p.Func("internal/config.Load")
		} else {
			owner = p.methodOn(tq, "validate")
		}
		for i := 0; i < st.NumFields(); i++ {
			f := st.Field(i)
			v := hasValidate(f.Type())
			if v == nil {
				continue
			}
			key := tq + "." + f.Name() + " validated by its owner"
			if owner == nil {
				c.Bad("C18-R3", key, f.Pos(), tq+" has no validate() although its field "+f.Name()+" needs validation")
				continue
			}
			called := false
			ast.Inspect(owner.Decl.Body, func(n ast.Node) bool {
				call, ok := n.(*ast.CallExpr)
				if !ok || Callee(info, call) != v.Obj {
					return true
				}
				sel, ok := call.Fun.(*ast.SelectorExpr)
				if !ok {
					return true
				}
				// receiver derives from the field (directly or a range variable over it)
				for _, o := range originOf(p, owner, sel.X, 0) {
					if o.cfgType == tq && o.cfgField == f.Name() {
						called = true
					}
				}
				return true
			})
			c.Check(called, "C18-R3", key, f.Pos(), "validate() called", tq+"."+f.Name()+" is never validated when the configuration is loaded: everything its validate() rejects is accepted")
		}
	}
	// a config value is not modified between its validate() call and its use: stores to validated
	// fields of a local config struct after validate() bypass the validation
	for _, fi := range p.AllFuncs() {
		if fi.Pkg != cfgPkg || fi.Decl.Body == nil || p.IsTestFile(fi.Decl.Pos()) || fi.Obj.Name() == "validate" {
			continue
		}
		var fl *Flow
		ast.Inspect(fi.Decl.Body, func(n ast.Node) bool {
			call, ok := n.(*ast.CallExpr)
			if !ok {
				return true
			}
			fn := Callee(info, call)
			if fn == nil || fn.Name() != "validate" {
				return true
			}
			sel, ok := call.Fun.(*ast.SelectorExpr)
			if !ok {
				return true
			}
			id, ok := ast.Unparen(sel.X).(*ast.Ident)
			if !ok {
				return true
			}
			v, isVar := info.Uses[id].(*types.Var)
			if !isVar || v.IsField() {
				return true
			}
			if fl == nil {
				fl = p.NewFlow(fi)
			}
			var vsite *Site
			for _, sm := range fl.Find(func(x ast.Node) bool { return x == call }) {
				st := sm.Site
				vsite = &st
			}
			if vsite == nil {
				return true
			}
			bad := ""
			for _, sm := range fl.Find(func(x ast.Node) bool {
				as, ok := x.(*ast.AssignStmt)
				if !ok {
					return false
				}
				for _, l := range as.Lhs {
					if ls, ok := ast.Unparen(l).(*ast.SelectorExpr); ok {
						if lid, ok := ast.Unparen(ls.X).(*ast.Ident); ok && info.Uses[lid] == v && strings.HasPrefix(fieldOwner(info, ls), "internal/config.") {
							return true
						}
					}
				}
				return false
			}) {
				target := sm.Site
				if r, _ := fl.Reach(vsite.After(), func(x Site) bool { return x == target }, false, PathQ{}); r {
					bad = p.Pos(sm.Inner.Pos()) + " " + exprStr(sm.Inner.(*ast.AssignStmt).Lhs[0])
				}
			}
			key := fi.Name + ":" + id.Name + " not modified after " + id.Name + ".validate()"
			c.Check(bad == "", "C18-R3", key, call.Pos(), "validated value used as is", "field "+bad+" is assigned after the value was validated: what reaches the constructors later was never checked")
			return true
		})
	}
	// Load returns the validation error
	if load := c.MustFunc("C18-R3", "internal/config.Load"); load != nil {
		fl := p.NewFlow(load)
		bad := ""
		for _, sm := range fl.Find(func(n ast.Node) bool {
			call, ok := n.(*ast.CallExpr)
			if !ok {
				return false
			}
			fn := Callee(info, call)
			return fn != nil && fn.Name() == "validate"
		}) {
			as, ok := sm.Site.Node().(*ast.AssignStmt)
			if !ok {
				bad = p.Pos(sm.Inner.Pos())
				continue
			}
			_ = as
		}
		c.Check(bad == "", "C18-R3", "Load:validate results are bound", load.Decl.Pos(), "errors not discarded", "a validate() result is discarded at "+bad)
	}
	if dec := c.MustFunc("C18-R3", "internal/config.Check.Decode"); dec != nil {
		called := false
		ast.Inspect(dec.Decl.Body, func(n ast.Node) bool {
			if call, ok := n.(*ast.CallExpr); ok {
				if fn := Callee(info, call); fn != nil && fn.Name() == "Validate" {
					called = true
				}
			}
			return true
		})
		c.Check(called, "C18-R3", "Check.Decode validates the decoded settings", dec.Decl.Pos(), "Validate() called", "check{} settings are decoded without Validate()")
	}
}

// armsOf records, for every enclosing switch / if-else of n, which arm n is in.
func armsOf(pm map[ast.Node]ast.Node, n ast.Node) map[ast.Node]ast.Node {
	out := map[ast.Node]ast.Node{}
	child := n
	for cur := pm[n]; cur != nil; child, cur = cur, pm[cur] {
		switch x := cur.(type) {
		case *ast.CaseClause:
			if blk, ok := pm[x].(*ast.BlockStmt); ok {
				if sw, ok := pm[blk].(*ast.SwitchStmt); ok {
					out[sw] = x
				}
			}
		case *ast.IfStmt:
			if child == ast.Node(x.Body) || child == x.Else {
				out[x] = child
			}
		}
	}
	return out
}

func mutuallyExclusive(pm map[ast.Node]ast.Node, a, b ast.Node) bool {
	aa, ab := armsOf(pm, a), armsOf(pm, b)
	for k, va := range aa {
		if vb, ok := ab[k]; ok && va != vb {
			return true
		}
	}
	return false
}

// c18SubValidators: inside one validate() the validations of different fields
// do not exclude each other (arms of one switch / an else chain): a block that
// sets two of the fields would have only the first one validated, and the other
// reaches regexp.MustCompile unvalidated at match time.
func c18SubValidators(c *Ctx, cfgPkg *packages.Package) {
	p := c.P
	n := 0
	for _, fi := range p.AllFuncs() {
		if fi.Pkg != cfgPkg || fi.Decl.Body == nil || p.IsTestFile(fi.Decl.Pos()) || fi.Obj.Name() != "validate" {
			continue
		}
		info := fi.Pkg.TypesInfo
		pm := parentMap(fi.Decl.Body)
		recv := types.Object(nil)
		if fi.Decl.Recv != nil && len(fi.Decl.Recv.List) == 1 && len(fi.Decl.Recv.List[0].Names) == 1 {
			recv = info.Defs[fi.Decl.Recv.List[0].Names[0]]
		}
		type site struct {
			call  *ast.CallExpr
			field string
		}
		var sites []site
		ast.Inspect(fi.Decl.Body, func(nd ast.Node) bool {
			call, ok := nd.(*ast.CallExpr)
			if !ok {
				return true
			}
			// a call whose receiver or argument is a field of the validated struct
			var fieldOf func(e ast.Expr) string
			fieldOf = func(e ast.Expr) string {
				e = ast.Unparen(e)
				if sel, ok := e.(*ast.SelectorExpr); ok {
					if isObj(info, sel.X, recv) {
						return sel.Sel.Name
					}
					return fieldOf(sel.X)
				}
				return ""
			}
			f := ""
			if sel, ok := call.Fun.(*ast.SelectorExpr); ok && sel.Sel.Name == "validate" {
				f = fieldOf(sel.X)
			} else if _, isV := validatorOfCall(info, call); isV && len(call.Args) > 0 {
				f = fieldOf(call.Args[0])
			} else if fn := Callee(info, call); fn != nil && fn.Pkg() == cfgPkg.Types && strings.HasPrefix(fn.Name(), "parse") && len(call.Args) > 0 {
				f = fieldOf(call.Args[0])
			}
			if f != "" && recv != nil {
				sites = append(sites, site{call, f})
			}
			return true
		})
		// a field's validation is not made conditional on OTHER fields of the struct
		for _, st := range sites {
			other := ""
			for _, a := range lexicalGuards(pm, st.call, fi.Decl.Body) {
				ast.Inspect(a.E, func(x ast.Node) bool {
					if sel, ok := x.(*ast.SelectorExpr); ok && isObj(info, sel.X, recv) && sel.Sel.Name != st.field {
						if _, isField := info.Selections[sel]; isField && info.Selections[sel].Kind() == types.FieldVal {
							other = sel.Sel.Name
						}
					}
					return true
				})
			}
			if other != "" {
				c.Bad("C18-R3", fi.Name+":validation of "+st.field+" does not depend on other fields", st.call.Pos(),
					"the validation of "+st.field+" only runs under a condition on the field "+other+": for the other values of "+other+" an invalid "+st.field+" is accepted at load and fails (panics, for regexps) when it is used")
			}
		}
		for i := 0; i < len(sites); i++ {
			for j := i + 1; j < len(sites); j++ {
				if sites[i].field == sites[j].field {
					continue
				}
				n++
				c.Check(!mutuallyExclusive(pm, sites[i].call, sites[j].call), "C18-R3", fi.Name+":"+sites[i].field+" and "+sites[j].field+" are validated independently", sites[j].call.Pos(), "not arms of one switch / else chain",
					"the validations of "+sites[i].field+" and "+sites[j].field+" sit in mutually exclusive arms: a block that sets both gets only one of them validated, and the other one (e.g. an invalid regexp) is accepted at load and panics in regexp.MustCompile when rules are matched")
			}
		}
	}
	c.Check(n >= 10, "C18-R3", "pairs of field validations enumerated", token.NoPos, itoa(n), "implausibly few ("+itoa(n)+")")
}

// c18MustNonNil: Must* helpers of internal/checks that swallow an error never
// hand out a nil pointer: the result of the fallible call is returned only on
// the `err == nil` edge; every other return is a non-nil fallback.
func c18MustNonNil(c *Ctx) {
	p := c.P
	for _, name := range []string{"internal/checks.TemplatedRegexp.MustExpand"} {
		fi := c.MustFunc("C18-R2", name)
		if fi == nil {
			continue
		}
		info := fi.Pkg.TypesInfo
		fl := p.NewFlow(fi)
		var resObj, errObj types.Object
		ast.Inspect(fi.Decl.Body, func(n ast.Node) bool {
			as, ok := n.(*ast.AssignStmt)
			if !ok || len(as.Lhs) != 2 || len(as.Rhs) != 1 {
				return true
			}
			if _, isCall := as.Rhs[0].(*ast.CallExpr); isCall && resObj == nil {
				resObj, errObj = objOf(info, as.Lhs[0]), objOf(info, as.Lhs[1])
			}
			return true
		})
		if resObj == nil || errObj == nil {
			c.Undecided("C18-R2", name+":fallible call", fi.Decl.Pos(), "no `x, err := f()` found")
			continue
		}
		bad := ""
		n := 0
		for _, r := range fl.Find(func(x ast.Node) bool {
			ret, ok := x.(*ast.ReturnStmt)
			return ok && len(ret.Results) == 1 && objOf(info, ret.Results[0]) == resObj
		}) {
			n++
			ok := fl.Dominated(r.Site, nil, func(a Atom) bool {
				x, isNil, isAtom := nilAtom(info, a)
				return isAtom && isNil && objOf(info, x) == errObj
			})
			if !ok {
				bad = p.Pos(r.Inner.Pos())
			}
		}
		c.Check(n >= 1 && bad == "", "C18-R2", name+":result returned only when err == nil", fi.Decl.Pos(), itoa(n)+" return(s) of the result, all on the err == nil edge",
			"the result of the fallible call is returned at "+bad+" on a path where err may be non-nil (only some kinds of error are handled): callers dereference the nil pointer — e.g. a template that fails to execute for one rule")
	}
}

// c18CacheAfterCheck: the result of a fallible call is put into a cache
// (sync.Map.Store / a map element) only after its error was seen to be nil;
// otherwise the failed (nil) result is served from the cache without any error
// the second time.
func c18CacheAfterCheck(c *Ctx) {
	p := c.P
	n := 0
	for _, fi := range p.AllFuncs() {
		if fi.Decl.Body == nil || p.IsTestFile(fi.Decl.Pos()) || relPkg(fi.Pkg.PkgPath) != "internal/checks" {
			continue
		}
		info := fi.Pkg.TypesInfo
		// (result, err) pairs of fallible calls
		type pair struct {
			res, err types.Object
			def      ast.Node
		}
		var pairs []pair
		ast.Inspect(fi.Decl.Body, func(nd ast.Node) bool {
			as, ok := nd.(*ast.AssignStmt)
			if !ok || len(as.Lhs) != 2 || len(as.Rhs) != 1 {
				return true
			}
			call, ok := as.Rhs[0].(*ast.CallExpr)
			if !ok {
				return true
			}
			if tup, ok := info.TypeOf(call).(*types.Tuple); ok && tup.Len() == 2 && tup.At(1).Type().String() == "error" && isNilable(tup.At(0).Type()) {
				pairs = append(pairs, pair{objOf(info, as.Lhs[0]), objOf(info, as.Lhs[1]), as})
			}
			return true
		})
		if len(pairs) == 0 {
			continue
		}
		var fl *Flow
		check := func(at ast.Node, stored ast.Expr) {
			for _, pr := range pairs {
				if pr.res == nil || pr.err == nil || !isObj(info, stored, pr.res) {
					continue
				}
				if fl == nil {
					fl = p.NewFlow(fi)
				}
				n++
				// the err == nil edge must lie between THIS call and the store (the same
				// err variable is usually tested for earlier calls as well)
				ok := false
				var from *Site
				for _, sm := range fl.Find(func(x ast.Node) bool { return x == pr.def }) {
					s := sm.Site
					from = &s
				}
				for _, sm := range fl.Find(func(x ast.Node) bool { return x == at }) {
					if from == nil {
						break
					}
					target := sm.Site
					reach, _ := fl.Reach(from.After(), func(s Site) bool { return s == target }, false, PathQ{
						Cut: func(atoms []Atom) bool {
							for _, a := range atoms {
								if x, isNil, isAtom := nilAtom(info, a); isAtom && isNil && objOf(info, x) == pr.err {
									return true
								}
							}
							return false
						},
					})
					ok = !reach
				}
				c.Check(ok, "C18-R2", fi.Name+":result cached only after err == nil", at.Pos(), "dominated by err == nil",
					"the result of a fallible call is stored in a cache before its error is examined: a failed (nil) result is handed out from the cache, without an error, the next time — the first failure is handled, the second one crashes")
			}
		}
		ast.Inspect(fi.Decl.Body, func(nd ast.Node) bool {
			switch x := nd.(type) {
			case *ast.CallExpr:
				if fn := Callee(info, x); fn != nil && fn.Pkg() != nil && fn.Pkg().Path() == "sync" && (fn.Name() == "Store" || fn.Name() == "LoadOrStore" || fn.Name() == "Swap") && len(x.Args) == 2 {
					check(x, x.Args[1])
				}
			case *ast.AssignStmt:
				if len(x.Lhs) == 1 && len(x.Rhs) == 1 {
					if ix, ok := x.Lhs[0].(*ast.IndexExpr); ok {
						if _, isMap := info.TypeOf(ix.X).Underlying().(*types.Map); isMap {
							check(x, x.Rhs[0])
						}
					}
				}
			}
			return true
		})
	}
	c.Ok("C18-R2", "cache stores of fallible results enumerated", token.NoPos, itoa(n)+" site(s)")
}

// c18RequiredFieldGuards: a required HCL attribute (`hcl:"x"` without
// ",optional") has no "unset" value. Where validate() parses such a field and
// rejects some of the parsed values (`if dur == 0 { return error }`) but does
// both only under a condition on the field itself (`if s.Max != "" { … }`),
// every later use of the same parser on the same field must stand under the
// same condition; otherwise the
// value the validation skipped reaches the parser unchecked, its error is
// dropped, and the zero result is what the validation meant to exclude (F40:
// `range_query { max = "" }` → nil server dereferenced by the check's name).
func c18RequiredFieldGuards(c *Ctx, cfgPkg *packages.Package) {
	p := c.P
	info := cfgPkg.TypesInfo
	fieldVar := func(e ast.Expr) *types.Var {
		sel, ok := ast.Unparen(e).(*ast.SelectorExpr)
		if !ok {
			return nil
		}
		v, ok := info.Uses[sel.Sel].(*types.Var)
		if !ok || !v.IsField() {
			return nil
		}
		return v
	}
	required := func(v *types.Var) bool {
		// find the struct declaring v and read its tag
		for _, name := range cfgPkg.Types.Scope().Names() {
			tn, ok := cfgPkg.Types.Scope().Lookup(name).(*types.TypeName)
			if !ok {
				continue
			}
			st, ok := tn.Type().Underlying().(*types.Struct)
			if !ok {
				continue
			}
			for i := 0; i < st.NumFields(); i++ {
				if st.Field(i) == v {
					tag := reflect.StructTag(st.Tag(i)).Get("hcl")
					return tag != "" && !strings.Contains(tag, ",")
				}
			}
		}
		return false
	}
	mentions := func(e ast.Expr, v *types.Var) bool {
		found := false
		ast.Inspect(e, func(n ast.Node) bool {
			if sel, ok := n.(*ast.SelectorExpr); ok && info.Uses[sel.Sel] == v {
				found = true
			}
			return true
		})
		return found
	}
	// guards on the field itself, rendered without the variable the field is read from
	fieldGuards := func(fi *FuncInfo, n ast.Node, v *types.Var) map[string]bool {
		out := map[string]bool{}
		for _, g := range lexicalGuards(parentMap(fi.Decl.Body), n, fi.Decl.Body) {
			if g.Tag != nil || !mentions(g.E, v) {
				continue
			}
			t := exprStr(g.E)
			if be, ok := ast.Unparen(g.E).(*ast.BinaryExpr); ok {
				side := func(e ast.Expr) string {
					if fieldVar(e) == v {
						return "." + v.Name()
					}
					return exprStr(e)
				}
				t = side(be.X) + " " + be.Op.String() + " " + side(be.Y)
			}
			if !g.Truth {
				t = "!(" + t + ")"
			}
			out[t] = true
		}
		return out
	}
	// validate() itself declares some result of the parse invalid: the value
	// parsed from the field is compared with a constant on the way to an
	// error return (`if dur == 0 { return errors.New(…) }`)
	rejectsResult := func(fi *FuncInfo, call *ast.CallExpr) bool {
		pm := parentMap(fi.Decl.Body)
		as, ok := pm[call].(*ast.AssignStmt)
		if !ok || len(as.Lhs) != 2 {
			return false
		}
		res := objOf(info, as.Lhs[0])
		if res == nil {
			return false
		}
		found := false
		for _, r := range returnsIn(fi.Decl.Body.List) {
			if len(r.Results) != 1 {
				continue
			}
			if tv, ok := info.Types[r.Results[0]]; ok && tv.IsNil() {
				continue
			}
			for _, g := range lexicalGuards(pm, r, fi.Decl.Body) {
				be, ok := ast.Unparen(g.E).(*ast.BinaryExpr)
				if !ok || g.Tag != nil {
					continue
				}
				if objOf(info, be.X) == res {
					if tv, ok := info.Types[be.Y]; ok && tv.Value != nil {
						found = true
					}
				}
			}
		}
		return found
	}
	type key struct {
		v  *types.Var
		fn *types.Func
	}
	type vsite struct {
		fi     *FuncInfo
		call   *ast.CallExpr
		guards map[string]bool
	}
	val := map[key]vsite{}
	uses := map[key][]vsite{}
	for _, fi := range p.AllFuncs() {
		if fi.Pkg != cfgPkg || fi.Decl.Body == nil || p.IsTestFile(fi.Decl.Pos()) {
			continue
		}
		isVal := fi.Obj.Name() == "validate"
		ast.Inspect(fi.Decl.Body, func(n ast.Node) bool {
			call, ok := n.(*ast.CallExpr)
			if !ok || len(call.Args) != 1 {
				return true
			}
			fn := Callee(info, call)
			if fn == nil {
				return true
			}
			sig := fn.Type().(*types.Signature)
			if sig.Results().Len() != 2 || sig.Results().At(1).Type().String() != "error" {
				return true
			}
			v := fieldVar(call.Args[0])
			if v == nil || !required(v) {
				return true
			}
			s := vsite{fi, call, fieldGuards(fi, call, v)}
			if isVal {
				if !rejectsResult(fi, call) {
					return true
				}
				val[key{v, fn}] = s
			} else {
				uses[key{v, fn}] = append(uses[key{v, fn}], s)
			}
			return true
		})
	}
	n := 0
	for k, vs := range val {
		n++
		var missing []string
		for _, u := range uses[k] {
			for g := range vs.guards {
				if !u.guards[g] {
					missing = append(missing, "`"+g+"` (use in "+u.fi.Obj.Name()+" at "+p.Pos(u.call.Pos())+")")
				}
			}
		}
		sort.Strings(missing)
		c.Check(len(missing) == 0, "C18-R3", "validate:required field "+typeQNameOfField(cfgPkg, k.v)+" is parsed by "+k.fn.Name()+" whenever its later uses are", vs.call.Pos(),
			itoa(len(uses[k]))+" later use(s) under the same conditions",
			"validate() parses the required attribute "+k.v.Name()+" only under "+strings.Join(missing, ", ")+", which the later use does not repeat: the value the validation skips (an empty string) is parsed there with its error dropped, and the zero result reaches the check")
	}
	c.Check(n >= 1, "C18-R3", "required attributes whose parsed value validate() restricts, enumerated", token.NoPos, itoa(n), "fewer than confirmed ("+itoa(n)+")")
}

func typeQNameOfField(pkg *packages.Package, v *types.Var) string {
	for _, name := range pkg.Types.Scope().Names() {
		if tn, ok := pkg.Types.Scope().Lookup(name).(*types.TypeName); ok {
			if st, ok := tn.Type().Underlying().(*types.Struct); ok {
				for i := 0; i < st.NumFields(); i++ {
					if st.Field(i) == v {
						return name + "." + v.Name()
					}
				}
			}
		}
	}
	return v.Name()
}

// c18SameParser: a value whose parse error is dropped after loading
// (`limit, _ := parseDuration(rule.RangeQuery.Max)`) was accepted by validate()
// with the same parser. A different one (time.ParseDuration instead of the
// Prometheus-style parseDuration) accepts a different language: what
// validation admitted fails here, the error is gone, and the zero value is used.
func c18SameParser(c *Ctx, cfgPkg *packages.Package) {
	p := c.P
	info := cfgPkg.TypesInfo
	fieldOf := func(e ast.Expr) *types.Var {
		sel, ok := ast.Unparen(e).(*ast.SelectorExpr)
		if !ok {
			return nil
		}
		v, ok := info.Uses[sel.Sel].(*types.Var)
		if !ok || !v.IsField() || v.Pkg() != cfgPkg.Types {
			return nil
		}
		return v
	}
	// parser calls inside validate()/validation helpers, per field
	validated := map[*types.Var]map[string]bool{}
	type use struct {
		fi   *FuncInfo
		call *ast.CallExpr
		v    *types.Var
		fn   string
	}
	var uses []use
	for _, fi := range p.AllFuncs() {
		if fi.Pkg != cfgPkg || fi.Decl.Body == nil || p.IsTestFile(fi.Decl.Pos()) {
			continue
		}
		isVal := fi.Obj.Name() == "validate"
		pm := parentMap(fi.Decl.Body)
		ast.Inspect(fi.Decl.Body, func(n ast.Node) bool {
			call, ok := n.(*ast.CallExpr)
			if !ok || len(call.Args) != 1 {
				return true
			}
			fn := Callee(info, call)
			if fn == nil {
				return true
			}
			sig := fn.Type().(*types.Signature)
			if sig.Results().Len() != 2 || sig.Results().At(1).Type().String() != "error" {
				return true
			}
			v := fieldOf(call.Args[0])
			if v == nil {
				return true
			}
			q := funcQName(fn)
			if isVal {
				if validated[v] == nil {
					validated[v] = map[string]bool{}
				}
				validated[v][q] = true
				return true
			}
			if as, ok := pm[call].(*ast.AssignStmt); ok && len(as.Lhs) == 2 {
				if id, ok := as.Lhs[1].(*ast.Ident); ok && id.Name == "_" {
					uses = append(uses, use{fi, call, v, q})
				}
			}
			return true
		})
	}
	n := 0
	for _, u := range uses {
		if len(validated[u.v]) == 0 {
			// never parsed at load time: no second parser to disagree with; a nil-able
			// result of such a call is the business of the dropped-error rule (R2)
			continue
		}
		n++
		var have []string
		for q := range validated[u.v] {
			have = append(have, q)
		}
		sort.Strings(have)
		c.Check(validated[u.v][u.fn], "C18-R1", u.fi.Obj.Name()+":"+typeQNameOfField(cfgPkg, u.v)+" parsed (error dropped) with the parser validate() used", u.call.Pos(), u.fn,
			"the error of "+u.fn+"("+u.v.Name()+") is dropped here, but validate() accepted the value with ["+strings.Join(have, ", ")+"]: a value that only the validating parser understands (`1d` for a Prometheus duration) fails here unnoticed and the zero value reaches the check")
	}
	c.Check(n >= 4, "C18-R1", "dropped-error parses of validated config fields enumerated", token.NoPos, itoa(n), "fewer than confirmed ("+itoa(n)+")")
}

// c18NoEarlySuccess: a validate() method says "accepted" in one place only, at
// its end. Every other return hands back an error that is known to be there:
// the result of a call (errors.New, fmt.Errorf, …) or an error variable under
// `err != nil`. A `return err` right after a successful check, or a `return
// nil` half way down, accepts the value before the remaining attributes were
// looked at — and those are exactly the ones later code parses with the error
// dropped.
func c18NoEarlySuccess(c *Ctx) {
	R := "C18-R3"
	n := 0
	for _, fi := range c.P.AllFuncs() {
		if fi.Decl.Body == nil || c.P.IsTestFile(fi.Decl.Pos()) {
			continue
		}
		rel := relPkg(fi.Pkg.PkgPath)
		if rel != "internal/config" && rel != "internal/checks" {
			continue
		}
		if nm := fi.Obj.Name(); nm != "validate" && nm != "Validate" {
			continue
		}
		sig := fi.Obj.Type().(*types.Signature)
		if sig.Results().Len() != 1 || sig.Results().At(0).Type().String() != "error" {
			continue
		}
		info := fi.Pkg.TypesInfo
		pm := parentMap(fi.Decl.Body)
		var last ast.Stmt
		if l := fi.Decl.Body.List; len(l) > 0 {
			last = l[len(l)-1]
		}
		n++
		bad := ""
		inspectNoLit(fi.Decl.Body, func(nd ast.Node) bool {
			r, ok := nd.(*ast.ReturnStmt)
			if !ok || ast.Stmt(r) == last {
				return true
			}
			if len(r.Results) == 0 {
				// named result: the function's error variable must be known non-nil here
				if sig.Results().At(0).Name() != "" {
					o := sig.Results().At(0)
					for _, g := range lexicalGuards(pm, r, fi.Decl.Body) {
						if x, isNil, ok := nilAtom(info, g); ok && !isNil && objOf(info, x) == types.Object(o) {
							return true
						}
					}
				}
				bad = "bare return at " + c.P.Pos(r.Pos())
				return true
			}
			e := ast.Unparen(r.Results[0])
			switch x := e.(type) {
			case *ast.CallExpr:
				// a constructor of errors; a call of another validate() may hand back nil
				if fn := Callee(info, x); fn != nil && (fn.Name() == "validate" || fn.Name() == "Validate") {
					bad = "`return " + exprStr(e) + "` at " + c.P.Pos(r.Pos())
				}
				return true
			case *ast.Ident:
				if isNilIdent(info, x) {
					if c18EarlyNilConcernsTheRest(info, pm, fi.Decl.Body, r) {
						return true
					}
					bad = "`return nil` at " + c.P.Pos(r.Pos())
					return true
				}
				o := info.Uses[x]
				for _, g := range lexicalGuards(pm, r, fi.Decl.Body) {
					if gx, isNil, ok := nilAtom(info, g); ok && !isNil && objOf(info, gx) == o {
						return true
					}
				}
				bad = "`return " + x.Name + "` at " + c.P.Pos(r.Pos()) + " (not under `" + x.Name + " != nil`)"
			}
			return true
		})
		c.Check(bad == "", R, shortFuncName(fi.Name)+":accepts only at its end", fi.Decl.Pos(), "every earlier return carries an error",
			bad+" can accept the value before the attributes checked further down were looked at: an invalid pattern, duration or template there is then parsed later with its error dropped (nil regexp, zero duration) and crashes the lint run")
	}
	c.Check(n >= 25, R, "validate() methods enumerated", token.NoPos, itoa(n), "fewer validate() methods than confirmed ("+itoa(n)+")")
}

func shortFuncName(q string) string {
	if i := strings.LastIndex(q, "/"); i >= 0 {
		return q[i+1:]
	}
	return q
}

// c18PositiveLimits: the two numbers of a prometheus{} block that size things
// at run time — `concurrency` (worker count, channel capacity) and `rateLimit`
// (divisor of the rate limiter) — never reach the server objects as zero or
// negative: applyDefaults replaces every value `<= 0` (not just the zero value),
// or validate() rejects it. `make(chan T, n)` with a negative n and
// ratelimit.New(0) both panic when the workers are started, long after Load().
func c18PositiveLimits(c *Ctx) {
	R := "C18-R3"
	ad := c.MustFunc(R, "internal/config.PrometheusConfig.applyDefaults")
	if ad == nil {
		return
	}
	val := c.P.Func("internal/config.PrometheusConfig.validate")
	for _, field := range []string{"Concurrency", "RateLimit"} {
		covered := ""
		for _, fi := range []*FuncInfo{ad, val} {
			if fi == nil || fi.Decl.Body == nil {
				continue
			}
			info := fi.Pkg.TypesInfo
			pm := parentMap(fi.Decl.Body)
			nonPositive := func(n ast.Node) bool {
				for _, g := range lexicalGuards(pm, n, fi.Decl.Body) {
					be, ok := ast.Unparen(g.E).(*ast.BinaryExpr)
					if !ok || !fieldSel(info, be.X, "internal/config.PrometheusConfig", field) {
						continue
					}
					k, isC := constInt(info, be.Y)
					if !isC {
						continue
					}
					switch {
					case g.Truth && be.Op == token.LEQ && k == 0, g.Truth && be.Op == token.LSS && k == 1,
						!g.Truth && be.Op == token.GTR && k == 0, !g.Truth && be.Op == token.GEQ && k == 1:
						return true
					}
				}
				return false
			}
			inspectNoLit(fi.Decl.Body, func(nd ast.Node) bool {
				switch x := nd.(type) {
				case *ast.AssignStmt:
					for i, l := range x.Lhs {
						if fieldSel(info, l, "internal/config.PrometheusConfig", field) && i < len(x.Rhs) {
							if k, isC := constInt(info, x.Rhs[i]); isC && k > 0 && nonPositive(x) {
								covered = "defaulted in " + fi.Obj.Name()
							}
						}
					}
				case *ast.ReturnStmt:
					if fi == val && len(x.Results) == 1 && !isNilIdent(info, x.Results[0]) && nonPositive(x) {
						covered = "rejected in validate"
					}
				}
				return true
			})
		}
		c.Check(covered != "", R, "PrometheusConfig."+field+" is positive after loading", ad.Decl.Pos(), covered,
			"nothing replaces or rejects a "+field+" that is zero or negative (only the zero value, or nothing, is handled): prometheus { "+strings.ToLower(field[:1])+field[1:]+" = -1 } is accepted by Load(), and starting the workers later panics (channel of negative size / rate limiter dividing by zero)")
	}
}

// c18Round5: three more crash-path clauses. (a) An element of a map VALUE is
// never indexed directly (`m[k][i]`): a key that is not in the table gives a
// nil slice and the index panics — the shape a switch turns into when it is
// replaced by a table of rows. (b) config.parseDuration hands back only what
// model.ParseDuration produced (never negative; the checks rely on that), not
// the result of another parser. (c) The server definition that
// PrometheusTemplate.Render hands to newFailoverGroup was validated as a whole:
// `<it>.validate()` is called on that very value after its literal is complete,
// and its error returned.
func c18Round5(c *Ctx) {
	R := "C18-R3"
	p := c.P
	// (a)
	n := 0
	for _, rel := range []string{"internal/config", "internal/checks"} {
		pkg := p.Pkg(rel)
		if pkg == nil {
			continue
		}
		info := pkg.TypesInfo
		for _, fi := range p.AllFuncs() {
			if fi.Pkg != pkg || fi.Decl.Body == nil || p.IsTestFile(fi.Decl.Pos()) {
				continue
			}
			seq := 0
			ast.Inspect(fi.Decl.Body, func(nd ast.Node) bool {
				outer, ok := nd.(*ast.IndexExpr)
				if !ok {
					return true
				}
				inner, ok := ast.Unparen(outer.X).(*ast.IndexExpr)
				if !ok {
					return true
				}
				t := info.TypeOf(inner.X)
				if t == nil {
					return true
				}
				if _, isMap := t.Underlying().(*types.Map); !isMap {
					return true
				}
				if vt := info.TypeOf(inner); vt != nil {
					if _, isSlice := vt.Underlying().(*types.Slice); !isSlice {
						return true // arrays and maps are safe to index / look up when the key is missing? arrays are: zero value
					}
				}
				n++
				seq++
				c.Bad(R, shortFuncName(fi.Name)+":row of a table indexed without a presence test#"+itoa(seq), outer.Pos(),
					"`"+exprStr(outer)+"` indexes the slice found under a map key without testing that the key is there: for a key outside the table the row is nil and the index panics (an operator or option that validation let through with its error dropped)")
				return true
			})
		}
	}
	c.Ok(R, "rows of map tables indexed directly enumerated", token.NoPos, itoa(n)+" (expected none)")
	// (b)
	if pd := c.MustFunc(R, "internal/config.parseDuration"); pd != nil {
		info := pd.Pkg.TypesInfo
		other := ""
		ast.Inspect(pd.Decl.Body, func(nd ast.Node) bool {
			if call, ok := nd.(*ast.CallExpr); ok {
				if fn := Callee(info, call); fn != nil && fn.Pkg() != nil && strings.HasPrefix(fn.Name(), "Parse") && !(fn.Pkg().Path() == "github.com/prometheus/common/model" && fn.Name() == "ParseDuration") {
					other = fn.Pkg().Path() + "." + fn.Name()
				}
			}
			return true
		})
		c.Check(other == "", R, "parseDuration:only Prometheus durations", pd.Decl.Pos(), "model.ParseDuration only",
			"config.parseDuration also accepts what "+other+" parses: negative durations and other forms Prometheus' parser rejects pass validation (only zero is refused), and the check built from them later runs with a limit it was never meant to see")
	}
	// (c)
	if rd := c.MustFunc(R, "internal/config.PrometheusTemplate.Render"); rd != nil {
		info := rd.Pkg.TypesInfo
		var arg *ast.Ident
		var callPos token.Pos
		ast.Inspect(rd.Decl.Body, func(nd ast.Node) bool {
			if call, ok := nd.(*ast.CallExpr); ok && isCallTo(info, call, "internal/config.newFailoverGroup") && len(call.Args) == 1 {
				arg, _ = ast.Unparen(call.Args[0]).(*ast.Ident)
				callPos = call.Pos()
			}
			return true
		})
		okV := false
		if arg != nil {
			o := info.Uses[arg]
			var defEnd token.Pos
			ast.Inspect(rd.Decl.Body, func(nd ast.Node) bool {
				if as, ok := nd.(*ast.AssignStmt); ok {
					for _, l := range as.Lhs {
						if objOf(info, l) == o && defEnd == token.NoPos {
							defEnd = as.End()
						}
					}
				}
				return true
			})
			pm := parentMap(rd.Decl.Body)
			ast.Inspect(rd.Decl.Body, func(nd ast.Node) bool {
				call, ok := nd.(*ast.CallExpr)
				if !ok || !isCallTo(info, call, "internal/config.PrometheusConfig.validate") {
					return true
				}
				sel, _ := call.Fun.(*ast.SelectorExpr)
				if sel == nil || objOf(info, sel.X) != o || call.Pos() < defEnd || call.Pos() > callPos {
					return true
				}
				// its error is returned: the enclosing if (init or preceding assignment) has a return in its body
				for cur := pm[ast.Node(call)]; cur != nil; cur = pm[cur] {
					if ifs, isIf := cur.(*ast.IfStmt); isIf {
						if len(returnsIn(ifs.Body.List)) > 0 {
							okV = true
						}
						break
					}
					if _, isBlk := cur.(*ast.BlockStmt); isBlk {
						break
					}
				}
				return true
			})
		}
		c.Check(okV, R, "Render:the rendered server definition is validated as a whole", rd.Decl.Pos(), "validate() on the value handed to newFailoverGroup",
			"the PrometheusConfig that PrometheusTemplate.Render turns into a failover group is not validated after it was filled (include/exclude/tags rendered from discovered data): a pattern that is not a regexp reaches regexp.MustCompile in newFailoverGroup and panics")
	}
}

// c18EarlyNilConcernsTheRest accepts `if X.f == "" { return nil }` as a statement of the function body when
// everything that can still be rejected after it depends on X.f: every later return of an error stands under
// a condition that reads X.f or a local computed from it (`sev, err := Parse(X.f)`). That is the early-return
// spelling of `if X.f != "" { … }; return nil` as the last check of the function; an attribute that does not
// depend on X.f and is checked further down makes it a real early acceptance.
func c18EarlyNilConcernsTheRest(info *types.Info, pm map[ast.Node]ast.Node, body *ast.BlockStmt, r *ast.ReturnStmt) bool {
	blk, ok := pm[r].(*ast.BlockStmt)
	if !ok || len(blk.List) != 1 {
		return false
	}
	ifs, ok := pm[blk].(*ast.IfStmt)
	if !ok || ifs.Body != blk || ifs.Else != nil || ifs.Init != nil || pm[ifs] != ast.Node(body) {
		return false
	}
	if l := body.List; len(l) == 0 {
		return false
	} else if last, isRet := l[len(l)-1].(*ast.ReturnStmt); !isRet || len(last.Results) != 1 || !isNilIdent(info, last.Results[0]) {
		return false
	}
	// the subject: field paths the condition reads
	subject := map[string]bool{}
	ast.Inspect(ifs.Cond, func(n ast.Node) bool {
		if sel, ok := n.(*ast.SelectorExpr); ok {
			if _, path, ok := accessPath(info, sel); ok && path != "" {
				subject[exprStr(sel)] = true
				return false
			}
		}
		return true
	})
	if len(subject) == 0 {
		return false
	}
	derived := map[types.Object]bool{}
	reads := func(e ast.Node) bool {
		hit := false
		ast.Inspect(e, func(n ast.Node) bool {
			switch x := n.(type) {
			case *ast.SelectorExpr:
				if subject[exprStr(x)] {
					hit = true
					return false
				}
			case *ast.Ident:
				if o := info.Uses[x]; o != nil && derived[o] {
					hit = true
				}
			}
			return true
		})
		return hit
	}
	for round := 0; round < 4; round++ {
		ast.Inspect(body, func(n ast.Node) bool {
			as, ok := n.(*ast.AssignStmt)
			if !ok || as.Pos() < ifs.End() {
				return true
			}
			any := false
			for _, rh := range as.Rhs {
				if reads(rh) {
					any = true
				}
			}
			if any {
				for _, l := range as.Lhs {
					if o, isVar := objOf(info, l).(*types.Var); isVar && !o.IsField() {
						derived[o] = true
					}
				}
			}
			return true
		})
	}
	ok = true
	nLater := 0
	inspectNoLit(body, func(n ast.Node) bool {
		r2, isRet := n.(*ast.ReturnStmt)
		if !isRet || r2.Pos() < ifs.End() || ast.Stmt(r2) == body.List[len(body.List)-1] {
			return true
		}
		nLater++
		dep := false
		for _, g := range lexicalGuards(pm, r2, body) {
			if reads(g.E) {
				dep = true
			}
		}
		if !dep {
			ok = false
		}
		return true
	})
	return ok && nLater > 0
}
