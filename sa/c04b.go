package main

import (
	"go/ast"
	"go/token"
	"go/types"
	"strings"
)

const qSource = "internal/parser/utils.Source"

// c04Ownership: the label lists of a Source only ever grow out of their own
// storage. A store that puts a foreign slice (a parameter, a field of the
// parsed query) into IncludedLabels / GuaranteedLabels / ExcludedLabels makes
// later in-place edits (slices.Delete in removeFromSlice, append within
// capacity) rewrite the parsed query itself; every check walks the same parsed
// tree again, so the verdicts of later walks differ from the first.
func c04Ownership(c *Ctx, rule string) {
	p := c.P
	up := p.Pkg("internal/parser/utils")
	if up == nil {
		c.Undecided(rule, "anchor:internal/parser/utils", token.NoPos, "package not found")
		return
	}
	info := up.TypesInfo
	lists := map[string]bool{"IncludedLabels": true, "GuaranteedLabels": true, "ExcludedLabels": true}
	// copy-on-write helpers: functions (values []string, more ...string) []string
	// of this package whose result is built from their first parameter
	helpers := map[string]bool{"internal/parser/utils.appendToSlice": true, "internal/parser/utils.removeFromSlice": true}
	n := 0
	for _, fi := range p.AllFuncs() {
		if fi.Pkg != up || fi.Decl.Body == nil || p.IsTestFile(fi.Decl.Pos()) {
			continue
		}
		seq := map[string]int{}
		ast.Inspect(fi.Decl.Body, func(nd ast.Node) bool {
			as, ok := nd.(*ast.AssignStmt)
			if !ok || len(as.Lhs) != len(as.Rhs) {
				return true
			}
			for i, l := range as.Lhs {
				sel, ok := l.(*ast.SelectorExpr)
				if !ok || !lists[sel.Sel.Name] || fieldOwner(info, sel) != qSource {
					continue
				}
				n++
				r := ast.Unparen(as.Rhs[i])
				seq[sel.Sel.Name]++
				key := fi.Obj.Name() + ":" + sel.Sel.Name + "#" + itoa(seq[sel.Sel.Name])
				ok2, why := false, ""
				switch x := r.(type) {
				case *ast.Ident:
					if x.Name == "nil" && info.Uses[x] == types.Universe.Lookup("nil") {
						ok2, why = true, "reset"
					} else {
						why = "stores the slice `" + x.Name + "` itself"
					}
				case *ast.CompositeLit:
					ok2, why = true, "fresh literal"
				case *ast.CallExpr:
					fn := Callee(info, x)
					switch {
					case fn != nil && helpers[funcQName(fn)] && len(x.Args) >= 1 && samePath(info, x.Args[0], sel):
						ok2, why = true, funcQName(fn)+" on the field's own storage"
					case fn != nil && fn.Pkg() != nil && fn.Pkg().Path() == "slices" && fn.Name() == "Clone":
						ok2, why = true, "clone"
					case fn != nil && helpers[funcQName(fn)]:
						why = "grows out of `" + exprStr(x.Args[0]) + "`, not out of the field itself"
					default:
						why = "result of " + exprStr(x.Fun)
					}
				default:
					why = "stores `" + exprStr(r) + "`"
				}
				c.Check(ok2, rule, key, as.Pos(), why,
					why+": the Source now shares the backing array of a list it does not own (for example the parsed query's on(...)/by(...) labels); later in-place edits rewrite that list and every further walk of the same parsed rule sees a different query")
			}
			return true
		})
	}
	c.Check(n >= 20, rule, "label-list stores enumerated", token.NoPos, itoa(n), "implausibly few stores of Source label lists ("+itoa(n)+")")
}

// c04Stamped: operators that write a label into every output sample
// (count_values' parameter, label_replace/label_join's destination) re-admit
// that label unconditionally: the call that clears it from ExcludedLabels is
// guarded by nothing but "the argument is a string literal".
func c04Stamped(c *Ctx, rule string) {
	p := c.P
	slv := p.Func("internal/parser/utils.stringLiteralValue")
	if slv == nil {
		c.Undecided(rule, "anchor:stringLiteralValue", token.NoPos, "function not found")
		return
	}
	// which helpers clear ExcludedLabels for their names?
	clears := map[*types.Func]bool{}
	for _, h := range []string{"includeLabel", "guaranteeLabel", "maybeIncludeLabel"} {
		fi := p.Func("internal/parser/utils." + h)
		if fi == nil {
			continue
		}
		info := fi.Pkg.TypesInfo
		ast.Inspect(fi.Decl.Body, func(n ast.Node) bool {
			as, ok := n.(*ast.AssignStmt)
			if !ok || len(as.Lhs) != 1 || len(as.Rhs) != 1 {
				return true
			}
			sel, ok := as.Lhs[0].(*ast.SelectorExpr)
			if !ok || sel.Sel.Name != "ExcludedLabels" || fieldOwner(info, sel) != qSource {
				return true
			}
			if call, ok := as.Rhs[0].(*ast.CallExpr); ok && isCallTo(info, call, "internal/parser/utils.removeFromSlice") {
				if len(lexicalGuards(parentMap(fi.Decl.Body), as, fi.Decl.Body)) == 0 {
					clears[fi.Obj] = true
				}
			}
			return true
		})
	}
	n := 0
	for _, fname := range []string{"walkAggregation", "parsePromQLFunc"} {
		fi := c.MustFunc(rule, "internal/parser/utils."+fname)
		if fi == nil {
			continue
		}
		info := fi.Pkg.TypesInfo
		pm := parentMap(fi.Decl.Body)
		ast.Inspect(fi.Decl.Body, func(nd ast.Node) bool {
			ifs, ok := nd.(*ast.IfStmt)
			if !ok || ifs.Init == nil {
				return true
			}
			ia, ok := ifs.Init.(*ast.AssignStmt)
			if !ok || len(ia.Rhs) != 1 || len(ia.Lhs) != 2 {
				return true
			}
			call, ok := ia.Rhs[0].(*ast.CallExpr)
			if !ok || Callee(info, call) != slv.Obj {
				return true
			}
			lid, _ := ia.Lhs[0].(*ast.Ident)
			if lid == nil {
				return true
			}
			label := info.Defs[lid]
			labels, _ := contextOf(info, pm, ifs, fi.Decl.Body)
			ctx := strings.Join(labels, "/")
			n++
			found := false
			ast.Inspect(ifs.Body, func(m ast.Node) bool {
				cl, ok := m.(*ast.CallExpr)
				if !ok {
					return true
				}
				fn := Callee(info, cl)
				if fn == nil || !clears[fn] {
					return true
				}
				mentions := false
				for _, a := range cl.Args[1:] {
					if isObj(info, a, label) {
						mentions = true
					}
				}
				if mentions && len(lexicalGuards(pm, cl, ifs.Body)) == 0 {
					found = true
				}
				return true
			})
			c.Check(found, rule, fname+":label written by ["+ctx+"] is re-admitted unconditionally", ifs.Pos(), "clears ExcludedLabels for the literal label",
				"the operator stamps this label on every output sample, but the call that removes it from ExcludedLabels is missing or conditional: a label excluded further inside (without(), {l=\"\"}, ignoring()) stays excluded and templates using it are reported although the results carry it")
			return true
		})
	}
	c.Check(n >= 2, rule, "label-writing operators enumerated", token.NoPos, itoa(n), "expected count_values and label_replace/label_join, found "+itoa(n))
}

// c04EmptyMatcher: a selector excludes a label only for a positive equality
// matcher whose value is the empty string.
func c04EmptyMatcher(c *Ctx, rule string) {
	p := c.P
	fi := c.MustFunc(rule, "internal/parser/utils.labelsWithEmptyValueSelector")
	if fi == nil {
		return
	}
	info := fi.Pkg.TypesInfo
	pm := parentMap(fi.Decl.Body)
	n := 0
	ast.Inspect(fi.Decl.Body, func(nd ast.Node) bool {
		call, ok := nd.(*ast.CallExpr)
		if !ok || !isCallTo(info, call, "internal/parser/utils.appendToSlice") {
			return true
		}
		n++
		emptyValue, positive := false, false
		for _, a := range lexicalGuards(pm, call, fi.Decl.Body) {
			be, ok := ast.Unparen(a.E).(*ast.BinaryExpr)
			if !ok || !a.Truth || be.Op != token.EQL {
				continue
			}
			if sel, ok := ast.Unparen(be.X).(*ast.SelectorExpr); ok {
				switch sel.Sel.Name {
				case "Value":
					if s, isC := constString(info, be.Y); isC && s == "" {
						emptyValue = true
					}
				case "Type":
					if k := constObj(info, be.Y); k != nil && k.Name() == "MatchEqual" {
						positive = true
					}
				}
			}
		}
		c.Check(emptyValue && positive, rule, "labelsWithEmptyValueSelector:only `l=\"\"` excludes l", call.Pos(), "guarded by Type == MatchEqual && Value == \"\"",
			"a matcher that can also match non-empty values (for example l=~\"a|\" or l=~\".*\") marks the label as absent from the results: templates using it get a false `non-existent label` report")
		return true
	})
	c.Check(n == 1, rule, "labelsWithEmptyValueSelector:one exclusion site", fi.Decl.Pos(), "one", itoa(n)+" sites")
	_ = p
}

// c12JoinOperands: canJoin is asked about the side as adjusted by on()/ignoring()
// in this iteration, and about the element of the other side under inspection.
func c12JoinOperands(c *Ctx, rule string) {
	p := c.P
	fi := c.MustFunc(rule, "internal/parser/utils.parseBinOps")
	cj := p.Func("internal/parser/utils.canJoin")
	if fi == nil || cj == nil {
		if cj == nil {
			c.Undecided(rule, "anchor:canJoin", token.NoPos, "function not found")
		}
		return
	}
	info := fi.Pkg.TypesInfo
	pm := parentMap(fi.Decl.Body)
	n := 0
	ast.Inspect(fi.Decl.Body, func(nd ast.Node) bool {
		call, ok := nd.(*ast.CallExpr)
		if !ok || Callee(info, call) != cj.Obj || len(call.Args) != 3 {
			return true
		}
		n++
		// enclosing range statements, innermost first
		var ranges []*ast.RangeStmt
		for cur := pm[call]; cur != nil; cur = pm[cur] {
			if rs, ok := cur.(*ast.RangeStmt); ok {
				ranges = append(ranges, rs)
			}
		}
		labels, _ := contextOf(info, pm, call, fi.Decl.Body)
		key := "parseBinOps:canJoin#" + itoa(n) + " [" + strings.Join(labels, "/") + "]"
		if len(ranges) < 2 {
			c.Undecided(rule, key, call.Pos(), "canJoin is not inside the two nested loops over both sides")
			return true
		}
		rangeVar := func(rs *ast.RangeStmt) types.Object {
			id, ok := rs.Value.(*ast.Ident)
			if !ok {
				return nil
			}
			if o := info.Defs[id]; o != nil {
				return o
			}
			return info.Uses[id]
		}
		inner, outer := rangeVar(ranges[0]), rangeVar(ranges[1])
		okInner := isObj(info, call.Args[1], inner)
		okOuter, why := false, ""
		switch {
		case isObj(info, call.Args[0], outer):
			okOuter = true
		default:
			why = "the first operand is `" + exprStr(call.Args[0]) + "`, not the source being built in this iteration"
			// a snapshot taken after every adjustment is equivalent
			if id, ok := ast.Unparen(call.Args[0]).(*ast.Ident); ok {
				obj := info.Uses[id]
				var defPos token.Pos
				defs := 0
				ast.Inspect(ranges[1].Body, func(m ast.Node) bool {
					as, ok := m.(*ast.AssignStmt)
					if !ok {
						return true
					}
					for i, l := range as.Lhs {
						if lid, ok := l.(*ast.Ident); ok && (info.Defs[lid] == obj || info.Uses[lid] == obj) && obj != nil {
							defs++
							if i < len(as.Rhs) && isObj(info, as.Rhs[i], outer) {
								defPos = as.Pos()
							}
						}
					}
					return true
				})
				if defs == 1 && defPos.IsValid() {
					stale := false
					ast.Inspect(ranges[1].Body, func(m ast.Node) bool {
						as, ok := m.(*ast.AssignStmt)
						if !ok || as.Pos() <= defPos || as.Pos() >= call.Pos() {
							return true
						}
						for _, l := range as.Lhs {
							root, _, ok := accessPath(info, l)
							if ok && root == outer {
								stale = true
							}
						}
						return true
					})
					if !stale {
						okOuter = true
					} else {
						why = "the first operand `" + id.Name + "` is a copy taken before on()/ignoring() adjusted the source"
					}
				}
			}
		}
		c.Check(okOuter, rule, key+" first operand", call.Pos(), "the adjusted source of this iteration",
			why+": labels that on()/ignoring() removes from the match are still demanded from the other side, which is then reported as dead although the join works")
		c.Check(okInner, rule, key+" second operand", call.Pos(), "the element of the other side under inspection",
			"the second operand is `"+exprStr(call.Args[1])+"`, not the element of the inner loop: another source is marked dead than the one examined")
		return true
	})
	c.Check(n >= 4, rule, "canJoin sites enumerated", fi.Decl.Pos(), itoa(n), "expected 4 canJoin sites, found "+itoa(n))
}

// c12AlwaysReturns: `and` / `unless` can filter every sample away, so the
// "always returns" attribute of their left side has to be re-evaluated in the
// many-to-many case; otherwise `(vector(1) and on() foo) or bar` declares bar dead.
func c12AlwaysReturns(c *Ctx, rule string) {
	fi := c.MustFunc(rule, "internal/parser/utils.parseBinOps")
	if fi == nil {
		return
	}
	info := fi.Pkg.TypesInfo
	pm := parentMap(fi.Decl.Body)
	var loop *ast.RangeStmt
	ast.Inspect(fi.Decl.Body, func(n ast.Node) bool {
		rs, ok := n.(*ast.RangeStmt)
		if !ok {
			return true
		}
		labels, _ := contextOf(info, pm, rs, fi.Decl.Body)
		if len(labels) == 1 && strings.Contains(labels[0], "CardManyToMany") {
			if call, ok := ast.Unparen(rs.X).(*ast.CallExpr); ok && isCallTo(info, call, "internal/parser/utils.walkNode") && len(call.Args) == 2 && strings.HasSuffix(exprStr(call.Args[1]), ".LHS") {
				loop = rs
			}
		}
		return true
	})
	if loop == nil {
		c.Undecided(rule, "parseBinOps:[CardManyToMany] loop over the left side", fi.Decl.Pos(), "not found")
		return
	}
	var lv types.Object
	if id, ok := loop.Value.(*ast.Ident); ok {
		if lv = info.Defs[id]; lv == nil {
			lv = info.Uses[id]
		}
	}
	stored := false
	ast.Inspect(loop.Body, func(n ast.Node) bool {
		as, ok := n.(*ast.AssignStmt)
		if !ok {
			return true
		}
		for _, l := range as.Lhs {
			if sel, ok := l.(*ast.SelectorExpr); ok && sel.Sel.Name == "AlwaysReturns" && fieldOwner(info, sel) == qSource && isObj(info, sel.X, lv) {
				stored = true
			}
		}
		return true
	})
	c.Check(stored, rule, "parseBinOps:[CardManyToMany] AlwaysReturns of the left side is re-evaluated for and/unless", loop.Pos(), "re-evaluated",
		"the left side of `and`/`unless` keeps AlwaysReturns although the operator returns nothing when the right side is empty (and) or matches (unless): `(vector(1) and on() foo) or bar` reports bar as dead code, yet Prometheus returns bar whenever foo has no series")
}
