package main

import (
	"go/ast"
	"go/token"
	"go/types"
	"golang.org/x/tools/go/cfg"
	"strings"
)

const qSource = "internal/parser/utils.Source"

// c04Ownership: the label lists of a Source only ever grow out of their own
// storage. A store that puts a foreign slice (a parameter, a field of the
// parsed query) into IncludedLabels / GuaranteedLabels / ExcludedLabels makes
// later in-place edits (slices.Delete in removeFromSlice, append within
// capacity) rewrite the parsed query itself; every check walks the same parsed
// tree again, so the verdicts of later walks differ from the first.
func c04Ownership(c *Ctx, rule string) {
	p := c.P
	up := p.Pkg("internal/parser/utils")
	if up == nil {
		c.Undecided(rule, "anchor:internal/parser/utils", token.NoPos, "package not found")
		return
	}
	info := up.TypesInfo
	lists := map[string]bool{"IncludedLabels": true, "GuaranteedLabels": true, "ExcludedLabels": true}
	// copy-on-write helpers: functions (values []string, more ...string) []string
	// of this package whose result is built from their first parameter
	helpers := map[string]bool{"internal/parser/utils.appendToSlice": true, "internal/parser/utils.removeFromSlice": true}
	n := 0
	for _, fi := range p.AllFuncs() {
		if fi.Pkg != up || fi.Decl.Body == nil || p.IsTestFile(fi.Decl.Pos()) {
			continue
		}
		seq := map[string]int{}
		ast.Inspect(fi.Decl.Body, func(nd ast.Node) bool {
			as, ok := nd.(*ast.AssignStmt)
			if !ok || len(as.Lhs) != len(as.Rhs) {
				return true
			}
			for i, l := range as.Lhs {
				sel, ok := l.(*ast.SelectorExpr)
				if !ok || !lists[sel.Sel.Name] || fieldOwner(info, sel) != qSource {
					continue
				}
				n++
				r := ast.Unparen(as.Rhs[i])
				seq[sel.Sel.Name]++
				key := fi.Obj.Name() + ":" + sel.Sel.Name + "#" + itoa(seq[sel.Sel.Name])
				ok2, why := false, ""
				switch x := r.(type) {
				case *ast.Ident:
					if x.Name == "nil" && info.Uses[x] == types.Universe.Lookup("nil") {
						ok2, why = true, "reset"
					} else {
						why = "stores the slice `" + x.Name + "` itself"
					}
				case *ast.CompositeLit:
					ok2, why = true, "fresh literal"
				case *ast.CallExpr:
					fn := Callee(info, x)
					switch {
					case fn != nil && helpers[funcQName(fn)] && len(x.Args) >= 1 && samePath(info, x.Args[0], sel):
						ok2, why = true, funcQName(fn)+" on the field's own storage"
					case fn != nil && fn.Pkg() != nil && fn.Pkg().Path() == "slices" && fn.Name() == "Clone":
						ok2, why = true, "clone"
					case fn != nil && helpers[funcQName(fn)]:
						why = "grows out of `" + exprStr(x.Args[0]) + "`, not out of the field itself"
					default:
						why = "result of " + exprStr(x.Fun)
					}
				default:
					why = "stores `" + exprStr(r) + "`"
				}
				c.Check(ok2, rule, key, as.Pos(), why,
					why+": the Source now shares the backing array of a list it does not own (for example the parsed query's on(...)/by(...) labels); later in-place edits rewrite that list and every further walk of the same parsed rule sees a different query")
			}
			return true
		})
	}
	// the list helpers never edit their argument's backing array in place:
	// Source values are copied freely (loop variables, Joins, snapshots) and the
	// copies share these slices
	for _, h := range sortedKeys(helpers) {
		hf := p.Func(h)
		if hf == nil {
			c.Undecided(rule, "anchor:"+h, token.NoPos, "helper not found")
			continue
		}
		first := paramObj(hf, 0)
		inPlace := ""
		ast.Inspect(hf.Decl.Body, func(nd ast.Node) bool {
			call, ok := nd.(*ast.CallExpr)
			if !ok || len(call.Args) == 0 {
				return true
			}
			fn := Callee(info, call)
			if fn == nil || fn.Pkg() == nil || (fn.Pkg().Path() != "slices" && fn.Pkg().Path() != "sort") {
				return true
			}
			switch fn.Name() {
			case "Delete", "DeleteFunc", "Insert", "Replace", "Sort", "SortFunc", "Reverse", "Compact", "CompactFunc", "Strings":
				if isObj(info, call.Args[0], first) {
					inPlace = exprStr(call)
				}
			}
			return true
		})
		c.Check(inPlace == "", rule, hf.Obj.Name()+":does not edit its argument in place", hf.Decl.Pos(), "works on a clone / appends only",
			"`"+inPlace+"` rewrites the backing array that other copies of the same Source still see: a snapshot of a Source taken before includeLabel()/excludeLabel() silently loses entries")
	}
	c.Check(n >= 20, rule, "label-list stores enumerated", token.NoPos, itoa(n), "implausibly few stores of Source label lists ("+itoa(n)+")")
}

// c04Stamped: operators that write a label into every output sample
// (count_values' parameter, label_replace/label_join's destination) re-admit
// that label unconditionally: the call that clears it from ExcludedLabels is
// guarded by nothing but "the argument is a string literal".
func c04Stamped(c *Ctx, rule string) {
	p := c.P
	slv := p.Func("internal/parser/utils.stringLiteralValue")
	if slv == nil {
		c.Undecided(rule, "anchor:stringLiteralValue", token.NoPos, "function not found")
		return
	}
	// which helpers clear ExcludedLabels for their names?
	clears := map[*types.Func]bool{}
	for _, h := range []string{"includeLabel", "guaranteeLabel", "maybeIncludeLabel"} {
		fi := p.Func("internal/parser/utils." + h)
		if fi == nil {
			continue
		}
		info := fi.Pkg.TypesInfo
		ast.Inspect(fi.Decl.Body, func(n ast.Node) bool {
			as, ok := n.(*ast.AssignStmt)
			if !ok || len(as.Lhs) != 1 || len(as.Rhs) != 1 {
				return true
			}
			sel, ok := as.Lhs[0].(*ast.SelectorExpr)
			if !ok || sel.Sel.Name != "ExcludedLabels" || fieldOwner(info, sel) != qSource {
				return true
			}
			if call, ok := as.Rhs[0].(*ast.CallExpr); ok && isCallTo(info, call, "internal/parser/utils.removeFromSlice") {
				if len(lexicalGuards(parentMap(fi.Decl.Body), as, fi.Decl.Body)) == 0 {
					clears[fi.Obj] = true
				}
			}
			return true
		})
	}
	n := 0
	for _, fname := range []string{"walkAggregation", "parsePromQLFunc"} {
		fi := c.MustFunc(rule, "internal/parser/utils."+fname)
		if fi == nil {
			continue
		}
		info := fi.Pkg.TypesInfo
		pm := parentMap(fi.Decl.Body)
		ast.Inspect(fi.Decl.Body, func(nd ast.Node) bool {
			ifs, ok := nd.(*ast.IfStmt)
			if !ok || ifs.Init == nil {
				return true
			}
			ia, ok := ifs.Init.(*ast.AssignStmt)
			if !ok || len(ia.Rhs) != 1 || len(ia.Lhs) != 2 {
				return true
			}
			call, ok := ia.Rhs[0].(*ast.CallExpr)
			if !ok || Callee(info, call) != slv.Obj {
				return true
			}
			lid, _ := ia.Lhs[0].(*ast.Ident)
			if lid == nil {
				return true
			}
			label := info.Defs[lid]
			labels, _ := contextOf(info, pm, ifs, fi.Decl.Body)
			ctx := strings.Join(labels, "/")
			n++
			found := false
			ast.Inspect(ifs.Body, func(m ast.Node) bool {
				cl, ok := m.(*ast.CallExpr)
				if !ok {
					return true
				}
				fn := Callee(info, cl)
				if fn == nil || !clears[fn] {
					return true
				}
				mentions := false
				for _, a := range cl.Args[1:] {
					if isObj(info, a, label) {
						mentions = true
					}
				}
				if mentions && len(lexicalGuards(pm, cl, ifs.Body)) == 0 {
					found = true
				}
				return true
			})
			c.Check(found, rule, fname+":label written by ["+ctx+"] is re-admitted unconditionally", ifs.Pos(), "clears ExcludedLabels for the literal label",
				"the operator stamps this label on every output sample, but the call that removes it from ExcludedLabels is missing or conditional: a label excluded further inside (without(), {l=\"\"}, ignoring()) stays excluded and templates using it are reported although the results carry it")
			return true
		})
	}
	c.Check(n >= 2, rule, "label-writing operators enumerated", token.NoPos, itoa(n), "expected count_values and label_replace/label_join, found "+itoa(n))
}

// c04EmptyMatcher: a selector excludes a label only for a positive equality
// matcher whose value is the empty string.
func c04EmptyMatcher(c *Ctx, rule string) {
	p := c.P
	fi := c.MustFunc(rule, "internal/parser/utils.labelsWithEmptyValueSelector")
	if fi == nil {
		return
	}
	info := fi.Pkg.TypesInfo
	pm := parentMap(fi.Decl.Body)
	n := 0
	ast.Inspect(fi.Decl.Body, func(nd ast.Node) bool {
		call, ok := nd.(*ast.CallExpr)
		if !ok || !isCallTo(info, call, "internal/parser/utils.appendToSlice") {
			return true
		}
		n++
		emptyValue, positive := false, false
		for _, a := range lexicalGuards(pm, call, fi.Decl.Body) {
			be, ok := ast.Unparen(a.E).(*ast.BinaryExpr)
			if !ok || !a.Truth || be.Op != token.EQL {
				continue
			}
			if sel, ok := ast.Unparen(be.X).(*ast.SelectorExpr); ok {
				switch sel.Sel.Name {
				case "Value":
					if s, isC := constString(info, be.Y); isC && s == "" {
						emptyValue = true
					}
				case "Type":
					if k := constObj(info, be.Y); k != nil && k.Name() == "MatchEqual" {
						positive = true
					}
				}
			}
		}
		c.Check(emptyValue && positive, rule, "labelsWithEmptyValueSelector:only `l=\"\"` excludes l", call.Pos(), "guarded by Type == MatchEqual && Value == \"\"",
			"a matcher that can also match non-empty values (for example l=~\"a|\" or l=~\".*\") marks the label as absent from the results: templates using it get a false `non-existent label` report")
		return true
	})
	c.Check(n == 1, rule, "labelsWithEmptyValueSelector:one exclusion site", fi.Decl.Pos(), "one", itoa(n)+" sites")
	_ = p
}

// c12JoinOperands: canJoin is asked about each side as its sub-expression
// produced it. The side under construction gets the on(...) labels forced into
// its included set (they are what the result carries); asking that adjusted
// value whether it "can have" an on() label is a tautology, and a join where
// neither side has the label (both match on its absence) is then declared
// dead. So the first operand is a copy of the loop variable taken before any
// adjustment, the second the element of the inner loop, and canJoin itself
// leaves the labels of ignoring(...) out of what it demands.
func c12JoinOperands(c *Ctx, rule string) {
	p := c.P
	fi := c.MustFunc(rule, "internal/parser/utils.parseBinOps")
	cj := p.Func("internal/parser/utils.canJoin")
	if fi == nil || cj == nil {
		if cj == nil {
			c.Undecided(rule, "anchor:canJoin", token.NoPos, "function not found")
		}
		return
	}
	info := fi.Pkg.TypesInfo
	pm := parentMap(fi.Decl.Body)
	n := 0
	ast.Inspect(fi.Decl.Body, func(nd ast.Node) bool {
		call, ok := nd.(*ast.CallExpr)
		if !ok || Callee(info, call) != cj.Obj || len(call.Args) != 3 {
			return true
		}
		n++
		var ranges []*ast.RangeStmt
		for cur := pm[call]; cur != nil; cur = pm[cur] {
			if rs, ok := cur.(*ast.RangeStmt); ok {
				ranges = append(ranges, rs)
			}
		}
		labels, _ := contextOf(info, pm, call, fi.Decl.Body)
		key := "parseBinOps:canJoin#" + itoa(n) + " [" + strings.Join(labels, "/") + "]"
		if len(ranges) < 2 {
			c.Undecided(rule, key, call.Pos(), "canJoin is not inside the two nested loops over both sides")
			return true
		}
		rangeVar := func(rs *ast.RangeStmt) types.Object {
			id, ok := rs.Value.(*ast.Ident)
			if !ok {
				return nil
			}
			if o := info.Defs[id]; o != nil {
				return o
			}
			return info.Uses[id]
		}
		inner, outer := rangeVar(ranges[0]), rangeVar(ranges[1])
		okInner := isObj(info, call.Args[1], inner)
		// assignments to the outer loop variable (or its fields) before pos
		adjustedBefore := func(pos token.Pos) (bool, string) {
			adj, what := false, ""
			ast.Inspect(ranges[1].Body, func(m ast.Node) bool {
				as, ok := m.(*ast.AssignStmt)
				if !ok || as.Pos() >= pos {
					return true
				}
				for _, l := range as.Lhs {
					root, _, ok := accessPath(info, l)
					if ok && root == outer {
						adj = true
						if what == "" && len(as.Rhs) > 0 {
							what = exprStr(as.Rhs[0])
							if len(what) > 60 {
								what = what[:60] + "…"
							}
						}
					}
				}
				return true
			})
			return adj, what
		}
		okOuter, why := false, ""
		switch {
		case isObj(info, call.Args[0], outer):
			if adj, what := adjustedBefore(call.Pos()); adj {
				why = "the first operand is the source under construction after `" + what + "`: its on(...) labels were just forced in, so `can it have the label` is always true"
			} else {
				okOuter = true
			}
		default:
			why = "the first operand is `" + exprStr(call.Args[0]) + "`, which is not a copy of this iteration's source"
			if id, ok := ast.Unparen(call.Args[0]).(*ast.Ident); ok {
				obj := info.Uses[id]
				var defPos token.Pos
				defs := 0
				ast.Inspect(ranges[1].Body, func(m ast.Node) bool {
					as, ok := m.(*ast.AssignStmt)
					if !ok {
						return true
					}
					for i, l := range as.Lhs {
						if lid, ok := l.(*ast.Ident); ok && obj != nil && (info.Defs[lid] == obj || info.Uses[lid] == obj) {
							defs++
							if i < len(as.Rhs) && isObj(info, as.Rhs[i], outer) && pm[as] == ast.Node(ranges[1].Body) {
								defPos = as.Pos()
							}
						}
					}
					return true
				})
				if defs == 1 && defPos.IsValid() {
					if adj, what := adjustedBefore(defPos); adj {
						why = "the first operand `" + id.Name + "` is a copy taken after `" + what + "`"
					} else {
						okOuter = true
					}
				}
			}
		}
		c.Check(okOuter, rule, key+" first operand", call.Pos(), "this iteration's source as its sub-expression produced it",
			why+": a join whose sides both lack an on(...) label (and therefore match) is reported as dead code")
		c.Check(okInner, rule, key+" second operand", call.Pos(), "the element of the other side under inspection",
			"the second operand is `"+exprStr(call.Args[1])+"`, not the element of the inner loop: another source is marked dead than the one examined")
		return true
	})
	c.Check(n >= 4, rule, "canJoin sites enumerated", fi.Decl.Pos(), itoa(n), "expected 4 canJoin sites, found "+itoa(n))

	// canJoin leaves ignoring(...) labels out of what it demands: in the branch
	// that is not on(...), the loop over the left side's guaranteed labels skips
	// the names listed in the matching labels.
	cinfo := cj.Pkg.TypesInfo
	cpm := parentMap(cj.Decl.Body)
	found, skips := 0, 0
	ast.Inspect(cj.Decl.Body, func(nd ast.Node) bool {
		rs, ok := nd.(*ast.RangeStmt)
		if !ok || !fieldSel(cinfo, rs.X, qSource, "GuaranteedLabels") {
			return true
		}
		found++
		var nameObj types.Object
		if id, ok := rs.Value.(*ast.Ident); ok {
			nameObj = cinfo.Defs[id]
		}
		ast.Inspect(rs.Body, func(m ast.Node) bool {
			br, ok := m.(*ast.BranchStmt)
			if !ok || br.Tok != token.CONTINUE {
				return true
			}
			for _, g := range lexicalGuards(cpm, br, rs.Body) {
				// `if _, ok := set[name]; ok { continue }` where set is a local map filled from the
				// matching labels, each label as a key, and nothing else
				if id, isId := ast.Unparen(g.E).(*ast.Ident); isId && g.Truth {
					for cur := cpm[ast.Node(br)]; cur != nil; cur = cpm[cur] {
						ifs, isIf := cur.(*ast.IfStmt)
						if !isIf || ifs.Init == nil {
							continue
						}
						ia, isAs := ifs.Init.(*ast.AssignStmt)
						if !isAs || len(ia.Lhs) != 2 || len(ia.Rhs) != 1 || cinfo.Defs[identOf(ia.Lhs[1])] != cinfo.Uses[id] || cinfo.Uses[id] == nil {
							continue
						}
						ix, isIx := ast.Unparen(ia.Rhs[0]).(*ast.IndexExpr)
						if !isIx || !isObj(cinfo, ix.Index, nameObj) {
							continue
						}
						if src := localSetSource(cinfo, cj.Decl.Body, objOf(cinfo, ix.X)); src != nil && strings.HasSuffix(exprStr(src), ".MatchingLabels") {
							skips++
						}
					}
					continue
				}
				call, ok := ast.Unparen(g.E).(*ast.CallExpr)
				if !ok || !g.Truth || len(call.Args) != 2 {
					continue
				}
				if fn := Callee(cinfo, call); fn != nil && fn.Pkg() != nil && fn.Pkg().Path() == "slices" && fn.Name() == "Contains" &&
					strings.HasSuffix(exprStr(call.Args[0]), ".MatchingLabels") && isObj(cinfo, call.Args[1], nameObj) {
					skips++
				}
			}
			return true
		})
		return true
	})
	c.Check(found == 1 && skips >= 1, rule, "canJoin:labels of ignoring(...) are not demanded from the other side", cj.Decl.Pos(), "skipped in the loop over guaranteed labels",
		"canJoin demands every guaranteed label of one side from the other, including those listed in ignoring(...): `foo{job=\"x\"} and ignoring(job) sum without(job)(bar)` is reported as dead code although both sides match")
}

// c12AlwaysReturns: `and` / `unless` can filter every sample away, so the
// "always returns" attribute of their left side has to be re-evaluated in the
// many-to-many case; otherwise `(vector(1) and on() foo) or bar` declares bar dead.
func c12AlwaysReturns(c *Ctx, rule string) {
	fi := c.MustFunc(rule, "internal/parser/utils.parseBinOps")
	if fi == nil {
		return
	}
	info := fi.Pkg.TypesInfo
	pm := parentMap(fi.Decl.Body)
	var loop *ast.RangeStmt
	ast.Inspect(fi.Decl.Body, func(n ast.Node) bool {
		rs, ok := n.(*ast.RangeStmt)
		if !ok {
			return true
		}
		labels, _ := contextOf(info, pm, rs, fi.Decl.Body)
		if len(labels) == 1 && strings.Contains(labels[0], "CardManyToMany") {
			if call, ok := ast.Unparen(rs.X).(*ast.CallExpr); ok && isCallTo(info, call, "internal/parser/utils.walkNode") && len(call.Args) == 2 && strings.HasSuffix(exprStr(call.Args[1]), ".LHS") {
				loop = rs
			}
		}
		return true
	})
	if loop == nil {
		c.Undecided(rule, "parseBinOps:[CardManyToMany] loop over the left side", fi.Decl.Pos(), "not found")
		return
	}
	var lv types.Object
	if id, ok := loop.Value.(*ast.Ident); ok {
		if lv = info.Defs[id]; lv == nil {
			lv = info.Uses[id]
		}
	}
	stored := false
	ast.Inspect(loop.Body, func(n ast.Node) bool {
		as, ok := n.(*ast.AssignStmt)
		if !ok {
			return true
		}
		for _, l := range as.Lhs {
			if sel, ok := l.(*ast.SelectorExpr); ok && sel.Sel.Name == "AlwaysReturns" && fieldOwner(info, sel) == qSource && isObj(info, sel.X, lv) {
				stored = true
			}
		}
		return true
	})
	c.Check(stored, rule, "parseBinOps:[CardManyToMany] AlwaysReturns of the left side is re-evaluated for and/unless", loop.Pos(), "re-evaluated",
		"the left side of `and`/`unless` keeps AlwaysReturns although the operator returns nothing when the right side is empty (and) or matches (unless): `(vector(1) and on() foo) or bar` reports bar as dead code, yet Prometheus returns bar whenever foo has no series")
}

// c12WholeLists: where a narrowing/admitting helper is given a label list with
// `xs...`, xs is the parsed query's own list (a field reached from the AST node
// parameter) or, inside the helpers themselves, their own variadic parameter.
// A locally computed subset ("ignored := …; if cmp { ignored = nil }") makes
// the analysis keep or drop labels for only some operators, which PromQL does
// not do: vector matching treats every operator alike.
func c12WholeLists(c *Ctx, rule string) {
	p := c.P
	up := p.Pkg("internal/parser/utils")
	if up == nil {
		return
	}
	info := up.TypesInfo
	helpers := map[string]bool{}
	for _, h := range []string{"excludeLabel", "includeLabel", "maybeIncludeLabel", "guaranteeLabel", "restrictIncludedLabels", "restrictGuaranteedLabels"} {
		helpers["internal/parser/utils."+h] = true
	}
	// wrappers of those helpers (a function of the package that hands its own name list, or the
	// names in it one by one, to a helper) are helpers too
	for round := 0; round < 2; round++ {
		for _, hf := range p.AllFuncs() {
			if hf.Pkg != up || hf.Decl.Body == nil || helpers[hf.Name] || p.IsTestFile(hf.Decl.Pos()) {
				continue
			}
			sig := hf.Obj.Type().(*types.Signature)
			if sig.Params().Len() == 0 {
				continue
			}
			last := sig.Params().At(sig.Params().Len() - 1)
			if last.Type().String() != "[]string" {
				continue
			}
			elems := map[types.Object]bool{types.Object(last): true}
			ast.Inspect(hf.Decl.Body, func(nd ast.Node) bool {
				if rs, ok := nd.(*ast.RangeStmt); ok && objOf(info, rs.X) == types.Object(last) && rs.Value != nil {
					elems[objOf(info, rs.Value)] = true
				}
				return true
			})
			ast.Inspect(hf.Decl.Body, func(nd ast.Node) bool {
				if call, ok := nd.(*ast.CallExpr); ok {
					if fn := Callee(info, call); fn != nil && helpers[funcQName(fn)] {
						for _, a := range call.Args {
							if o := objOf(info, a); o != nil && elems[o] {
								helpers[hf.Name] = true
							}
						}
					}
				}
				return true
			})
		}
	}
	n := 0
	for _, fname := range []string{"parseAggregation", "parseBinOps", "walkAggregation"} {
		fi := c.MustFunc(rule, "internal/parser/utils."+fname)
		if fi == nil {
			continue
		}
		nodeP := types.Object(nil)
		sig := fi.Obj.Type().(*types.Signature)
		for i := 0; i < sig.Params().Len(); i++ {
			if t := sig.Params().At(i).Type(); strings.HasPrefix(typeQName(t), promParserPath+".") {
				nodeP = sig.Params().At(i)
			}
		}
		seq := map[string]int{}
		ast.Inspect(fi.Decl.Body, func(nd ast.Node) bool {
			call, ok := nd.(*ast.CallExpr)
			if !ok {
				return true
			}
			fn := Callee(info, call)
			if fn == nil || !helpers[funcQName(fn)] {
				return true
			}
			var list ast.Expr
			if call.Ellipsis.IsValid() {
				list = call.Args[len(call.Args)-1]
			} else if strings.HasPrefix(fn.Name(), "restrict") && len(call.Args) == 2 {
				list = call.Args[1]
			}
			if list == nil {
				return true
			}
			n++
			seq[fn.Name()]++
			key := fname + ":" + fn.Name() + "#" + itoa(seq[fn.Name()]) + " takes the query's whole list"
			root, path, ok := accessPath(info, list)
			good := ok && root == nodeP && strings.Contains(path, ".")
			c.Check(good, rule, key, call.Pos(), exprStr(list),
				"the label list handed to "+fn.Name()+" is `"+exprStr(list)+"`, not a list of the parsed query node: which labels are kept or dropped now depends on something other than the query's by/without/on/ignoring/group lists (for example on the operator), which Prometheus' vector matching never does")
			return true
		})
	}
	c.Check(n >= 12, rule, "label-list arguments enumerated", token.NoPos, itoa(n), "implausibly few ("+itoa(n)+")")
}

// c12Arithmetic: the constant folding of arithmetic operators agrees with
// PromQL's (IEEE float) arithmetic: one unconditional result per operator,
// computed by the Go operator / math function of the same meaning on
// (ls.ReturnedNumber, rs.ReturnedNumber), and every arithmetic operator of the
// vendored lexer has a case.
func c12Arithmetic(c *Ctx, rule string) {
	p := c.P
	csr := c.MustFunc(rule, "internal/parser/utils.calculateStaticReturn")
	if csr == nil {
		return
	}
	info := csr.Pkg.TypesInfo
	ref := map[string]string{"ADD": "+", "SUB": "-", "MUL": "*", "DIV": "/", "MOD": "math.Mod", "POW": "math.Pow", "ATAN2": "math.Atan2"}
	// classification of every operator constant of the vendored lexer
	other := map[string]string{
		"EQL": "matcher/assignment only", "EQL_REGEX": "matcher only", "NEQ_REGEX": "matcher only",
		"EQLC": "comparison", "NEQ": "comparison", "LTE": "comparison", "LSS": "comparison", "GTE": "comparison", "GTR": "comparison",
		"LAND": "set", "LOR": "set", "LUNLESS": "set",
		"AT": "@ modifier, not a binary operator",
	}
	if pkg := p.Pkg(promParserPath); pkg != nil {
		in := false
		nOps := 0
		for _, f := range pkg.Syntax {
			for _, d := range f.Decls {
				gd, ok := d.(*ast.GenDecl)
				if !ok || gd.Tok != token.CONST {
					continue
				}
				for _, sp := range gd.Specs {
					vs := sp.(*ast.ValueSpec)
					for _, nm := range vs.Names {
						switch nm.Name {
						case "operatorsStart":
							in = true
							continue
						case "operatorsEnd":
							in = false
							continue
						}
						if in {
							nOps++
							_, a := ref[nm.Name]
							_, o := other[nm.Name]
							c.Check(a || o, rule, "vendored operator "+nm.Name+" is classified", nm.Pos(), "known", "the vendored lexer has an operator "+nm.Name+" that the static evaluation table does not classify (arithmetic / comparison / set / matcher)")
						}
					}
				}
			}
		}
		c.Check(nOps >= 19, rule, "vendored operators enumerated", token.NoPos, itoa(nOps), "found "+itoa(nOps)+" operators between operatorsStart and operatorsEnd")
	}
	sig := csr.Obj.Type().(*types.Signature)
	lsP, rsP := sig.Params().At(paramIndex(sig, "ls")), sig.Params().At(paramIndex(sig, "rs"))
	isNum := func(e ast.Expr, who types.Object) bool {
		sel, ok := ast.Unparen(e).(*ast.SelectorExpr)
		return ok && sel.Sel.Name == "ReturnedNumber" && fieldOwner(info, sel) == qSource && isObj(info, sel.X, who)
	}
	seen := map[string]bool{}
	for _, sw := range findSwitches(csr.Decl.Body, func(s *ast.SwitchStmt) bool { return s.Tag != nil }) {
		cases, _ := switchCases(sw)
		for _, cs := range cases {
			k := constObj(info, cs.Expr)
			if k == nil {
				continue
			}
			want, isArith := ref[k.Name()]
			if !isArith {
				continue
			}
			seen[k.Name()] = true
			key := "calculateStaticReturn:" + k.Name() + " folds to ls " + want + " rs, unconditionally"
			body := cs.Clause.Body
			ok, got := false, ""
			if len(cs.Clause.List) == 1 && len(body) == 1 {
				var res ast.Expr
				if r, isRet := body[0].(*ast.ReturnStmt); isRet && len(r.Results) >= 1 {
					res = r.Results[0]
				} else if as, isAs := body[0].(*ast.AssignStmt); isAs && as.Tok == token.ASSIGN && len(as.Lhs) == 1 && len(as.Rhs) == 1 {
					// `ret = ls + rs` where ret is what the function returns after the switch, untouched
					if v, isVar := objOf(info, as.Lhs[0]).(*types.Var); isVar && !v.IsField() {
						list := csr.Decl.Body.List
						if last, isRet := list[len(list)-1].(*ast.ReturnStmt); isRet && len(last.Results) >= 1 && objOf(info, last.Results[0]) == v && last.Pos() > sw.End() {
							untouched := true
							ast.Inspect(csr.Decl.Body, func(n ast.Node) bool {
								if a2, ok := n.(*ast.AssignStmt); ok && a2.Pos() > sw.End() {
									for _, l := range a2.Lhs {
										if objOf(info, l) == v {
											untouched = false
										}
									}
								}
								return true
							})
							if untouched {
								res = as.Rhs[0]
							}
						}
					}
				}
				if res != nil {
					got = exprStr(res)
					switch x := ast.Unparen(res).(type) {
					case *ast.BinaryExpr:
						ok = x.Op.String() == want && isNum(x.X, lsP) && isNum(x.Y, rsP)
					case *ast.CallExpr:
						if fn := Callee(info, x); fn != nil && fn.Pkg() != nil && fn.Pkg().Path()+"."+fn.Name() == want && len(x.Args) == 2 {
							ok = isNum(x.Args[0], lsP) && isNum(x.Args[1], rsP)
						}
					}
				}
			} else {
				got = itoa(len(body)) + " statements / " + itoa(len(cs.Clause.List)) + " operators in one case"
			}
			c.Check(ok, rule, key, cs.Clause.Pos(), got,
				"the constant folded for PromQL operator "+k.Name()+" is `"+got+"`, not the single unconditional `ls.ReturnedNumber "+want+" rs.ReturnedNumber`: PromQL uses IEEE arithmetic (x/0 = ±Inf, NaN propagates), so a special case changes the outcome of a later comparison and with it the dead-code verdict")
		}
	}
	for _, k := range sortedKeys(ref) {
		c.Check(seen[k], rule, "calculateStaticReturn:handles arithmetic operator "+k, csr.Decl.Pos(), "case present",
			"arithmetic operator "+k+" has no case: the result silently becomes the left operand, so `(vector(1) "+strings.ToLower(k)+" vector(2)) < 0.5` is judged as `1 < 0.5` and reported as dead code")
	}
}

// c12KnownValue: the statically known value (KnownReturn/ReturnedNumber) and
// "always returns" survive only through nodes that pass values through.
func c12KnownValue(c *Ctx, rule string) {
	// (i) parseCall clears KnownReturn of argument-derived sources, except for an
	// allow-list of pass-through functions
	passThrough := map[string]string{
		"label_replace": "rewrites labels only", "label_join": "rewrites labels only",
		"sort": "reorders", "sort_desc": "reorders", "sort_by_label": "reorders", "sort_by_label_desc": "reorders",
	}
	if pc := c.MustFunc(rule, "internal/parser/utils.parseCall"); pc != nil {
		info := pc.Pkg.TypesInfo
		pm := parentMap(pc.Decl.Body)
		var store *ast.AssignStmt
		ast.Inspect(pc.Decl.Body, func(n ast.Node) bool {
			as, ok := n.(*ast.AssignStmt)
			if !ok || len(as.Lhs) != 1 || len(as.Rhs) != 1 {
				return true
			}
			if sel, ok := as.Lhs[0].(*ast.SelectorExpr); ok && sel.Sel.Name == "KnownReturn" && fieldOwner(info, sel) == qSource && exprStr(as.Rhs[0]) == "false" {
				store = as
			}
			return true
		})
		if store == nil {
			c.Bad(rule, "parseCall:known value cleared for argument-derived sources", pc.Decl.Pos(), "a source built for f(x) keeps KnownReturn/ReturnedNumber of x: `abs(vector(-1)) > 0` is judged as `-1 > 0` and reported as dead code")
		} else {
			// precedes the parsePromQLFunc call of the same loop body
			bad := ""
			if cc, sw := enclosingCase(pm, store); cc != nil && sw != nil {
				// default clause of a switch on the function name: exempt names must be pass-through
				if len(cc.List) != 0 {
					bad = "the store sits in a non-default case"
				}
				for _, st := range sw.Body.List {
					for _, e := range st.(*ast.CaseClause).List {
						if s, ok := constString(info, e); ok {
							if _, pt := passThrough[s]; !pt {
								bad = "function " + s + " is exempt although it changes values"
							}
						}
					}
				}
			} else if g := lexicalGuards(pm, store, pc.Decl.Body); len(g) > 0 {
				// only the enclosing value-type switch of parseCall may guard it
				for _, a := range g {
					if a.Tag != nil {
						continue
					}
					// `!slices.Contains(<package-level list of names>, n.Func.Name)`: the list is the exemption table
					ge, gt := ast.Unparen(a.E), a.Truth
					for {
						u, isU := ge.(*ast.UnaryExpr)
						if !isU || u.Op != token.NOT {
							break
						}
						ge, gt = ast.Unparen(u.X), !gt
					}
					if call, ok := ge.(*ast.CallExpr); ok && !gt && len(call.Args) == 2 {
						if fn := Callee(info, call); fn != nil && fn.Pkg() != nil && fn.Pkg().Path() == "slices" && fn.Name() == "Contains" {
							if v, isVar := objOf(info, call.Args[0]).(*types.Var); isVar && v.Pkg() != nil && v.Parent() == v.Pkg().Scope() {
								if names, _, okList := stringSliceVar(c.P, relPkg(v.Pkg().Path()), v.Name()); okList {
									for _, nm := range names {
										if _, pt := passThrough[nm]; !pt {
											bad = "function " + nm + " is exempt although it changes values"
										}
									}
									continue
								}
							}
						}
					}
					// the same exemption table spelled as comparisons: `name != "sort"` facts (a negated
					// `name == "sort" || …` chain, which is what a constant list look-up is read as)
					if be, isBin := ge.(*ast.BinaryExpr); isBin && (be.Op == token.EQL && !gt || be.Op == token.NEQ && gt) {
						if nm, isC := constString(info, be.Y); isC {
							if _, pt := passThrough[nm]; !pt {
								bad = "function " + nm + " is exempt although it changes values"
							}
							continue
						}
					}
					if be, isBin := ge.(*ast.BinaryExpr); isBin && be.Op == token.LOR && !gt {
						continue // the chain itself; its members are judged one by one
					}
					bad = "guarded by `" + exprStr(a.E) + "`"
				}
			}
			c.Check(bad == "", rule, "parseCall:known value cleared for argument-derived sources", store.Pos(), "cleared unless the function passes values through", bad)
		}
	}
	// (ii) unary minus
	if wn := c.MustFunc(rule, "internal/parser/utils.walkNode"); wn != nil {
		info := wn.Pkg.TypesInfo
		found, ok := false, false
		ast.Inspect(wn.Decl.Body, func(n ast.Node) bool {
			cc, isCC := n.(*ast.CaseClause)
			if !isCC || len(cc.List) != 1 {
				return true
			}
			if t := info.TypeOf(cc.List[0]); t == nil || typeQName(t) != promParserPath+".UnaryExpr" {
				return true
			}
			found = true
			for _, st := range cc.Body {
				ast.Inspect(st, func(m ast.Node) bool {
					as, isAs := m.(*ast.AssignStmt)
					if !isAs {
						return true
					}
					for _, l := range as.Lhs {
						if sel, isSel := l.(*ast.SelectorExpr); isSel && fieldOwner(info, sel) == qSource && (sel.Sel.Name == "ReturnedNumber" || sel.Sel.Name == "KnownReturn") {
							ok = true
						}
					}
					return true
				})
			}
			return false
		})
		c.Check(found && ok, rule, "walkNode:unary operator adjusts or forgets the known value", wn.Decl.Pos(), "ReturnedNumber negated / KnownReturn cleared",
			"the sources of a unary expression are forwarded unchanged: `-vector(1) < 0` is judged as `1 < 0` and reported as dead code")
	}
	// (iii) absent() does not inherit AlwaysReturns
	if pf := c.MustFunc(rule, "internal/parser/utils.parsePromQLFunc"); pf != nil {
		info := pf.Pkg.TypesInfo
		okAbsent := false
		ast.Inspect(pf.Decl.Body, func(n ast.Node) bool {
			cc, isCC := n.(*ast.CaseClause)
			if !isCC {
				return true
			}
			isAbsent := false
			for _, e := range cc.List {
				if s, ok := constString(info, e); ok && s == "absent" {
					isAbsent = true
				}
			}
			if !isAbsent {
				return true
			}
			for _, st := range cc.Body {
				if as, ok := st.(*ast.AssignStmt); ok && len(as.Lhs) == 1 && len(as.Rhs) == 1 {
					if sel, ok := as.Lhs[0].(*ast.SelectorExpr); ok && sel.Sel.Name == "AlwaysReturns" && fieldOwner(info, sel) == qSource && exprStr(as.Rhs[0]) == "false" {
						okAbsent = true
					}
				}
			}
			return false
		})
		c.Check(okAbsent, rule, "parsePromQLFunc:absent() does not inherit AlwaysReturns", pf.Decl.Pos(), "cleared",
			"the source built for absent(x) keeps AlwaysReturns of x although absent() returns something exactly when x does not: `absent(vector(1)) or foo` reports foo as dead code")
	}
}

// c04LostUpdates: a range statement hands out a COPY of each Source. A store
// to a field of that copy only matters if the copy is used afterwards in the
// same iteration (appended, passed on, assigned). A loop that only stores
// loses the update — e.g. "compute the conditions once per side" hoisted into
// its own loop leaves every source unconditional.
func c04LostUpdates(c *Ctx, rule string) {
	p := c.P
	up := p.Pkg("internal/parser/utils")
	if up == nil {
		return
	}
	info := up.TypesInfo
	n := 0
	for _, fi := range p.AllFuncs() {
		if fi.Pkg != up || fi.Decl.Body == nil || p.IsTestFile(fi.Decl.Pos()) {
			continue
		}
		seq := 0
		ast.Inspect(fi.Decl.Body, func(nd ast.Node) bool {
			rs, ok := nd.(*ast.RangeStmt)
			if !ok || rs.Value == nil {
				return true
			}
			vid, ok := rs.Value.(*ast.Ident)
			if !ok {
				return true
			}
			v := info.Defs[vid]
			if v == nil {
				v = info.Uses[vid]
			}
			if v == nil || typeQName(v.Type()) != qSource {
				return true
			}
			if _, isPtr := v.Type().(*types.Pointer); isPtr {
				return true
			}
			// last store to a field of v, and last whole-value use of v, in the body
			var lastStore, lastUse token.Pos
			var storeStmts []ast.Node
			var useIdents []ast.Node
			pm := parentMap(rs.Body)
			ast.Inspect(rs.Body, func(m ast.Node) bool {
				id, ok := m.(*ast.Ident)
				if !ok || info.Uses[id] != v {
					return true
				}
				par := pm[id]
				if sel, isSel := par.(*ast.SelectorExpr); isSel && sel.X == ast.Node(id) {
					// field access: a store if the selector is an assignment target
					if as, ok := pm[sel].(*ast.AssignStmt); ok {
						for _, l := range as.Lhs {
							// the right-hand side is evaluated before the store: only uses
							// after the whole statement count
							if l == ast.Expr(sel) {
								storeStmts = append(storeStmts, as)
							}
							if l == ast.Expr(sel) && as.End() > lastStore {
								lastStore = as.End()
							}
						}
					}
					return true
				}
				// whole value: skip pure assignment targets `v = …` / `v, x = …`
				if as, ok := par.(*ast.AssignStmt); ok {
					for _, l := range as.Lhs {
						if l == ast.Expr(id) {
							return true
						}
					}
				}
				useIdents = append(useIdents, id)
				if id.Pos() > lastUse {
					lastUse = id.Pos()
				}
				return true
			})
			if !lastStore.IsValid() {
				return true
			}
			n++
			seq++
			okUse := lastUse > lastStore
			if !okUse {
				// positions say nothing about code expanded from a helper (it all sits at the call):
				// ask the flow graph whether a whole-value use follows some store
				fl := p.NewFlow(fi)
				head := fl.loopHead(rs) // the next iteration has a fresh copy
				for _, st := range storeStmts {
					for _, sm := range fl.Find(func(x ast.Node) bool { return x == st }) {
						for _, u := range useIdents {
							target := u
							if r, _ := fl.Reach(sm.Site.After(), func(x Site) bool {
								found := false
								if nd := x.Node(); nd != nil {
									ast.Inspect(nd, func(y ast.Node) bool {
										if y == target {
											found = true
										}
										return !found
									})
								}
								return found
							}, false, PathQ{AvoidBlock: func(b *cfg.Block) bool { return head != nil && b == head }}); r {
								okUse = true
							}
						}
					}
				}
			}
			c.Check(okUse, rule, fi.Obj.Name()+":fields stored on range copy `"+vid.Name+"` #"+itoa(seq)+" are used afterwards", rs.Pos(), "copy is passed on after the store",
				"the loop stores into fields of `"+vid.Name+"`, which is a copy of the slice element, and never uses the copy afterwards: the update is lost and the sources keep their old attributes (conditional / dead / labels)")
			return true
		})
	}
	c.Check(n >= 10, rule, "range copies with field stores enumerated", token.NoPos, itoa(n), "implausibly few ("+itoa(n)+")")
}

// c12BoolModifier: with the `bool` modifier a comparison does not filter, it
// returns 0 or 1 for every sample; a static comparison may therefore declare
// dead code only when the modifier is absent. Each call of
// calculateStaticReturn must be guarded by (or be told about) n.ReturnBool.
func c12BoolModifier(c *Ctx, rule string) {
	fi := c.MustFunc(rule, "internal/parser/utils.parseBinOps")
	if fi == nil {
		return
	}
	info := fi.Pkg.TypesInfo
	pm := parentMap(fi.Decl.Body)
	n := 0
	ast.Inspect(fi.Decl.Body, func(nd ast.Node) bool {
		call, ok := nd.(*ast.CallExpr)
		if !ok || !isCallTo(info, call, "internal/parser/utils.calculateStaticReturn") {
			return true
		}
		n++
		labels, _ := contextOf(info, pm, call, fi.Decl.Body)
		aware := false
		for _, a := range call.Args {
			if strings.HasSuffix(exprStr(a), ".ReturnBool") {
				aware = true
			}
		}
		for _, g := range lexicalGuards(pm, call, fi.Decl.Body) {
			if strings.Contains(exprStr(g.E), ".ReturnBool") {
				aware = true
			}
		}
		c.Check(aware, rule, "parseBinOps:static comparison #"+itoa(n)+" ["+strings.Join(labels, "/")+"] knows about the bool modifier", call.Pos(), "guarded by / told about ReturnBool",
			"the constant comparison is evaluated without regard to the `bool` modifier: `1 > bool 5` is declared dead code (\"always evaluates to 1 > 5 which is not possible\") although with `bool` Prometheus returns 0")
		return true
	})
	c.Check(n >= 2, rule, "static comparison sites enumerated", fi.Decl.Pos(), itoa(n), "expected 2 calls of calculateStaticReturn, found "+itoa(n))
}

// c12PerNameInclusion: by(a, b) keeps each listed label that the inner
// expression still has, independently of the others. In maybeIncludeLabel the
// loop over the names therefore cannot be left early (return / break): one
// label that was removed further inside must not keep the others from being
// recorded, or the aggregation looks label-less and the other side of an
// on(...) join is reported as dead.
func c12PerNameInclusion(c *Ctx, rule string) {
	fi := c.MustFunc(rule, "internal/parser/utils.maybeIncludeLabel")
	if fi == nil {
		return
	}
	info := fi.Pkg.TypesInfo
	sig := fi.Obj.Type().(*types.Signature)
	var namesP types.Object
	if sig.Variadic() {
		namesP = sig.Params().At(sig.Params().Len() - 1)
	}
	var loop *ast.RangeStmt
	ast.Inspect(fi.Decl.Body, func(n ast.Node) bool {
		if rs, ok := n.(*ast.RangeStmt); ok && isObj(info, rs.X, namesP) && loop == nil {
			loop = rs
		}
		return true
	})
	if loop == nil {
		c.Undecided(rule, "maybeIncludeLabel:loop over the names", fi.Decl.Pos(), "not found")
		return
	}
	early := ""
	inspectNoLit(loop.Body, func(m ast.Node) bool {
		switch x := m.(type) {
		case *ast.ReturnStmt:
			early = "return"
		case *ast.BranchStmt:
			if x.Tok == token.BREAK || x.Tok == token.GOTO {
				early = x.Tok.String()
			}
		}
		return true
	})
	c.Check(early == "", rule, "maybeIncludeLabel:each name is decided on its own", loop.Pos(), "the loop over names is never left early",
		"the loop over the by(...) labels is left with `"+early+"` as soon as one label is found excluded: the remaining labels are not recorded as included, the aggregation is treated as carrying none of them, and joins on those labels are reported as dead code")
}

// c04NoExperimentalFlag: the function and aggregator tables (R2) are checked
// against the NON-experimental part of the vendored parser; a rule using an
// experimental function is a syntax error for pint exactly as it is for a
// default Prometheus. Nothing in the module (outside tests) may switch the
// parser's process-wide EnableExperimentalFunctions flag.
func c04NoExperimentalFlag(c *Ctx, rule string) {
	p := c.P
	bad := ""
	n := 0
	for _, fi := range p.AllFuncs() {
		if fi.Decl.Body == nil || p.IsTestFile(fi.Decl.Pos()) {
			continue
		}
		n++
		info := fi.Pkg.TypesInfo
		ast.Inspect(fi.Decl.Body, func(nd ast.Node) bool {
			as, ok := nd.(*ast.AssignStmt)
			if !ok {
				return true
			}
			for _, l := range as.Lhs {
				if o := objOf(info, l); o != nil && o.Pkg() != nil && o.Pkg().Path() == promParserPath && o.Name() == "EnableExperimentalFunctions" {
					bad = fi.Name + " at " + p.Pos(as.Pos())
				}
			}
			return true
		})
	}
	c.Check(bad == "", rule, "nothing enables the parser's experimental functions", token.NoPos, itoa(n)+" functions inspected",
		"promql/parser.EnableExperimentalFunctions is written in "+bad+": expressions a default Prometheus refuses to load are accepted, and functions the label analysis has no case for fall to its `unsupported` path (wrong label verdicts)")
}

// c04CanHaveLabelInputs: CanHaveLabel decides from the four label fields the
// narrowing table (R3) keeps track of. A verdict that consults any other field
// of Source is outside that table.
func c04CanHaveLabelInputs(c *Ctx, rule string) {
	fi := c.MustFunc(rule, "internal/parser/utils.Source.CanHaveLabel")
	if fi == nil {
		return
	}
	info := fi.Pkg.TypesInfo
	allowed := map[string]bool{"ExcludedLabels": true, "IncludedLabels": true, "GuaranteedLabels": true, "FixedLabels": true}
	other := ""
	seen := map[string]bool{}
	ast.Inspect(fi.Decl.Body, func(n ast.Node) bool {
		if sel, ok := n.(*ast.SelectorExpr); ok && fieldOwner(info, sel) == qSource {
			seen[sel.Sel.Name] = true
			if !allowed[sel.Sel.Name] {
				other = sel.Sel.Name
			}
		}
		return true
	})
	c.Check(other == "" && len(seen) == 4, rule, "CanHaveLabel:decides from the four tracked label fields only", fi.Decl.Pos(), strings.Join(sortedKeys(seen), ","),
		"CanHaveLabel consults Source."+other+" (or no longer all of Excluded/Included/Guaranteed/FixedLabels): a verdict that depends on state the narrowing table does not track — e.g. a flag set for vector() that later label-adding steps never clear makes `label_replace(vector(1), \"severity\", …)` lose its label")
}

// c04EveryBranchEmitted: every result branch computed by the transfer functions
// is emitted: an `src = append(src, x)` inside a loop over sources is not
// preceded, in that loop's body, by a statement that can skip the element, and
// is not guarded by a condition on what was already emitted.
func c04EveryBranchEmitted(c *Ctx, rule string) {
	n := 0
	for _, fname := range []string{"walkNode", "walkAggregation", "parseAggregation", "parseCall", "parseBinOps"} {
		fi := c.MustFunc(rule, "internal/parser/utils."+fname)
		if fi == nil {
			continue
		}
		info := fi.Pkg.TypesInfo
		pm := parentMap(fi.Decl.Body)
		var res types.Object
		if r := fi.Obj.Type().(*types.Signature).Results(); r.Len() > 0 {
			res = r.At(0)
		}
		seq := 0
		ast.Inspect(fi.Decl.Body, func(nd ast.Node) bool {
			as, ok := nd.(*ast.AssignStmt)
			if !ok || len(as.Lhs) != 1 || len(as.Rhs) != 1 || !isObj(info, as.Lhs[0], res) {
				return true
			}
			call, ok := as.Rhs[0].(*ast.CallExpr)
			if !ok || exprStr(call.Fun) != "append" {
				return true
			}
			var loop *ast.RangeStmt
			for cur := pm[ast.Node(as)]; cur != nil; cur = pm[cur] {
				if rs, ok := cur.(*ast.RangeStmt); ok {
					loop = rs
					break
				}
			}
			if loop == nil {
				return true
			}
			n++
			seq++
			bad := ""
			// a skip before the append in the same loop body whose guard looks at the result list
			ast.Inspect(loop.Body, func(m ast.Node) bool {
				br, ok := m.(*ast.BranchStmt)
				if !ok || br.Pos() > as.Pos() || (br.Tok != token.CONTINUE && br.Tok != token.BREAK) {
					return true
				}
				for _, a := range lexicalGuards(pm, br, loop.Body) {
					if mentionsObj(info, a.E, res) {
						bad = "skipped under `" + roleStr(info, a.E) + "`"
					}
				}
				return true
			})
			for _, a := range lexicalGuards(pm, as, loop.Body) {
				if mentionsObj(info, a.E, res) {
					bad = "guarded by `" + roleStr(info, a.E) + "`"
				}
			}
			c.Check(bad == "", rule, fname+":result branch #"+itoa(seq)+" is emitted whatever was emitted before", as.Pos(), "unconditional w.r.t. the result list",
				"a result branch is "+bad+", a condition on the sources already emitted: branches that merely look alike (same position: every source of one function argument has it) are dropped, so series they produce match no branch pint derived")
			return true
		})
	}
	c.Check(n >= 15, rule, "result-branch emissions enumerated", token.NoPos, itoa(n), "implausibly few ("+itoa(n)+")")
}

// c12SelectorLabelsConditional: the labels named by positive matchers of a
// selector are guaranteed on the selector itself (walkNode). Anywhere further
// out (function cases) they may be guaranteed again only if nothing in between
// removed them: the guaranteeLabel call that takes names from
// labelsFromSelectors is, outside walkNode, guarded by CanHaveLabel(name).
func c12SelectorLabelsConditional(c *Ctx, rule string) {
	p := c.P
	up := p.Pkg("internal/parser/utils")
	lfs := p.Func("internal/parser/utils.labelsFromSelectors")
	gl := p.Func("internal/parser/utils.guaranteeLabel")
	if up == nil || lfs == nil || gl == nil {
		c.Undecided(rule, "anchor:labelsFromSelectors/guaranteeLabel", token.NoPos, "not found")
		return
	}
	info := up.TypesInfo
	n := 0
	for _, fi := range p.AllFuncs() {
		if fi.Pkg != up || fi.Decl.Body == nil || p.IsTestFile(fi.Decl.Pos()) || fi.Obj.Name() == "walkNode" {
			continue
		}
		pm := parentMap(fi.Decl.Body)
		// names obtained from labelsFromSelectors: the call itself, or a range variable over it
		fromSel := func(e ast.Expr) bool {
			found := false
			ast.Inspect(e, func(m ast.Node) bool {
				switch x := m.(type) {
				case *ast.CallExpr:
					if Callee(info, x) == lfs.Obj {
						found = true
					}
				case *ast.Ident:
					if v, ok := info.Uses[x].(*types.Var); ok {
						ast.Inspect(fi.Decl.Body, func(k ast.Node) bool {
							if rs, ok := k.(*ast.RangeStmt); ok {
								if id, ok := rs.Value.(*ast.Ident); ok && info.Defs[id] == types.Object(v) {
									if call, ok := ast.Unparen(rs.X).(*ast.CallExpr); ok && Callee(info, call) == lfs.Obj {
										found = true
									}
								}
							}
							return true
						})
					}
				}
				return true
			})
			return found
		}
		ast.Inspect(fi.Decl.Body, func(nd ast.Node) bool {
			call, ok := nd.(*ast.CallExpr)
			if !ok || Callee(info, call) != gl.Obj || len(call.Args) < 2 {
				return true
			}
			uses := false
			for _, a := range call.Args[1:] {
				if fromSel(a) {
					uses = true
				}
			}
			if !uses {
				return true
			}
			n++
			if labels, _ := contextOf(info, pm, call, fi.Decl.Body); len(labels) > 0 && strings.Contains(labels[0], "absent") {
				// absent(m{l="v"}) creates its result's labels from the equality matchers: a stamp, not a re-guarantee
				c.Ok(rule, fi.Obj.Name()+":selector labels are re-guaranteed only while still possible #"+itoa(n)+" (absent: stamped)", call.Pos(), "absent() builds its labels from the selector")
				return true
			}
			guarded := false
			for _, a := range lexicalGuards(pm, call, fi.Decl.Body) {
				if g, ok := ast.Unparen(a.E).(*ast.CallExpr); ok && a.Truth && isCallTo(info, g, "internal/parser/utils.Source.CanHaveLabel") {
					guarded = true
				}
			}
			c.Check(guarded, rule, fi.Obj.Name()+":selector labels are re-guaranteed only while still possible #"+itoa(n), call.Pos(), "guarded by CanHaveLabel",
				"labels taken from the innermost selector's matchers are marked guaranteed (and cleared from ExcludedLabels) without asking whether an aggregation or join in between removed them: `abs(sum without(a)(foo{a=…}))` is believed to carry `a`, and a join with a side that lacks `a` too is reported as dead code")
			return true
		})
	}
	c.Check(n >= 1, rule, "selector-label guarantees outside walkNode enumerated", token.NoPos, itoa(n), "none found")
}

// c12PureAnalysis: the verdicts about a query are a function of the query
// text. Nothing reachable from parser.DecodeExpr or utils.LabelsSource writes
// package-level state: no assignment to a package-level variable, no element
// store into a package-level map/slice, no Store/Delete/Swap on a package-level
// sync.Map. A memo keyed by anything but the exact text (normalised white
// space, say) hands one rule the syntax tree of another.
func c12PureAnalysis(c *Ctx, rule string) {
	pureClosure(c, rule, "query parsing and label analysis keep no package-level state", "DecodeExpr and LabelsSource",
		"what pint concludes about one rule's query then depends on which queries were parsed before it — with a cache keyed by anything but the exact text, one rule is judged on another rule's syntax tree",
		"internal/parser.DecodeExpr", "internal/parser/utils.LabelsSource", "internal/parser.newPromQLExpr")
}

// pureClosure: nothing reachable from the named functions writes package-level state.
func pureClosure(c *Ctx, rule, key, what, consequence string, names ...string) {
	p := c.P
	var roots []*FuncInfo
	for _, nm := range names {
		roots = append(roots, p.Func(nm))
	}
	seen := map[*FuncInfo]bool{}
	var work []*FuncInfo
	for _, r := range roots {
		if r == nil {
			c.Undecided(rule, "anchor:"+what, token.NoPos, "not found")
			return
		}
		work = append(work, r)
	}
	bad := ""
	badPos := token.NoPos
	for len(work) > 0 {
		fi := work[len(work)-1]
		work = work[:len(work)-1]
		if seen[fi] || fi.Decl.Body == nil {
			continue
		}
		seen[fi] = true
		info := fi.Pkg.TypesInfo
		isPkgVar := func(e ast.Expr) *types.Var {
			id, ok := ast.Unparen(e).(*ast.Ident)
			if !ok {
				if sel, isSel := ast.Unparen(e).(*ast.SelectorExpr); isSel {
					if _, isPkg := info.Uses[identOf(sel.X)].(*types.PkgName); isPkg {
						id = sel.Sel
					}
				}
			}
			if id == nil {
				return nil
			}
			v, ok := info.Uses[id].(*types.Var)
			if !ok || v.IsField() || v.Pkg() == nil || v.Parent() != v.Pkg().Scope() || !strings.HasPrefix(v.Pkg().Path(), ModPath) {
				return nil
			}
			return v
		}
		ast.Inspect(fi.Decl.Body, func(n ast.Node) bool {
			switch x := n.(type) {
			case *ast.AssignStmt:
				for _, l := range x.Lhs {
					root := l
					for {
						switch y := ast.Unparen(root).(type) {
						case *ast.IndexExpr:
							root = y.X
							continue
						case *ast.SelectorExpr:
							if _, isPkg := info.Uses[identOf(y.X)].(*types.PkgName); !isPkg {
								root = y.X
								continue
							}
						}
						break
					}
					if v := isPkgVar(root); v != nil {
						bad = fi.Name + " writes " + v.Name()
						badPos = x.Pos()
					}
				}
			case *ast.CallExpr:
				if sel, ok := x.Fun.(*ast.SelectorExpr); ok {
					if v := isPkgVar(sel.X); v != nil {
						switch sel.Sel.Name {
						case "Store", "LoadOrStore", "LoadAndDelete", "Delete", "Swap", "CompareAndSwap", "CompareAndDelete", "Clear", "Add", "Put", "Get":
							bad = fi.Name + " calls " + v.Name() + "." + sel.Sel.Name
							badPos = x.Pos()
						}
					}
				}
				if fn := Callee(info, x); fn != nil {
					if cf := p.FuncOf(fn); cf != nil && !seen[cf] {
						work = append(work, cf)
					}
				}
			}
			return true
		})
	}
	c.Check(bad == "", rule, key, badPos, itoa(len(seen))+" functions reachable from "+what,
		"package-level state is written on this path ("+bad+"): "+consequence)
}

func identOf(e ast.Expr) *ast.Ident {
	id, _ := ast.Unparen(e).(*ast.Ident)
	return id
}

// c04SetAppend: the label lists of a Source are sets. appendToSlice is the one
// place that adds to them, and every append it makes is guarded by
// !slices.Contains(dst, v) for the very element appended. A duplicate entry
// survives the single removal that includeLabel / removeFromSlice perform, so a
// label that was excluded twice (`without(a, b, a)`) stays excluded after it is
// re-added and a template using it gets a false `non-existent label` report.
func c04SetAppend(c *Ctx, rule string) {
	fi := c.MustFunc(rule, "internal/parser/utils.appendToSlice")
	if fi == nil {
		return
	}
	info := fi.Pkg.TypesInfo
	pm := parentMap(fi.Decl.Body)
	dst := paramObj(fi, 0)
	n, bad := 0, ""
	ast.Inspect(fi.Decl.Body, func(nd ast.Node) bool {
		call, ok := nd.(*ast.CallExpr)
		if !ok || exprStr(call.Fun) != "append" || len(call.Args) < 2 || objOf(info, call.Args[0]) != dst {
			return true
		}
		n++
		if call.Ellipsis.IsValid() {
			bad = "append(dst, values...) adds a whole list unchecked"
			return true
		}
		for _, v := range call.Args[1:] {
			guarded := false
			for _, a := range lexicalGuards(pm, call, fi.Decl.Body) {
				e, t := ast.Unparen(a.E), a.Truth
				for {
					u, isU := e.(*ast.UnaryExpr)
					if !isU || u.Op != token.NOT {
						break
					}
					e, t = ast.Unparen(u.X), !t
				}
				g, isCall := e.(*ast.CallExpr)
				if !isCall || t || len(g.Args) != 2 {
					continue
				}
				if fn := Callee(info, g); fn != nil && fn.Pkg() != nil && fn.Pkg().Path() == "slices" && fn.Name() == "Contains" && objOf(info, g.Args[0]) == dst && exprIdentity(info, g.Args[1]) == exprIdentity(info, v) {
					guarded = true
				}
			}
			if !guarded {
				bad = "`" + roleStr(info, v) + "` is appended without a membership test"
			}
		}
		return true
	})
	// … and the list it hands back is the one it filled under that test: a shortcut that returns
	// anything else (a copy of the names it was given when the list is still empty) skips the test
	for _, r := range returnsIn(fi.Decl.Body.List) {
		if len(r.Results) == 1 && !isNilIdent(info, r.Results[0]) && objOf(info, r.Results[0]) != paramObj(fi, 0) {
			bad = "returns `" + exprStr(r.Results[0]) + "` instead of the list it filled"
		}
	}
	c.Check(n >= 1 && bad == "", rule, "appendToSlice:never adds an element that is already there", fi.Decl.Pos(), itoa(n)+" append(s), each under !slices.Contains(dst, v)",
		"appendToSlice can store a duplicate ("+bad+"): the label lists are treated as sets everywhere else (one removal per name), so a label listed twice in without(...)/ignoring(...) stays excluded after a later step re-adds it")
}

// c04ListHelpersOwnResult: what appendToSlice / removeFromSlice hand back is the
// first list (grown, cloned or as it is), nil, or fresh storage — never another
// parameter (the names passed in are the parsed query's own on(...)/by(...)
// list), and never a two-index reslice of the first list (which keeps the
// caller's spare capacity: the next append writes into the caller's array).
// And restrictIncludedLabels / restrictGuaranteedLabels have no exit in front
// of the loop that filters the list, except for an empty list.
func c04ListHelpersOwnResult(c *Ctx, rule string) {
	for _, h := range []string{"internal/parser/utils.appendToSlice", "internal/parser/utils.removeFromSlice"} {
		hf := c.MustFunc(rule, h)
		if hf == nil {
			continue
		}
		info := hf.Pkg.TypesInfo
		sig := hf.Obj.Type().(*types.Signature)
		others := map[types.Object]bool{}
		for i := 1; i < sig.Params().Len(); i++ {
			others[sig.Params().At(i)] = true
		}
		first := paramObj(hf, 0)
		foreign, reslice := "", ""
		for _, r := range returnsIn(hf.Decl.Body.List) {
			for _, e := range r.Results {
				x := ast.Unparen(e)
				if se, ok := x.(*ast.SliceExpr); ok {
					x = ast.Unparen(se.X)
				}
				if id, ok := x.(*ast.Ident); ok && others[info.Uses[id]] {
					foreign = exprStr(e)
				}
			}
		}
		ast.Inspect(hf.Decl.Body, func(n ast.Node) bool {
			switch x := n.(type) {
			case *ast.AssignStmt:
				// first = <other parameter>
				for i, l := range x.Lhs {
					if isObj(info, l, first) && i < len(x.Rhs) {
						r := ast.Unparen(x.Rhs[i])
						if se, ok := r.(*ast.SliceExpr); ok {
							r = ast.Unparen(se.X)
						}
						if id, ok := r.(*ast.Ident); ok && others[info.Uses[id]] {
							foreign = exprStr(x)
						}
					}
				}
			case *ast.SliceExpr:
				if isObj(info, x.X, first) && !x.Slice3 {
					reslice = exprStr(x)
				}
			}
			return true
		})
		c.Check(foreign == "", rule, hf.Obj.Name()+":result is never another argument's storage", hf.Decl.Pos(), "grows out of the first list",
			"`"+foreign+"` hands back the list of names it was given: for on(...)/by(...)/without(...) that is the parsed query's own label list, so the Source shares it and a later edit of the Source rewrites the query every other check walks")
		c.Check(reslice == "", rule, hf.Obj.Name()+":no reslice that keeps the caller's spare capacity", hf.Decl.Pos(), "clone or three-index slice",
			"`"+reslice+"` keeps the backing array and its spare capacity: the next append to the result overwrites an element the caller (another copy of the Source, or the parsed query) still reads")
	}
	for _, pair := range [][2]string{{"restrictIncludedLabels", "IncludedLabels"}, {"restrictGuaranteedLabels", "GuaranteedLabels"}} {
		fi := c.MustFunc(rule, "internal/parser/utils."+pair[0])
		if fi == nil {
			continue
		}
		info := fi.Pkg.TypesInfo
		pm := parentMap(fi.Decl.Body)
		var loop *ast.RangeStmt
		ast.Inspect(fi.Decl.Body, func(n ast.Node) bool {
			if rs, ok := n.(*ast.RangeStmt); ok && loop == nil && fieldSel(info, rs.X, qSource, pair[1]) {
				loop = rs
			}
			return true
		})
		if loop == nil {
			// another shape (slices.DeleteFunc on a clone, …): not decided here
			c.Ok(rule, pair[0]+":no exit in front of the filter", fi.Decl.Pos(), "no range loop over the list; rule not applicable")
			continue
		}
		bad := ""
		for _, r := range returnsIn(fi.Decl.Body.List) {
			if r.Pos() > loop.Pos() {
				continue
			}
			okEmpty := false
			for _, g := range lexicalGuards(pm, r, fi.Decl.Body) {
				txt := roleStr(info, g.E)
				if g.Truth && (strings.Contains(txt, "len(") && strings.Contains(txt, "== 0") || strings.Contains(txt, "== nil")) && strings.Contains(exprStr(g.E), pair[1]) {
					okEmpty = true
				}
			}
			if !okEmpty {
				bad = "return at " + c.P.Pos(r.Pos())
			}
		}
		c.Check(bad == "", rule, pair[0]+":no exit in front of the filter", fi.Decl.Pos(), "every listed label is compared with the allowed names",
			bad+" leaves "+pair[0]+" before the list was filtered: labels that by(...)/on(...) removed stay possible (or guaranteed), so a later on(x) join is judged on labels the operands cannot have and a live branch is reported dead")
	}
}

// c12OnLabelsOnlyIfPossible: matching on a label does not create it. The labels
// named by on(...) are re-admitted to the result of a binary operation (taken
// off ExcludedLabels, put on IncludedLabels) only for names the operand could
// have before the operation: `sum without(a)(x) + on(a) sum without(a)(y)` has
// no `a`, and an outer `… and on(a) sum without(a)(z)` joins on the missing
// label. Every call of an un-excluding helper (includeLabel, guaranteeLabel)
// that is fed from VectorMatching.MatchingLabels — directly, or through the
// name parameter of a helper of this package — therefore stands under
// `<operand>.CanHaveLabel(name)` for the very name it re-admits.
func c12OnLabelsOnlyIfPossible(c *Ctx, rule string) {
	p := c.P
	up := p.Pkg("internal/parser/utils")
	if up == nil {
		return
	}
	info := up.TypesInfo
	unexclude := map[string]bool{"internal/parser/utils.includeLabel": true, "internal/parser/utils.guaranteeLabel": true}
	isMatching := func(e ast.Expr) bool {
		return fieldSel(info, e, "github.com/prometheus/prometheus/promql/parser.VectorMatching", "MatchingLabels")
	}
	// guarded(call, nameObj): call stands under X.CanHaveLabel(name) == true for that name
	guarded := func(fi *FuncInfo, call *ast.CallExpr, name types.Object) bool {
		for _, g := range lexicalGuards(parentMap(fi.Decl.Body), call, fi.Decl.Body) {
			gc, ok := ast.Unparen(g.E).(*ast.CallExpr)
			if !ok || !g.Truth || len(gc.Args) != 1 {
				continue
			}
			if fn := Callee(info, gc); fn != nil && fn.Name() == "CanHaveLabel" && objOf(info, gc.Args[0]) == name && name != nil {
				return true
			}
		}
		return false
	}
	n := 0
	var visit func(fi *FuncInfo, names types.Object, depth int)
	// names == nil: look for MatchingLabels expressions; else: look for uses of the parameter `names`
	visit = func(fi *FuncInfo, names types.Object, depth int) {
		if depth > 3 || fi.Decl.Body == nil {
			return
		}
		fromList := func(e ast.Expr) bool {
			if names == nil {
				return isMatching(e)
			}
			return objOf(info, e) == names
		}
		// element variables of loops over the list
		elems := map[types.Object]bool{}
		ast.Inspect(fi.Decl.Body, func(nd ast.Node) bool {
			if rs, ok := nd.(*ast.RangeStmt); ok && fromList(rs.X) && rs.Value != nil {
				if o := objOf(info, rs.Value); o != nil {
					elems[o] = true
				}
			}
			return true
		})
		ast.Inspect(fi.Decl.Body, func(nd ast.Node) bool {
			call, ok := nd.(*ast.CallExpr)
			if !ok {
				return true
			}
			fn := Callee(info, call)
			if fn == nil || fn.Pkg() == nil || fn.Pkg() != up.Types {
				return true
			}
			q := funcQName(fn)
			for i, a := range call.Args {
				whole := fromList(a)
				elem := elems[objOf(info, a)]
				if !whole && !elem {
					continue
				}
				switch {
				case unexclude[q]:
					n++
					key := strings.TrimPrefix(fi.Name, "internal/parser/utils.") + ":" + fn.Name() + " of on(...) labels#" + itoa(n)
					okc := elem && guarded(fi, call, objOf(info, a))
					c.Check(okc, rule, key, call.Pos(), "under CanHaveLabel(name)",
						"`"+exprStr(call)+"` re-admits labels named by on(...) without asking whether the operand could have them: `sum without(a)(x) + on(a) sum without(a)(y)` is then believed to carry `a`, and an outer `and on(a)`/`* on(a)` against a side without `a` is reported as dead code although both sides lack the label and match")
				default:
					// a helper of the package that receives the list (or one name): follow its parameter
					if hf := p.FuncOf(fn); hf != nil && hf != fi {
						sig := fn.Type().(*types.Signature)
						pi := i
						if pi >= sig.Params().Len() {
							pi = sig.Params().Len() - 1
						}
						if pi >= 0 {
							visit(hf, sig.Params().At(pi), depth+1)
						}
					}
				}
			}
			return true
		})
	}
	pb := c.MustFunc(rule, "internal/parser/utils.parseBinOps")
	if pb == nil {
		return
	}
	visit(pb, nil, 0)
	c.Check(n >= 1, rule, "parseBinOps:on(...) labels re-admitted somewhere", pb.Decl.Pos(), itoa(n), "no includeLabel fed from VectorMatching.MatchingLabels found")
}

// localSetSource recognises a local map used as a set of the elements of one list: every store into it is
// `m[v] = …` in the body of `for _, v := range L` (one such loop), and it is not handed to anything. It
// returns L, or nil.
func localSetSource(info *types.Info, body *ast.BlockStmt, m types.Object) ast.Expr {
	mv, ok := m.(*types.Var)
	if !ok || mv.IsField() || mv.Parent() == nil || mv.Pkg() == nil || mv.Parent() == mv.Pkg().Scope() {
		return nil
	}
	if _, isMap := mv.Type().Underlying().(*types.Map); !isMap {
		return nil
	}
	pm := parentMap(body)
	var src ast.Expr
	bad := false
	ast.Inspect(body, func(n ast.Node) bool {
		switch x := n.(type) {
		case *ast.AssignStmt:
			for i, l := range x.Lhs {
				if objOf(info, l) == m {
					// the definition: make(...) or an empty literal
					if i < len(x.Rhs) {
						switch r := ast.Unparen(x.Rhs[i]).(type) {
						case *ast.CallExpr:
							if id, ok := r.Fun.(*ast.Ident); !ok || id.Name != "make" {
								bad = true
							}
						case *ast.CompositeLit:
							if len(r.Elts) != 0 {
								bad = true
							}
						default:
							bad = true
						}
					}
					continue
				}
				ix, isIx := ast.Unparen(l).(*ast.IndexExpr)
				if !isIx || objOf(info, ix.X) != m {
					continue
				}
				var loop *ast.RangeStmt
				for cur := pm[ast.Node(x)]; cur != nil; cur = pm[cur] {
					if r, ok := cur.(*ast.RangeStmt); ok {
						loop = r
						break
					}
				}
				if loop == nil || loop.Value == nil || info.Defs[identOf(loop.Value)] == nil || objOf(info, ix.Index) != info.Defs[identOf(loop.Value)] || (src != nil && src != loop.X) {
					bad = true
					continue
				}
				src = loop.X
			}
		case *ast.CallExpr:
			for _, a := range x.Args {
				if objOf(info, a) == m {
					if id, ok := x.Fun.(*ast.Ident); !ok || (id.Name != "len" && id.Name != "delete") {
						bad = true
					} else if id.Name == "delete" {
						bad = true
					}
				}
			}
		}
		return true
	})
	if bad {
		return nil
	}
	return src
}
