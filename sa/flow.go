package main

import (
	"go/ast"
	"go/token"
	"go/types"

	"golang.org/x/tools/go/cfg"
)

// Flow is the control-flow graph of one function body with helpers for
// path queries. go/cfg does not split short-circuit conditions, so edge facts
// are derived from the condition expression by implied().
type Flow struct {
	P       *Prog
	FI      *FuncInfo
	Info    *types.Info
	G       *cfg.CFG
	Body    *ast.BlockStmt
	caseTag map[ast.Expr]ast.Expr // case expression -> switch tag (nil = tagless)
	isCase  map[ast.Expr]bool
}

// Site is a node position inside a block.
type Site struct {
	B *cfg.Block
	I int
}

// Node returns the AST node at the site.
func (s Site) Node() ast.Node { return s.B.Nodes[s.I] }

// Atom is a fact carried by a CFG edge: expression E (or Tag == E for a
// tagged switch) evaluated to Truth.
type Atom struct {
	E     ast.Expr
	Tag   ast.Expr
	Truth bool
}

func noReturnCall(info *types.Info) func(*ast.CallExpr) bool {
	return func(call *ast.CallExpr) bool {
		if id, ok := ast.Unparen(call.Fun).(*ast.Ident); ok && id.Name == "panic" {
			if _, isBuiltin := info.Uses[id].(*types.Builtin); isBuiltin {
				return false
			}
		}
		if fn := Callee(info, call); fn != nil && fn.Pkg() != nil {
			switch fn.Pkg().Path() + "." + fn.Name() {
			case "os.Exit", "log.Fatal", "log.Fatalf", "log.Fatalln", "log.Panic", "log.Panicf", "runtime.Goexit":
				return false
			}
		}
		return true
	}
}

// NewFlow builds the CFG of a function declaration body.
func (p *Prog) NewFlow(fi *FuncInfo) *Flow {
	return p.newFlow(fi, fi.Decl.Body)
}

// NewFlowLit builds the CFG of a function literal inside fi.
func (p *Prog) NewFlowLit(fi *FuncInfo, lit *ast.FuncLit) *Flow {
	return p.newFlow(fi, lit.Body)
}

func (p *Prog) newFlow(fi *FuncInfo, body *ast.BlockStmt) *Flow {
	info := fi.Pkg.TypesInfo
	f := &Flow{P: p, FI: fi, Info: info, Body: body, caseTag: map[ast.Expr]ast.Expr{}, isCase: map[ast.Expr]bool{}}
	f.G = cfg.New(body, noReturnCall(info))
	inspectNoLit(body, func(n ast.Node) bool {
		if s, ok := n.(*ast.SwitchStmt); ok {
			for _, st := range s.Body.List {
				cc := st.(*ast.CaseClause)
				for _, e := range cc.List {
					f.caseTag[e] = s.Tag
					f.isCase[e] = true
				}
			}
		}
		return true
	})
	return f
}

// Entry is the first site of the function.
func (f *Flow) Entry() Site { return Site{f.G.Blocks[0], 0} }

// condOf returns the branching condition of block b, if b ends in a
// two-way branch on an expression.
func (f *Flow) condOf(b *cfg.Block) (cond ast.Expr, tag ast.Expr, ok bool) {
	if len(b.Succs) != 2 || len(b.Nodes) == 0 {
		return nil, nil, false
	}
	e, isExpr := b.Nodes[len(b.Nodes)-1].(ast.Expr)
	if !isExpr {
		return nil, nil, false
	}
	switch b.Succs[0].Kind {
	case cfg.KindIfThen, cfg.KindForBody:
		return e, nil, true
	case cfg.KindSwitchCaseBody:
		if f.isCase[e] {
			return e, f.caseTag[e], true
		}
	}
	return nil, nil, false
}

// implied lists the atomic facts known when cond evaluated to truth.
func implied(cond ast.Expr, tag ast.Expr, truth bool) []Atom {
	out := []Atom{{E: cond, Tag: tag, Truth: truth}}
	if tag != nil {
		return out
	}
	switch x := cond.(type) {
	case *ast.ParenExpr:
		out = append(out, implied(x.X, nil, truth)...)
	case *ast.UnaryExpr:
		if x.Op == token.NOT {
			out = append(out, implied(x.X, nil, !truth)...)
		}
	case *ast.BinaryExpr:
		if (x.Op == token.LAND && truth) || (x.Op == token.LOR && !truth) {
			out = append(out, implied(x.X, nil, truth)...)
			out = append(out, implied(x.Y, nil, truth)...)
		} else if x.Op == token.LOR || x.Op == token.LAND {
			// one of two alternatives holds: what both of them establish holds
			out = append(out, commonAtoms(implied(x.X, nil, truth), implied(x.Y, nil, truth))...)
		}
	}
	return out
}

// commonAtoms: the facts of a that b establishes too (same text, same truth).
func commonAtoms(a, b []Atom) []Atom {
	have := map[string]bool{}
	for _, y := range b {
		if y.Tag == nil {
			have[exprStr(y.E)+"|"+boolStr(y.Truth)] = true
		}
	}
	var out []Atom
	for _, x := range a {
		if x.Tag == nil && have[exprStr(x.E)+"|"+boolStr(x.Truth)] {
			out = append(out, x)
		}
	}
	return out
}

// EdgeAtoms returns the facts carried by the edge b -> b.Succs[k].
func (f *Flow) EdgeAtoms(b *cfg.Block, k int) []Atom {
	cond, tag, ok := f.condOf(b)
	if !ok {
		return nil
	}
	return implied(cond, tag, k == 0)
}

// WithinExprAtoms returns the facts established by short-circuit evaluation
// on the way from root down to target (target must be inside root).
func WithinExprAtoms(root ast.Node, target ast.Node) []Atom {
	var out []Atom
	var walk func(n ast.Node) bool // returns true if target inside n
	// structural containment (not by position: Prog.normalise exchanges the
	// operands of comparisons in place, so positions inside them are not ordered)
	contains := func(n ast.Node) bool {
		if n == nil {
			return false
		}
		found := false
		ast.Inspect(n, func(m ast.Node) bool {
			if m == target {
				found = true
			}
			return !found
		})
		return found
	}
	walk = func(n ast.Node) bool {
		if !contains(n) {
			return false
		}
		if b, ok := n.(*ast.BinaryExpr); ok && (b.Op == token.LAND || b.Op == token.LOR) {
			if contains(b.Y) {
				out = append(out, implied(b.X, nil, b.Op == token.LAND)...)
				walk(b.Y)
				return true
			}
			walk(b.X)
			return true
		}
		ast.Inspect(n, func(m ast.Node) bool {
			if m == nil || m == n {
				return true
			}
			if _, isLit := m.(*ast.FuncLit); isLit {
				return false
			}
			if contains(m) {
				walk(m)
				return false
			}
			return true
		})
		return true
	}
	walk(root)
	return out
}

// Find returns the sites whose node contains (outside function literals) a
// node accepted by m. The matched inner node is returned alongside.
func (f *Flow) Find(m func(ast.Node) bool) []SiteMatch {
	var out []SiteMatch
	for _, b := range f.G.Blocks {
		if !b.Live {
			continue
		}
		for i, n := range b.Nodes {
			inspectNoLit(n, func(x ast.Node) bool {
				if m(x) {
					out = append(out, SiteMatch{Site{b, i}, x})
				}
				return true
			})
		}
	}
	return out
}

// SiteMatch is a site together with the inner node that matched.
type SiteMatch struct {
	Site
	Inner ast.Node
}

// FindCalls returns sites calling any of the named functions.
func (f *Flow) FindCalls(names ...string) []SiteMatch {
	return f.Find(func(n ast.Node) bool {
		c, ok := n.(*ast.CallExpr)
		return ok && isCallTo(f.Info, c, names...)
	})
}

// PathQ restricts a reachability query.
type PathQ struct {
	// Avoid blocks a path at a node (the node is not traversed).
	Avoid func(n ast.Node) bool
	// Cut removes an edge carrying these facts.
	Cut func(atoms []Atom) bool
	// ToBlock, if set, makes arrival at this block (even if it has no
	// nodes, e.g. a loop head) count as reaching the target.
	ToBlock *cfg.Block
	// AvoidBlock blocks a path at the entry of a block (e.g. the head of an
	// enclosing loop, to stay within one iteration).
	AvoidBlock func(*cfg.Block) bool
}

// Reach reports whether some path starting at `from` (inclusive) reaches a
// node accepted by target, or — if exitIsTarget — a normal function exit
// (return statement or falling off the end).
func (f *Flow) Reach(from Site, target func(Site) bool, exitIsTarget bool, q PathQ) (bool, Site) {
	type item struct {
		b *cfg.Block
		i int
	}
	seen := map[*cfg.Block]bool{}
	work := []item{{from.B, from.I}}
	for len(work) > 0 {
		it := work[len(work)-1]
		work = work[:len(work)-1]
		blocked := false
		for j := it.i; j < len(it.b.Nodes); j++ {
			s := Site{it.b, j}
			if target != nil && target(s) {
				return true, s
			}
			if q.Avoid != nil && q.Avoid(it.b.Nodes[j]) {
				blocked = true
				break
			}
			if exitIsTarget {
				if _, isRet := it.b.Nodes[j].(*ast.ReturnStmt); isRet {
					return true, s
				}
			}
		}
		if blocked {
			continue
		}
		if len(it.b.Succs) == 0 {
			if exitIsTarget && f.isNormalExit(it.b) {
				return true, Site{it.b, len(it.b.Nodes)}
			}
			continue
		}
		for k, succ := range it.b.Succs {
			if q.Cut != nil {
				if atoms := f.EdgeAtoms(it.b, k); atoms != nil && q.Cut(atoms) {
					continue
				}
			}
			if q.ToBlock != nil && succ == q.ToBlock {
				return true, Site{succ, 0}
			}
			if q.AvoidBlock != nil && q.AvoidBlock(succ) {
				continue
			}
			if !seen[succ] {
				seen[succ] = true
				work = append(work, item{succ, 0})
			}
		}
	}
	return false, Site{}
}

// isNormalExit: a successor-less block that is not terminated by a
// no-return call.
func (f *Flow) isNormalExit(b *cfg.Block) bool {
	if len(b.Nodes) == 0 {
		return true
	}
	last := b.Nodes[len(b.Nodes)-1]
	if es, ok := last.(*ast.ExprStmt); ok {
		if call, ok := es.X.(*ast.CallExpr); ok && !noReturnCall(f.Info)(call) {
			return false
		}
	}
	return true
}

// After returns the site following s.
func (s Site) After() Site { return Site{s.B, s.I + 1} }

// Dominated reports whether every path from the function entry to site s
// crosses an edge (or short-circuit step inside s's own node, towards inner)
// carrying a fact accepted by est.
func (f *Flow) Dominated(s Site, inner ast.Node, est func(Atom) bool) bool {
	if inner != nil && s.I < len(s.B.Nodes) {
		for _, a := range WithinExprAtoms(s.B.Nodes[s.I], inner) {
			if est(a) {
				return true
			}
		}
	}
	reach, _ := f.Reach(f.Entry(), func(x Site) bool { return x == s }, false, PathQ{
		Cut: func(atoms []Atom) bool {
			for _, a := range atoms {
				if est(a) {
					return true
				}
			}
			return false
		},
	})
	return !reach
}

// MustPass reports whether every path from `from` to a site accepted by
// `to` (or to a normal exit, if toExit) passes a node accepted by `via`.
func (f *Flow) MustPass(from Site, to func(Site) bool, toExit bool, via func(ast.Node) bool) (bool, Site) {
	reach, at := f.Reach(from, to, toExit, PathQ{Avoid: via})
	return !reach, at
}

// containsCall reports whether node n (outside function literals) calls one
// of the named functions.
func (f *Flow) containsCall(n ast.Node, names ...string) bool {
	found := false
	inspectNoLit(n, func(x ast.Node) bool {
		if c, ok := x.(*ast.CallExpr); ok && isCallTo(f.Info, c, names...) {
			found = true
		}
		return !found
	})
	return found
}

// nilAtom recognises `X == nil` / `X != nil` facts about an access path:
// returns (expr X, isNil, ok).
func nilAtom(info *types.Info, a Atom) (ast.Expr, bool, bool) {
	if a.Tag != nil {
		return nil, false, false
	}
	b, ok := ast.Unparen(a.E).(*ast.BinaryExpr)
	if !ok || (b.Op != token.EQL && b.Op != token.NEQ) {
		return nil, false, false
	}
	var x ast.Expr
	if isNilIdent(info, b.Y) {
		x = b.X
	} else if isNilIdent(info, b.X) {
		x = b.Y
	} else {
		return nil, false, false
	}
	isNil := (b.Op == token.EQL) == a.Truth
	return x, isNil, true
}

func isNilIdent(info *types.Info, e ast.Expr) bool {
	id, ok := ast.Unparen(e).(*ast.Ident)
	if !ok || id.Name != "nil" {
		return false
	}
	_, isNil := info.Uses[id].(*types.Nil)
	return isNil
}

// lexicalGuards collects the facts established by the if statements and
// tagless/tagged switch cases that lexically enclose n, up to (excluding)
// stop. Used for statements go/cfg does not materialise as nodes
// (continue, break, goto).
func lexicalGuards(pm map[ast.Node]ast.Node, n ast.Node, stop ast.Node) []Atom {
	var out []Atom
	child := n
	for cur := pm[n]; cur != nil && cur != stop; child, cur = cur, pm[cur] {
		switch x := cur.(type) {
		case *ast.IfStmt:
			if child == x.Body {
				out = append(out, implied(x.Cond, nil, true)...)
			} else if child == x.Else {
				out = append(out, implied(x.Cond, nil, false)...)
			}
		case *ast.CaseClause:
			var sw *ast.SwitchStmt
			if blk, ok := pm[x].(*ast.BlockStmt); ok {
				sw, _ = pm[blk].(*ast.SwitchStmt)
			}
			if sw == nil {
				break
			}
			if len(x.List) == 1 {
				out = append(out, implied(x.List[0], sw.Tag, true)...)
			} else if len(x.List) > 1 && sw.Tag == nil {
				// `case a, b:` of a tagless switch: one of them holds
				common := implied(x.List[0], nil, true)
				for _, e := range x.List[1:] {
					common = commonAtoms(common, implied(e, nil, true))
				}
				out = append(out, common...)
			}
			// first-match semantics of a tagless switch: every earlier case was false
			if sw.Tag == nil {
				for _, st := range sw.Body.List {
					prev := st.(*ast.CaseClause)
					if prev == x {
						break
					}
					for _, e := range prev.List {
						out = append(out, implied(e, nil, false)...)
					}
				}
			}
		}
	}
	return out
}

// earlyExitGuards adds to lexicalGuards what earlier statements of the enclosing blocks establish by
// leaving: after `if c { …; return }` (or continue, break, goto, panic as the last statement, no else) c is
// false. The operands of c must not be assigned between that if and n.
func earlyExitGuards(info *types.Info, pm map[ast.Node]ast.Node, n ast.Node, stop ast.Node) []Atom {
	out := lexicalGuards(pm, n, stop)
	leaves := func(b *ast.BlockStmt) bool {
		if b == nil || len(b.List) == 0 {
			return false
		}
		switch x := b.List[len(b.List)-1].(type) {
		case *ast.ReturnStmt:
			return true
		case *ast.BranchStmt:
			return x.Tok != token.FALLTHROUGH
		case *ast.ExprStmt:
			if call, ok := x.X.(*ast.CallExpr); ok {
				if id, ok := call.Fun.(*ast.Ident); ok && id.Name == "panic" {
					_, isB := info.Uses[id].(*types.Builtin)
					return isB
				}
			}
		}
		return false
	}
	child := n
	for cur := pm[n]; cur != nil && cur != stop; child, cur = cur, pm[cur] {
		var list []ast.Stmt
		switch x := cur.(type) {
		case *ast.BlockStmt:
			list = x.List
		case *ast.CaseClause:
			list = x.Body
		default:
			continue
		}
		at := -1
		for i, st := range list {
			if ast.Node(st) == child {
				at = i
			}
		}
		for i := 0; i < at; i++ {
			ifs, ok := list[i].(*ast.IfStmt)
			if !ok || ifs.Else != nil || ifs.Init != nil || !leaves(ifs.Body) {
				continue
			}
			// nothing the condition reads is written in between
			reads := map[types.Object]bool{}
			ast.Inspect(ifs.Cond, func(m ast.Node) bool {
				if id, ok := m.(*ast.Ident); ok {
					if o := info.Uses[id]; o != nil {
						reads[o] = true
					}
				}
				return true
			})
			written := false
			for _, st := range list[i+1 : at] {
				ast.Inspect(st, func(m ast.Node) bool {
					switch y := m.(type) {
					case *ast.AssignStmt:
						for _, l := range y.Lhs {
							if root, _, ok := accessPath(info, l); ok && reads[root] {
								written = true
							} else if o := objOf(info, l); o != nil && reads[o] {
								written = true
							}
						}
					case *ast.IncDecStmt:
						if o := objOf(info, y.X); o != nil && reads[o] {
							written = true
						}
					case *ast.UnaryExpr:
						if y.Op == token.AND {
							if o := objOf(info, y.X); o != nil && reads[o] {
								written = true
							}
						}
					}
					return true
				})
			}
			if !written {
				out = append(out, implied(ifs.Cond, nil, false)...)
			}
		}
	}
	return out
}

// loopHead returns the head block (condition re-evaluation point) of a range
// or for statement.
func (f *Flow) loopHead(loop ast.Stmt) *cfg.Block {
	for _, b := range f.G.Blocks {
		if b.Stmt == loop && (b.Kind == cfg.KindRangeLoop || b.Kind == cfg.KindForLoop) {
			return b
		}
	}
	return nil
}

// CarriedFlag describes a boolean search flag that is set inside an inner loop
// and tested in the enclosing loop: it must start afresh for every element of
// the enclosing loop (declared inside its body, or reset there before the
// inner loop). Found by searchFlags.
type CarriedFlag struct {
	Var   types.Object
	Outer ast.Stmt // enclosing loop
	Inner ast.Stmt // loop that sets the flag
	Fresh bool     // declared or reset inside Outer's body before Inner
}

func loopBody(s ast.Node) *ast.BlockStmt {
	switch x := s.(type) {
	case *ast.ForStmt:
		return x.Body
	case *ast.RangeStmt:
		return x.Body
	}
	return nil
}

// searchFlags enumerates the search flags of a function (see CarriedFlag).
func searchFlags(info *types.Info, body *ast.BlockStmt) []CarriedFlag {
	pm := parentMap(body)
	loopsOf := func(n ast.Node) []ast.Stmt { // innermost first
		var out []ast.Stmt
		for cur := pm[n]; cur != nil; cur = pm[cur] {
			if _, isLit := cur.(*ast.FuncLit); isLit {
				break
			}
			if loopBody(cur) != nil {
				out = append(out, cur.(ast.Stmt))
			}
		}
		return out
	}
	isTrue := func(e ast.Expr) bool {
		tv, ok := info.Types[e]
		return ok && tv.Value != nil && tv.Value.String() == "true"
	}
	isFalse := func(e ast.Expr) bool {
		tv, ok := info.Types[e]
		return ok && tv.Value != nil && tv.Value.String() == "false"
	}
	type setSite struct {
		v     types.Object
		loops []ast.Stmt
	}
	var sets []setSite
	ast.Inspect(body, func(n ast.Node) bool {
		as, ok := n.(*ast.AssignStmt)
		if !ok || as.Tok != token.ASSIGN || len(as.Lhs) != 1 || len(as.Rhs) != 1 || !isTrue(as.Rhs[0]) {
			return true
		}
		v := objOf(info, as.Lhs[0])
		if v == nil {
			return true
		}
		if vv, ok := v.(*types.Var); !ok || vv.IsField() {
			return true
		}
		if ls := loopsOf(as); len(ls) >= 2 {
			sets = append(sets, setSite{v, ls})
		}
		return true
	})
	var out []CarriedFlag
	seen := map[[2]token.Pos]bool{}
	for _, s := range sets {
		inner := s.loops[0]
		// the flag is tested in an enclosing loop, outside the inner one
		for _, outer := range s.loops[1:] {
			tested := false
			ast.Inspect(loopBody(outer), func(n ast.Node) bool {
				if n == inner {
					return false
				}
				ifs, ok := n.(*ast.IfStmt)
				if !ok {
					return true
				}
				ast.Inspect(ifs.Cond, func(m ast.Node) bool {
					if id, ok := m.(*ast.Ident); ok && info.Uses[id] == s.v {
						tested = true
					}
					return true
				})
				return true
			})
			if !tested {
				continue
			}
			k := [2]token.Pos{s.v.Pos(), outer.Pos()}
			if seen[k] {
				break
			}
			seen[k] = true
			ob := loopBody(outer)
			fresh := ob.Pos() <= s.v.Pos() && s.v.Pos() < ob.End()
			if !fresh {
				// reset by a statement of the outer body that stands before the inner loop on the way to it
				for cur := ast.Node(inner); cur != nil && cur != ast.Node(ob); cur = pm[cur] {
					var list []ast.Stmt
					switch b := pm[cur].(type) {
					case *ast.BlockStmt:
						list = b.List
					case *ast.CaseClause:
						list = b.Body
					}
					for _, st := range list {
						if st == cur {
							break
						}
						if as, ok := st.(*ast.AssignStmt); ok && len(as.Lhs) == 1 && len(as.Rhs) == 1 && objOf(info, as.Lhs[0]) == s.v && isFalse(as.Rhs[0]) {
							fresh = true
						}
					}
				}
			}
			out = append(out, CarriedFlag{s.v, outer, inner, fresh})
			break
		}
	}
	return out
}
