package main

import (
	_ "embed"
	"go/ast"
	"go/token"
	"go/types"
	"reflect"
	"strconv"
	"strings"

	"golang.org/x/tools/go/ast/astutil"
	"golang.org/x/tools/go/packages"
)

// Helper inlining.
//
// The rules are anchored in the functions that implement a property today
// (baseline_funcs.txt lists every function of the module at the commit the
// rules were confirmed on). A later commit that moves part of such a function
// into a NEW helper leaves behaviour alone but takes the construct a rule
// looks at out of the function the rule looks in. Before any rule runs, calls
// of functions that are not in the baseline are therefore expanded in place,
// in memory:
//
//   - a helper whose body is `return <expr>` is substituted as an expression
//     wherever it is called;
//   - any other helper is expanded where its call is a statement, the only
//     right-hand side of an assignment, the init statement of an if, or the
//     only result of a return: parameters become `p := arg` definitions, a
//     `return e` becomes `targets = e` followed by a break out of a labelled
//     one-case switch that stands for the helper's body.
//
// Functions of the baseline are never expanded, so today's tree is seen
// exactly as it is written. The expanded code is never compiled: go/cfg and
// the syntactic helpers of this program are its only consumers. Recursive,
// variadic, deferring and generic helpers are left alone.

//go:embed baseline_funcs.txt
var baselineFuncsTxt string

func baselineFuncs() map[string]bool {
	out := map[string]bool{}
	for _, l := range strings.Split(baselineFuncsTxt, "\n") {
		if l = strings.TrimSpace(l); l != "" {
			out[l] = true
		}
	}
	return out
}

type helperInfo struct {
	decl *ast.FuncDecl
	obj  *types.Func
	expr ast.Expr // non-nil: body is `return expr`
}

type inliner struct {
	info    *types.Info
	helpers map[*types.Func]*helperInfo
	// helpers that defer: expanded only as `go helper(args)` -> `go func() { body }()`
	goHelpers map[*types.Func]*helperInfo
	n         int
	cur       *ast.FuncDecl                   // function being rewritten
	hosts     map[*types.Func][]*ast.FuncDecl // helper -> functions it was expanded into
}

func (p *Prog) inlineNewHelpers() int {
	base := baselineFuncs()
	if len(base) == 0 {
		return 0
	}
	total := 0
	all := map[*types.Func]*ast.FuncDecl{}
	expanded := map[*types.Func]bool{}
	for _, pkg := range p.ModPkgs() {
		n, hs, hosts := inlinePkg(pkg, base)
		total += n
		for o, h := range hs {
			all[o] = h.decl
		}
		for o, fds := range hosts {
			p.inlineHosts = append(p.inlineHosts, inlineHost{all[o].Pos(), all[o].End(), fds[0]})
			if len(fds) > 0 {
				expanded[o] = true
			}
		}
	}
	// a helper every call of which was expanded no longer exists as a function of its own
	// for the rules (who-may-write tables, sibling enumerations); one that is still called
	// somewhere (or used as a value) stays
	used := map[*types.Func]bool{}
	for _, pkg := range p.ModPkgs() {
		for _, f := range pkg.Syntax {
			ast.Inspect(f, func(n ast.Node) bool {
				if fd, ok := n.(*ast.FuncDecl); ok {
					if o, _ := pkg.TypesInfo.Defs[fd.Name].(*types.Func); o != nil && all[o] != nil {
						return false // its own body
					}
				}
				if id, ok := n.(*ast.Ident); ok {
					if o, _ := pkg.TypesInfo.Uses[id].(*types.Func); o != nil && all[o] != nil {
						used[o] = true
					}
				}
				return true
			})
		}
	}
	p.inlinedAway = map[*types.Func]bool{}
	for o := range all {
		// (a new function nobody calls statically — a method that satisfies an interface, such as
		// Is, Unwrap, String — was expanded nowhere and stays visible to every rule)
		if !used[o] && expanded[o] {
			p.inlinedAway[o] = true
		}
	}
	for _, pkg := range p.ModPkgs() {
		for _, f := range pkg.Syntax {
			var keep []ast.Decl
			for _, d := range f.Decls {
				if fd, ok := d.(*ast.FuncDecl); ok {
					if o, _ := pkg.TypesInfo.Defs[fd.Name].(*types.Func); o != nil && p.inlinedAway[o] {
						continue
					}
				}
				keep = append(keep, d)
			}
			f.Decls = keep
		}
	}
	return total
}

func inlinePkg(pkg *packages.Package, base map[string]bool) (int, map[*types.Func]*helperInfo, map[*types.Func][]*ast.FuncDecl) {
	info := pkg.TypesInfo
	in := &inliner{info: info, helpers: map[*types.Func]*helperInfo{}, goHelpers: map[*types.Func]*helperInfo{}}
	for _, f := range pkg.Syntax {
		for _, d := range f.Decls {
			fd, ok := d.(*ast.FuncDecl)
			if !ok || fd.Body == nil {
				continue
			}
			obj, _ := info.Defs[fd.Name].(*types.Func)
			if obj == nil || base[funcQName(obj)] || strings.HasSuffix(pkg.Fset.Position(fd.Pos()).Filename, "_test.go") {
				continue
			}
			if fd.Name.Name == "init" || fd.Name.Name == "main" {
				continue
			}
			sig := obj.Type().(*types.Signature)
			if sig.Variadic() || sig.TypeParams().Len() > 0 || sig.RecvTypeParams().Len() > 0 {
				continue
			}
			bad, defers := false, false
			ast.Inspect(fd.Body, func(n ast.Node) bool {
				switch x := n.(type) {
				case *ast.DeferStmt:
					defers = true
				case *ast.CallExpr:
					if Callee(info, x) == obj {
						bad = true // recursive
					}
					if id, ok := x.Fun.(*ast.Ident); ok && id.Name == "recover" {
						bad = true
					}
				case *ast.LabeledStmt:
					if _, isRet := x.Stmt.(*ast.ReturnStmt); isRet {
						bad = true
					}
				}
				return true
			})
			if bad {
				continue
			}
			if defers {
				// a deferring helper keeps its meaning only as the body of a function literal: it is
				// expanded where it is started with `go`
				if sig.Results().Len() == 0 {
					in.goHelpers[obj] = &helperInfo{decl: fd, obj: obj}
				}
				continue
			}
			h := &helperInfo{decl: fd, obj: obj}
			if len(fd.Body.List) == 1 {
				if r, ok := fd.Body.List[0].(*ast.ReturnStmt); ok && len(r.Results) == 1 && sig.Results().Len() == 1 {
					h.expr = r.Results[0]
				}
			}
			if h.expr == nil {
				h.expr = boolBodyAsExpr(info, fd, sig)
			}
			in.helpers[obj] = h
		}
	}
	if len(in.helpers) == 0 && len(in.goHelpers) == 0 {
		return 0, nil, nil
	}
	for round := 0; round < 4; round++ {
		before := in.n
		for _, f := range pkg.Syntax {
			if strings.HasSuffix(pkg.Fset.Position(f.Pos()).Filename, "_test.go") {
				continue
			}
			for _, d := range f.Decls {
				if fd, ok := d.(*ast.FuncDecl); ok && fd.Body != nil {
					in.rewriteFunc(fd)
				}
			}
		}
		if in.n == before {
			break
		}
	}
	allHelpers := map[*types.Func]*helperInfo{}
	for o, h := range in.helpers {
		allHelpers[o] = h
	}
	for o, h := range in.goHelpers {
		allHelpers[o] = h
	}
	return in.n, allHelpers, in.hosts
}

// ---- deep copy with type information ----

func (in *inliner) copyNode(n ast.Node) (ast.Node, map[ast.Node]ast.Node) {
	m := map[ast.Node]ast.Node{}
	v := copyValue(reflect.ValueOf(n), m)
	out := v.Interface().(ast.Node)
	for old, nw := range m {
		if e, ok := old.(ast.Expr); ok {
			if tv, ok := in.info.Types[e]; ok {
				in.info.Types[nw.(ast.Expr)] = tv
			}
		}
		switch x := old.(type) {
		case *ast.Ident:
			if o, ok := in.info.Defs[x]; ok {
				in.info.Defs[nw.(*ast.Ident)] = o
			}
			if o, ok := in.info.Uses[x]; ok {
				in.info.Uses[nw.(*ast.Ident)] = o
			}
		case *ast.SelectorExpr:
			if s, ok := in.info.Selections[x]; ok {
				in.info.Selections[nw.(*ast.SelectorExpr)] = s
			}
		}
		if o, ok := in.info.Implicits[old]; ok {
			in.info.Implicits[nw] = o
		}
		if s, ok := in.info.Scopes[old]; ok {
			in.info.Scopes[nw] = s
		}
	}
	return out, m
}

func copyValue(v reflect.Value, m map[ast.Node]ast.Node) reflect.Value {
	switch v.Kind() {
	case reflect.Interface:
		if v.IsNil() {
			return v
		}
		c := copyValue(v.Elem(), m)
		nv := reflect.New(v.Type()).Elem()
		nv.Set(c)
		return nv
	case reflect.Ptr:
		if v.IsNil() {
			return v
		}
		switch v.Interface().(type) {
		case *ast.Object, *ast.Scope, *ast.CommentGroup:
			return reflect.Zero(v.Type())
		}
		nv := reflect.New(v.Type().Elem())
		for i := 0; i < v.Elem().NumField(); i++ {
			if nv.Elem().Field(i).CanSet() {
				nv.Elem().Field(i).Set(copyValue(v.Elem().Field(i), m))
			}
		}
		if n, ok := v.Interface().(ast.Node); ok {
			m[n] = nv.Interface().(ast.Node)
		}
		return nv
	case reflect.Slice:
		if v.IsNil() {
			return v
		}
		ns := reflect.MakeSlice(v.Type(), v.Len(), v.Len())
		for i := 0; i < v.Len(); i++ {
			ns.Index(i).Set(copyValue(v.Index(i), m))
		}
		return ns
	case reflect.Struct:
		nv := reflect.New(v.Type()).Elem()
		for i := 0; i < v.NumField(); i++ {
			if nv.Field(i).CanSet() {
				nv.Field(i).Set(copyValue(v.Field(i), m))
			}
		}
		return nv
	}
	return v
}

// ---- call recognition ----

func (in *inliner) helperOf(e ast.Expr) (*helperInfo, *ast.CallExpr) {
	call, ok := ast.Unparen(e).(*ast.CallExpr)
	if !ok {
		return nil, nil
	}
	fn := Callee(in.info, call)
	if fn == nil {
		return nil, nil
	}
	h := in.helpers[fn]
	if h == nil {
		return nil, nil
	}
	// method values / interface calls are not expanded
	if h.decl.Recv != nil {
		if _, ok := call.Fun.(*ast.SelectorExpr); !ok {
			return nil, nil
		}
	}
	if len(call.Args) != h.obj.Type().(*types.Signature).Params().Len() {
		return nil, nil // f(g()) with a multi-value g
	}
	return h, call
}

// paramBindings lists (parameter ident in the declaration, argument) pairs, receiver first.
func (in *inliner) paramBindings(h *helperInfo, call *ast.CallExpr) (ids []*ast.Ident, args []ast.Expr) {
	if h.decl.Recv != nil && len(h.decl.Recv.List) == 1 {
		sel := call.Fun.(*ast.SelectorExpr)
		if names := h.decl.Recv.List[0].Names; len(names) == 1 && names[0].Name != "_" {
			ids = append(ids, names[0])
			args = append(args, sel.X)
		}
	}
	i := 0
	for _, f := range h.decl.Type.Params.List {
		if len(f.Names) == 0 {
			i++
			continue
		}
		for _, nm := range f.Names {
			if nm.Name != "_" && i < len(call.Args) {
				ids = append(ids, nm)
				args = append(args, call.Args[i])
			}
			i++
		}
	}
	return ids, args
}

// ---- expression helpers ----

func (in *inliner) noteHost(h *helperInfo) {
	if in.hosts == nil {
		in.hosts = map[*types.Func][]*ast.FuncDecl{}
	}
	if in.cur != nil {
		in.hosts[h.obj] = append(in.hosts[h.obj], in.cur)
	}
}

func (in *inliner) expandExpr(h *helperInfo, call *ast.CallExpr) ast.Expr {
	in.noteHost(h)
	c, _ := in.copyNode(h.expr)
	body := c.(ast.Expr)
	rebasePos(body, call.Pos())
	ids, args := in.paramBindings(h, call)
	objs := map[types.Object]ast.Expr{}
	for i, id := range ids {
		if o := in.info.Defs[id]; o != nil {
			objs[o] = args[i]
		}
	}
	holder := &ast.ParenExpr{X: body, Lparen: call.Pos(), Rparen: call.End()}
	in.info.Types[holder] = in.info.Types[call]
	astutil.Apply(holder, func(cur *astutil.Cursor) bool {
		if id, ok := cur.Node().(*ast.Ident); ok {
			if a, ok := objs[in.info.Uses[id]]; ok {
				ac, _ := in.copyNode(a)
				ae := ac.(ast.Expr)
				switch ae.(type) {
				case *ast.Ident, *ast.SelectorExpr, *ast.CallExpr, *ast.BasicLit, *ast.IndexExpr, *ast.ParenExpr, *ast.CompositeLit:
				default:
					p := &ast.ParenExpr{X: ae}
					in.info.Types[p] = in.info.Types[ae]
					ae = p
				}
				// a selector's Sel is not an expression position
				if _, isSel := cur.Parent().(*ast.SelectorExpr); isSel && cur.Name() == "Sel" {
					return true
				}
				cur.Replace(ae)
				return false
			}
		}
		return true
	}, nil)
	in.n++
	holder.X = foldBoolConsts(in.info, holder.X)
	// parentheses are only needed around operators
	switch holder.X.(type) {
	case *ast.BinaryExpr:
		return holder
	case *ast.UnaryExpr:
		if u := holder.X.(*ast.UnaryExpr); u.Op != token.AND {
			return holder
		}
	}
	return holder.X
}

func (in *inliner) rewriteExprs(n ast.Node) {
	for i := 0; i < 3; i++ {
		changed := false
		astutil.Apply(n, func(cur *astutil.Cursor) bool {
			if _, isLit := cur.Node().(*ast.FuncLit); isLit {
				return true
			}
			if e, ok := cur.Node().(ast.Expr); ok {
				if h, call := in.helperOf(e); h != nil && h.expr != nil {
					if _, isParen := e.(*ast.ParenExpr); !isParen {
						cur.Replace(in.expandExpr(h, call))
						changed = true
						return false
					}
				}
			}
			return true
		}, nil)
		if !changed {
			return
		}
	}
}

// ---- statement helpers ----

// expandStmt builds the statements standing for `targets tok= helper(args)`.
// keepReturns: the call is the operand of a return statement, so returns stay returns.
func (in *inliner) expandStmt(h *helperInfo, call *ast.CallExpr, targets []ast.Expr, tok token.Token, keepReturns bool) []ast.Stmt {
	in.noteHost(h)
	c, _ := in.copyNode(h.decl.Body)
	body := c.(*ast.BlockStmt)
	rebasePos(body, call.Pos())
	// bind parameters through fresh copies of the declaring identifiers
	var pre []ast.Stmt
	ids, args := in.paramBindings(h, call)
	// a parameter that the helper never assigns and whose argument is a plain variable or a
	// field path is replaced by the argument itself (no `p := arg` in between)
	assigned := map[types.Object]bool{}
	ast.Inspect(body, func(n ast.Node) bool {
		switch x := n.(type) {
		case *ast.AssignStmt:
			for _, l := range x.Lhs {
				if o := objOf(in.info, l); o != nil {
					assigned[o] = true
				}
			}
		case *ast.IncDecStmt:
			if o := objOf(in.info, x.X); o != nil {
				assigned[o] = true
			}
		case *ast.UnaryExpr:
			if x.Op == token.AND {
				if o := objOf(in.info, x.X); o != nil {
					assigned[o] = true
				}
			}
		case *ast.RangeStmt:
			for _, l := range []ast.Expr{x.Key, x.Value} {
				if l != nil && x.Tok == token.ASSIGN {
					if o := objOf(in.info, l); o != nil {
						assigned[o] = true
					}
				}
			}
		}
		return true
	})
	plain := func(e ast.Expr) bool {
		for {
			switch x := ast.Unparen(e).(type) {
			case *ast.Ident:
				return true
			case *ast.SelectorExpr:
				e = x.X
				continue
			case *ast.BasicLit:
				return true
			}
			return false
		}
	}
	subst := map[types.Object]ast.Expr{}
	{
		var ids2 []*ast.Ident
		var args2 []ast.Expr
		for i, id := range ids {
			o := in.info.Defs[id]
			if o != nil && !assigned[o] && plain(args[i]) {
				subst[o] = args[i]
				continue
			}
			ids2 = append(ids2, id)
			args2 = append(args2, args[i])
		}
		ids, args = ids2, args2
	}
	if len(subst) > 0 {
		astutil.Apply(body, func(cur *astutil.Cursor) bool {
			id, ok := cur.Node().(*ast.Ident)
			if !ok {
				return true
			}
			a, ok := subst[in.info.Uses[id]]
			if !ok {
				return true
			}
			if _, isSel := cur.Parent().(*ast.SelectorExpr); isSel && cur.Name() == "Sel" {
				return true
			}
			ac, _ := in.copyNode(a)
			cur.Replace(ac.(ast.Expr))
			return false
		}, nil)
	}
	for i, id := range ids {
		nid := &ast.Ident{Name: id.Name, NamePos: call.Pos()}
		if o := in.info.Defs[id]; o != nil {
			in.info.Defs[nid] = o
		}
		pre = append(pre, &ast.AssignStmt{Lhs: []ast.Expr{nid}, Tok: token.DEFINE, TokPos: call.Pos(), Rhs: []ast.Expr{args[i]}})
	}
	// named results are locals of the expansion
	var named []*ast.Ident
	if h.decl.Type.Results != nil {
		for _, f := range h.decl.Type.Results.List {
			for _, nm := range f.Names {
				if nm.Name != "_" {
					named = append(named, nm)
				}
			}
		}
	}
	in.n++
	label := ast.NewIdent("inl" + strconv.Itoa(in.n))
	nReturns, lastIsReturn := 0, false
	ast.Inspect(body, func(n ast.Node) bool {
		switch n.(type) {
		case *ast.FuncLit:
			return false
		case *ast.ReturnStmt:
			nReturns++
		}
		return true
	})
	if l := len(body.List); l > 0 {
		_, lastIsReturn = body.List[l-1].(*ast.ReturnStmt)
	}
	needLabel := !keepReturns && (nReturns > 1 || (nReturns == 1 && !lastIsReturn))
	// `return x` as the only, final return, x a local of the helper, and the call defines fresh
	// variables: the helper's x IS the caller's variable (no `v := x` hand-over in between)
	if !keepReturns && nReturns == 1 && lastIsReturn && tok == token.DEFINE {
		ret := body.List[len(body.List)-1].(*ast.ReturnStmt)
		if len(ret.Results) == len(targets) && len(targets) > 0 {
			remap := map[types.Object]types.Object{}
			ok := true
			for i, r := range ret.Results {
				rid, isID := ast.Unparen(r).(*ast.Ident)
				tid, isTID := targets[i].(*ast.Ident)
				if !isID || !isTID || tid.Name == "_" {
					ok = false
					break
				}
				ro, _ := in.info.Uses[rid].(*types.Var)
				to := in.info.Defs[tid]
				if ro == nil || to == nil || ro.IsField() || ro.Parent() == nil || ro.Pkg() == nil || ro.Parent() == ro.Pkg().Scope() {
					ok = false
					break
				}
				if _, dup := remap[ro]; dup {
					ok = false
					break
				}
				remap[ro] = to
			}
			// parameters substituted or bound are not helper locals in this sense
			for _, id := range ids {
				if o := in.info.Defs[id]; o != nil {
					if _, isRes := remap[o]; isRes {
						ok = false
					}
				}
			}
			if ok {
				ast.Inspect(body, func(n ast.Node) bool {
					if id, isID := n.(*ast.Ident); isID {
						if to, hit := remap[in.info.Uses[id]]; hit {
							in.info.Uses[id] = to
						}
						if to, hit := remap[in.info.Defs[id]]; hit {
							in.info.Defs[id] = to
						}
					}
					return true
				})
				for _, nm := range named {
					if to, hit := remap[in.info.Defs[nm]]; hit {
						_ = to
					}
				}
				body.List = body.List[:len(body.List)-1]
				nReturns, lastIsReturn = 0, false
				// named results that became the caller's variables need no declaration of their own
				var keepNamed []*ast.Ident
				for _, nm := range named {
					if _, hit := remap[in.info.Defs[nm]]; !hit {
						keepNamed = append(keepNamed, nm)
					} else {
						// declare the caller's variable where the helper declared its result
						nid := &ast.Ident{Name: nm.Name, NamePos: call.Pos()}
						in.info.Defs[nid] = remap[in.info.Defs[nm]]
						pre = append(pre, &ast.DeclStmt{Decl: &ast.GenDecl{Tok: token.VAR, TokPos: call.Pos(), Specs: []ast.Spec{&ast.ValueSpec{Names: []*ast.Ident{nid}}}}})
					}
				}
				named = keepNamed
			}
		}
	}
	mkAssign := func(r *ast.ReturnStmt) []ast.Stmt {
		var out []ast.Stmt
		res := r.Results
		if len(res) == 0 && len(named) > 0 {
			for _, nm := range named {
				u := &ast.Ident{Name: nm.Name, NamePos: r.Pos()}
				if o := in.info.Defs[nm]; o != nil {
					in.info.Uses[u] = o
					in.info.Types[u] = types.TypeAndValue{Type: o.Type()}
				}
				res = append(res, u)
			}
		}
		if len(targets) > 0 && len(res) > 0 {
			var lhs []ast.Expr
			for _, t := range targets {
				tc, _ := in.copyNode(t)
				lhs = append(lhs, tc.(ast.Expr))
			}
			out = append(out, &ast.AssignStmt{Lhs: lhs, Tok: tok, TokPos: r.Pos(), Rhs: res})
		} else {
			for _, e := range res {
				if _, isCall := ast.Unparen(e).(*ast.CallExpr); isCall {
					out = append(out, &ast.ExprStmt{X: e})
				}
			}
		}
		return out
	}
	var rewriteList func(list []ast.Stmt, top bool) []ast.Stmt
	var rewriteIn func(n ast.Node)
	rewriteList = func(list []ast.Stmt, top bool) []ast.Stmt {
		var out []ast.Stmt
		for i, st := range list {
			if r, ok := st.(*ast.ReturnStmt); ok && !keepReturns {
				out = append(out, mkAssign(r)...)
				if needLabel && !(top && i == len(list)-1) {
					out = append(out, &ast.BranchStmt{TokPos: r.Pos(), Tok: token.BREAK, Label: ast.NewIdent(label.Name)})
				}
				continue
			}
			rewriteIn(st)
			out = append(out, st)
		}
		return out
	}
	rewriteIn = func(n ast.Node) {
		ast.Inspect(n, func(m ast.Node) bool {
			switch x := m.(type) {
			case *ast.FuncLit:
				return false
			case *ast.BlockStmt:
				x.List = rewriteList(x.List, false)
				return false
			case *ast.CaseClause:
				x.Body = rewriteList(x.Body, false)
				return false
			case *ast.CommClause:
				x.Body = rewriteList(x.Body, false)
				return false
			}
			return true
		})
	}
	body.List = rewriteList(body.List, true)
	stmts := append(pre, body.List...)
	if len(named) > 0 {
		var decl []ast.Stmt
		for _, nm := range named {
			nid := &ast.Ident{Name: nm.Name, NamePos: call.Pos()}
			if o := in.info.Defs[nm]; o != nil {
				in.info.Defs[nid] = o
			}
			decl = append(decl, &ast.DeclStmt{Decl: &ast.GenDecl{Tok: token.VAR, TokPos: call.Pos(), Specs: []ast.Spec{&ast.ValueSpec{Names: []*ast.Ident{nid}}}}})
		}
		stmts = append(decl, stmts...)
	}
	if needLabel {
		sw := &ast.SwitchStmt{Switch: call.Pos(), Body: &ast.BlockStmt{Lbrace: call.Pos(), Rbrace: call.End(), List: []ast.Stmt{
			&ast.CaseClause{Case: call.Pos(), Colon: call.Pos(), Body: stmts},
		}}}
		return []ast.Stmt{&ast.LabeledStmt{Label: label, Colon: call.Pos(), Stmt: sw}}
	}
	return stmts
}

func (in *inliner) rewriteFunc(fd *ast.FuncDecl) {
	in.cur = fd
	var rewriteList func(list []ast.Stmt) []ast.Stmt
	rewriteList = func(list []ast.Stmt) []ast.Stmt {
		var out []ast.Stmt
		for _, st := range list {
			switch x := st.(type) {
			case *ast.ExprStmt:
				if h, call := in.helperOf(x.X); h != nil && h.expr == nil {
					out = append(out, in.expandStmt(h, call, nil, token.ASSIGN, false)...)
					continue
				}
			case *ast.AssignStmt:
				if len(x.Rhs) == 1 && (x.Tok == token.DEFINE || x.Tok == token.ASSIGN) {
					if h, call := in.helperOf(x.Rhs[0]); h != nil && h.expr == nil {
						out = append(out, in.expandStmt(h, call, x.Lhs, x.Tok, false)...)
						continue
					}
				}
			case *ast.ReturnStmt:
				if len(x.Results) == 1 {
					if h, call := in.helperOf(x.Results[0]); h != nil && h.expr == nil {
						out = append(out, in.expandStmt(h, call, nil, token.ASSIGN, true)...)
						continue
					}
				}
			case *ast.GoStmt:
				// `go helper(args)`: the helper's body becomes the body of a function literal
				if fn := Callee(in.info, x.Call); fn != nil {
					h := in.goHelpers[fn]
					if h == nil {
						if hh := in.helpers[fn]; hh != nil && hh.obj.Type().(*types.Signature).Results().Len() == 0 {
							h = hh
						}
					}
					_, viaSel := x.Call.Fun.(*ast.SelectorExpr)
					if h != nil && (h.decl.Recv == nil || viaSel) && len(x.Call.Args) == h.obj.Type().(*types.Signature).Params().Len() {
						call := x.Call
						body := in.expandStmt(h, call, nil, token.ASSIGN, true)
						lit := &ast.FuncLit{
							Type: &ast.FuncType{Func: call.Pos(), Params: &ast.FieldList{Opening: call.Pos(), Closing: call.Pos()}},
							Body: &ast.BlockStmt{Lbrace: call.Pos(), List: body, Rbrace: call.End()},
						}
						in.info.Types[lit] = types.TypeAndValue{Type: types.NewSignatureType(nil, nil, nil, nil, nil, false)}
						x.Call = &ast.CallExpr{Fun: lit, Lparen: call.End(), Rparen: call.End()}
						in.n++
					}
				}
			case *ast.IfStmt:
				if as, ok := x.Init.(*ast.AssignStmt); ok && len(as.Rhs) == 1 {
					if h, call := in.helperOf(as.Rhs[0]); h != nil && h.expr == nil {
						out = append(out, in.expandStmt(h, call, as.Lhs, as.Tok, false)...)
						x.Init = nil
					}
				}
			}
			out = append(out, st)
		}
		return out
	}
	// a multi-statement helper called inside a larger expression of a simple statement is
	// first given a temporary of its own: `x = f(h(a))` becomes `t := h(a); x = f(t)`
	hoist := func(list []ast.Stmt) []ast.Stmt {
		var out []ast.Stmt
		for _, st := range list {
			var roots []*ast.Expr
			switch x := st.(type) {
			case *ast.ExprStmt:
				roots = append(roots, &x.X)
			case *ast.AssignStmt:
				for i := range x.Rhs {
					roots = append(roots, &x.Rhs[i])
				}
			case *ast.ReturnStmt:
				for i := range x.Results {
					roots = append(roots, &x.Results[i])
				}
			case *ast.IfStmt:
				if x.Init == nil {
					roots = append(roots, &x.Cond)
				}
			case *ast.RangeStmt:
				roots = append(roots, &x.X)
			}
			for _, r := range roots {
				if h, _ := in.helperOf(*r); h != nil && h.expr == nil {
					_, isRange := st.(*ast.RangeStmt)
					_, isIf := st.(*ast.IfStmt)
					as, isAssign := st.(*ast.AssignStmt)
					opAssign := isAssign && (len(as.Rhs) != 1 || (as.Tok != token.DEFINE && as.Tok != token.ASSIGN)) // `x += h(a)`
					rs, isRet := st.(*ast.ReturnStmt)
					multiRet := isRet && len(rs.Results) > 1 // `return h(a), nil`
					if !isRange && !isIf && !opAssign && !multiRet {
						continue // the whole operand: handled by the statement forms
					}
				}
				holder := &ast.ParenExpr{X: *r}
				astutil.Apply(holder, func(cur *astutil.Cursor) bool {
					if _, isLit := cur.Node().(*ast.FuncLit); isLit {
						return false
					}
					e, ok := cur.Node().(ast.Expr)
					if !ok {
						return true
					}
					// the right operand of && / || is evaluated conditionally: nothing inside it may be
					// moved in front of the statement
					if be, isBin := cur.Parent().(*ast.BinaryExpr); isBin && (be.Op == token.LAND || be.Op == token.LOR) && cur.Name() == "Y" {
						return false
					}
					h, call := in.helperOf(e)
					if h == nil || h.expr != nil || h.obj.Type().(*types.Signature).Results().Len() != 1 {
						return true
					}
					if _, isParen := e.(*ast.ParenExpr); isParen {
						return true
					}
					in.n++
					t := h.obj.Type().(*types.Signature).Results().At(0).Type()
					v := types.NewVar(call.Pos(), h.obj.Pkg(), "inlt"+strconv.Itoa(in.n), t)
					def := &ast.Ident{Name: v.Name(), NamePos: call.Pos()}
					in.info.Defs[def] = v
					use := &ast.Ident{Name: v.Name(), NamePos: call.Pos()}
					in.info.Uses[use] = v
					in.info.Types[use] = types.TypeAndValue{Type: t}
					out = append(out, &ast.AssignStmt{Lhs: []ast.Expr{def}, Tok: token.DEFINE, TokPos: call.Pos(), Rhs: []ast.Expr{call}})
					cur.Replace(use)
					return false
				}, nil)
				*r = holder.X
			}
			out = append(out, st)
		}
		return out
	}
	var walk func(n ast.Node)
	walk = func(n ast.Node) {
		ast.Inspect(n, func(m ast.Node) bool {
			switch x := m.(type) {
			case *ast.BlockStmt:
				x.List = hoist(x.List)
				x.List = rewriteList(x.List)
			case *ast.CaseClause:
				x.Body = hoist(x.Body)
				x.Body = rewriteList(x.Body)
			case *ast.CommClause:
				x.Body = hoist(x.Body)
				x.Body = rewriteList(x.Body)
			}
			return true
		})
	}
	walk(fd.Body)
	in.rewriteExprs(fd.Body)
}

// ---- pure temporaries ----

// inlinePureTemps substitutes, in every function of the file, a local that is
// defined once by `v := E` where E is free of calls, function literals,
// address-of and receive operations, and whose operands are not written
// anywhere else in the function (an assignment to a path that is a prefix or
// an extension of an operand's path counts as a write). `partLine := part.Line
// + offset … max(last, partLine)` and `max(last, part.Line+offset)` then have
// one shape. The definition is removed.
func inlinePureTemps(info *types.Info, f *ast.File) int {
	in := &inliner{info: info}
	n := 0
	for _, d := range f.Decls {
		fd, ok := d.(*ast.FuncDecl)
		if !ok || fd.Body == nil {
			continue
		}
		n += in.pureTempsIn(fd)
	}
	return n
}

func accessPath2(info *types.Info, e ast.Expr) (types.Object, string, bool) {
	switch x := ast.Unparen(e).(type) {
	case *ast.Ident:
		o := info.Uses[x]
		if o == nil {
			o = info.Defs[x]
		}
		if o == nil {
			return nil, "", false
		}
		return o, "", true
	case *ast.SelectorExpr:
		if _, isPkg := info.Uses[identOf(x.X)].(*types.PkgName); isPkg {
			o := info.Uses[x.Sel]
			return o, "", o != nil
		}
		r, p, ok := accessPath2(info, x.X)
		return r, p + "." + x.Sel.Name, ok
	case *ast.StarExpr:
		return accessPath2(info, x.X)
	case *ast.IndexExpr:
		r, p, ok := accessPath2(info, x.X)
		return r, p + "[]", ok
	}
	return nil, "", false
}

func (in *inliner) pureTempsIn(fd *ast.FuncDecl) int {
	info := in.info
	type write struct {
		root types.Object
		path string
		at   ast.Node
	}
	var writes []write
	addrTaken := map[types.Object]bool{}
	defs := map[types.Object][]*ast.AssignStmt{}
	ast.Inspect(fd.Body, func(n ast.Node) bool {
		switch x := n.(type) {
		case *ast.AssignStmt:
			for _, l := range x.Lhs {
				if r, p, ok := accessPath2(info, l); ok {
					writes = append(writes, write{r, p, x})
					if p == "" {
						defs[r] = append(defs[r], x)
					}
				}
			}
		case *ast.IncDecStmt:
			if r, p, ok := accessPath2(info, x.X); ok {
				writes = append(writes, write{r, p, x})
				if p == "" {
					defs[r] = append(defs[r], nil)
				}
			}
		case *ast.RangeStmt:
			for _, l := range []ast.Expr{x.Key, x.Value} {
				if l != nil {
					if r, p, ok := accessPath2(info, l); ok && x.Tok == token.ASSIGN {
						writes = append(writes, write{r, p, x})
					}
				}
			}
		case *ast.UnaryExpr:
			if x.Op == token.AND {
				if r, _, ok := accessPath2(info, x.X); ok {
					addrTaken[r] = true
				}
			}
		}
		return true
	})
	pure := func(e ast.Expr) bool {
		ok := true
		ast.Inspect(e, func(n ast.Node) bool {
			switch x := n.(type) {
			case *ast.CallExpr:
				// the builtins len, cap, min and max are as pure as their operands
				id, isID := x.Fun.(*ast.Ident)
				_, isBuiltin := info.Uses[id].(*types.Builtin)
				if isID && isBuiltin && (id.Name == "len" || id.Name == "cap" || id.Name == "min" || id.Name == "max") {
					return true
				}
				if tv, isT := info.Types[x.Fun]; isT && tv.IsType() {
					return true // a conversion
				}
				// accessor-style methods without arguments (x.String(), rule.Name(), e.Type()) and the
				// string helpers of the standard library compute a value from their operands and
				// nothing else
				if fn := Callee(info, x); fn != nil {
					sig := fn.Type().(*types.Signature)
					if sig.Recv() != nil && len(x.Args) == 0 && sig.Results().Len() == 1 {
						switch fn.Name() {
						case "String", "Error", "Name", "Type", "Lines", "Kind", "EffectivePath":
							return true
						}
					}
					if sig.Recv() == nil && fn.Pkg() != nil && fn.Pkg().Path() == "strings" && sig.Results().Len() == 1 {
						switch fn.Name() {
						case "TrimSpace", "ToLower", "ToUpper", "TrimPrefix", "TrimSuffix", "Join", "Repeat":
							return true
						}
					}
					if sig.Recv() == nil && fn.Pkg() != nil && (fn.Pkg().Path() == "cmp" || fn.Pkg().Path() == "strings") && fn.Name() == "Compare" {
						return true
					}
				}
				ok = false
			case *ast.FuncLit, *ast.CompositeLit, *ast.TypeAssertExpr, *ast.SliceExpr:
				ok = false
			case *ast.UnaryExpr:
				if x.Op == token.AND || x.Op == token.ARROW {
					ok = false
				}
			}
			return ok
		})
		return ok
	}
	conflicts := func(e ast.Expr, def *ast.AssignStmt) bool {
		bad := false
		var visit func(x ast.Expr)
		visit = func(x ast.Expr) {
			switch y := ast.Unparen(x).(type) {
			case *ast.BinaryExpr:
				visit(y.X)
				visit(y.Y)
				return
			case *ast.UnaryExpr:
				visit(y.X)
				return
			case *ast.BasicLit:
				return
			case *ast.CallExpr:
				for _, a := range y.Args {
					visit(a)
				}
				if sel, ok := y.Fun.(*ast.SelectorExpr); ok {
					if _, isPkg := info.Uses[identOf(sel.X)].(*types.PkgName); !isPkg {
						visit(sel.X)
					}
				}
				return
			case *ast.IndexExpr:
				visit(y.Index)
			}
			r, p, ok := accessPath2(info, x)
			if !ok {
				bad = true
				return
			}
			if _, isVar := r.(*types.Var); !isVar {
				return // constants, nil, functions
			}
			if addrTaken[r] {
				bad = true
			}
			for _, w := range writes {
				if w.root != r || w.at == ast.Node(def) {
					continue
				}
				// the single definition of an operand local (or its range clause) is not a later write
				if w.path == "" && len(defs[r]) <= 1 {
					if as, ok := w.at.(*ast.AssignStmt); ok && as.Tok == token.DEFINE {
						continue
					}
				}
				if pathPrefix(w.path, p) || pathPrefix(p, w.path) {
					bad = true
				}
			}
		}
		visit(e)
		return bad
	}
	cands := map[types.Object]ast.Expr{}
	remove := map[ast.Stmt]bool{}
	pending := map[*ast.AssignStmt]int{}
	for o, ds := range defs {
		if len(ds) != 1 || ds[0] == nil || addrTaken[o] {
			continue
		}
		as := ds[0]
		if as.Tok != token.DEFINE || len(as.Lhs) != len(as.Rhs) {
			continue
		}
		idx := -1
		for i, l := range as.Lhs {
			if objOf(info, l) == o {
				idx = i
			}
		}
		if idx < 0 {
			continue
		}
		if v, ok := o.(*types.Var); !ok || v.IsField() || v.Parent() == nil || v.Pkg() == nil || v.Parent() == v.Pkg().Scope() {
			continue
		}
		e := as.Rhs[idx]
		if _, isLit := ast.Unparen(e).(*ast.BasicLit); isLit {
			continue // a named constant-like local is left alone
		}
		if tv, ok := info.Types[e]; ok && tv.Value != nil {
			continue
		}
		if !pure(e) || conflicts(e, as) {
			continue
		}
		// other writes to fields/elements of v itself
		w := 0
		for _, wr := range writes {
			if wr.root == o {
				w++
			}
		}
		if w != 1 {
			continue
		}
		cands[o] = e
		pending[as]++
	}
	// a tuple definition disappears only when every variable it defines is substituted
	for as, k := range pending {
		if k == len(as.Lhs) {
			remove[as] = true
		} else {
			for _, l := range as.Lhs {
				delete(cands, objOf(info, l))
			}
		}
	}
	if len(cands) == 0 {
		return 0
	}
	// substitute (innermost definitions may mention other candidates: repeat)
	for round := 0; round < 3; round++ {
		changed := false
		astutil.Apply(fd.Body, func(cur *astutil.Cursor) bool {
			id, ok := cur.Node().(*ast.Ident)
			if !ok {
				return true
			}
			e, ok := cands[info.Uses[id]]
			if !ok {
				return true
			}
			if _, isSel := cur.Parent().(*ast.SelectorExpr); isSel && cur.Name() == "Sel" {
				return true
			}
			if kv, isKV := cur.Parent().(*ast.KeyValueExpr); isKV && cur.Name() == "Key" {
				if _, isField := info.Uses[id].(*types.Var); isField && kv != nil {
					// struct literal keys are fields, never locals; map keys may be locals
				}
			}
			c, _ := in.copyNode(e)
			ce := c.(ast.Expr)
			switch ce.(type) {
			case *ast.Ident, *ast.SelectorExpr, *ast.IndexExpr, *ast.ParenExpr, *ast.CallExpr, *ast.BasicLit:
			default:
				p := &ast.ParenExpr{X: ce, Lparen: id.Pos(), Rparen: id.End()}
				info.Types[p] = info.Types[ce]
				ce = p
			}
			cur.Replace(ce)
			changed = true
			return false
		}, nil)
		if !changed {
			break
		}
	}
	var strip func(list []ast.Stmt) []ast.Stmt
	strip = func(list []ast.Stmt) []ast.Stmt {
		var out []ast.Stmt
		for _, st := range list {
			if remove[st] {
				continue
			}
			out = append(out, st)
		}
		return out
	}
	ast.Inspect(fd.Body, func(n ast.Node) bool {
		switch x := n.(type) {
		case *ast.BlockStmt:
			x.List = strip(x.List)
		case *ast.CaseClause:
			x.Body = strip(x.Body)
		case *ast.CommClause:
			x.Body = strip(x.Body)
		}
		return true
	})
	return len(cands)
}

// pathPrefix: is access path a a prefix of b, component-wise (".Line" is not a prefix of ".LineComment")?
func pathPrefix(a, b string) bool {
	return a == b || strings.HasPrefix(b, a+".") || strings.HasPrefix(b, a+"[")
}

// ---- index loops ----

// normaliseIndexLoops gives the three spellings of "for every element of X"
// one shape, `for i, v := range X`:
//
//   - `for i := 0; i < len(X); i++ { … }` (i not written in the body) becomes
//     `for i := range X { … }`;
//   - in `for i := range X { … }` without a value variable, every READ of
//     `X[i]` (not an assignment target, not under & and not the receiver of a
//     call) is replaced by a value variable introduced for the purpose;
//   - `v := X[i]` as the first statement is absorbed into the range clause.
//
// X must be call-free and must not be assigned in the body.
func normaliseIndexLoops(info *types.Info, pkg *types.Package, f *ast.File) int {
	n := 0
	assignedIn := func(body *ast.BlockStmt, o types.Object, path string) bool {
		bad := false
		ast.Inspect(body, func(m ast.Node) bool {
			switch x := m.(type) {
			case *ast.AssignStmt:
				for _, l := range x.Lhs {
					if r, p, ok := accessPath2(info, l); ok && r == o && (pathPrefix(p, path) || pathPrefix(path, p)) && p != path+"[]" && !strings.HasPrefix(p, path+"[]") {
						bad = true
					}
				}
			case *ast.IncDecStmt:
				if r, p, ok := accessPath2(info, x.X); ok && r == o && p == path {
					bad = true
				}
			}
			return true
		})
		return bad
	}
	var fix func(list []ast.Stmt)
	fix = func(list []ast.Stmt) {
		for idx, st := range list {
			// (1) classic counting loop
			if fs, ok := st.(*ast.ForStmt); ok && fs.Init != nil && fs.Cond != nil && fs.Post != nil {
				init, ok1 := fs.Init.(*ast.AssignStmt)
				cond, ok2 := fs.Cond.(*ast.BinaryExpr)
				post, ok3 := fs.Post.(*ast.IncDecStmt)
				if ok1 && ok2 && ok3 && init.Tok == token.DEFINE && len(init.Lhs) == 1 && len(init.Rhs) == 1 && cond.Op == token.LSS && post.Tok == token.INC {
					iv := objOf(info, init.Lhs[0])
					zero, isC := constInt(info, init.Rhs[0])
					lenCall, isCall := ast.Unparen(cond.Y).(*ast.CallExpr)
					if iv != nil && isC && zero == 0 && objOf(info, cond.X) == iv && objOf(info, post.X) == iv && isCall && len(lenCall.Args) == 1 {
						if id, isID := lenCall.Fun.(*ast.Ident); isID && id.Name == "len" {
							X := lenCall.Args[0]
							root, path, okp := accessPath2(info, X)
							if _, isSliceLike := info.TypeOf(X).Underlying().(*types.Slice); okp && isSliceLike && !assignedIn(fs.Body, root, path) && !assignedIn(fs.Body, iv, "") {
								rs := &ast.RangeStmt{For: fs.For, Key: init.Lhs[0], Tok: token.DEFINE, TokPos: init.TokPos, X: X, Body: fs.Body}
								list[idx] = rs
								st = rs
								n++
							}
						}
					}
				}
			}
			rs, ok := st.(*ast.RangeStmt)
			if !ok || rs.Key == nil || rs.Tok != token.DEFINE {
				continue
			}
			kid, isID := rs.Key.(*ast.Ident)
			if !isID || kid.Name == "_" {
				continue
			}
			if vid, hasV := rs.Value.(*ast.Ident); hasV && vid.Name != "_" {
				continue
			}
			iv := info.Defs[kid]
			root, path, okp := accessPath2(info, rs.X)
			sl, isSlice := info.TypeOf(rs.X).Underlying().(*types.Slice)
			if iv == nil || !okp || !isSlice || assignedIn(rs.Body, root, path) {
				continue
			}
			xid := exprIdentity(info, rs.X)
			// (3) `v := X[i]` first: absorb
			var val *ast.Ident
			absorbed := false
			if len(rs.Body.List) > 0 {
				if as, ok := rs.Body.List[0].(*ast.AssignStmt); ok && as.Tok == token.DEFINE && len(as.Lhs) == 1 && len(as.Rhs) == 1 {
					if ix, ok := ast.Unparen(as.Rhs[0]).(*ast.IndexExpr); ok && exprIdentity(info, ix.X) == xid && objOf(info, ix.Index) == iv {
						if id, ok := as.Lhs[0].(*ast.Ident); ok && info.Defs[id] != nil {
							val = id
							absorbed = true
							rs.Body.List = rs.Body.List[1:]
						}
					}
				}
			}
			var vobj types.Object
			if val != nil {
				vobj = info.Defs[val]
			} else {
				v := types.NewVar(rs.For, pkg, "elem", sl.Elem())
				vobj = v
				val = &ast.Ident{Name: "elem", NamePos: rs.For}
				info.Defs[val] = v
			}
			// (2) reads of X[i]; places where the element itself (not a copy) is meant are kept:
			// assignment targets, operands of & and ++/--, receivers of pointer methods
			keep := map[ast.Node]bool{}
			var markChain func(e ast.Expr)
			markChain = func(e ast.Expr) {
				for {
					switch x := ast.Unparen(e).(type) {
					case *ast.IndexExpr:
						keep[x] = true
						e = x.X
						continue
					case *ast.SelectorExpr:
						e = x.X
						continue
					case *ast.StarExpr:
						e = x.X
						continue
					}
					return
				}
			}
			ast.Inspect(rs.Body, func(m ast.Node) bool {
				switch x := m.(type) {
				case *ast.AssignStmt:
					for _, l := range x.Lhs {
						markChain(l)
					}
				case *ast.IncDecStmt:
					markChain(x.X)
				case *ast.UnaryExpr:
					if x.Op == token.AND {
						markChain(x.X)
					}
				case *ast.CallExpr:
					if sel, ok := x.Fun.(*ast.SelectorExpr); ok {
						if s, isSel := info.Selections[sel]; isSel && s.Kind() == types.MethodVal {
							if sig, ok := s.Obj().Type().(*types.Signature); ok && sig.Recv() != nil {
								if _, ptr := sig.Recv().Type().(*types.Pointer); ptr {
									markChain(sel.X)
								}
							}
						}
					}
				}
				return true
			})
			replaced := 0
			astutil.Apply(rs.Body, func(cur *astutil.Cursor) bool {
				ix, ok := cur.Node().(*ast.IndexExpr)
				if !ok || keep[ix] || objOf(info, ix.Index) != iv || exprIdentity(info, ix.X) != xid {
					return true
				}
				u := &ast.Ident{Name: val.Name, NamePos: ix.Pos()}
				info.Uses[u] = vobj
				info.Types[u] = types.TypeAndValue{Type: sl.Elem()}
				cur.Replace(u)
				replaced++
				return false
			}, nil)
			if replaced > 0 || absorbed {
				rs.Value = val
				n++
			}
		}
	}
	ast.Inspect(f, func(m ast.Node) bool {
		switch x := m.(type) {
		case *ast.BlockStmt:
			fix(x.List)
		case *ast.CaseClause:
			fix(x.Body)
		case *ast.CommClause:
			fix(x.Body)
		}
		return true
	})
	return n
}

// boolBodyAsExpr turns the body of a boolean predicate written as a cascade
//
//	if c1 { return true }; if c2 { return false }; return e
//
// into the expression c1 || (!c2 && e). Nil when the body has another shape.
func boolBodyAsExpr(info *types.Info, fd *ast.FuncDecl, sig *types.Signature) ast.Expr {
	if sig.Results().Len() != 1 {
		return nil
	}
	if b, ok := sig.Results().At(0).Type().Underlying().(*types.Basic); !ok || b.Kind() != types.Bool {
		return nil
	}
	if fd.Type.Results != nil && len(fd.Type.Results.List) == 1 && len(fd.Type.Results.List[0].Names) > 0 {
		return nil // named result
	}
	list := fd.Body.List
	if len(list) < 2 {
		return nil
	}
	last, ok := list[len(list)-1].(*ast.ReturnStmt)
	if !ok || len(last.Results) != 1 {
		return nil
	}
	boolT := types.TypeAndValue{Type: types.Typ[types.Bool]}
	mk := func(e ast.Expr) ast.Expr {
		info.Types[e] = boolT
		return e
	}
	paren := func(e ast.Expr) ast.Expr {
		switch e.(type) {
		case *ast.Ident, *ast.CallExpr, *ast.ParenExpr, *ast.SelectorExpr:
			return e
		}
		return mk(&ast.ParenExpr{X: e})
	}
	acc := last.Results[0]
	for i := len(list) - 2; i >= 0; i-- {
		ifs, ok := list[i].(*ast.IfStmt)
		if !ok || ifs.Init != nil || ifs.Else != nil || len(ifs.Body.List) != 1 {
			return nil
		}
		r, ok := ifs.Body.List[0].(*ast.ReturnStmt)
		if !ok || len(r.Results) != 1 {
			return nil
		}
		tv, isC := info.Types[r.Results[0]]
		switch {
		case isC && tv.Value != nil && tv.Value.String() == "true":
			acc = mk(&ast.BinaryExpr{X: paren(ifs.Cond), Op: token.LOR, Y: paren(acc)})
		case isC && tv.Value != nil && tv.Value.String() == "false":
			acc = mk(&ast.BinaryExpr{X: negateCond(info, ifs.Cond), Op: token.LAND, Y: paren(acc)})
		default:
			return nil
		}
	}
	return acc
}

// foldBoolConsts simplifies `true && x`, `false && x`, `x || false`, `x || true`, `!true`
// that appear once constant arguments were substituted for boolean parameters.
func foldBoolConsts(info *types.Info, root ast.Expr) ast.Expr {
	val := func(e ast.Expr) (bool, bool) {
		e = ast.Unparen(e)
		if id, ok := e.(*ast.Ident); ok {
			if c, isConst := info.Uses[id].(*types.Const); isConst && c.Parent() == types.Universe {
				return id.Name == "true", id.Name == "true" || id.Name == "false"
			}
		}
		return false, false
	}
	holder := &ast.ParenExpr{X: root}
	astutil.Apply(holder, nil, func(cur *astutil.Cursor) bool {
		switch x := cur.Node().(type) {
		case *ast.ParenExpr:
			if x == holder {
				return true
			}
			if _, isC := val(x.X); isC {
				cur.Replace(ast.Unparen(x.X))
			}
		case *ast.UnaryExpr:
			if v, isC := val(x.X); isC && x.Op == token.NOT {
				id := ast.NewIdent(map[bool]string{true: "false", false: "true"}[v])
				info.Uses[id] = types.Universe.Lookup(id.Name)
				cur.Replace(id)
			}
		case *ast.BinaryExpr:
			if x.Op != token.LAND && x.Op != token.LOR {
				return true
			}
			lv, lc := val(x.X)
			rv, rc := val(x.Y)
			switch {
			case lc && x.Op == token.LAND && lv, lc && x.Op == token.LOR && !lv:
				cur.Replace(x.Y)
			case lc:
				cur.Replace(ast.Unparen(x.X)) // false && y -> false ; true || y -> true
			case rc && x.Op == token.LAND && rv, rc && x.Op == token.LOR && !rv:
				cur.Replace(x.X)
			case rc && x.Op == token.LAND && !rv:
				// x && false: x is still evaluated, but for the analysis the value is false
				cur.Replace(ast.Unparen(x.Y))
			case rc && x.Op == token.LOR && rv:
				cur.Replace(ast.Unparen(x.Y))
			}
		}
		return true
	})
	return holder.X
}

// negateCond writes the negation of a condition the way a person would: the
// complementary comparison for a comparison, x for !x, !(e) otherwise.
func negateCond(info *types.Info, e ast.Expr) ast.Expr {
	boolT := types.TypeAndValue{Type: types.Typ[types.Bool]}
	switch x := ast.Unparen(e).(type) {
	case *ast.BinaryExpr:
		flip := map[token.Token]token.Token{token.EQL: token.NEQ, token.NEQ: token.EQL, token.LSS: token.GEQ, token.GEQ: token.LSS, token.GTR: token.LEQ, token.LEQ: token.GTR}
		if op, ok := flip[x.Op]; ok {
			n := &ast.BinaryExpr{X: x.X, Op: op, Y: x.Y, OpPos: x.OpPos}
			info.Types[n] = boolT
			return n
		}
	case *ast.UnaryExpr:
		if x.Op == token.NOT {
			return x.X
		}
	}
	var inner ast.Expr = e
	switch e.(type) {
	case *ast.Ident, *ast.CallExpr, *ast.ParenExpr, *ast.SelectorExpr:
	default:
		p := &ast.ParenExpr{X: e}
		info.Types[p] = boolT
		inner = p
	}
	n := &ast.UnaryExpr{Op: token.NOT, X: inner}
	info.Types[n] = boolT
	return n
}

// rebasePos gives every node of an expanded helper body the position of the
// call it replaces. Rules that order statements of a function by position
// ("is the copy used after the store?") then see the expansion where the call
// stood instead of somewhere else in the file (or in another file); reports
// about expanded code point at the call site.
func rebasePos(n ast.Node, pos token.Pos) {
	seen := map[uintptr]bool{}
	var walk func(v reflect.Value)
	posT := reflect.TypeOf(token.NoPos)
	walk = func(v reflect.Value) {
		switch v.Kind() {
		case reflect.Interface:
			if !v.IsNil() {
				walk(v.Elem())
			}
		case reflect.Ptr:
			if v.IsNil() || seen[v.Pointer()] {
				return
			}
			seen[v.Pointer()] = true
			switch v.Interface().(type) {
			case *ast.Object, *ast.Scope:
				return
			}
			walk(v.Elem())
		case reflect.Slice:
			for i := 0; i < v.Len(); i++ {
				walk(v.Index(i))
			}
		case reflect.Struct:
			for i := 0; i < v.NumField(); i++ {
				f := v.Field(i)
				if f.Type() == posT {
					if f.CanSet() && f.Int() != 0 {
						f.SetInt(int64(pos))
					}
					continue
				}
				walk(f)
			}
		}
	}
	walk(reflect.ValueOf(n))
}
