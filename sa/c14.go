package main

import (
	"go/ast"
	"go/constant"
	"go/token"
	"go/types"
	"golang.org/x/tools/go/packages"
	"strings"
)

func init() {
	register("C14", runC14,
		"Decides, for every schedule at once, the protocol clauses the single-flight/bounded-pool behaviour rests on: (R1) in each of Prometheus.{Query,RangeQuery,Config,Flags,Metadata} the per-key lock dominates every send on the query channel (also sends made by goroutines the method starts), the matching deferred unlock lies on every path from the lock to an exit, the key mentions every parameter that distinguishes the question, and partitionLocker waits in a loop / broadcasts after delete under its own lock; (R2) querier.Run is called only by processJob, processJob only by queryWorker, queryWorker only from a `go` statement in Prometheus.StartWorkers inside a loop that runs exactly `concurrency` times, doRequest only by Run methods, http.Client.Do only by doRequest, and StartWorkers is started once per instance; (R3) processJob consults the cache before Run on every path where a cache exists, a hit returns without Run, set is reachable only with a nil error, and every CacheKey hashes the server URI, the endpoint and every distinguishing field; (R4) every access to the guarded fields of queryCache, partitionLocker, unsupporedAPIs holds the owning mutex.",
		"liveness and fairness, the rate limiter, cache expiry arithmetic (gc), what the HTTP transport does.")
}

var c14APIMethods = []string{"Query", "RangeQuery", "Config", "Flags", "Metadata"}

// sendsOnQueries reports whether n (descending into function literals)
// contains a send on the Prometheus.queries channel.
func sendsOnQueries(info *types.Info, n ast.Node) bool {
	found := false
	ast.Inspect(n, func(m ast.Node) bool {
		if s, ok := m.(*ast.SendStmt); ok && fieldSel(info, s.Chan, "internal/promapi.Prometheus", "queries") {
			found = true
		}
		return !found
	})
	return found
}

func runC14(c *Ctx) {
	defer checkParamsUsed(c, "C14-R2", "internal/promapi.NewPrometheus", "internal/promapi.NewFailoverGroup")
	p := c.P
	c.Rule("C14-R1", "per-key lock dominates every send; deferred unlock; key covers distinguishing parameters; partitionLocker protocol", 30)
	c.Rule("C14-R2", "pool-only execution and bounded worker count", 14)
	c.Rule("C14-R3", "cache protocol in processJob; CacheKey coverage", 20)
	c.Rule("C14-R4", "guarded fields only touched under their mutex", 8)
	defer c14RequestsDieWithTheirCaller(c, "C14-R1")

	prom := p.Pkg("internal/promapi")
	if prom == nil {
		c.Undecided("C14-R1", "anchor:internal/promapi", token.NoPos, "package not found")
		return
	}
	info := prom.TypesInfo

	// ---- R1 ----
	for _, m := range c14APIMethods {
		fi := c.MustFunc("C14-R1", "internal/promapi.Prometheus."+m)
		if fi == nil {
			continue
		}
		fl := p.NewFlow(fi)
		isLock := func(n ast.Node) bool {
			if _, isDefer := n.(*ast.DeferStmt); isDefer {
				return false
			}
			return fl.containsCall(n, "internal/promapi.partitionLocker.lock")
		}
		locks := fl.Find(func(n ast.Node) bool {
			call, ok := n.(*ast.CallExpr)
			return ok && isCallTo(info, call, "internal/promapi.partitionLocker.lock")
		})
		if len(locks) != 1 {
			c.Bad("C14-R1", m+":exactly one key lock", fi.Decl.Pos(), itoa(len(locks))+" calls to locker.lock (identical questions can be in flight together)")
			continue
		}
		lockCall := locks[0].Inner.(*ast.CallExpr)
		keyExpr := lockCall.Args[0]
		c.Ok("C14-R1", m+":exactly one key lock", lockCall.Pos(), exprStr(keyExpr))
		// sends
		sends := 0
		for _, b := range fl.G.Blocks {
			if !b.Live {
				continue
			}
			for i, n := range b.Nodes {
				if !sendsOnQueries(info, n) {
					continue
				}
				sends++
				target := Site{b, i}
				ok, _ := fl.MustPass(fl.Entry(), func(s Site) bool { return s == target }, false, isLock)
				c.Check(ok, "C14-R1", m+":lock dominates send on queries", n.Pos(), "dominated", "a request can be queued without holding the per-key lock")
			}
		}
		c.Check(sends >= 1, "C14-R1", m+":queues its request on prom.queries", fi.Decl.Pos(), itoa(sends)+" send site(s)", "no send on prom.queries found (request path changed)")
		// deferred unlock with the same key on every path lock -> exit
		isDeferUnlock := func(n ast.Node) bool {
			d, ok := n.(*ast.DeferStmt)
			if !ok || !isCallTo(info, d.Call, "internal/promapi.partitionLocker.unlock") || len(d.Call.Args) != 1 {
				return false
			}
			return exprStr(d.Call.Args[0]) == exprStr(keyExpr)
		}
		okUnlock, _ := fl.MustPass(locks[0].Site.After(), nil, true, isDeferUnlock)
		c.Check(okUnlock, "C14-R1", m+":deferred unlock of the same key on every exit", lockCall.Pos(), "paired", "an exit after lock("+exprStr(keyExpr)+") does not pass `defer unlock` of the same key (key stays locked forever or a different key is released)")
		// and no send between lock and the defer
		// key covers parameters
		keyDef := keyExpr
		if id, ok := ast.Unparen(keyExpr).(*ast.Ident); ok {
			if v, isVar := info.Uses[id].(*types.Var); isVar {
				n := 0
				ast.Inspect(fi.Decl.Body, func(nd ast.Node) bool {
					if as, ok := nd.(*ast.AssignStmt); ok {
						for i, l := range as.Lhs {
							if objOf(info, l) == v && i < len(as.Rhs) {
								keyDef = as.Rhs[i]
								n++
							}
						}
					}
					return true
				})
				if n != 1 {
					c.Undecided("C14-R1", m+":key definition", keyExpr.Pos(), "key variable assigned "+itoa(n)+" times")
				}
			}
		}
		sig := fi.Obj.Type().(*types.Signature)
		for i := 0; i < sig.Params().Len(); i++ {
			par := sig.Params().At(i)
			if par.Type().String() == "context.Context" {
				continue
			}
			if par.Type().String() == "time.Duration" {
				// the only duration handed to these methods is the cache lifetime
				c.Ok("C14-R1", m+":key covers the time.Duration parameter (exempt)", par.Pos(), "cache lifetime does not change the question asked")
				continue
			}
			mentions := false
			ast.Inspect(keyDef, func(nd ast.Node) bool {
				if id, ok := nd.(*ast.Ident); ok && info.Uses[id] == par {
					mentions = true
				}
				return true
			})
			c.Check(mentions, "C14-R1", m+":key covers parameter #"+itoa(i)+" ("+paramTypeKey(par.Type())+")", keyDef.Pos(), "distinguishing parameter is part of the key", "lock key `"+exprStr(keyDef)+"` ignores parameter "+par.Name()+": different questions serialise, or worse, the cache-fill ordering is per wrong key")
		}
		// key carries the endpoint constant (distinct APIs never share a key)
		hasPath := false
		ast.Inspect(keyDef, func(nd ast.Node) bool {
			if e, ok := nd.(ast.Expr); ok {
				if s, ok := constString(info, e); ok && strings.HasPrefix(s, "/api/v1/") {
					hasPath = true
				}
			}
			return true
		})
		c.Check(hasPath, "C14-R1", m+":key carries the endpoint", keyDef.Pos(), "endpoint prefix", "lock key has no endpoint constant")
	}
	// partitionLocker protocol
	if lk := c.MustFunc("C14-R1", "internal/promapi.partitionLocker.lock"); lk != nil {
		// "the key is absent": locked(id) is false, or the comma-ok lookup `_, held := p.s[id]` said no
		fl0 := p.NewFlow(lk)
		heldVars := map[types.Object]bool{}
		ast.Inspect(lk.Decl.Body, func(n ast.Node) bool {
			if as, ok := n.(*ast.AssignStmt); ok && len(as.Lhs) == 2 && len(as.Rhs) == 1 {
				if ix, isIx := ast.Unparen(as.Rhs[0]).(*ast.IndexExpr); isIx && fieldSel(info, ix.X, "internal/promapi.partitionLocker", "s") {
					if o := objOf(info, as.Lhs[1]); o != nil {
						heldVars[o] = true
					}
				}
			}
			return true
		})
		absent := func(a Atom) bool {
			if a.Tag != nil {
				return false
			}
			e, t := ast.Unparen(a.E), a.Truth
			for {
				u, ok := e.(*ast.UnaryExpr)
				if !ok || u.Op != token.NOT {
					break
				}
				e, t = ast.Unparen(u.X), !t
			}
			if call, ok := e.(*ast.CallExpr); ok && isCallTo(info, call, "internal/promapi.partitionLocker.locked") {
				return !t
			}
			if o := objOf(info, e); o != nil && heldVars[o] {
				return !t
			}
			return false
		}
		claims := fl0.Find(func(n ast.Node) bool {
			as, ok := n.(*ast.AssignStmt)
			if !ok || len(as.Lhs) != 1 {
				return false
			}
			ix, ok := as.Lhs[0].(*ast.IndexExpr)
			return ok && fieldSel(info, ix.X, "internal/promapi.partitionLocker", "s")
		})
		waitSites := fl0.Find(func(n ast.Node) bool {
			call, ok := n.(*ast.CallExpr)
			if !ok {
				return false
			}
			fn := Callee(info, call)
			return fn != nil && fn.Pkg() != nil && fn.Pkg().Path() == "sync" && fn.Name() == "Wait"
		})
		// after every wake-up the key is looked up again before it is claimed: no path from a Wait to
		// the claim without crossing an "absent" edge (a plain `if` around Wait has such a path)
		okLoop := len(waitSites) >= 1 && len(claims) >= 1
		for _, w := range waitSites {
			for _, cl := range claims {
				target := cl.Site
				reach, _ := fl0.Reach(w.Site.After(), func(x Site) bool { return x == target }, false, PathQ{Cut: func(atoms []Atom) bool {
					for _, a := range atoms {
						if absent(a) {
							return true
						}
					}
					return false
				}})
				if reach {
					okLoop = false
				}
			}
		}
		c.Check(okLoop, "C14-R1", "partitionLocker.lock:waits in a loop on locked(id)", lk.Decl.Pos(), "every wake-up re-checks the key", "the wait on a held key is not a `for p.locked(id) { p.c.Wait() }` loop (a spurious or broadcast wake-up lets two holders in)")
		// the claim store follows the loop
		fl := p.NewFlow(lk)
		stores := fl.Find(func(n ast.Node) bool {
			as, ok := n.(*ast.AssignStmt)
			if !ok || len(as.Lhs) != 1 {
				return false
			}
			ix, ok := as.Lhs[0].(*ast.IndexExpr)
			return ok && fieldSel(info, ix.X, "internal/promapi.partitionLocker", "s")
		})
		c.Check(len(stores) == 1, "C14-R1", "partitionLocker.lock:claims the key once", lk.Decl.Pos(), "one store", itoa(len(stores))+" stores to the key set")
		for _, s := range stores {
			dom := fl.Dominated(s.Site, nil, absent)
			c.Check(dom, "C14-R1", "partitionLocker.lock:claim only after locked(id) is false", s.Inner.Pos(), "dominated by the loop exit", "the key is claimed on a path where locked(id) was not observed false")
		}
	}
	if ul := c.MustFunc("C14-R1", "internal/promapi.partitionLocker.unlock"); ul != nil {
		fl := p.NewFlow(ul)
		dels := fl.Find(func(n ast.Node) bool {
			call, ok := n.(*ast.CallExpr)
			return ok && exprStr(call.Fun) == "delete" && len(call.Args) == 2 && fieldSel(info, call.Args[0], "internal/promapi.partitionLocker", "s")
		})
		bcast := fl.Find(func(n ast.Node) bool {
			call, ok := n.(*ast.CallExpr)
			if !ok {
				return false
			}
			fn := Callee(info, call)
			return fn != nil && fn.Pkg() != nil && fn.Pkg().Path() == "sync" && fn.Name() == "Broadcast"
		})
		ok := len(dels) == 1 && len(bcast) == 1
		if ok {
			target := bcast[0].Site
			ok, _ = fl.MustPass(fl.Entry(), func(s Site) bool { return s == target }, false, func(n ast.Node) bool { return n == dels[0].Site.Node() })
			// and every exit passes the broadcast
			ok2, _ := fl.MustPass(fl.Entry(), nil, true, func(n ast.Node) bool { return n == bcast[0].Site.Node() })
			ok = ok && ok2
		}
		c.Check(ok, "C14-R1", "partitionLocker.unlock:delete then Broadcast on every path", ul.Decl.Pos(), "delete; Broadcast", "unlock does not delete the key and then Broadcast on every path (waiters sleep forever or wake before the key is free)")
	}

	// ---- R2 ----
	c14Pool(c)

	// ---- R3 ----
	c14Cache(c)

	// ---- R4 ----
	checkGuards(c, "C14-R4", []GuardSpec{
		{Type: "internal/promapi.queryCache", Fields: []string{"entries", "stats", "evictions"}, Mutex: "mu"},
		{Type: "internal/promapi.partitionLocker", Fields: []string{"s"}, Mutex: "l"},
		{Type: "internal/promapi.unsupporedAPIs", Fields: []string{"noConfig", "noFlags", "noMetadata"}, Mutex: "mtx"},
	}, map[string]string{})
}

// disabledChecksEscape: the map behind FailoverGroup.GetDisabledChecks escapes
// by reference; that is accepted because its only consumer is checkRules after
// the results channel was drained (all workers have stopped). Reported under R
// (C11-R4: the bookkeeping of disabled checks is about races and scheduling,
// not about how often a server is asked).
func disabledChecksEscape(c *Ctx, R string) {
	p := c.P
	if gdc := c.MustFunc(R, "internal/promapi.FailoverGroup.GetDisabledChecks"); gdc != nil {
		callers := p.CallersOf(gdc.Obj)
		for _, cs := range callers {
			key := "GetDisabledChecks caller " + cs.Caller.Name
			if cs.Caller.Name != "cmd/pint.checkRules" || cs.InLit {
				c.Bad(R, key, cs.Call.Pos(), "the unguarded disabled-checks map is read from a place not known to run after all workers stopped")
				continue
			}
			fl := p.NewFlow(cs.Caller)
			cinfo := cs.Caller.Pkg.TypesInfo
			var target *Site
			for _, sm := range fl.Find(func(n ast.Node) bool { return n == cs.Call }) {
				s := sm.Site
				target = &s
			}
			if target == nil {
				c.Undecided(R, key, cs.Call.Pos(), "call site not found in CFG")
				continue
			}
			// must pass the drain loop: range over a channel of reporter.Report
			ok, _ := fl.MustPass(fl.Entry(), func(s Site) bool { return s == *target }, false, func(n ast.Node) bool {
				e, isExpr := n.(ast.Expr)
				if !isExpr {
					return false
				}
				ch, isChan := cinfo.TypeOf(e).Underlying().(*types.Chan)
				return isChan && typeQName(ch.Elem()) == "internal/reporter.Report"
			})
			c.Check(ok, R, key+" after results drained", cs.Call.Pos(), "ordered after the fan-in loop", "GetDisabledChecks can run while workers are still calling DisableCheck")
		}
		c.Check(len(callers) >= 1, R, "GetDisabledChecks has a consumer", gdc.Decl.Pos(), itoa(len(callers))+" caller(s)", "no callers")
	}
}

func c14Pool(c *Ctx) {
	p := c.P
	prom := p.Pkg("internal/promapi")
	info := prom.TypesInfo
	qt := p.LookupType("internal/promapi", "querier")
	if qt == nil {
		c.Undecided("C14-R2", "anchor:promapi.querier", token.NoPos, "interface not found")
		return
	}
	iface := qt.Type().Underlying().(*types.Interface)
	var runObjs []*types.Func
	for i := 0; i < iface.NumMethods(); i++ {
		if iface.Method(i).Name() == "Run" {
			runObjs = append(runObjs, iface.Method(i))
		}
	}
	impls := p.implementers(iface)
	runNames := map[string]bool{}
	for _, tn := range impls {
		if m := p.methodOn(typeQName(tn.Type()), "Run"); m != nil {
			runObjs = append(runObjs, m.Obj)
			runNames[m.Name] = true
		}
	}
	c.Check(len(impls) >= 5, "C14-R2", "querier implementers enumerated", qt.Pos(), itoa(len(impls))+" query types", "fewer than five query types implement querier")
	for _, ro := range runObjs {
		name := funcQName(ro)
		for _, cs := range p.CallersOf(ro) {
			c.Check(cs.Caller.Name == "internal/promapi.processJob", "C14-R2", "caller of "+name+": "+cs.Caller.Name, cs.Call.Pos(), "only the worker path runs queries", name+" is executed outside processJob: the request bypasses the worker pool, the cache and the concurrency bound")
		}
		for _, pos := range p.FuncValueUses(ro) {
			c.Bad("C14-R2", "method value of "+name, pos, "Run is taken as a function value; its callers are unknown")
		}
	}
	expectOnly := func(fn, only string) *FuncInfo {
		fi := c.MustFunc("C14-R2", fn)
		if fi == nil {
			return nil
		}
		cs := p.CallersOf(fi.Obj)
		c.Check(len(cs) >= 1, "C14-R2", "callers("+fn+") non-empty", fi.Decl.Pos(), itoa(len(cs)), "no callers: the worker path is disconnected")
		for _, x := range cs {
			c.Check(x.Caller.Name == only, "C14-R2", "caller of "+fn+": "+x.Caller.Name, x.Call.Pos(), "expected caller", fn+" is called from "+x.Caller.Name+", expected only "+only)
		}
		for _, pos := range p.FuncValueUses(fi.Obj) {
			c.Bad("C14-R2", "function value of "+fn, pos, "used as a value; callers unknown")
		}
		return fi
	}
	expectOnly("internal/promapi.processJob", "internal/promapi.queryWorker")
	qw := expectOnly("internal/promapi.queryWorker", "internal/promapi.Prometheus.StartWorkers")
	// queryWorker is started by `go` inside a loop bounded by concurrency
	if qw != nil {
		if sw := c.MustFunc("C14-R2", "internal/promapi.Prometheus.StartWorkers"); sw != nil {
			pm := parentMap(sw.Decl.Body)
			for _, cs := range p.CallersOf(qw.Obj) {
				var goStmt *ast.GoStmt
				var loops []ast.Node
				for cur := pm[cs.Call]; cur != nil; cur = pm[cur] {
					switch x := cur.(type) {
					case *ast.GoStmt:
						if goStmt == nil {
							goStmt = x
						}
					case *ast.ForStmt, *ast.RangeStmt:
						loops = append(loops, x)
					}
				}
				c.Check(goStmt != nil, "C14-R2", "StartWorkers:queryWorker runs in a goroutine", cs.Call.Pos(), "go", "queryWorker is not started with `go`")
				okLoop := false
				detail := "not in exactly one counting loop"
				if len(loops) == 1 {
					// `for range prom.concurrency` (range over an integer) runs exactly that many times
					if rs, ok := loops[0].(*ast.RangeStmt); ok && fieldSel(info, rs.X, "internal/promapi.Prometheus", "concurrency") {
						okLoop, detail = true, "range over prom.concurrency"
					}
					if f, ok := loops[0].(*ast.ForStmt); ok && f.Cond != nil && f.Init != nil && f.Post != nil {
						if be, ok := ast.Unparen(f.Cond).(*ast.BinaryExpr); ok && fieldSel(info, be.Y, "internal/promapi.Prometheus", "concurrency") {
							init, _ := f.Init.(*ast.AssignStmt)
							post, _ := f.Post.(*ast.IncDecStmt)
							if init != nil && post != nil && post.Tok == token.INC && len(init.Rhs) == 1 {
								start, isC := constInt(info, init.Rhs[0])
								sameVar := objOf(info, init.Lhs[0]) == objOf(info, be.X) && objOf(info, post.X) == objOf(info, be.X)
								if isC && sameVar && ((start == 1 && be.Op == token.LEQ) || (start == 0 && be.Op == token.LSS)) {
									okLoop = true
								}
								detail = "loop `" + exprStr(init.Lhs[0]) + " := " + exprStr(init.Rhs[0]) + "; " + exprStr(f.Cond) + "`"
							}
						}
					}
				}
				c.Check(okLoop, "C14-R2", "StartWorkers:exactly `concurrency` workers", cs.Call.Pos(), detail, "worker start loop does not run exactly prom.concurrency times: "+detail)
			}
			// the loop variable must not be modified in the body and no other go statements start workers
			nGo := 0
			ast.Inspect(sw.Decl.Body, func(n ast.Node) bool {
				if _, ok := n.(*ast.GoStmt); ok {
					nGo++
				}
				return true
			})
			c.Check(nGo == 1, "C14-R2", "StartWorkers:single go statement", sw.Decl.Pos(), "one", itoa(nGo)+" go statements")
		}
	}
	// doRequest only from Run methods
	if dr := c.MustFunc("C14-R2", "internal/promapi.Prometheus.doRequest"); dr != nil {
		for _, cs := range p.CallersOf(dr.Obj) {
			c.Check(runNames[cs.Caller.Name], "C14-R2", "caller of doRequest: "+cs.Caller.Name, cs.Call.Pos(), "a querier Run method", "doRequest is called from "+cs.Caller.Name+", outside the querier Run methods (request bypasses the pool)")
		}
	}
	// http.Client.Do / http.Get etc. in package promapi only in doRequest
	for _, f := range prom.Syntax {
		if p.IsTestFile(f.Pos()) {
			continue
		}
		ast.Inspect(f, func(n ast.Node) bool {
			call, ok := n.(*ast.CallExpr)
			if !ok {
				return true
			}
			fn := Callee(info, call)
			if fn == nil || fn.Pkg() == nil || fn.Pkg().Path() != "net/http" {
				return true
			}
			switch fn.Name() {
			case "Do", "Get", "Post", "PostForm", "Head":
				fi := p.enclosingFunc(call.Pos())
				c.Check(fnName(fi) == "internal/promapi.Prometheus.doRequest", "C14-R2", "HTTP request issued in "+fnName(fi), call.Pos(), "single request site", "an HTTP request to a server is issued outside doRequest")
			}
			return true
		})
	}
	// StartWorkers once per instance
	if sw := p.Func("internal/promapi.Prometheus.StartWorkers"); sw != nil {
		for _, cs := range p.CallersOf(sw.Obj) {
			switch cs.Caller.Name {
			case "internal/promapi.FailoverGroup.StartWorkers":
				fl := p.NewFlow(cs.Caller)
				var target *Site
				for _, sm := range fl.Find(func(n ast.Node) bool { return n == cs.Call }) {
					s := sm.Site
					target = &s
				}
				dom := target != nil && fl.Dominated(*target, nil, func(a Atom) bool {
					return !a.Truth && a.Tag == nil && fieldSel(info, a.E, "internal/promapi.FailoverGroup", "started")
				})
				// started = true is set on the way out
				setTrue := false
				ast.Inspect(cs.Caller.Decl.Body, func(n ast.Node) bool {
					if as, ok := n.(*ast.AssignStmt); ok && len(as.Lhs) == 1 && fieldSel(info, as.Lhs[0], "internal/promapi.FailoverGroup", "started") && exprStr(as.Rhs[0]) == "true" {
						setTrue = true
					}
					return true
				})
				c.Check(dom && setTrue, "C14-R2", "FailoverGroup.StartWorkers:guarded by !started and sets started", cs.Call.Pos(), "once per group", "workers can be started twice for one group (2x concurrency)")
			case "internal/config.PrometheusQuery.Discover":
				// instance constructed in the same function
				cinfo := cs.Caller.Pkg.TypesInfo
				okNew := false
				if sel, ok := cs.Call.Fun.(*ast.SelectorExpr); ok {
					v := objOf(cinfo, sel.X)
					ast.Inspect(cs.Caller.Decl.Body, func(n ast.Node) bool {
						if as, ok := n.(*ast.AssignStmt); ok && as.Tok == token.DEFINE && len(as.Rhs) == 1 && objOf(cinfo, as.Lhs[0]) == v {
							if call, ok := as.Rhs[0].(*ast.CallExpr); ok && isCallTo(cinfo, call, "internal/promapi.NewPrometheus") {
								okNew = true
							}
						}
						return true
					})
				}
				c.Check(okNew, "C14-R2", "Discover:StartWorkers on a freshly constructed instance", cs.Call.Pos(), "fresh instance", "StartWorkers is called on an instance not constructed in the same function")
			default:
				c.Bad("C14-R2", "caller of Prometheus.StartWorkers: "+cs.Caller.Name, cs.Call.Pos(), "unexpected caller: workers may be started more than once per instance")
			}
		}
	}
}

func c14Cache(c *Ctx) { c14CacheR(c, "C14-R3") }

// c14CacheR: the cache protocol of processJob and the coverage of every
// CacheKey, reported under R (C14-R3; C15-R5: an answer or a failure of one
// upstream is never served on behalf of another).
func c14CacheR(c *Ctx, R string) {
	p := c.P
	pj := c.MustFunc(R, "internal/promapi.processJob")
	if pj == nil {
		return
	}
	info := pj.Pkg.TypesInfo
	fl := p.NewFlow(pj)
	isRunCall := func(n ast.Node) bool {
		call, ok := n.(*ast.CallExpr)
		if !ok {
			return false
		}
		fn := Callee(info, call)
		return fn != nil && fn.Name() == "Run" && strings.HasSuffix(funcQName(fn), "querier.Run")
	}
	runs := fl.Find(isRunCall)
	gets := fl.FindCalls("internal/promapi.queryCache.get")
	sets := fl.FindCalls("internal/promapi.queryCache.set")
	c.Check(len(runs) == 1 && len(gets) == 1 && len(sets) >= 1, R, "processJob:one get, one Run, a set", pj.Decl.Pos(), "protocol sites found", "expected exactly one cache.get, one Run() and at least one cache.set, found "+itoa(len(gets))+"/"+itoa(len(runs))+"/"+itoa(len(sets)))
	protocol := func() {
		if len(runs) != 1 || len(gets) != 1 || len(sets) < 1 {
			return
		}
		runSite := runs[0].Site
		cacheNonNil := func(a Atom) bool {
			x, isNil, ok := nilAtom(info, a)
			return ok && fieldSel(info, x, "internal/promapi.Prometheus", "cache") && isNil
		}
		// with a cache present, Run is reachable only after get
		reach, _ := fl.Reach(fl.Entry(), func(s Site) bool { return s == runSite }, false, PathQ{
			Avoid: func(n ast.Node) bool { return fl.containsCall(n, "internal/promapi.queryCache.get") },
			Cut: func(atoms []Atom) bool {
				for _, a := range atoms {
					if cacheNonNil(a) {
						return true
					}
				}
				return false
			},
		})
		c.Check(!reach, R, "processJob:get precedes Run when a cache exists", runs[0].Inner.Pos(), "lookup before execution", "Run() is reachable without a cache lookup although a cache is configured")
		// a hit returns without Run: the if whose init calls get
		var hitIf *ast.IfStmt
		ast.Inspect(pj.Decl.Body, func(n ast.Node) bool {
			if ifs, ok := n.(*ast.IfStmt); ok && ifs.Init != nil {
				found := false
				ast.Inspect(ifs.Init, func(m ast.Node) bool {
					if call, ok := m.(*ast.CallExpr); ok && isCallTo(info, call, "internal/promapi.queryCache.get") {
						found = true
					}
					return true
				})
				if found {
					hitIf = ifs
				}
			}
			return true
		})
		okHit := false
		if hitIf != nil {
			// cond is the ok result; body ends with return
			if as, ok := hitIf.Init.(*ast.AssignStmt); ok && len(as.Lhs) == 2 && objOf(info, hitIf.Cond) == objOf(info, as.Lhs[1]) && len(hitIf.Body.List) > 0 {
				if r, ok := hitIf.Body.List[len(hitIf.Body.List)-1].(*ast.ReturnStmt); ok && len(r.Results) == 1 {
					// the returned value derives from the cached value
					uses := false
					ast.Inspect(r.Results[0], func(m ast.Node) bool {
						if id, ok := m.(*ast.Ident); ok && info.Uses[id] == objOf(info, as.Lhs[0]) {
							uses = true
						}
						return true
					})
					okHit = uses
				}
			}
		}
		c.Check(okHit, R, "processJob:cache hit returns the cached value without Run", pj.Decl.Pos(), "hit short-circuits", "a cache hit no longer returns the cached result immediately (the server is asked again)")
		// set only with nil error
		var resultObj types.Object
		ast.Inspect(pj.Decl.Body, func(n ast.Node) bool {
			if as, ok := n.(*ast.AssignStmt); ok && len(as.Rhs) == 1 && isRunCall(as.Rhs[0]) {
				resultObj = objOf(info, as.Lhs[0])
			}
			return true
		})
		getCall := gets[0].Inner.(*ast.CallExpr)
		for si, set := range sets {
			sfx := ""
			if si > 0 {
				sfx = "#" + itoa(si+1)
			}
			setCall := set.Inner.(*ast.CallExpr)
			domErr := fl.Dominated(set.Site, set.Inner, func(a Atom) bool {
				x, isNil, ok := nilAtom(info, a)
				if !ok || !isNil {
					return false
				}
				sel, isSel := ast.Unparen(x).(*ast.SelectorExpr)
				return isSel && sel.Sel.Name == "err" && resultObj != nil && objOf(info, sel.X) == resultObj
			})
			c.Check(domErr, R, "processJob:set only when result.err == nil"+sfx, setCall.Pos(), "errors are never cached", "cache.set is reachable with a non-nil result.err (a failure is served from the cache)")
			// set stores the Run result under the key used for get
			sameKey := len(setCall.Args) == 3 && len(getCall.Args) >= 1 && objOf(info, setCall.Args[0]) != nil && objOf(info, setCall.Args[0]) == objOf(info, getCall.Args[0])
			storesResult := len(setCall.Args) == 3 && resultObj != nil && objOf(info, setCall.Args[1]) == resultObj
			c.Check(sameKey && storesResult, R, "processJob:set(key of get, Run result)"+sfx, setCall.Pos(), "same key, run result", "cache.set does not store the Run() result under the key that get() looked up")
		}
		// the key comes from job.query.CacheKey()
		okKey := false
		if len(getCall.Args) >= 1 {
			k := objOf(info, getCall.Args[0])
			ast.Inspect(pj.Decl.Body, func(n ast.Node) bool {
				if as, ok := n.(*ast.AssignStmt); ok && len(as.Rhs) == 1 && objOf(info, as.Lhs[0]) == k {
					if call, ok := as.Rhs[0].(*ast.CallExpr); ok {
						if fn := Callee(info, call); fn != nil && fn.Name() == "CacheKey" {
							okKey = true
						}
					}
				}
				return true
			})
		}
		c.Check(okKey, R, "processJob:key is query.CacheKey()", getCall.Pos(), "CacheKey()", "cache key is not the query's CacheKey()")

		// staleness bookkeeping: a time field whose age gc() tests (now.Sub(ce.F)) is stamped with c.now() when the entry is stored
		if gc := c.MustFunc(R, "internal/promapi.queryCache.gc"); gc != nil && R == "C14-R3" {
			ginfo := gc.Pkg.TypesInfo
			aged := map[string]bool{}
			ast.Inspect(gc.Decl.Body, func(n ast.Node) bool {
				call, ok := n.(*ast.CallExpr)
				if !ok || len(call.Args) != 1 {
					return true
				}
				if sel, ok := call.Fun.(*ast.SelectorExpr); ok && sel.Sel.Name == "Sub" {
					if fs, ok := call.Args[0].(*ast.SelectorExpr); ok && fieldOwner(ginfo, fs) == "internal/promapi.cacheEntry" {
						aged[fs.Sel.Name] = true
					}
				}
				return true
			})
			set := p.Func("internal/promapi.queryCache.set")
			for _, f := range sortedKeys(aged) {
				ok := false
				if set != nil {
					for _, cl := range compositeLits(ginfo, set.Decl.Body, "internal/promapi.cacheEntry") {
						if v := litField(cl, f); v != nil {
							if call, isCall := v.(*ast.CallExpr); isCall && fieldSel(ginfo, call.Fun, "internal/promapi.queryCache", "now") {
								ok = true
							}
						}
					}
				}
				c.Check(ok, R, "queryCache.set:stamps "+f+" with now()", gc.Decl.Pos(), "fresh entries are not stale", "gc() evicts entries whose "+f+" is older than maxStale, but set() does not stamp "+f+" with the current time: a freshly stored answer is evicted at the next clean-up instead of being reused for its lifetime")
			}
			c.Check(len(aged) >= 1, R, "queryCache.gc:age test found", gc.Decl.Pos(), itoa(len(aged))+" aged field(s)", "no now.Sub(entry.field) staleness test found")
		}

	}
	protocol()
	if R == "C14-R3" {
		c14KeyClockFree(c)
	}
	if R == "C14-R3" {
		c14SingleUnlock(c)
	}
	if R == "C14-R3" {
		c14TemplateFields(c)
		c14ConcurrencyChain(c)
		c14DurationUnits(c)
		c16KeyIsTheText(c, "C14-R3")
		c14HashIsADigest(c, "C14-R3")
		c14SliceLifetime(c, "C14-R3")
		c14AnswersAreNotEdited(c, "C14-R3")
	}
	if R == "C14-R3" {
		cacheExpiryWriters(c, R)
	}

	// CacheKey coverage (under another rule id only the part that keeps upstreams apart: the server URI)
	qt := p.LookupType("internal/promapi", "querier")
	if qt == nil {
		return
	}
	exemptFields := map[string]string{
		"prom": "covered by prom.unsafeURI", "ctx": "request context", "timestamp": "bookkeeping only",
		"ttl": "cache lifetime, not part of the question", "cacheTTL": "cache lifetime, not part of the question",
	}
	for _, tn := range p.implementers(qt.Type().Underlying().(*types.Interface)) {
		tq := typeQName(tn.Type())
		ck := p.methodOn(tq, "CacheKey")
		if ck == nil {
			c.Undecided(R, "CacheKey:"+tq, tn.Pos(), "no CacheKey method")
			continue
		}
		kinfo := ck.Pkg.TypesInfo
		var hashCall *ast.CallExpr
		ast.Inspect(ck.Decl.Body, func(n ast.Node) bool {
			if call, ok := n.(*ast.CallExpr); ok && isCallTo(kinfo, call, "internal/promapi.hash") {
				hashCall = call
			}
			return true
		})
		if hashCall == nil {
			c.Undecided(R, "CacheKey:"+tq, ck.Decl.Pos(), "does not call hash(...)")
			continue
		}
		hasURI, hasEndpoint := false, false
		mentioned := map[string]bool{}
		for _, a := range hashCall.Args {
			ast.Inspect(a, func(n ast.Node) bool {
				switch x := n.(type) {
				case *ast.SelectorExpr:
					if fieldSel(kinfo, x, "internal/promapi.Prometheus", "unsafeURI") {
						hasURI = true
					}
					if fieldOwner(kinfo, x) == tq {
						mentioned[x.Sel.Name] = true
					}
				case *ast.CallExpr:
					if fn := Callee(kinfo, x); fn != nil && fn.Name() == "Endpoint" {
						hasEndpoint = true
					}
				}
				return true
			})
		}
		c.Check(hasURI, R, "CacheKey:"+tq+":server URI", hashCall.Pos(), "hashed", "cache key ignores the server URI (answers of one upstream are served for another)")
		if R != "C14-R3" {
			continue
		}
		c.Check(hasEndpoint, R, "CacheKey:"+tq+":endpoint", hashCall.Pos(), "hashed", "cache key ignores the endpoint")
		for _, f := range structFields(tn) {
			if why, ok := exemptFields[f]; ok {
				_ = why
				continue
			}
			c.Check(mentioned[f], R, "CacheKey:"+tq+":field "+f, hashCall.Pos(), "hashed", "cache key ignores field "+f+": different questions share one cache entry")
			// struct-valued fields (v1.Range): every sub-field must be hashed
			st, _ := tn.Type().Underlying().(*types.Struct)
			for i := 0; st != nil && i < st.NumFields(); i++ {
				if st.Field(i).Name() != f {
					continue
				}
				sub, isStruct := st.Field(i).Type().Underlying().(*types.Struct)
				if !isStruct || typeQName(st.Field(i).Type()) == "time.Time" {
					continue
				}
				for j := 0; j < sub.NumFields(); j++ {
					sf := sub.Field(j).Name()
					found := false
					for _, a := range hashCall.Args {
						ast.Inspect(a, func(n ast.Node) bool {
							if sel, ok := n.(*ast.SelectorExpr); ok && sel.Sel.Name == sf {
								if inner, ok := sel.X.(*ast.SelectorExpr); ok && inner.Sel.Name == f && fieldOwner(kinfo, inner) == tq {
									found = true
								}
							}
							return true
						})
					}
					c.Check(found, R, "CacheKey:"+tq+":field "+f+"."+sf, hashCall.Pos(), "hashed", "cache key ignores "+f+"."+sf+": different questions share one cache entry")
				}
			}
		}
	}
}

// c14KeyClockFree: what goes into an in-flight lock key must be the same for
// the same question asked a moment later. The String() of every
// RangeQueryTimes implementation (part of RangeQuery's key) therefore must not
// reach time.Now/time.Since, directly or through module functions (depth 3).
func c14KeyClockFree(c *Ctx) {
	p := c.P
	it := p.LookupType("internal/promapi", "RangeQueryTimes")
	if it == nil {
		c.Undecided("C14-R1", "anchor:RangeQueryTimes", token.NoPos, "interface not found")
		return
	}
	iface, ok := it.Type().Underlying().(*types.Interface)
	if !ok {
		return
	}
	var reaches func(fi *FuncInfo, depth int, seen map[*FuncInfo]bool) string
	reaches = func(fi *FuncInfo, depth int, seen map[*FuncInfo]bool) string {
		if fi == nil || fi.Decl.Body == nil || seen[fi] || depth > 3 {
			return ""
		}
		seen[fi] = true
		info := fi.Pkg.TypesInfo
		found := ""
		ast.Inspect(fi.Decl.Body, func(n ast.Node) bool {
			call, ok := n.(*ast.CallExpr)
			if !ok || found != "" {
				return true
			}
			fn := Callee(info, call)
			if fn == nil || fn.Pkg() == nil {
				return true
			}
			if fn.Pkg().Path() == "time" && (fn.Name() == "Now" || fn.Name() == "Since" || fn.Name() == "Until") {
				found = fi.Name + " -> time." + fn.Name()
				return true
			}
			if callee := p.FuncOf(fn); callee != nil {
				if r := reaches(callee, depth+1, seen); r != "" {
					found = fi.Name + " -> " + r
				}
			}
			return true
		})
		return found
	}
	n := 0
	for _, tn := range p.implementers(iface) {
		m := p.methodOn(typeQName(tn.Type()), "String")
		if m == nil {
			continue
		}
		n++
		via := reaches(m, 0, map[*FuncInfo]bool{})
		if via == "" {
			// … nor a field that was filled from the clock when the value was made
			if st, isStruct := tn.Type().Underlying().(*types.Struct); isStruct {
				clockFields := map[string]bool{}
				for _, pkg := range p.ModPkgs() {
					if pkg.Types != tn.Pkg() {
						continue
					}
					for _, f := range pkg.Syntax {
						ast.Inspect(f, func(nd ast.Node) bool {
							readsClock := func(e ast.Expr) bool {
								r := false
								ast.Inspect(e, func(m ast.Node) bool {
									if call, ok := m.(*ast.CallExpr); ok {
										if fn := Callee(pkg.TypesInfo, call); fn != nil && fn.Pkg() != nil && fn.Pkg().Path() == "time" && (fn.Name() == "Now" || fn.Name() == "Since" || fn.Name() == "Until") {
											r = true
										}
									}
									return true
								})
								return r
							}
							switch x := nd.(type) {
							case *ast.CompositeLit:
								if pkg.TypesInfo.TypeOf(x) != nil && types.Identical(pkg.TypesInfo.TypeOf(x), tn.Type()) {
									for _, el := range x.Elts {
										if kv, ok := el.(*ast.KeyValueExpr); ok {
											if id, ok := kv.Key.(*ast.Ident); ok && readsClock(kv.Value) {
												clockFields[id.Name] = true
											}
										}
									}
								}
							case *ast.AssignStmt:
								for i, l := range x.Lhs {
									if sel, ok := ast.Unparen(l).(*ast.SelectorExpr); ok && i < len(x.Rhs) && fieldOwner(pkg.TypesInfo, sel) == typeQName(tn.Type()) && readsClock(x.Rhs[i]) {
										clockFields[sel.Sel.Name] = true
									}
								}
							}
							return true
						})
					}
				}
				_ = st
				ast.Inspect(m.Decl.Body, func(nd ast.Node) bool {
					if sel, ok := nd.(*ast.SelectorExpr); ok && fieldOwner(m.Pkg.TypesInfo, sel) == typeQName(tn.Type()) && clockFields[sel.Sel.Name] {
						via = "field " + sel.Sel.Name + " is filled from time.Now() when the value is built"
					}
					return true
				})
			}
		}
		c.Check(via == "", "C14-R1", typeQName(tn.Type())+".String:lock key part does not depend on the wall clock", m.Decl.Pos(), "no time.Now on the way",
			"the text that identifies a range query in the in-flight lock key reads the clock ("+via+"): the same question asked a second later gets another key, so identical slice requests run concurrently and reach the server more than once")
	}
	c.Check(n >= 1, "C14-R1", "RangeQueryTimes implementations enumerated", it.Pos(), itoa(n), "no implementation with a String method found")
}

// c14TemplateFields: a discovery template is turned into a server definition
// field by field. Every field of the PrometheusConfig literal in
// PrometheusTemplate.Render that the template has under the same name is filled
// from that template field — directly, or from a local that was derived from it
// (rendered). Concurrency filled from RateLimit starts `rateLimit` workers.
func c14TemplateFields(c *Ctx) {
	fi := c.MustFunc("C14-R2", "internal/config.PrometheusTemplate.Render")
	if fi == nil {
		return
	}
	info := fi.Pkg.TypesInfo
	var recv types.Object
	if fi.Decl.Recv != nil && len(fi.Decl.Recv.List) == 1 && len(fi.Decl.Recv.List[0].Names) == 1 {
		recv = info.Defs[fi.Decl.Recv.List[0].Names[0]]
	}
	tt := c.P.LookupType("internal/config", "PrometheusTemplate")
	if recv == nil || tt == nil {
		c.Undecided("C14-R2", "Render:receiver", fi.Decl.Pos(), "receiver or template type not found")
		return
	}
	tfields := map[string]bool{}
	for _, f := range structFields(tt) {
		tfields[f] = true
	}
	n := 0
	for _, cl := range compositeLits(info, fi.Decl.Body, "internal/config.PrometheusConfig") {
		for _, el := range cl.Elts {
			kv, ok := el.(*ast.KeyValueExpr)
			if !ok {
				continue
			}
			key := kv.Key.(*ast.Ident).Name
			if !tfields[key] {
				continue
			}
			n++
			// does the value mention pt.<key>, possibly through locals?
			okField := c14MentionsField(info, fi, kv.Value, recv, key, 0)
			// and no other template field of the same type directly
			wrong := ""
			ast.Inspect(kv.Value, func(m ast.Node) bool {
				if sel, ok := m.(*ast.SelectorExpr); ok && isObj(info, sel.X, recv) && sel.Sel.Name != key && tfields[sel.Sel.Name] {
					wrong = sel.Sel.Name
				}
				return true
			})
			c.Check(okField && wrong == "", "C14-R2", "Render:"+key+" of the server comes from the template's "+key, kv.Pos(), "same-named field",
				"the generated server's "+key+" is filled from `"+exprStr(kv.Value)+"`, not from the template's "+key+": e.g. concurrency taken from rateLimit starts that many workers, and more requests are in flight than configured")
		}
	}
	c.Check(n >= 8, "C14-R2", "Render:template fields copied", fi.Decl.Pos(), itoa(n), "fewer than 8 same-named fields found")
	// and every setting the template shares with a server definition is handed over at all:
	// set in the literal, or stored into a PrometheusConfig afterwards
	if ct := c.P.LookupType("internal/config", "PrometheusConfig"); ct != nil {
		set := map[string]bool{}
		for _, cl := range compositeLits(info, fi.Decl.Body, "internal/config.PrometheusConfig") {
			for _, el := range cl.Elts {
				if kv, ok := el.(*ast.KeyValueExpr); ok {
					if id, ok := kv.Key.(*ast.Ident); ok {
						set[id.Name] = true
					}
				} else {
					// positional literal sets every field
					for _, f := range structFields(ct) {
						set[f] = true
					}
				}
			}
		}
		ast.Inspect(fi.Decl.Body, func(m ast.Node) bool {
			if as, ok := m.(*ast.AssignStmt); ok {
				for _, l := range as.Lhs {
					if sel, ok := l.(*ast.SelectorExpr); ok {
						for _, f := range structFields(ct) {
							if fieldSel(info, sel, "internal/config.PrometheusConfig", f) {
								set[f] = true
							}
						}
					}
				}
			}
			return true
		})
		for _, f := range structFields(ct) {
			if !tfields[f] {
				continue
			}
			c.Check(set[f], "C14-R2", "Render:"+f+" of the template is handed to the server", fi.Decl.Pos(), "set",
				"PrometheusTemplate.Render builds the server definition without its "+f+": a discovered server gets the default instead of what the template configures (for concurrency: 16 workers whatever the template says, so more requests are in flight than configured)")
		}
	}
}

// c14MentionsField: e reads recv.<field>, or a local whose definitions do.
func c14MentionsField(info *types.Info, fi *FuncInfo, e ast.Expr, recv types.Object, field string, depth int) bool {
	if depth > 3 {
		return false
	}
	found := false
	ast.Inspect(e, func(m ast.Node) bool {
		switch x := m.(type) {
		case *ast.SelectorExpr:
			if isObj(info, x.X, recv) && x.Sel.Name == field {
				found = true
			}
		case *ast.Ident:
			v, ok := info.Uses[x].(*types.Var)
			if !ok || v.IsField() || types.Object(v) == recv || found {
				return true
			}
			ast.Inspect(fi.Decl.Body, func(k ast.Node) bool {
				switch y := k.(type) {
				case *ast.AssignStmt:
					for i, l := range y.Lhs {
						if lid, ok := l.(*ast.Ident); ok && (info.Defs[lid] == types.Object(v) || info.Uses[lid] == types.Object(v)) {
							r := y.Rhs[0]
							if i < len(y.Rhs) {
								r = y.Rhs[i]
							}
							if r != e && c14MentionsField(info, fi, r, recv, field, depth+1) {
								found = true
							}
						}
					}
				case *ast.RangeStmt:
					for _, l := range []ast.Expr{y.Key, y.Value} {
						if lid, ok := l.(*ast.Ident); ok && info.Defs[lid] == types.Object(v) && c14MentionsField(info, fi, y.X, recv, field, depth+1) {
							found = true
						}
					}
				}
				return true
			})
		}
		return true
	})
	return found
}

// c14SingleUnlock: a function that releases the per-question key with a
// deferred unlock does not also release it explicitly: the late deferred call
// would delete the key a following identical caller has just acquired and let
// a third one in.
func c14SingleUnlock(c *Ctx) {
	p := c.P
	unlock := p.Func("internal/promapi.partitionLocker.unlock")
	if unlock == nil {
		c.Undecided("C14-R1", "anchor:partitionLocker.unlock", token.NoPos, "method not found")
		return
	}
	n := 0
	for _, fi := range p.AllFuncs() {
		if fi.Decl.Body == nil || p.IsTestFile(fi.Decl.Pos()) {
			continue
		}
		info := fi.Pkg.TypesInfo
		deferred, explicit := 0, 0
		pm := parentMap(fi.Decl.Body)
		ast.Inspect(fi.Decl.Body, func(nd ast.Node) bool {
			call, ok := nd.(*ast.CallExpr)
			if !ok || Callee(info, call) != unlock.Obj {
				return true
			}
			if _, isDefer := pm[call].(*ast.DeferStmt); isDefer {
				deferred++
			} else {
				explicit++
			}
			return true
		})
		if deferred+explicit == 0 {
			continue
		}
		n++
		c.Check(!(deferred > 0 && explicit > 0) && deferred <= 1, "C14-R1", fi.Name+":the key lock is released exactly once", fi.Decl.Pos(), itoa(deferred)+" deferred, "+itoa(explicit)+" explicit",
			"the key is unlocked explicitly AND by a deferred call ("+itoa(deferred)+" deferred, "+itoa(explicit)+" explicit): the second release removes the key a following identical caller has just taken, so a third identical request is let in and the same question is in flight twice")
	}
	c.Check(n >= 5, "C14-R1", "functions releasing the key lock enumerated", token.NoPos, itoa(n), "fewer than five")
}

// c14ConcurrencyChain: the number that bounds the worker pool is the configured
// one all the way: newFailoverGroup hands PrometheusConfig.Concurrency to the
// `concurrency` parameter of every NewPrometheus call (the first upstream and
// every failover one), and NewPrometheus stores that parameter, nothing else,
// in Prometheus.concurrency.
func c14ConcurrencyChain(c *Ctx) {
	np := c.MustFunc("C14-R2", "internal/promapi.NewPrometheus")
	nfg := c.MustFunc("C14-R2", "internal/config.newFailoverGroup")
	if np == nil || nfg == nil {
		return
	}
	sig := np.Obj.Type().(*types.Signature)
	ci := paramIndex(sig, "concurrency")
	if ci < 0 {
		c.Undecided("C14-R2", "NewPrometheus:concurrency parameter", np.Decl.Pos(), "no parameter named concurrency")
		return
	}
	cpar := sig.Params().At(ci)
	info := np.Pkg.TypesInfo
	n := 0
	check := func(val ast.Expr, pos token.Pos) {
		n++
		mentions, other := false, ""
		ast.Inspect(val, func(m ast.Node) bool {
			if id, ok := m.(*ast.Ident); ok {
				if o := info.Uses[id]; o != nil {
					if o == types.Object(cpar) {
						mentions = true
					} else if v, ok := o.(*types.Var); ok && !v.IsField() {
						other = id.Name
					}
				}
			}
			return true
		})
		c.Check(mentions && other == "", "C14-R2", "NewPrometheus:concurrency stored as given", pos, "the parameter",
			"Prometheus.concurrency is filled from `"+exprStr(val)+"`, not from the concurrency parameter alone: the pool has another size than the one configured")
	}
	for _, cl := range compositeLits(info, np.Decl.Body, "internal/promapi.Prometheus") {
		for _, el := range cl.Elts {
			if kv, ok := el.(*ast.KeyValueExpr); ok {
				if id, ok := kv.Key.(*ast.Ident); ok && id.Name == "concurrency" {
					check(kv.Value, kv.Pos())
				}
			}
		}
	}
	ast.Inspect(np.Decl.Body, func(m ast.Node) bool {
		if as, ok := m.(*ast.AssignStmt); ok && len(as.Lhs) == len(as.Rhs) {
			for i, l := range as.Lhs {
				if fieldSel(info, l, "internal/promapi.Prometheus", "concurrency") {
					check(as.Rhs[i], as.Pos())
				}
			}
		}
		return true
	})
	c.Check(n >= 1, "C14-R2", "NewPrometheus:concurrency is stored", np.Decl.Pos(), itoa(n), "NewPrometheus never stores the concurrency it is given")
	// the callers in internal/config
	cinfo := nfg.Pkg.TypesInfo
	k := 0
	ast.Inspect(nfg.Decl.Body, func(m ast.Node) bool {
		call, ok := m.(*ast.CallExpr)
		if !ok || !isCallTo(cinfo, call, "internal/promapi.NewPrometheus") || len(call.Args) <= ci {
			return true
		}
		k++
		c.Check(fieldSel(cinfo, call.Args[ci], "internal/config.PrometheusConfig", "Concurrency"), "C14-R2", "newFailoverGroup:upstream gets the configured concurrency#"+itoa(k), call.Pos(), "prom.Concurrency",
			"an upstream is created with concurrency `"+exprStr(call.Args[ci])+"` instead of the configured one: that upstream runs another number of requests in parallel")
		return true
	})
	c.Check(k >= 1, "C14-R2", "newFailoverGroup:NewPrometheus calls", nfg.Decl.Pos(), itoa(k), "no upstream is created here")
}

// c14DurationUnits: every constant of type time.Duration written in
// internal/promapi (cache lifetimes, the idle limit of the cache, the sweep
// interval, slice sizes) is spelled with a unit of package time. A bare number
// converts silently — `newQueryCache(3600, …)` is 3.6 microseconds — and the
// cache then forgets every answer at the next sweep, so identical questions
// reach the server again within their lifetime.
func c14DurationUnits(c *Ctx) {
	pkg := c.P.Pkg("internal/promapi")
	if pkg == nil {
		c.Undecided("C14-R3", "anchor:internal/promapi", token.NoPos, "package not loaded")
		return
	}
	info := pkg.TypesInfo
	isDur := func(t types.Type) bool {
		n, ok := t.(*types.Named)
		return ok && n.Obj().Pkg() != nil && n.Obj().Pkg().Path() == "time" && n.Obj().Name() == "Duration"
	}
	var hasUnit func(e ast.Expr, depth int) bool
	hasUnit = func(e ast.Expr, depth int) bool {
		if depth > 4 {
			return false
		}
		found := false
		ast.Inspect(e, func(m ast.Node) bool {
			if found {
				return false
			}
			var id *ast.Ident
			switch x := m.(type) {
			case *ast.SelectorExpr:
				id = x.Sel
			case *ast.Ident:
				id = x
			}
			if id == nil {
				return true
			}
			k, ok := info.Uses[id].(*types.Const)
			if !ok || k.Pkg() == nil {
				return true
			}
			if k.Pkg().Path() == "time" && isDur(k.Type()) {
				found = true
				return false
			}
			// a constant of the module: look at how it is declared
			for _, p2 := range []*packages.Package{pkg} {
				if p2.Types != k.Pkg() {
					continue
				}
				for _, f := range p2.Syntax {
					ast.Inspect(f, func(d ast.Node) bool {
						vs, ok := d.(*ast.ValueSpec)
						if !ok {
							return true
						}
						for i, nm := range vs.Names {
							if p2.TypesInfo.Defs[nm] == types.Object(k) && i < len(vs.Values) && p2.TypesInfo == info {
								if hasUnit(vs.Values[i], depth+1) {
									found = true
								}
							}
						}
						return true
					})
				}
			}
			return true
		})
		return found
	}
	n := 0
	for _, f := range pkg.Syntax {
		if strings.HasSuffix(c.P.Fset.Position(f.Pos()).Filename, "_test.go") {
			continue
		}
		var stack []ast.Node
		ast.Inspect(f, func(m ast.Node) bool {
			if m == nil {
				stack = stack[:len(stack)-1]
				return true
			}
			stack = append(stack, m)
			e, ok := m.(ast.Expr)
			if !ok {
				return true
			}
			tv, ok := info.Types[e]
			if !ok || tv.Value == nil || tv.Type == nil || !isDur(tv.Type) {
				return true
			}
			// outermost constant duration expression only
			if len(stack) >= 2 {
				if pe, ok := stack[len(stack)-2].(ast.Expr); ok {
					if ptv, ok := info.Types[pe]; ok && ptv.Value != nil && ptv.Type != nil && isDur(ptv.Type) {
						return true
					}
				}
			}
			if tv.Value.String() == "0" {
				return false
			}
			// a scalar factor of a duration that is not constant (`step * -1`) is a number, not a duration
			if len(stack) >= 2 {
				if be, ok := stack[len(stack)-2].(*ast.BinaryExpr); ok && (be.Op == token.MUL || be.Op == token.QUO) {
					other := be.X
					if other == e {
						other = be.Y
					}
					if otv, ok := info.Types[other]; ok && otv.Value == nil && otv.Type != nil && isDur(otv.Type) {
						return false
					}
				}
			}
			n++
			where := "package level"
			if fi := c.P.enclosingFunc(e.Pos()); fi != nil {
				where = strings.TrimPrefix(fi.Name, "internal/promapi.")
			}
			c.Check(hasUnit(e, 0), "C14-R3", where+":duration `"+exprStr(e)+"` is spelled with a unit", e.Pos(), "unit of package time",
				"a time.Duration is written as the bare number `"+exprStr(e)+"` (= "+tv.Value.String()+" nanoseconds): a cache lifetime, idle limit or interval of that size makes the cache forget answers at once, so identical questions reach the server again")
			return false
		})
	}
	c.Check(n >= 5, "C14-R3", "duration constants enumerated", token.NoPos, itoa(n), "fewer than 5 duration constants found in internal/promapi")
}

// c14HashIsADigest: the cache keys are made by promapi.hash. It is a streaming
// digest: one xxhash object, every field written into it followed by a
// separator, the sum taken at the end. A combination of per-field sums (XOR,
// +) is not a key: equal fields cancel and the order of the fields is lost, so
// two different questions — a slice whose start equals its rounded end, say —
// share a cache entry.
func c14HashIsADigest(c *Ctx, R string) {
	fi := c.MustFunc(R, "internal/promapi.hash")
	if fi == nil {
		return
	}
	info := fi.Pkg.TypesInfo
	var digest types.Object
	ast.Inspect(fi.Decl.Body, func(nd ast.Node) bool {
		if as, ok := nd.(*ast.AssignStmt); ok && len(as.Lhs) == 1 && len(as.Rhs) == 1 {
			if call, isCall := as.Rhs[0].(*ast.CallExpr); isCall {
				if fn := Callee(info, call); fn != nil && fn.Pkg() != nil && strings.HasSuffix(fn.Pkg().Path(), "xxhash/v2") && fn.Name() == "New" {
					digest = objOf(info, as.Lhs[0])
				}
			}
		}
		return true
	})
	writesField, writesSep, sums, combines := false, false, false, ""
	ast.Inspect(fi.Decl.Body, func(nd ast.Node) bool {
		switch x := nd.(type) {
		case *ast.CallExpr:
			sel, ok := x.Fun.(*ast.SelectorExpr)
			if !ok || digest == nil || objOf(info, sel.X) != digest {
				return true
			}
			switch sel.Sel.Name {
			case "WriteString", "Write":
				if len(x.Args) == 1 {
					if v, isC := constString(info, x.Args[0]); isC && v != "" {
						writesSep = true
					} else {
						writesField = true
					}
				}
			case "Sum64":
				sums = true
			}
		case *ast.AssignStmt:
			switch x.Tok {
			case token.XOR_ASSIGN, token.ADD_ASSIGN, token.OR_ASSIGN, token.AND_ASSIGN, token.MUL_ASSIGN:
				combines = x.Tok.String()
			}
		case *ast.BinaryExpr:
			if x.Op == token.XOR {
				combines = "^"
			}
		}
		return true
	})
	c.Check(digest != nil && writesField && writesSep && sums && combines == "", R, "hash:one digest over every field and a separator", fi.Decl.Pos(), "xxhash.New, WriteString(field), WriteString(sep), Sum64",
		"promapi.hash no longer streams every field and a separator into one digest (combination by `"+combines+"`): equal fields cancel and field order is lost, so different questions — other slices, other servers — can share one cache entry and one caller is given the other's answer")
}

// c14SliceLifetime: the answer for a slice is cached for as long as the slice
// can still be part of a later identical question: its lifetime is counted from
// the slice END (plus a positive margin). Counted from the slice start the
// first slices of a long window get a lifetime at or below zero and are sent
// again by every repeated question.
func c14SliceLifetime(c *Ctx, R string) {
	fi := c.MustFunc(R, "internal/promapi.Prometheus.RangeQuery")
	if fi == nil {
		return
	}
	info := fi.Pkg.TypesInfo
	n := 0
	for _, cl := range compositeLits(info, fi.Decl.Body, "internal/promapi.rangeQuery") {
		v := litField(cl, "ttl")
		if v == nil {
			continue
		}
		n++
		usesEnd, usesStart, margin := false, false, false
		ast.Inspect(v, func(m ast.Node) bool {
			switch x := m.(type) {
			case *ast.SelectorExpr:
				if fieldOwner(info, x) == "internal/promapi.TimeRange" {
					switch x.Sel.Name {
					case "End":
						usesEnd = true
					case "Start":
						usesStart = true
					}
				}
			case *ast.BinaryExpr:
				if x.Op == token.ADD {
					for _, side := range []ast.Expr{x.X, x.Y} {
						if tv, ok := info.Types[side]; ok && tv.Value != nil && constant.Sign(tv.Value) > 0 {
							margin = true
						}
					}
				}
			}
			return true
		})
		c.Check(usesEnd && !usesStart && margin, R, "RangeQuery:a slice answer lives from the slice end plus a margin", v.Pos(), exprStr(v),
			"the cache lifetime of a slice is `"+exprStr(v)+"`: it is not counted from the end of the slice with a positive margin, so slices at the beginning of the window expire at once (or are never stored) and every repeated identical question sends them to the server again")
	}
	c.Check(n == 1, R, "RangeQuery:one slice query literal with a lifetime", fi.Decl.Pos(), itoa(n), "expected one rangeQuery literal with a ttl")
}

// c14AnswersAreNotEdited: what the promapi methods hand out is the object that
// sits in the query cache; every later caller with the same question gets the
// same object. Nothing in internal/checks edits such an answer in place:
// no slices.Compact/Delete/Sort/Reverse/Insert/Replace (or sort.*) on a list
// that belongs to a promapi result, no store into its elements.
func c14AnswersAreNotEdited(c *Ctx, R string) {
	chk := c.P.Pkg("internal/checks")
	if chk == nil {
		return
	}
	info := chk.TypesInfo
	fromPromapi := func(e ast.Expr) bool {
		// some selector on the way down to the root has an owner type in internal/promapi, or the root is one
		for cur := ast.Unparen(e); cur != nil; {
			switch x := cur.(type) {
			case *ast.SelectorExpr:
				if strings.HasPrefix(fieldOwner(info, x), "internal/promapi.") {
					return true
				}
				cur = ast.Unparen(x.X)
			case *ast.IndexExpr:
				cur = ast.Unparen(x.X)
			case *ast.StarExpr:
				cur = ast.Unparen(x.X)
			case *ast.Ident:
				if t := info.TypeOf(x); t != nil {
					if n := namedOf(t); n != nil && n.Obj().Pkg() != nil && relPkg(n.Obj().Pkg().Path()) == "internal/promapi" {
						return true
					}
				}
				cur = nil
			default:
				cur = nil
			}
		}
		return false
	}
	n, bad := 0, ""
	badPos := token.NoPos
	for _, fi := range c.P.AllFuncs() {
		if fi.Pkg != chk || fi.Decl.Body == nil || c.P.IsTestFile(fi.Decl.Pos()) {
			continue
		}
		ast.Inspect(fi.Decl.Body, func(nd ast.Node) bool {
			switch x := nd.(type) {
			case *ast.CallExpr:
				fn := Callee(info, x)
				if fn == nil || fn.Pkg() == nil || len(x.Args) == 0 || (fn.Pkg().Path() != "slices" && fn.Pkg().Path() != "sort") {
					return true
				}
				if !fromPromapi(x.Args[0]) {
					return true
				}
				n++
				switch fn.Name() {
				case "Delete", "DeleteFunc", "Insert", "Replace", "Sort", "SortFunc", "SortStableFunc", "Reverse", "Compact", "CompactFunc", "Strings", "Slice", "SliceStable", "Stable":
					bad, badPos = "`"+exprStr(x)+"` in "+shortFuncName(fi.Name), x.Pos()
				}
			case *ast.AssignStmt:
				for _, l := range x.Lhs {
					if _, isIx := ast.Unparen(l).(*ast.IndexExpr); !isIx {
						sel, isSel := ast.Unparen(l).(*ast.SelectorExpr)
						if !isSel {
							continue
						}
						if _, isIx2 := ast.Unparen(sel.X).(*ast.IndexExpr); !isIx2 {
							continue
						}
					}
					if fromPromapi(l) {
						n++
						bad, badPos = "`"+exprStr(l)+" = …` in "+shortFuncName(fi.Name), x.Pos()
					}
				}
			}
			return true
		})
	}
	c.Check(bad == "", R, "answers handed out by promapi are never edited in place by a check", badPos, itoa(n)+" slice operations on promapi results",
		bad+" rewrites an answer that also sits in the query cache: every later caller asking the same question gets a different answer than the first one (entries removed, the tail zeroed)")
}
