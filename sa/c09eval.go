package main

import (
	"fmt"
	"go/ast"
	"go/token"
	"go/types"
	"strings"
)

// c09IsMatchSemantics decides config.isMatch by running it, abstractly, on
// every relevant shape of its two block lists: each list is empty, or holds
// blocks that match / do not match the entry. The interpreter understands what
// such a function is made of — range loops over the lists (index loops are
// range loops by the time it runs), if / tagless switch, boolean locals, len
// comparisons, break / continue / return, labelled one-case switches left by
// helper expansion, and slices.ContainsFunc over a list with a closure that
// asks one block — and reports `undecided` for anything else. The reference is
// the documented meaning: false if an ignore block matches; otherwise true if
// there is no match block or one of them matches.
func c09IsMatchSemantics(c *Ctx, ism *FuncInfo) {
	info := ism.Pkg.TypesInfo
	sig := ism.Obj.Type().(*types.Signature)
	ignoreP := sig.Params().At(paramIndex(sig, "ignore"))
	matchP := sig.Params().At(paramIndex(sig, "match"))
	shapes := [][]bool{{}, {true}, {false}, {false, true}, {false, false}}
	name := func(s []bool) string {
		if len(s) == 0 {
			return "none"
		}
		var p []string
		for _, b := range s {
			p = append(p, map[bool]string{true: "hit", false: "miss"}[b])
		}
		return strings.Join(p, ",")
	}
	n := 0
	for _, ig := range shapes {
		for _, ma := range shapes {
			want := true
			for _, b := range ig {
				if b {
					want = false
				}
			}
			if want && len(ma) > 0 {
				any := false
				for _, b := range ma {
					if b {
						any = true
					}
				}
				want = any
			}
			ev := &c09Eval{info: info, env: map[types.Object]c09Value{}}
			ev.env[ignoreP] = c09Value{kind: 'l', list: ig}
			ev.env[matchP] = c09Value{kind: 'l', list: ma}
			ctl := ev.block(ism.Decl.Body.List)
			key := "isMatch:ignore=[" + name(ig) + "] match=[" + name(ma) + "]"
			n++
			if ev.undec != "" || ctl.kind != 'r' {
				why := ev.undec
				if why == "" {
					why = "no return reached"
				}
				c.Undecided("C09-R6", key, ism.Decl.Pos(), why)
				continue
			}
			c.Check(ctl.ret == want, "C09-R6", key, ism.Decl.Pos(), fmt.Sprint(want),
				fmt.Sprintf("with ignore blocks [%s] and match blocks [%s] isMatch yields %v, the documented meaning is %v (no ignore block matches, and there is no match block or one of them matches)", name(ig), name(ma), ctl.ret, want))
		}
	}
	_ = n
}

type c09Value struct {
	kind byte // 'b' bool, 'l' list of blocks, 'e' one block, 'i' int, 0 unknown
	b    bool
	i    int64
	list []bool
}

type c09Ctl struct {
	kind  byte // 0 fallthrough, 'r' return, 'b' break, 'c' continue
	ret   bool
	label string
}

type c09Eval struct {
	info  *types.Info
	lits  map[types.Object]*ast.FuncLit // closures held in locals
	env   map[types.Object]c09Value
	undec string
	steps int
	depth int
}

func (ev *c09Eval) fail(s string) {
	if ev.undec == "" {
		ev.undec = s
	}
}

func (ev *c09Eval) expr(e ast.Expr) c09Value {
	switch x := ast.Unparen(e).(type) {
	case *ast.Ident:
		if tv, ok := ev.info.Types[x]; ok && tv.Value != nil {
			switch tv.Value.String() {
			case "true":
				return c09Value{kind: 'b', b: true}
			case "false":
				return c09Value{kind: 'b', b: false}
			}
		}
		o := ev.info.Uses[x]
		if o == nil {
			o = ev.info.Defs[x]
		}
		if v, ok := ev.env[o]; ok {
			return v
		}
		return c09Value{}
	case *ast.BasicLit:
		if tv, ok := ev.info.Types[x]; ok && tv.Value != nil {
			if k, isInt := constInt(ev.info, x); isInt {
				return c09Value{kind: 'i', i: k}
			}
		}
	case *ast.UnaryExpr:
		if x.Op == token.NOT {
			v := ev.expr(x.X)
			if v.kind == 'b' {
				return c09Value{kind: 'b', b: !v.b}
			}
		}
	case *ast.BinaryExpr:
		switch x.Op {
		case token.LAND:
			a := ev.expr(x.X)
			if a.kind == 'b' && !a.b {
				return a
			}
			b := ev.expr(x.Y)
			if a.kind == 'b' && b.kind == 'b' {
				return c09Value{kind: 'b', b: a.b && b.b}
			}
		case token.LOR:
			a := ev.expr(x.X)
			if a.kind == 'b' && a.b {
				return a
			}
			b := ev.expr(x.Y)
			if a.kind == 'b' && b.kind == 'b' {
				return c09Value{kind: 'b', b: a.b || b.b}
			}
		case token.EQL, token.NEQ, token.GTR, token.GEQ, token.LSS, token.LEQ:
			a, b := ev.expr(x.X), ev.expr(x.Y)
			if a.kind == 'i' && b.kind == 'i' {
				r := false
				switch x.Op {
				case token.EQL:
					r = a.i == b.i
				case token.NEQ:
					r = a.i != b.i
				case token.GTR:
					r = a.i > b.i
				case token.GEQ:
					r = a.i >= b.i
				case token.LSS:
					r = a.i < b.i
				case token.LEQ:
					r = a.i <= b.i
				}
				return c09Value{kind: 'b', b: r}
			}
			if a.kind == 'b' && b.kind == 'b' && (x.Op == token.EQL || x.Op == token.NEQ) {
				return c09Value{kind: 'b', b: (a.b == b.b) == (x.Op == token.EQL)}
			}
			// list == nil
			if a.kind == 'l' && isNilIdent(ev.info, x.Y) && (x.Op == token.EQL || x.Op == token.NEQ) {
				return c09Value{kind: 'b', b: (len(a.list) == 0) == (x.Op == token.EQL)}
			}
		}
	case *ast.IndexExpr:
		l, i := ev.expr(x.X), ev.expr(x.Index)
		if l.kind == 'l' && i.kind == 'i' && i.i >= 0 && int(i.i) < len(l.list) {
			return c09Value{kind: 'e', b: l.list[i.i]}
		}
	case *ast.CallExpr:
		if id, ok := x.Fun.(*ast.Ident); ok && id.Name == "len" && len(x.Args) == 1 {
			if l := ev.expr(x.Args[0]); l.kind == 'l' {
				return c09Value{kind: 'i', i: int64(len(l.list))}
			}
		}
		if sel, ok := x.Fun.(*ast.SelectorExpr); ok {
			if fn := Callee(ev.info, x); fn != nil && funcQName(fn) == "internal/config.Match.IsMatch" {
				if el := ev.expr(sel.X); el.kind == 'e' {
					return c09Value{kind: 'b', b: el.b}
				}
			}
		}
		// a helper of the same package: run it on the values of its arguments
		if fn := Callee(ev.info, x); fn != nil && c10Prog != nil && ev.depth < 4 {
			if hf := c10Prog.FuncOf(fn); hf != nil && hf.Decl.Body != nil && hf.Decl.Recv == nil && hf.Pkg.TypesInfo == ev.info && funcQName(fn) != "internal/config.Match.IsMatch" {
				saved := map[types.Object]c09Value{}
				i := 0
				var bound []types.Object
				for _, f := range hf.Decl.Type.Params.List {
					for _, nm := range f.Names {
						if i < len(x.Args) {
							o := ev.info.Defs[nm]
							saved[o] = ev.env[o]
							bound = append(bound, o)
							ev.env[o] = ev.expr(x.Args[i])
						}
						i++
					}
				}
				ev.depth++
				ctl := ev.block(hf.Decl.Body.List)
				ev.depth--
				for _, o := range bound {
					ev.env[o] = saved[o]
				}
				if ctl.kind == 'r' && ev.undec == "" {
					return c09Value{kind: 'b', b: ctl.ret}
				}
				ev.fail("helper " + fn.Name() + " does not return a decidable value")
				return c09Value{}
			}
		}
		if fn := Callee(ev.info, x); fn != nil && fn.Pkg() != nil && fn.Pkg().Path() == "slices" && fn.Name() == "ContainsFunc" && len(x.Args) == 2 {
			l := ev.expr(x.Args[0])
			lit, isLit := x.Args[1].(*ast.FuncLit)
			if id, isID := ast.Unparen(x.Args[1]).(*ast.Ident); isID && !isLit && ev.lits != nil {
				lit, isLit = ev.lits[ev.info.Uses[id]], ev.lits[ev.info.Uses[id]] != nil
			}
			if l.kind == 'l' && isLit && len(lit.Type.Params.List) == 1 && len(lit.Type.Params.List[0].Names) == 1 {
				po := ev.info.Defs[lit.Type.Params.List[0].Names[0]]
				res := false
				for _, h := range l.list {
					ev.env[po] = c09Value{kind: 'e', b: h}
					ctl := ev.block(lit.Body.List)
					if ctl.kind != 'r' {
						ev.fail("closure of slices.ContainsFunc does not return a decidable value")
						return c09Value{}
					}
					if ctl.ret {
						res = true
						break
					}
				}
				return c09Value{kind: 'b', b: res}
			}
		}
	}
	return c09Value{}
}

func (ev *c09Eval) cond(e ast.Expr) (bool, bool) {
	v := ev.expr(e)
	if v.kind != 'b' {
		ev.fail("condition `" + exprStr(e) + "` is not decidable from the block lists")
		return false, false
	}
	return v.b, true
}

func (ev *c09Eval) block(list []ast.Stmt) c09Ctl {
	for _, st := range list {
		if ev.undec != "" {
			return c09Ctl{}
		}
		ev.steps++
		if ev.steps > 5000 {
			ev.fail("evaluation does not terminate")
			return c09Ctl{}
		}
		if ctl := ev.stmt(st, ""); ctl.kind != 0 {
			return ctl
		}
	}
	return c09Ctl{}
}

func (ev *c09Eval) stmt(st ast.Stmt, label string) c09Ctl {
	switch x := st.(type) {
	case *ast.EmptyStmt, *ast.ExprStmt:
		return c09Ctl{}
	case *ast.BlockStmt:
		return ev.block(x.List)
	case *ast.DeclStmt:
		if gd, ok := x.Decl.(*ast.GenDecl); ok && gd.Tok == token.VAR {
			for _, sp := range gd.Specs {
				vs := sp.(*ast.ValueSpec)
				for i, nm := range vs.Names {
					o := ev.info.Defs[nm]
					if i < len(vs.Values) {
						ev.env[o] = ev.expr(vs.Values[i])
					} else if b, ok := o.Type().Underlying().(*types.Basic); ok && b.Kind() == types.Bool {
						ev.env[o] = c09Value{kind: 'b', b: false}
					} else if ok && b.Info()&types.IsInteger != 0 {
						ev.env[o] = c09Value{kind: 'i', i: 0}
					}
				}
			}
		}
		return c09Ctl{}
	case *ast.AssignStmt:
		if len(x.Lhs) == len(x.Rhs) {
			vals := make([]c09Value, len(x.Rhs))
			for i, r := range x.Rhs {
				vals[i] = ev.expr(r)
			}
			for i, l := range x.Lhs {
				if id, ok := l.(*ast.Ident); ok {
					o := ev.info.Defs[id]
					if o == nil {
						o = ev.info.Uses[id]
					}
					if o != nil {
						ev.env[o] = vals[i]
						if lit, isLit := ast.Unparen(x.Rhs[i]).(*ast.FuncLit); isLit {
							if ev.lits == nil {
								ev.lits = map[types.Object]*ast.FuncLit{}
							}
							ev.lits[o] = lit
						}
					}
				}
			}
		}
		return c09Ctl{}
	case *ast.IncDecStmt:
		if v := ev.expr(x.X); v.kind == 'i' {
			if o := objOf(ev.info, x.X); o != nil {
				d := int64(1)
				if x.Tok == token.DEC {
					d = -1
				}
				ev.env[o] = c09Value{kind: 'i', i: v.i + d}
			}
		}
		return c09Ctl{}
	case *ast.ReturnStmt:
		if len(x.Results) != 1 {
			ev.fail("return without a single result")
			return c09Ctl{kind: 'r'}
		}
		b, ok := ev.cond(x.Results[0])
		if !ok {
			return c09Ctl{kind: 'r'}
		}
		return c09Ctl{kind: 'r', ret: b}
	case *ast.BranchStmt:
		lab := ""
		if x.Label != nil {
			lab = x.Label.Name
		}
		switch x.Tok {
		case token.BREAK:
			return c09Ctl{kind: 'b', label: lab}
		case token.CONTINUE:
			return c09Ctl{kind: 'c', label: lab}
		}
		ev.fail("goto / fallthrough")
		return c09Ctl{}
	case *ast.LabeledStmt:
		ctl := ev.stmt(x.Stmt, x.Label.Name)
		return ctl
	case *ast.IfStmt:
		if x.Init != nil {
			if ctl := ev.stmt(x.Init, ""); ctl.kind != 0 {
				return ctl
			}
		}
		b, ok := ev.cond(x.Cond)
		if !ok {
			return c09Ctl{}
		}
		if b {
			return ev.block(x.Body.List)
		}
		if x.Else != nil {
			return ev.stmt(x.Else, "")
		}
		return c09Ctl{}
	case *ast.SwitchStmt:
		if x.Tag != nil || x.Init != nil {
			ev.fail("tagged switch")
			return c09Ctl{}
		}
		var deflt *ast.CaseClause
		var chosen *ast.CaseClause
		for _, cs := range x.Body.List {
			cc := cs.(*ast.CaseClause)
			if cc.List == nil {
				deflt = cc
				continue
			}
			for _, g := range cc.List {
				b, ok := ev.cond(g)
				if !ok {
					return c09Ctl{}
				}
				if b {
					chosen = cc
					break
				}
			}
			if chosen != nil {
				break
			}
		}
		if chosen == nil {
			chosen = deflt
		}
		if chosen == nil {
			return c09Ctl{}
		}
		ctl := ev.block(chosen.Body)
		if ctl.kind == 'b' && (ctl.label == "" || ctl.label == label) {
			return c09Ctl{}
		}
		return ctl
	case *ast.RangeStmt:
		l := ev.expr(x.X)
		if l.kind != 'l' {
			ev.fail("loop over `" + exprStr(x.X) + "`, which is not one of the block lists")
			return c09Ctl{}
		}
		for i, h := range l.list {
			if k, ok := x.Key.(*ast.Ident); ok && k.Name != "_" {
				if o := objOf(ev.info, k); o != nil {
					ev.env[o] = c09Value{kind: 'i', i: int64(i)}
				}
			}
			if v, ok := x.Value.(*ast.Ident); ok && v.Name != "_" {
				if o := objOf(ev.info, v); o != nil {
					ev.env[o] = c09Value{kind: 'e', b: h}
				}
			}
			ctl := ev.block(x.Body.List)
			switch ctl.kind {
			case 'r':
				return ctl
			case 'b':
				if ctl.label == "" || ctl.label == label {
					return c09Ctl{}
				}
				return ctl
			case 'c':
				if ctl.label != "" && ctl.label != label {
					return ctl
				}
			}
			if ev.undec != "" {
				return c09Ctl{}
			}
		}
		return c09Ctl{}
	case *ast.ForStmt:
		if x.Init != nil {
			ev.stmt(x.Init, "")
		}
		for iter := 0; iter < 50; iter++ {
			if x.Cond != nil {
				b, ok := ev.cond(x.Cond)
				if !ok {
					return c09Ctl{}
				}
				if !b {
					return c09Ctl{}
				}
			}
			ctl := ev.block(x.Body.List)
			switch ctl.kind {
			case 'r':
				return ctl
			case 'b':
				if ctl.label == "" || ctl.label == label {
					return c09Ctl{}
				}
				return ctl
			case 'c':
				if ctl.label != "" && ctl.label != label {
					return ctl
				}
			}
			if x.Post != nil {
				ev.stmt(x.Post, "")
			}
			if ev.undec != "" {
				return c09Ctl{}
			}
		}
		ev.fail("loop does not terminate within 50 iterations")
		return c09Ctl{}
	}
	ev.fail(fmt.Sprintf("statement %T is not understood", st))
	return c09Ctl{}
}
