package main

import (
	"fmt"
	"go/ast"
	"go/token"
	"go/types"
	"strconv"
	"strings"
)

// A small abstract interpreter for decision functions: functions that take a
// few booleans, strings and string lists and return a boolean. It understands
// if / tagless and tagged switches on strings, range loops over string lists
// (index loops are range loops by the time it runs), boolean, integer and
// string locals, ==, !=, &&, ||, !, len, append, slices.Contains, []string
// literals, make([]string, …), break / continue / return, the labelled
// one-case switches left by helper expansion, and calls of functions of the
// same package (run on the values of their arguments). Calls it does not know
// are offered to the rule's `oracle`; anything else makes the run undecided.
// Rules use it to compare a function with its documented meaning on every
// relevant combination of inputs, whatever way the function is written.

type mvKind byte

const (
	mvUnknown mvKind = iota
	mvBool
	mvInt
	mvStr
	mvList
	mvRec     // a record: named fields (a struct value the rule describes)
	mvNil     // a nil pointer (to a record)
	mvRecList // a list of records
)

type mval struct {
	k    mvKind
	b    bool
	i    int64
	s    string
	list []string
	rec  map[string]mval
	recs []map[string]mval
}

func mBool(b bool) mval     { return mval{k: mvBool, b: b} }
func mStr(s string) mval    { return mval{k: mvStr, s: s} }
func mList(l []string) mval { return mval{k: mvList, list: append([]string{}, l...)} }

type mctl struct {
	kind  byte // 0 none, 'r' return, 'b' break, 'c' continue
	ret   mval
	label string
}

type miniEval struct {
	info   *types.Info
	prog   *Prog
	env    map[types.Object]mval
	oracle func(ev *miniEval, call *ast.CallExpr) (mval, bool)
	sel    func(ev *miniEval, sel *ast.SelectorExpr) (mval, bool)
	undec  string
	multi  bool // functions with several results: see ReturnStmt
	steps  int
	depth  int
}

func (ev *miniEval) fail(s string) {
	if ev.undec == "" {
		ev.undec = s
	}
}

func (ev *miniEval) expr(e ast.Expr) mval {
	switch x := ast.Unparen(e).(type) {
	case *ast.Ident:
		if tv, ok := ev.info.Types[x]; ok && tv.Value != nil {
			switch tv.Value.String() {
			case "true":
				return mBool(true)
			case "false":
				return mBool(false)
			}
			if s, ok := constString(ev.info, x); ok {
				return mStr(s)
			}
			if k, ok := constInt(ev.info, x); ok {
				return mval{k: mvInt, i: k}
			}
		}
		if isNilIdent(ev.info, x) {
			return mval{k: mvList}
		}
		o := ev.info.Uses[x]
		if o == nil {
			o = ev.info.Defs[x]
		}
		if v, ok := ev.env[o]; ok {
			return v
		}
		// a package-level table: the value of its initialiser
		if pv, isVar := o.(*types.Var); isVar && pv.Pkg() != nil && pv.Parent() == pv.Pkg().Scope() && ev.prog != nil && ev.depth < 4 {
			if init := ev.prog.pkgVarInit(pv); init != nil {
				ev.depth++
				v := ev.expr(init)
				ev.depth--
				return v
			}
		}
		return mval{}
	case *ast.BasicLit:
		if s, ok := constString(ev.info, x); ok {
			return mStr(s)
		}
		if k, ok := constInt(ev.info, x); ok {
			return mval{k: mvInt, i: k}
		}
	case *ast.SelectorExpr:
		if ev.sel != nil {
			if v, ok := ev.sel(ev, x); ok {
				return v
			}
		}
		if _, isPkg := ev.info.Uses[identOf(x.X)].(*types.PkgName); !isPkg {
			r := ev.expr(x.X)
			if r.k == mvRec {
				if v, ok := r.rec[x.Sel.Name]; ok {
					return v
				}
				return mval{}
			}
			if r.k == mvNil {
				ev.fail("`" + exprStr(x) + "` dereferences a nil pointer")
				return mval{}
			}
		}
		if s, ok := constString(ev.info, x); ok {
			return mStr(s)
		}
		if k, ok := constInt(ev.info, x); ok {
			return mval{k: mvInt, i: k}
		}
	case *ast.CompositeLit:
		// a struct value, or a list of struct values (a small table written in place)
		if t := ev.info.TypeOf(x); t != nil {
			if st, isStruct := t.Underlying().(*types.Struct); isStruct {
				rec := map[string]mval{}
				for i, el := range x.Elts {
					if kv, isKV := el.(*ast.KeyValueExpr); isKV {
						if id, isID := kv.Key.(*ast.Ident); isID {
							rec[id.Name] = ev.expr(kv.Value)
						}
					} else if i < st.NumFields() {
						rec[st.Field(i).Name()] = ev.expr(el)
					}
				}
				return mval{k: mvRec, rec: rec}
			}
			var elemT types.Type
			switch sl := t.Underlying().(type) {
			case *types.Slice:
				elemT = sl.Elem()
			case *types.Array:
				elemT = sl.Elem()
			}
			if elemT != nil {
				if _, isStruct := elemT.Underlying().(*types.Struct); isStruct {
					out := mval{k: mvRecList}
					for _, el := range x.Elts {
						v := ev.expr(el)
						if v.k != mvRec {
							return mval{}
						}
						out.recs = append(out.recs, v.rec)
					}
					return out
				}
			}
		}
		if t := ev.info.TypeOf(x); t != nil {
			// a list of strings, or of values of a string type (v1.ErrorType, state names)
			isStrList := t.String() == "[]string"
			if sl, isSlice := t.Underlying().(*types.Slice); isSlice {
				if b, isBasic := sl.Elem().Underlying().(*types.Basic); isBasic && b.Kind() == types.String {
					isStrList = true
				}
			}
			if ar, isArr := t.Underlying().(*types.Array); isArr {
				if b, isBasic := ar.Elem().Underlying().(*types.Basic); isBasic && b.Kind() == types.String {
					isStrList = true
				}
			}
			if isStrList {
				// positional or keyed (`[...]string{Bug: "Bug"}`): unnamed places hold ""
				var l []string
				next := 0
				for _, el := range x.Elts {
					at := next
					if kv, isKV := el.(*ast.KeyValueExpr); isKV {
						k := ev.expr(kv.Key)
						if k.k != mvInt || k.i < 0 || k.i > 4096 {
							return mval{}
						}
						at = int(k.i)
						el = kv.Value
					}
					v := ev.expr(el)
					if v.k != mvStr {
						return mval{}
					}
					for len(l) <= at {
						l = append(l, "")
					}
					l[at] = v.s
					next = at + 1
				}
				return mList(l)
			}
			// a table keyed by constants with string values (`map[Severity]string{Bug: "Bug"}`): a record
			// whose field names are the keys' values
			if mp, isMap := t.Underlying().(*types.Map); isMap {
				if b, isBasic := mp.Elem().Underlying().(*types.Basic); isBasic && b.Kind() == types.String {
					rec := map[string]mval{}
					for _, el := range x.Elts {
						kv, isKV := el.(*ast.KeyValueExpr)
						if !isKV {
							return mval{}
						}
						k, v := ev.expr(kv.Key), ev.expr(kv.Value)
						if v.k != mvStr {
							return mval{}
						}
						switch k.k {
						case mvInt:
							rec["#"+strconv.FormatInt(k.i, 10)] = v
						case mvStr:
							rec["$"+k.s] = v
						default:
							return mval{}
						}
					}
					return mval{k: mvRec, rec: rec}
				}
			}
		}
	case *ast.UnaryExpr:
		if x.Op == token.NOT {
			if v := ev.expr(x.X); v.k == mvBool {
				return mBool(!v.b)
			}
		}
	case *ast.BinaryExpr:
		switch x.Op {
		case token.LAND:
			a := ev.expr(x.X)
			if a.k == mvBool && !a.b {
				return a
			}
			b := ev.expr(x.Y)
			if a.k == mvBool && b.k == mvBool {
				return mBool(a.b && b.b)
			}
		case token.LOR:
			a := ev.expr(x.X)
			if a.k == mvBool && a.b {
				return a
			}
			b := ev.expr(x.Y)
			if a.k == mvBool && b.k == mvBool {
				return mBool(a.b || b.b)
			}
		case token.ADD:
			a, b := ev.expr(x.X), ev.expr(x.Y)
			if a.k == mvStr && b.k == mvStr {
				return mStr(a.s + b.s)
			}
			if a.k == mvInt && b.k == mvInt {
				return mval{k: mvInt, i: a.i + b.i}
			}
		case token.SUB:
			a, b := ev.expr(x.X), ev.expr(x.Y)
			if a.k == mvInt && b.k == mvInt {
				return mval{k: mvInt, i: a.i - b.i}
			}
		case token.EQL, token.NEQ, token.GTR, token.GEQ, token.LSS, token.LEQ:
			a, b := ev.expr(x.X), ev.expr(x.Y)
			if a.k == mvInt && b.k == mvInt {
				r := false
				switch x.Op {
				case token.EQL:
					r = a.i == b.i
				case token.NEQ:
					r = a.i != b.i
				case token.GTR:
					r = a.i > b.i
				case token.GEQ:
					r = a.i >= b.i
				case token.LSS:
					r = a.i < b.i
				case token.LEQ:
					r = a.i <= b.i
				}
				return mBool(r)
			}
			if x.Op == token.EQL || x.Op == token.NEQ {
				if a.k == mvStr && b.k == mvStr {
					return mBool((a.s == b.s) == (x.Op == token.EQL))
				}
				if a.k == mvBool && b.k == mvBool {
					return mBool((a.b == b.b) == (x.Op == token.EQL))
				}
				if a.k == mvList && isNilIdent(ev.info, x.Y) {
					return mBool((len(a.list) == 0) == (x.Op == token.EQL))
				}
				if (a.k == mvRec || a.k == mvNil) && isNilIdent(ev.info, x.Y) {
					return mBool((a.k == mvNil) == (x.Op == token.EQL))
				}
			}
		}
	case *ast.IndexExpr:
		l, i := ev.expr(x.X), ev.expr(x.Index)
		if l.k == mvList && i.k == mvInt && i.i >= 0 && int(i.i) < len(l.list) {
			return mStr(l.list[i.i])
		}
		if l.k == mvRecList && i.k == mvInt && i.i >= 0 && int(i.i) < len(l.recs) {
			return mval{k: mvRec, rec: l.recs[i.i]}
		}
		if _, isMap := ev.info.TypeOf(x.X).Underlying().(*types.Map); isMap && l.k == mvRec {
			key := ""
			switch i.k {
			case mvInt:
				key = "#" + strconv.FormatInt(i.i, 10)
			case mvStr:
				key = "$" + i.s
			default:
				return mval{}
			}
			if v, ok := l.rec[key]; ok {
				return v
			}
			return mStr("")
		}
	case *ast.CallExpr:
		return ev.call(x)
	}
	return mval{}
}

func (ev *miniEval) call(x *ast.CallExpr) mval {
	// a conversion between string (or integer) types keeps the value
	if tv, ok := ev.info.Types[x.Fun]; ok && tv.IsType() && len(x.Args) == 1 {
		if v := ev.expr(x.Args[0]); v.k == mvStr || v.k == mvInt || v.k == mvBool {
			return v
		}
		return mval{}
	}
	if id, ok := x.Fun.(*ast.Ident); ok {
		if _, isB := ev.info.Uses[id].(*types.Builtin); isB {
			switch id.Name {
			case "len":
				if len(x.Args) == 1 {
					v := ev.expr(x.Args[0])
					if v.k == mvList {
						return mval{k: mvInt, i: int64(len(v.list))}
					}
					if v.k == mvStr {
						return mval{k: mvInt, i: int64(len(v.s))}
					}
					if v.k == mvRecList {
						return mval{k: mvInt, i: int64(len(v.recs))}
					}
				}
			case "append":
				if len(x.Args) >= 1 {
					l := ev.expr(x.Args[0])
					if l.k != mvList {
						return mval{}
					}
					out := append([]string{}, l.list...)
					for i, a := range x.Args[1:] {
						v := ev.expr(a)
						if x.Ellipsis.IsValid() && i == len(x.Args)-2 {
							if v.k != mvList {
								return mval{}
							}
							out = append(out, v.list...)
							continue
						}
						if v.k != mvStr {
							return mval{}
						}
						out = append(out, v.s)
					}
					return mList(out)
				}
			case "make":
				if len(x.Args) >= 1 {
					if t := ev.info.TypeOf(x.Args[0]); t != nil && t.String() == "[]string" {
						if len(x.Args) >= 2 {
							if n := ev.expr(x.Args[1]); n.k == mvInt && n.i > 0 {
								return mval{}
							}
						}
						return mval{k: mvList}
					}
				}
			}
			return mval{}
		}
	}
	if ev.oracle != nil {
		if v, ok := ev.oracle(ev, x); ok {
			return v
		}
	}
	fn := Callee(ev.info, x)
	if fn != nil && fn.Pkg() != nil && fn.Pkg().Path() == "strings" && len(x.Args) == 2 {
		a, b := ev.expr(x.Args[0]), ev.expr(x.Args[1])
		if a.k == mvStr && b.k == mvStr {
			switch fn.Name() {
			case "HasPrefix":
				return mBool(strings.HasPrefix(a.s, b.s))
			case "HasSuffix":
				return mBool(strings.HasSuffix(a.s, b.s))
			case "Contains":
				return mBool(strings.Contains(a.s, b.s))
			case "EqualFold":
				return mBool(strings.EqualFold(a.s, b.s))
			case "TrimPrefix":
				return mStr(strings.TrimPrefix(a.s, b.s))
			case "TrimSuffix":
				return mStr(strings.TrimSuffix(a.s, b.s))
			}
		}
	}
	if fn != nil && fn.Pkg() != nil && fn.Pkg().Path() == "slices" && len(x.Args) == 2 {
		switch fn.Name() {
		case "Contains":
			l, s := ev.expr(x.Args[0]), ev.expr(x.Args[1])
			if l.k == mvList && s.k == mvStr {
				for _, e := range l.list {
					if e == s.s {
						return mBool(true)
					}
				}
				return mBool(false)
			}
		case "ContainsFunc":
			l := ev.expr(x.Args[0])
			lit, isLit := x.Args[1].(*ast.FuncLit)
			if l.k == mvRecList && isLit && len(lit.Type.Params.List) == 1 && len(lit.Type.Params.List[0].Names) == 1 {
				po := ev.info.Defs[lit.Type.Params.List[0].Names[0]]
				for _, r := range l.recs {
					ev.env[po] = mval{k: mvRec, rec: r}
					ctl := ev.block(lit.Body.List)
					if ctl.kind != 'r' || ctl.ret.k != mvBool {
						ev.fail("closure of slices.ContainsFunc is not decidable")
						return mval{}
					}
					if ctl.ret.b {
						return mBool(true)
					}
				}
				return mBool(false)
			}
			if l.k == mvList && isLit && len(lit.Type.Params.List) == 1 && len(lit.Type.Params.List[0].Names) == 1 {
				po := ev.info.Defs[lit.Type.Params.List[0].Names[0]]
				for _, e := range l.list {
					ev.env[po] = mStr(e)
					ctl := ev.block(lit.Body.List)
					if ctl.kind != 'r' || ctl.ret.k != mvBool {
						ev.fail("closure of slices.ContainsFunc is not decidable")
						return mval{}
					}
					if ctl.ret.b {
						return mBool(true)
					}
				}
				return mBool(false)
			}
		}
	}
	// a function of the same package: run it on the values of its arguments
	if fn != nil && ev.prog != nil && ev.depth < 4 {
		if hf := ev.prog.FuncOf(fn); hf != nil && hf.Decl.Body != nil && hf.Decl.Recv == nil && hf.Pkg.TypesInfo == ev.info {
			saved := map[types.Object]mval{}
			var bound []types.Object
			i := 0
			for _, f := range hf.Decl.Type.Params.List {
				for _, nm := range f.Names {
					if i < len(x.Args) {
						o := ev.info.Defs[nm]
						saved[o] = ev.env[o]
						bound = append(bound, o)
						ev.env[o] = ev.expr(x.Args[i])
					}
					i++
				}
			}
			ev.depth++
			ctl := ev.block(hf.Decl.Body.List)
			ev.depth--
			for _, o := range bound {
				ev.env[o] = saved[o]
			}
			if ctl.kind == 'r' && ev.undec == "" {
				return ctl.ret
			}
			ev.fail("helper " + fn.Name() + " does not return a decidable value")
		}
	}
	return mval{}
}

func (ev *miniEval) cond(e ast.Expr) (bool, bool) {
	v := ev.expr(e)
	if v.k != mvBool {
		ev.fail("condition `" + exprStr(e) + "` is not decidable from the inputs")
		return false, false
	}
	return v.b, true
}

func (ev *miniEval) block(list []ast.Stmt) mctl {
	for _, st := range list {
		if ev.undec != "" {
			return mctl{}
		}
		ev.steps++
		if ev.steps > 20000 {
			ev.fail("evaluation does not terminate")
			return mctl{}
		}
		if ctl := ev.stmt(st, ""); ctl.kind != 0 {
			return ctl
		}
	}
	return mctl{}
}

func (ev *miniEval) assign(l ast.Expr, v mval) {
	if sel, ok := ast.Unparen(l).(*ast.SelectorExpr); ok {
		// a field of a record held in a variable (records are values: the variable gets a new record)
		if id, isID := ast.Unparen(sel.X).(*ast.Ident); isID {
			o := ev.info.Uses[id]
			if base, has := ev.env[o]; has && base.k == mvRec {
				nr := map[string]mval{}
				for k, f := range base.rec {
					nr[k] = f
				}
				nr[sel.Sel.Name] = v
				ev.env[o] = mval{k: mvRec, rec: nr}
				return
			}
		}
		ev.fail("store to `" + exprStr(l) + "` is not understood")
		return
	}
	if id, ok := ast.Unparen(l).(*ast.Ident); ok {
		if id.Name == "_" {
			return
		}
		o := ev.info.Defs[id]
		if o == nil {
			o = ev.info.Uses[id]
		}
		if o != nil {
			ev.env[o] = v
		}
	}
}

func (ev *miniEval) loopCtl(ctl mctl, label string) (stop bool, out mctl) {
	switch ctl.kind {
	case 'r':
		return true, ctl
	case 'b':
		if ctl.label == "" || ctl.label == label {
			return true, mctl{}
		}
		return true, ctl
	case 'c':
		if ctl.label != "" && ctl.label != label {
			return true, ctl
		}
	}
	return false, mctl{}
}

func (ev *miniEval) stmt(st ast.Stmt, label string) mctl {
	switch x := st.(type) {
	case *ast.EmptyStmt:
		return mctl{}
	case *ast.ExprStmt:
		// logging and the like: evaluated for nothing
		return mctl{}
	case *ast.BlockStmt:
		return ev.block(x.List)
	case *ast.DeclStmt:
		if gd, ok := x.Decl.(*ast.GenDecl); ok && gd.Tok == token.VAR {
			for _, sp := range gd.Specs {
				vs := sp.(*ast.ValueSpec)
				for i, nm := range vs.Names {
					o := ev.info.Defs[nm]
					if o == nil {
						continue
					}
					if i < len(vs.Values) {
						ev.env[o] = ev.expr(vs.Values[i])
						continue
					}
					switch t := o.Type().Underlying().(type) {
					case *types.Basic:
						switch {
						case t.Kind() == types.Bool:
							ev.env[o] = mBool(false)
						case t.Info()&types.IsInteger != 0:
							ev.env[o] = mval{k: mvInt}
						case t.Kind() == types.String:
							ev.env[o] = mStr("")
						}
					case *types.Slice:
						if o.Type().String() == "[]string" {
							ev.env[o] = mval{k: mvList}
						}
					case *types.Pointer:
						ev.env[o] = mval{k: mvNil}
					case *types.Struct:
						ev.env[o] = mval{k: mvRec, rec: map[string]mval{}}
					}
				}
			}
		}
		return mctl{}
	case *ast.AssignStmt:
		if len(x.Lhs) == len(x.Rhs) {
			vals := make([]mval, len(x.Rhs))
			for i, r := range x.Rhs {
				vals[i] = ev.expr(r)
			}
			for i, l := range x.Lhs {
				ev.assign(l, vals[i])
			}
		} else {
			for _, l := range x.Lhs {
				ev.assign(l, mval{})
			}
		}
		return mctl{}
	case *ast.IncDecStmt:
		if v := ev.expr(x.X); v.k == mvInt {
			d := int64(1)
			if x.Tok == token.DEC {
				d = -1
			}
			ev.assign(x.X, mval{k: mvInt, i: v.i + d})
		}
		return mctl{}
	case *ast.ReturnStmt:
		if ev.multi && len(x.Results) > 1 {
			// several results: a record with fields "0", "1", …; a result of type error is nil or "some error"
			rec := map[string]mval{}
			for i, r := range x.Results {
				var v mval
				if t := ev.info.TypeOf(r); isNilIdent(ev.info, r) {
					v = mval{k: mvNil}
				} else if _, isCall := ast.Unparen(r).(*ast.CallExpr); isCall && t != nil && types.Identical(t, types.Universe.Lookup("error").Type()) {
					v = mval{k: mvRec, rec: map[string]mval{}}
				} else {
					v = ev.expr(r)
				}
				if v.k == mvUnknown {
					ev.fail("returned value `" + exprStr(r) + "` is not decidable from the inputs")
				}
				rec[strconv.Itoa(i)] = v
			}
			return mctl{kind: 'r', ret: mval{k: mvRec, rec: rec}}
		}
		if len(x.Results) != 1 {
			ev.fail("return without a single result")
			return mctl{kind: 'r'}
		}
		v := ev.expr(x.Results[0])
		if v.k == mvUnknown {
			ev.fail("returned value `" + exprStr(x.Results[0]) + "` is not decidable from the inputs")
		}
		return mctl{kind: 'r', ret: v}
	case *ast.BranchStmt:
		lab := ""
		if x.Label != nil {
			lab = x.Label.Name
		}
		switch x.Tok {
		case token.BREAK:
			return mctl{kind: 'b', label: lab}
		case token.CONTINUE:
			return mctl{kind: 'c', label: lab}
		}
		ev.fail("goto / fallthrough")
		return mctl{}
	case *ast.LabeledStmt:
		return ev.stmt(x.Stmt, x.Label.Name)
	case *ast.IfStmt:
		if x.Init != nil {
			if ctl := ev.stmt(x.Init, ""); ctl.kind != 0 {
				return ctl
			}
		}
		b, ok := ev.cond(x.Cond)
		if !ok {
			return mctl{}
		}
		if b {
			return ev.block(x.Body.List)
		}
		if x.Else != nil {
			return ev.stmt(x.Else, "")
		}
		return mctl{}
	case *ast.SwitchStmt:
		if x.Init != nil {
			if ctl := ev.stmt(x.Init, ""); ctl.kind != 0 {
				return ctl
			}
		}
		var tag mval
		if x.Tag != nil {
			tag = ev.expr(x.Tag)
			if tag.k == mvUnknown {
				ev.fail("switch tag `" + exprStr(x.Tag) + "` is not decidable")
				return mctl{}
			}
		}
		var deflt, chosen *ast.CaseClause
		for _, cs := range x.Body.List {
			cc := cs.(*ast.CaseClause)
			if cc.List == nil {
				deflt = cc
				continue
			}
			for _, g := range cc.List {
				hit := false
				if x.Tag != nil {
					v := ev.expr(g)
					if v.k != tag.k {
						ev.fail("case `" + exprStr(g) + "` is not decidable")
						return mctl{}
					}
					hit = (v.k == mvStr && v.s == tag.s) || (v.k == mvInt && v.i == tag.i) || (v.k == mvBool && v.b == tag.b)
				} else {
					b, ok := ev.cond(g)
					if !ok {
						return mctl{}
					}
					hit = b
				}
				if hit {
					chosen = cc
					break
				}
			}
			if chosen != nil {
				break
			}
		}
		if chosen == nil {
			chosen = deflt
		}
		if chosen == nil {
			return mctl{}
		}
		ctl := ev.block(chosen.Body)
		if ctl.kind == 'b' && (ctl.label == "" || ctl.label == label) {
			return mctl{}
		}
		return ctl
	case *ast.RangeStmt:
		l := ev.expr(x.X)
		if l.k == mvRecList {
			for i, r := range l.recs {
				if x.Key != nil {
					ev.assign(x.Key, mval{k: mvInt, i: int64(i)})
				}
				if x.Value != nil {
					ev.assign(x.Value, mval{k: mvRec, rec: r})
				}
				if stop, out := ev.loopCtl(ev.block(x.Body.List), label); stop {
					return out
				}
				if ev.undec != "" {
					return mctl{}
				}
			}
			return mctl{}
		}
		if l.k != mvList {
			ev.fail("loop over `" + exprStr(x.X) + "`, whose elements are not known")
			return mctl{}
		}
		for i, e := range l.list {
			if x.Key != nil {
				ev.assign(x.Key, mval{k: mvInt, i: int64(i)})
			}
			if x.Value != nil {
				ev.assign(x.Value, mStr(e))
			}
			if stop, out := ev.loopCtl(ev.block(x.Body.List), label); stop {
				return out
			}
			if ev.undec != "" {
				return mctl{}
			}
		}
		return mctl{}
	case *ast.ForStmt:
		if x.Init != nil {
			ev.stmt(x.Init, "")
		}
		for iter := 0; iter < 100; iter++ {
			if x.Cond != nil {
				b, ok := ev.cond(x.Cond)
				if !ok || !b {
					return mctl{}
				}
			}
			if stop, out := ev.loopCtl(ev.block(x.Body.List), label); stop {
				return out
			}
			if x.Post != nil {
				ev.stmt(x.Post, "")
			}
			if ev.undec != "" {
				return mctl{}
			}
		}
		ev.fail("loop does not terminate within 100 iterations")
		return mctl{}
	}
	ev.fail(fmt.Sprintf("statement %T is not understood", st))
	return mctl{}
}

// pkgVarInit returns the initialiser expression of a package-level variable of
// the module declared as `var x = <expr>` (nil when it has none or is assigned
// anywhere: the table must be a constant of the program).
func (p *Prog) pkgVarInit(v *types.Var) ast.Expr {
	for _, pkg := range p.ModPkgs() {
		if pkg.Types != v.Pkg() {
			continue
		}
		var init ast.Expr
		for _, f := range pkg.Syntax {
			for _, d := range f.Decls {
				gd, ok := d.(*ast.GenDecl)
				if !ok || gd.Tok != token.VAR {
					continue
				}
				for _, sp := range gd.Specs {
					vs := sp.(*ast.ValueSpec)
					for i, nm := range vs.Names {
						if pkg.TypesInfo.Defs[nm] == types.Object(v) && i < len(vs.Values) {
							init = vs.Values[i]
						}
					}
				}
			}
		}
		if init == nil {
			return nil
		}
		written := false
		for _, p2 := range p.ModPkgs() {
			for _, f := range p2.Syntax {
				ast.Inspect(f, func(n ast.Node) bool {
					if as, ok := n.(*ast.AssignStmt); ok {
						for _, l := range as.Lhs {
							root := ast.Unparen(l)
							for {
								switch y := root.(type) {
								case *ast.IndexExpr:
									root = ast.Unparen(y.X)
									continue
								case *ast.SelectorExpr:
									if _, isPkg := p2.TypesInfo.Uses[identOf(y.X)].(*types.PkgName); isPkg {
										root = y.Sel
										continue
									}
								}
								break
							}
							if id, ok := root.(*ast.Ident); ok && p2.TypesInfo.Uses[id] == types.Object(v) {
								written = true
							}
						}
					}
					return true
				})
			}
		}
		if written {
			return nil
		}
		return init
	}
	return nil
}
